/-
  Orbiter.Prims — results (value / error / panic), and the text primitives the model shares with
  the line protocol: hexadecimal, decimal, byte strings.   Core Lean only.
-/
namespace Orbiter

/-- Outcome of a Go function on the modelled paths: a value, a returned `error` (with the name of
the guard that fired, used for diagnostics only), or a run-time panic at a named site. -/
inductive Res (α : Type) where
  | ok (a : α)
  | err (tag : String)
  | panic (site : String)
  deriving Repr, DecidableEq, Inhabited

namespace Res

@[inline] def bind {α β} (r : Res α) (f : α → Res β) : Res β :=
  match r with
  | .ok a => f a
  | .err t => .err t
  | .panic s => .panic s

instance : Monad Res where
  pure := Res.ok
  bind := Res.bind

def map {α β} (f : α → β) (r : Res α) : Res β :=
  match r with
  | .ok a => .ok (f a)
  | .err t => .err t
  | .panic s => .panic s

def isOk {α} : Res α → Bool | .ok _ => true | _ => false
def isErr {α} : Res α → Bool | .err _ => true | _ => false
def isPanic {α} : Res α → Bool | .panic _ => true | _ => false

/-- Re-tag an error (models `X.Wrap(err.Error())`: only the class matters to the model). -/
def mapErr {α} (r : Res α) (f : String → String) : Res α :=
  match r with
  | .err t => .err (f t)
  | x => x

@[simp] theorem bind_ok {α β} (a : α) (f : α → Res β) : (Res.ok a >>= f) = f a := rfl
@[simp] theorem bind_err {α β} (t : String) (f : α → Res β) : ((Res.err t : Res α) >>= f) = .err t := rfl
@[simp] theorem bind_panic {α β} (s : String) (f : α → Res β) : ((Res.panic s : Res α) >>= f) = .panic s := rfl
@[simp] theorem pure_eq {α} (a : α) : (pure a : Res α) = .ok a := rfl

instance : LawfulMonad Res := LawfulMonad.mk'
  (id_map := fun x => by cases x <;> rfl)
  (pure_bind := fun _ _ => rfl)
  (bind_assoc := fun x _ _ => by cases x <;> rfl)

theorem bind_eq_ok {α β} {r : Res α} {f : α → Res β} {b : β} :
    (r >>= f) = .ok b ↔ ∃ a, r = .ok a ∧ f a = .ok b := by
  cases r <;> simp [Bind.bind, Res.bind]

theorem bind_isPanic {α β} {r : Res α} {f : α → Res β} :
    (r >>= f).isPanic = true ↔ r.isPanic = true ∨ ∃ a, r = .ok a ∧ (f a).isPanic = true := by
  cases r <;> simp [Bind.bind, Res.bind, isPanic]

end Res

/-- Outcome of a function that cannot panic *by construction*: a value or a returned error. The leaf
decoders of the payload parser live in this monad, so "they never panic" is a fact about their type. -/
inductive Dec (α : Type) where
  | ok (a : α)
  | err (tag : String)
  deriving Repr, DecidableEq, Inhabited

namespace Dec

@[inline] def bind {α β} (r : Dec α) (f : α → Dec β) : Dec β :=
  match r with
  | .ok a => f a
  | .err t => .err t

instance : Monad Dec where
  pure := Dec.ok
  bind := Dec.bind

def map {α β} (f : α → β) (r : Dec α) : Dec β :=
  match r with
  | .ok a => .ok (f a)
  | .err t => .err t

instance : LawfulMonad Dec := LawfulMonad.mk'
  (id_map := fun x => by cases x <;> rfl)
  (pure_bind := fun _ _ => rfl)
  (bind_assoc := fun x _ _ => by cases x <;> rfl)

@[simp] theorem bind_ok {α β} (a : α) (f : α → Dec β) : (Dec.ok a >>= f) = f a := rfl
@[simp] theorem bind_err {α β} (t : String) (f : α → Dec β) : ((Dec.err t : Dec α) >>= f) = .err t := rfl
@[simp] theorem pure_eq {α} (a : α) : (pure a : Dec α) = .ok a := rfl

theorem bind_eq_ok {α β} {r : Dec α} {f : α → Dec β} {b : β} :
    (r >>= f) = .ok b ↔ ∃ a, r = .ok a ∧ f a = .ok b := by
  cases r <;> simp [Bind.bind, Dec.bind]

/-- Embedding into the three-outcome results. -/
def toRes {α} : Dec α → Res α
  | .ok a => .ok a
  | .err t => .err t

theorem toRes_ne_panic {α} (d : Dec α) (s : String) : d.toRes ≠ .panic s := by
  cases d <;> simp [toRes]

end Dec

/-- Run `f` on every element, stopping at the first non-ok result (a Go `for … { if err … return }`). -/
def Res.allM {α} (f : α → Res Unit) : List α → Res Unit
  | [] => .ok ()
  | a :: rest => f a >>= fun _ => Res.allM f rest

theorem Res.allM_ok {α} {f : α → Res Unit} {l : List α} (h : Res.allM f l = .ok ()) : ∀ a ∈ l, f a = .ok () := by
  induction l with
  | nil => intro a ha; cases ha
  | cons x xs ih =>
    simp only [Res.allM] at h
    cases hx : f x with
    | ok u =>
      rw [hx] at h
      intro a ha
      cases ha with
      | head => cases u; exact hx
      | tail _ hm => exact ih h a hm
    | err t => rw [hx] at h; cases h
    | panic s => rw [hx] at h; cases h

/-- `if c then err` guard. -/
@[inline] def guardErr (c : Bool) (tag : String) : Res Unit := if c then .err tag else .ok ()

abbrev Bytes := List UInt8

/-! ### hexadecimal (line protocol) -/

def hexDigit (n : Nat) : Char :=
  if n < 10 then Char.ofNat (48 + n) else Char.ofNat (87 + n)

def hexVal? (c : Char) : Option Nat :=
  if '0' ≤ c ∧ c ≤ '9' then some (c.toNat - 48)
  else if 'a' ≤ c ∧ c ≤ 'f' then some (c.toNat - 87)
  else if 'A' ≤ c ∧ c ≤ 'F' then some (c.toNat - 55)
  else none

def hexOfBytes (b : Bytes) : String :=
  if b.isEmpty then "-" else
  String.ofList (b.flatMap fun x => [hexDigit (x.toNat / 16), hexDigit (x.toNat % 16)])

def bytesOfHexChars : List Char → Option Bytes
  | [] => some []
  | [_] => none
  | a :: b :: rest => do
      let x ← hexVal? a
      let y ← hexVal? b
      let r ← bytesOfHexChars rest
      pure (UInt8.ofNat (x * 16 + y) :: r)

def bytesOfHex (s : String) : Option Bytes :=
  if s == "-" then some [] else bytesOfHexChars s.toList

def strBytes (s : String) : Bytes := s.toUTF8.data.toList

def hexOfString (s : String) : String := hexOfBytes (strBytes s)

def stringOfBytes? (b : Bytes) : Option String := String.fromUTF8? (ByteArray.mk b.toArray)

def stringOfHex (s : String) : Option String := do
  let b ← bytesOfHex s
  stringOfBytes? b

/-! ### decimal -/

def digitChar : Nat → Char
  | 0 => '0' | 1 => '1' | 2 => '2' | 3 => '3' | 4 => '4'
  | 5 => '5' | 6 => '6' | 7 => '7' | 8 => '8' | _ => '9'

/-- Decimal digits of `n`, most significant first (`toDigitsAux` with explicit fuel). -/
def natDigitsAux : Nat → Nat → List Char → List Char
  | 0, _, acc => acc
  | fuel + 1, n, acc =>
      if n < 10 then digitChar n :: acc
      else natDigitsAux fuel (n / 10) (digitChar (n % 10) :: acc)

def natDigits (n : Nat) : List Char := natDigitsAux (n + 1) n []

def natToDec (n : Nat) : String := String.ofList (natDigits n)

def intToDec (i : Int) : String :=
  match i with
  | .ofNat n => natToDec n
  | .negSucc n => "-" ++ natToDec (n + 1)

def isDigit (c : Char) : Bool := '0' ≤ c && c ≤ '9'

def digitVal (c : Char) : Nat := c.toNat - 48

/-- Length in bytes of the UTF-8 encoding (Go's `len(s)`). -/
def byteLen (s : String) : Nat := (s.toList.map Char.utf8Size).foldl (· + ·) 0

/-- Value of a list of decimal digit characters (no validation). -/
def decVal (cs : List Char) : Nat := cs.foldl (fun acc c => acc * 10 + digitVal c) 0

/-- Non-empty, all decimal digits. -/
def allDigits (cs : List Char) : Bool := !cs.isEmpty && cs.all isDigit

/-- `big.Int.SetString(s, 10)`: optional sign, at least one digit, nothing else. -/
def parseBigInt10 (s : String) : Option Int :=
  match s.toList with
  | '-' :: ds => if allDigits ds then some (- (Int.ofNat (decVal ds))) else none
  | '+' :: ds => if allDigits ds then some (Int.ofNat (decVal ds)) else none
  | ds => if allDigits ds then some (Int.ofNat (decVal ds)) else none

def pow2_256 : Nat := 2 ^ 256

/-- `bigIntOverflows`: bit length above 256. -/
def overflows256 (i : Int) : Bool := i.natAbs ≥ pow2_256

/-! #### `big.Int.UnmarshalText` (base 0) as reached through `math.Int.UnmarshalJSON` -/

def digitValBase (c : Char) : Nat :=
  if '0' ≤ c ∧ c ≤ '9' then c.toNat - 48
  else if 'a' ≤ c ∧ c ≤ 'z' then c.toNat - 87
  else if 'A' ≤ c ∧ c ≤ 'Z' then c.toNat - 55
  else 99

/-- Digits with `_` separators in base `b`; `prevDigit` says whether a `_` is legal next. Returns
the value and the number of digits; `none` on a foreign character or a misplaced separator. -/
def scanDigits0 (b : Nat) : List Char → Bool → Nat → Nat → Option (Nat × Nat)
  | [], prevDigit, acc, cnt => if prevDigit || cnt == 0 then some (acc, cnt) else none
  | c :: cs, prevDigit, acc, cnt =>
      if c == '_' then (if prevDigit then scanDigits0 b cs false acc cnt else none)
      else
        let d := digitValBase c
        if d < b then scanDigits0 b cs true (acc * b + d) (cnt + 1) else none

/-- Unsigned part of `SetString(s, 0)`. -/
def parseNat0 (cs : List Char) : Option Nat :=
  match cs with
  | '0' :: rest =>
    (match rest with
     | [] => some 0
     | c :: more =>
       if c == 'b' || c == 'B' then (match scanDigits0 2 more true 0 0 with | some (v, n) => if n > 0 then some v else none | none => none)
       else if c == 'o' || c == 'O' then (match scanDigits0 8 more true 0 0 with | some (v, n) => if n > 0 then some v else none | none => none)
       else if c == 'x' || c == 'X' then (match scanDigits0 16 more true 0 0 with | some (v, n) => if n > 0 then some v else none | none => none)
       else
         -- octal with the bare "0" prefix; the prefix counts as a preceding digit for separators
         (match scanDigits0 8 rest true 0 0 with | some (v, _) => some v | none => none))
  | _ => match scanDigits0 10 cs false 0 0 with
    | some (v, n) => if n > 0 then some v else none
    | none => none

def parseBigInt0 (s : String) : Option Int :=
  match s.toList with
  | '-' :: r => (parseNat0 r).map fun n => - Int.ofNat n
  | '+' :: r => (parseNat0 r).map Int.ofNat
  | r => (parseNat0 r).map Int.ofNat

/-- `math.NewIntFromString`: `big.Int.SetString(s, 0)` — the base is detected from the prefix — and a
256-bit range check. -/
def newIntFromString (s : String) : Option Int :=
  match parseBigInt0 s with
  | some i => if overflows256 i then none else some i
  | none => none

/-- Parse a plain natural number (protocol fields). -/
def parseNat (s : String) : Option Nat :=
  if allDigits s.toList then some (decVal s.toList) else none

def parseInt (s : String) : Option Int :=
  match s.toList with
  | '-' :: ds => if allDigits ds then some (- Int.ofNat (decVal ds)) else none
  | '+' :: ds => if allDigits ds then some (Int.ofNat (decVal ds)) else none
  | ds => if allDigits ds then some (Int.ofNat (decVal ds)) else none

/-! ### lists -/

def joinWith (sep : String) : List String → String
  | [] => ""
  | [x] => x
  | x :: xs => x ++ sep ++ joinWith sep xs

def listGetD {α} (l : List α) (i : Nat) (d : α) : α := (l[i]?).getD d

end Orbiter
