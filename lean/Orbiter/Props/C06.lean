/-
  C06 — Actions run in payload order on the running amount; the final coin is forwarded.
  All statements but the last hold for any wiring: any set of registered action and forwarding
  controllers, including ones that change the denomination.
-/
import Orbiter.Props.C05
namespace Orbiter.C06
open Orbiter

/-- Order: the first listed action runs first, on the incoming context and attributes; the rest run on
whatever it returned. -/
theorem c06_in_order (wr : Wiring) (φ : Faults) (o : OrbState) (a : Action) (rest : List Action) (c : Ctx) (t : TransferAttrs) :
    dispatchActions wr φ o (a :: rest) c t =
      executorHandle wr φ o c t a >>= fun r => dispatchActions wr φ o rest r.1 r.2 := by
  simp only [dispatchActions]

/-- …hence, at any position: the actions before a point run first, and what follows sees exactly the
context and the attributes (amount and denomination) they left. -/
theorem c06_append (wr : Wiring) (φ : Faults) (o : OrbState) (xs ys : List Action) (c : Ctx) (t : TransferAttrs) :
    dispatchActions wr φ o (xs ++ ys) c t =
      dispatchActions wr φ o xs c t >>= fun r => dispatchActions wr φ o ys r.1 r.2 := by
  induction xs generalizing c t with
  | nil => simp [dispatchActions]
  | cons x rest ih =>
    simp only [List.cons_append, dispatchActions]
    cases executorHandle wr φ o c t x with
    | ok r => obtain ⟨c1, t1⟩ := r; simp only [Res.bind_ok]; exact ih c1 t1
    | err e => rfl
    | panic e => rfl

/-- Each action's controller is called with exactly the running context and attributes, and its output is
what the run continues with. -/
theorem c06_controller_sees_running (wr : Wiring) (φ : Faults) (o : OrbState) (c : Ctx) (t : TransferAttrs) (a : Action)
    (r : Ctx × TransferAttrs) (h : executorHandle wr φ o c t a = .ok r) :
    ∃ ctl, wr.actions a.id = some ctl ∧ ctl φ c t a = .ok r := by
  unfold executorHandle at h
  obtain ⟨_, _, h⟩ := Res.bind_eq_ok.mp h
  simp only [Res.guard_bind_eq_ok] at h
  obtain ⟨_, h⟩ := h
  cases hr : wr.actions a.id with
  | none => simp [hr] at h
  | some ctl => exact ⟨ctl, rfl, by simpa [hr] using h⟩

/-- The forwarding step receives exactly the context and the attributes left by the last action. -/
theorem c06_forwarder_gets_final (wr : Wiring) (φ : Faults) (o o' : OrbState) (c c' : Ctx) (t t' : TransferAttrs) (p : Payload)
    (h : dispatchPayload wr φ o c t p = .ok (c', t', o')) :
    ∃ c1 f, dispatchActions wr φ o p.preActions c t = .ok (c1, t') ∧ p.forwarding = some f ∧
      forwarderHandle wr φ o c1 t' f = .ok c' := by
  obtain ⟨c1, f, _, h1, h2, h3, _⟩ := dispatchPayload_ok h
  exact ⟨c1, f, h1, h2, h3⟩

/-- …and it runs only if the module account holds exactly that amount of that denomination: the coin it
is about to send is the whole balance, nothing more and nothing less. -/
theorem c06_forward_exact_balance (wr : Wiring) (φ : Faults) (o : OrbState) (c c' : Ctx) (t : TransferAttrs) (f : Forwarding)
    (h : forwarderHandle wr φ o c t f = .ok c') : (c.bank.bal wr.cfg.orbAddr t.dstDenom : Int) = t.dstAmount := by
  unfold forwarderHandle at h
  obtain ⟨_, _, h⟩ := Res.bind_eq_ok.mp h
  cases ha : f.attrs with
  | none => simp [ha] at h
  | some a =>
    simp only [ha, Res.pure_eq, Res.bind_ok, Res.guard_bind_eq_ok] at h
    obtain ⟨_, _, _, hb, _⟩ := h
    simpa using hb

/-- The coin of a bridge request. -/
def reqCoin : Req → String × Int
  | .cctp _ amount _ _ tok _ => (tok, amount)
  | .warp _ _ _ _ amount _ _ _ _ _ => ("", amount)     -- the denomination is implied by the token id
  | .bankSend _ _ d amount => (d, amount)
  | .swap _ _ d amount => (d, amount)

/-- On the chain's wiring the bridge request carries exactly the amount (and, for CCTP and the internal
route, the denomination) left by the last action; for Hyperlane the token's collateral denomination must
equal it (`hypctl:denom-mismatch` otherwise). -/
theorem c06_sends_final_coin (cfg : Cfg) (π : OneofOrder) (φ : Faults) (o : OrbState) (c c' : Ctx) (t : TransferAttrs) (f : Forwarding)
    (h : forwarderHandle (appWiring cfg π) φ o c t f = .ok c') :
    ∃ r, c'.reqs = c.reqs ++ [r] ∧ (reqCoin r).2 = t.dstAmount ∧ (f.protocolId ≠ PROTOCOL_HYPERLANE → (reqCoin r).1 = t.dstDenom) := by
  obtain ⟨r, he, hr⟩ := C05.c05_request cfg π φ o c c' t f h
  refine ⟨r, hr, ?_⟩
  unfold C05.expectedReq at he
  split at he
  · split at he
    · cases he; exact ⟨rfl, fun _ => rfl⟩
    · cases he
  · split at he
    · rename_i hid; cases he; exact ⟨rfl, fun hn => absurd hid hn⟩
    · cases he
  · split at he
    · cases he; exact ⟨rfl, fun _ => rfl⟩
    · cases he
  · cases he

/-- A payload repeating an action identifier is refused — by the dispatcher, whatever the controllers. -/
theorem c06_duplicate_refused (wr : Wiring) (φ : Faults) (o : OrbState) (c : Ctx) (t : TransferAttrs) (p : Payload)
    (hd : hasDupIds (p.preActions.map (·.id)) = true) (r : Ctx × TransferAttrs × OrbState) :
    dispatchPayload wr φ o c t p ≠ .ok r := by
  intro h
  obtain ⟨c', t', o'⟩ := r
  obtain ⟨_, _, hv, _⟩ := dispatchPayload_ok h
  unfold Payload.validate at hv
  simp only [hd, ↓reduceIte, Res.bind_err] at hv
  cases hv

/-- …and already by the parser's validation of the decoded payload. -/
theorem c06_duplicate_refused_at_parse (p : RawPayload) (hn : p.preActions.any Option.isNone = false)
    (hd : hasDupIds ((p.preActions.filterMap id).map (·.id)) = true) : RawPayload.validate p = .err "payload:repeated-action" := by
  unfold RawPayload.validate
  simp [hn, hd]

/-! ### non-vacuity -/
example : hasDupIds [1, 2, 1] = true ∧ hasDupIds [1, 2] = false := by decide

end Orbiter.C06
