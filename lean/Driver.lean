/-
  Driver — the model side of the correspondence check: one operation per line on stdin, one
  canonical line per operation on stdout, in exactly the format of harness/cmd/impl.
  Core Lean only (built as a `lean_exe`).
-/
import Orbiter.Step
import Orbiter.Encode
open Orbiter

def hxS (s : String) : String := hexOfString s
def hxB (b : Bytes) : String := hexOfBytes b
def hexRaw (b : Bytes) : String :=
  String.ofList (b.flatMap fun x => [hexDigit (x.toNat / 16), hexDigit (x.toNat % 16)])

def unhxS (s : String) : Option String := stringOfHex s
def unhxB (s : String) : Option Bytes := bytesOfHex s

structure Swap where
  num : Nat := 1
  den : Nat := 1
  denom : String := "uother"
  pool : Addr := strBytes "swap-pool-account-01"

structure DState where
  cfg : Cfg
  w : World
  faults : List (String × Nat) := []
  swap : Swap := {}
  booted : Bool := false
  saved : Option World := none     -- drybegin … dryend: the world to come back to

def escrowSym (port chan : String) : Addr := strBytes ("escrow:" ++ port ++ "/" ++ chan)

def mkCfg : Cfg :=
  { hrp := Gen.bech32Prefix
    orbAddr := Gen.moduleAddress
    dustAddr := Gen.dustCollectorAddress
    authority := Gen.authority
    transferModule := Gen.transferModuleAddress
    cctpModule := Gen.cctpModuleAddress
    ftfModule := Gen.ftfModuleAddress
    warpModule := Gen.warpModuleAddress
    hypModule := Gen.hyperlaneModuleAddress
    escrow := escrowSym
    voucherDenom := fun path => "ibc:" ++ path }

def bigEscrow : Nat := 1000000000000000000000000000000

def initWorld : World :=
  let chans := ["channel-0", "channel-1"]
  let denoms := ["uusdc", "uother"]
  let bal : Addr → String → Nat := fun a d =>
    if chans.any (fun ch => a == escrowSym "transfer" ch) && denoms.contains d then bigEscrow else 0
  { orb := { params := some 0 }
    bank := { bal := bal, supply := fun d => if denoms.contains d then 2 * bigEscrow else 0 }
    ext := { blocked := fun a => Gen.blockedAddresses.contains a
             totalEscrow := fun d => if denoms.contains d then 2 * bigEscrow else 0
             cctpDomain := fun n => n == 0 || n == 1 || n == 5
             cctpBurnLimit := some 1000000000000000000000000 } }

def initState : DState := { cfg := mkCfg, w := initWorld }

/-! ### printing -/

def canonCC (p : Int) (cp : String) : String := intToDec p ++ "|" ++ hxS cp

def stateStr (o : OrbState) : String :=
  let g := exportGenesis o
  let cc (x : Option (Int × String)) : String := match x with | some (p, cp) => canonCC p cp | none => "nil"
  "pp=[" ++ joinWith "," (g.pausedProtocols.map intToDec) ++ "];pcc=[" ++ joinWith "," (g.pausedCrossChains.map cc)
    ++ "];pa=[" ++ joinWith "," (g.pausedActions.map intToDec) ++ "];params=" ++ natToDec g.params
    ++ ";amts=[" ++ joinWith "," (g.amounts.map fun (s, d, dn, i, o) => cc s ++ "|" ++ cc d ++ "|" ++ hxS dn ++ "|" ++ intToDec i ++ "|" ++ intToDec o)
    ++ "];cnts=[" ++ joinWith "," (g.counts.map fun (s, d, n) => cc s ++ "|" ++ cc d ++ "|" ++ natToDec n) ++ "]"

def addDelta (m : List (String × Int)) (k : String) (d : Int) : List (String × Int) :=
  if m.any (·.1 == k) then m.map fun e => if e.1 == k then (k, e.2 + d) else e else m ++ [(k, d)]

def strLt (a b : String) : Bool := a < b

def deltaStr (m : List (String × Int)) : String :=
  let nz := m.filter (·.2 != 0)
  let sorted := sortBy (fun (a b : String × Int) => strLt a.1 b.1) nz
  if sorted.isEmpty then "-" else
  joinWith "," (sorted.map fun e => e.1 ++ ":" ++ (if e.2 > 0 then "+" else "") ++ intToDec e.2)

def balKey (a : Addr) (d : String) : String := hexRaw a ++ "/" ++ hxS d

def balDelta (moves : List Move) : String :=
  deltaStr (moves.foldl (fun m mv => match mv with
    | .xfer s d dn a => addDelta (addDelta m (balKey s dn) (-(a : Int))) (balKey d dn) a
    | .burn s dn a => addDelta m (balKey s dn) (-(a : Int))
    | .mint d dn a => addDelta m (balKey d dn) a) [])

/-- The coin movements in order, as the bank module's events report them. -/
def movesStr (moves : List Move) : String :=
  let parts := moves.filterMap fun mv => match mv with
    | .xfer s d dn a => if a == 0 then none else some ("x:" ++ hexRaw s ++ ":" ++ hexRaw d ++ ":" ++ hxS dn ++ ":" ++ natToDec a)
    | .burn s dn a => if a == 0 then none else some ("b:" ++ hexRaw s ++ ":" ++ hxS dn ++ ":" ++ natToDec a)
    | .mint d dn a => if a == 0 then none else some ("m:" ++ hexRaw d ++ ":" ++ hxS dn ++ ":" ++ natToDec a)
  if parts.isEmpty then "-" else joinWith "," parts

def supDelta (moves : List Move) : String :=
  deltaStr (moves.foldl (fun m mv => match mv with
    | .xfer .. => m
    | .burn _ dn a => addDelta m (hxS dn) (-(a : Int))
    | .mint _ dn a => addDelta m (hxS dn) a) [])

def orbBech : String := Gen.moduleAddressBech32

/-- Bridge requests as the typed events of the real modules show them (`recv`). -/
def reqEvents (toks : List (Bytes × String)) (reqs : List Req) : String :=
  let parts := reqs.filterMap fun r => match r with
    | .cctp _ amt dom mint burn caller =>
      some ("cctp:" ++ natToDec dom ++ ":" ++ hxB mint ++ ":" ++ hxB (caller.getD []) ++ ":" ++ intToDec amt ++ ":" ++ hxS burn
            ++ ":" ++ hexRaw Gen.moduleAddress)
    | .warp _ tok dom rec_ amt _ _ _ _ _ =>
      -- the event carries sdk.NewCoins(coin).String(); the driver is told the origin denom through the token table
      -- the warp module's event names the token by its own identifier, whatever spelling of it the request used
      let tok := match toks.find? (internalId ·.1 == internalId tok) with | some (id, _) => id | none => tok
      some ("hyp:" ++ hexRaw tok ++ ":" ++ natToDec dom ++ ":" ++ hexRaw rec_ ++ ":" ++ intToDec amt)
    | _ => none
  if parts.isEmpty then "-" else joinWith ";" parts

/-- Bridge requests as the recording decorators print them (`recvh`). -/
def reqRecorded (reqs : List Req) : String :=
  let parts := reqs.map fun r => match r with
    | .cctp _ amt dom mint burn caller =>
      (match caller with
       | none => "cctp.DepositForBurn:from=" ++ hxS orbBech ++ ":amount=" ++ intToDec amt ++ ":domain=" ++ natToDec dom
                  ++ ":mint=" ++ hxB mint ++ ":burn=" ++ hxS burn
       | some c => "cctp.DepositForBurnWithCaller:from=" ++ hxS orbBech ++ ":amount=" ++ intToDec amt ++ ":domain=" ++ natToDec dom
                  ++ ":mint=" ++ hxB mint ++ ":burn=" ++ hxS burn ++ ":caller=" ++ hxB c)
    | .warp _ tok dom rec_ amt hook gas fd fa hm =>
      "warp.RemoteTransfer:sender=" ++ hxS orbBech ++ ":token=" ++ hexRaw tok ++ ":domain=" ++ natToDec dom ++ ":recipient=" ++ hexRaw rec_
        ++ ":amount=" ++ intToDec amt ++ ":hook=" ++ (match hook with | some h => hexRaw h | none => "nil") ++ ":gas=" ++ intToDec gas
        ++ ":feedenom=" ++ hxS fd ++ ":feeamt=" ++ intToDec fa ++ ":meta=" ++ hxS hm
    | .bankSend _ to dn amt => "bank.Send:from=" ++ hxS orbBech ++ ":to=" ++ hxS to ++ ":coins=" ++ hxS dn ++ "=" ++ intToDec amt
    | .swap i ia o oa => "swap:in=" ++ hxS i ++ ":" ++ intToDec ia ++ ":out=" ++ hxS o ++ ":" ++ intToDec oa
  if parts.isEmpty then "-" else joinWith ";" parts

def listOrDash (l : List String) : String := if l.isEmpty then "-" else joinWith "," l

def ackStr (a : Ack) : String × String × String :=
  match a with
  | .success => ("ok", "-", "-")
  | .appError t => ("err", "app", t)
  | .orbError t => ("err", "orb", t)
  | .panic s => ("panic", "-", s)

/-! ### the scripted swap controller of the harness (ACTION_SWAP) -/

def swapController (cfg : Cfg) (sw : Swap) : ActionCtl := fun φ c t _ => do
  let c ← c.call φ "swap.HandlePacket"
  let out : Int := t.dstAmount * sw.num / sw.den
  let c := { c with reqs := c.reqs ++ [Req.swap t.dstDenom t.dstAmount sw.denom out] }
  if out ≤ 0 then (.err "swap:not-positive" : Res Unit) else pure ()
  let c ← c.send cfg.orbAddr sw.pool t.dstDenom t.dstAmount.toNat "swap:in"
  let c ← c.send sw.pool cfg.orbAddr sw.denom out.toNat "swap:out"
  pure (c, { t with dstDenom := sw.denom, dstAmount := out })

def harnessWiring (cfg : Cfg) (sw : Swap) : Wiring :=
  { cfg := cfg
    actions := fun id => if id == ACTION_SWAP then some (swapController cfg sw) else appActionRouter cfg id
    forwardings := appForwardingRouter cfg }

/-! ### parsing of protocol lines -/

def mkPacket (f : List String) : Option Packet := do
  let sp ← unhxS (f.getD 0 ""); let sc ← unhxS (f.getD 1 ""); let dp ← unhxS (f.getD 2 ""); let dc ← unhxS (f.getD 3 "")
  let data ← unhxB (f.getD 4 "")
  pure { srcPort := sp, srcChan := sc, dstPort := dp, dstChan := dc, data := data }

def pageOf (f : List String) : Option PageReq :=
  match f with
  | [] => some {}
  | ["nopage"] => some {}
  | [k, off, lim, ct, rev] => do
    let key ← unhxB k; let o ← parseNat off; let l ← parseNat lim
    pure { key := key, offset := o, limit := l, countTotal := ct == "1", reverse := rev == "1" }
  | _ => none

def canonAmt (a : AmtEntry) : String :=
  canonCC a.src.1 a.src.2 ++ "|" ++ canonCC a.dst.1 a.dst.2 ++ "|" ++ hxS a.denom ++ "|" ++ intToDec a.incoming ++ "|" ++ intToDec a.outgoing
def canonCnt (c : CntEntry) : String :=
  canonCC c.src.1 c.src.2 ++ "|" ++ canonCC c.dst.1 c.dst.2 ++ "|" ++ natToDec c.count

def queryOutStr (o : QueryOut) : String :=
  match o with
  | .bool b => "res=ok out=" ++ (if b then "true" else "false")
  | .ints l => "res=ok out=[" ++ joinWith "," (l.map intToDec) ++ "]"
  | .strs l next total => "res=ok out=[" ++ joinWith "," (l.map hxS) ++ "] next=" ++ hxB next ++ " total=" ++ natToDec total
  | .nat n => "res=ok out=" ++ natToDec n
  | .amts l p => "res=ok out=[" ++ joinWith "," (l.map canonAmt) ++ "]" ++
      (match p with | some (n, t) => " next=" ++ hxB n ++ " total=" ++ natToDec t | none => "")
  | .cnts l p => "res=ok out=[" ++ joinWith "," (l.map canonCnt) ++ "]" ++
      (match p with | some (n, t) => " next=" ++ hxB n ++ " total=" ++ natToDec t | none => "")

def parseQuery (f : List String) : Option Query :=
  match f with
  | ["IsProtocolPaused", p] => do pure (.isProtocolPaused (← unhxS p))
  | ["PausedProtocols"] => some .pausedProtocols
  | ["IsCrossChainPaused", p, c] => do pure (.isCrossChainPaused (← unhxS p) (← unhxS c))
  | "PausedCrossChains" :: p :: pg => do pure (.pausedCrossChains (← unhxS p) (← pageOf pg))
  | ["IsActionPaused", a] => do pure (.isActionPaused (← unhxS a))
  | ["PausedActions"] => some .pausedActions
  | ["Params"] => some .params
  | ["DispatchedCounts", a, b, c, d] => do pure (.dispatchedCounts (← unhxS a) (← unhxS b) (← unhxS c) (← unhxS d))
  | "DispatchedCountsBySrc" :: p :: pg => do pure (.dispatchedCountsBySrc (← unhxS p) (← pageOf pg))
  | "DispatchedCountsByDst" :: p :: pg => do pure (.dispatchedCountsByDst (← unhxS p) (← pageOf pg))
  | ["DispatchedAmounts", a, b, c, d, e] => do pure (.dispatchedAmounts (← unhxS a) (← unhxS b) (← unhxS c) (← unhxS d) (← unhxS e))
  | "DispatchedAmountsBySrc" :: p :: pg => do pure (.dispatchedAmountsBySrc (← unhxS p) (← pageOf pg))
  | "DispatchedAmountsByDst" :: p :: pg => do pure (.dispatchedAmountsByDst (← unhxS p) (← pageOf pg))
  | _ => none

def parseMsg (f : List String) : Option Msg :=
  match f with
  | ["PauseProtocol", s, p] => do pure (.pauseProtocol (← unhxS s) (← unhxS p))
  | ["UnpauseProtocol", s, p] => do pure (.unpauseProtocol (← unhxS s) (← unhxS p))
  | "PauseCrossChains" :: s :: p :: ids => do pure (.pauseCrossChains (← unhxS s) (← unhxS p) (← ids.mapM unhxS))
  | "UnpauseCrossChains" :: s :: p :: ids => do pure (.unpauseCrossChains (← unhxS s) (← unhxS p) (← ids.mapM unhxS))
  | ["ReplaceDepositForBurn", s, a, b, c, d] => do pure (.replaceDepositForBurn (← unhxS s) (← unhxB a) (← unhxB b) (← unhxB c) (← unhxB d))
  | ["PauseAction", s, a] => do pure (.pauseAction (← unhxS s) (← unhxS a))
  | ["UnpauseAction", s, a] => do pure (.unpauseAction (← unhxS s) (← unhxS a))
  | ["UpdateParams", s, n] => do pure (.updateParams (← unhxS s) (← parseNat n))
  | _ => none

/-! ### canonical genesis text (the same form `stateStr` prints) -/

def splitList (x : String) : List String :=
  let inner := ((x.drop 1).toString.dropEnd 1).toString
  if inner == "" then [] else inner.splitOn ","

def parseCC (p cp : String) : Option (Int × String) := do pure (← parseInt p, ← unhxS cp)

/-- `nil=a,b` / `omit=a,b` entries name component sections the document leaves nil; the rest is the body. -/
def splitGenesisDoc (c : String) : String × List String :=
  let parts := c.splitOn ";"
  let isNil (kv : String) : Bool := kv.startsWith "nil=" || kv.startsWith "omit="
  let nils := (parts.filter isNil).flatMap fun kv => match kv.splitOn "=" with | [_, v] => (v.splitOn ",").filter (· != "") | _ => []
  (joinWith ";" (parts.filter fun kv => !isNil kv), nils)

def parseGenesis (c : String) : Option Genesis :=
  (c.splitOn ";").foldlM (fun (g : Genesis) kv =>
    match kv.splitOn "=" with
    | [k, v] =>
      if k == "pp" then do pure { g with pausedProtocols := ← (splitList v).mapM parseInt }
      else if k == "pa" then do pure { g with pausedActions := ← (splitList v).mapM parseInt }
      else if k == "params" then do pure { g with params := ← parseNat v }
      else if k == "pcc" then do
        let l ← (splitList v).mapM fun x => if x == "nil" then some none else
          match x.splitOn "|" with | [p, cp] => (parseCC p cp).map some | _ => none
        pure { g with pausedCrossChains := l }
      else if k == "amts" then do
        let l ← (splitList v).mapM fun x => match x.splitOn "|" with
          | [a, b, c, d, e, i, o] => do
            pure (some (← parseCC a b), some (← parseCC c d), ← unhxS e, ← parseInt i, ← parseInt o)
          | _ => none
        pure { g with amounts := l }
      else if k == "cnts" then do
        let l ← (splitList v).mapM fun x => match x.splitOn "|" with
          | [a, b, c, d, n] => do pure (some (← parseCC a b), some (← parseCC c d), ← parseNat n)
          | _ => none
        pure { g with counts := l }
      else none
    | _ => none) {}

/-! ### pure operations -/

def canonAttr : Option Attrs → String
  | none => "nil"
  | some (.cctp d m c) => "cctp(" ++ natToDec d ++ "," ++ hxB m ++ "," ++ hxB c ++ ")"
  | some (.hyp t d r h hm g fd fa) => "hyp(" ++ hxB t ++ "," ++ natToDec d ++ "," ++ hxB r ++ "," ++ hxB h ++ "," ++ hxS hm ++ ","
      ++ intToDec g ++ "," ++ hxS fd ++ "," ++ intToDec fa ++ ")"
  | some (.internal r) => "int(" ++ hxS r ++ ")"
  | some (.fee infos) => "fee([" ++ joinWith "," (infos.map fun f => hxS f.recipient ++ ":" ++
      (match f.feeType with | .unset => "nil" | .bps v => "b:" ++ natToDec v | .amount s => "a:" ++ hxS s)) ++ "])"

def canonPayload (p : Payload) : String :=
  (match p.forwarding with
   | none => "fwd{nil}"
   | some f => "fwd{pid=" ++ intToDec f.protocolId ++ ";attr=" ++ canonAttr f.attrs ++ ";pt=" ++ hxB f.passthrough ++ "}")
  ++ ";acts[" ++ joinWith "," (p.preActions.map fun a => "{id=" ++ intToDec a.id ++ ";attr=" ++ canonAttr a.attrs ++ "}") ++ "]"

def buildInfos : Nat → List String → Option (List (Option FeeInfo) × List String)
  | 0, rest => some ([], rest)
  | k + 1, r :: kind :: v :: rest => do
    let rec_ ← unhxS r
    let val ← unhxS v
    let fi : Option FeeInfo ←
      if kind == "b" then (parseNat val).map fun n => some { recipient := rec_, feeType := .bps n }
      else if kind == "a" then some (some { recipient := rec_, feeType := .amount val })
      else if kind == "n" then some (some { recipient := rec_, feeType := .unset })
      else if kind == "N" then some none
      else none
    let (more, rest) ← buildInfos k rest
    pure (fi :: more, rest)
  | _, _ => none

def pureOp (f : List String) : String :=
  let hrp := Gen.bech32Prefix
  match f with
  | ["feeamt", a, b] =>
    (match parseInt a, parseNat b with
     | some amt, some bps => (match computeFeeAmount amt bps with | .ok n => "ok:" ++ intToDec n | .err _ => "err" | .panic _ => "panic")
     | _, _ => "bad-op")
  | "fees" :: a :: d :: k :: rest =>
    (match parseInt a, unhxS d, parseNat k with
     | some amt, some denom, some n =>
       (match buildInfos n rest with
        | none => "bad-op"
        | some (infos, _) =>
          if infos.any Option.isNone then (if infos.length > Gen.maxFeeRecipients then "err:validate" else
              -- a nil element is refused by FeeInfo.Validate when the loop reaches it (earlier entries first)
              "err:validate")
          else
          let infos := infos.filterMap id
          match validateFeeAttrs hrp infos with
          | .err _ => "err:validate"
          | .panic _ => "panic"
          | .ok _ =>
            match computeFees hrp amt denom infos { values := [], total := 0 } with
            | .err _ => "err:compute"
            | .panic _ => "panic"
            | .ok fees =>
              if fees.total ≥ amt then "err:total"
              else "ok:total=" ++ intToDec fees.total ++ ";" ++ joinWith "," (fees.values.map fun v => hxB v.1 ++ "=" ++ intToDec v.2))
     | _, _, _ => "bad-op")
  | ["cpid", p, id] =>
    (match parseInt p, unhxS id with
     | some p, some id => if validateCounterpartyID id p then "ok" else "err"
     | _, _ => "bad-op")
  | ["ccid", p, id] =>
    (match parseInt p, unhxS id with
     | some p, some id => if crossChainValid p id then "ok:" ++ hxS (ccidString p id) else "err"
     | _, _ => "bad-op")
  | ["parseccid", s] =>
    (match unhxS s with
     | some s => (match parseCrossChainID s with | some (p, cp) => "ok:" ++ intToDec p ++ ":" ++ hxS cp | none => "err")
     | none => "bad-op")
  | ["pidstr", s] => (match unhxS s with | some s => (match protocolIdFromString s with | some n => "ok:" ++ intToDec n | none => "err") | none => "bad-op")
  | ["aidstr", s] => (match unhxS s with | some s => (match actionIdFromString s with | some n => "ok:" ++ intToDec n | none => "err") | none => "bad-op")
  | ["pidval", n] => (match parseInt n with | some n => if protocolValid n then "ok" else "err" | none => "bad-op")
  | ["aidval", n] => (match parseInt n with | some n => if actionValid n then "ok" else "err" | none => "bad-op")
  | ["denom", d, p, c] =>
    (match unhxS d, unhxS p, unhxS c with
     | some d, some p, some c => (match recoverNativeDenom d p c with | .ok x => "ok:" ++ hxS x | _ => "err")
     | _, _, _ => "bad-op")
  | ["parse", m] =>
    (match unhxB m with
     | some memo =>
       (match parsePayload .bpsLast memo with
        | .ok p => "ok:" ++ canonPayload p
        | .err t => (if t.startsWith "parse:" then "err:p" else "err:v") ++ " #" ++ t
        | .panic _ => "panic")
     | none => "bad-op")
  | ["parsel", m] =>
    -- the same memo through the parser a node keeps for its whole life: parsing is a function of the memo
    (match unhxB m with
     | some memo =>
       (match parsePayload .bpsLast memo with
        | .ok p => "ok:" ++ canonPayload p
        | .err t => (if t.startsWith "parse:" then "err:p" else "err:v") ++ " #" ++ t
        | .panic _ => "panic")
     | none => "bad-op")
  | ["parse2", m] =>
    -- the same memo under the other oneof order (C15/C19: must agree)
    (match unhxB m with
     | some memo =>
       (match parsePayload .amountLast memo with
        | .ok p => "ok:" ++ canonPayload p
        | .err t => (if t.startsWith "parse:" then "err:p" else "err:v") ++ " #" ++ t
        | .panic _ => "panic")
     | none => "bad-op")
  | "marshal" :: spec :: n :: rest =>
    -- constructor-built payload -> MarshalJSON bytes
    let orb := Gen.moduleAddress
    let fwd : Option (Res Forwarding) :=
      match spec.splitOn ":" with
      | ["cctp", d, m, c, pt] =>
        (match parseNat d, unhxB m, unhxB c, unhxB pt with
         | some d, some m, some c, some pt => if d < 2 ^ 32 then some (newAttrsForwarding hrp orb PROTOCOL_CCTP (.cctp d m c) pt) else some (.err "spec")
         | _, _, _, _ => none)
      | ["hyp", t, d, r, h, hm, g, fd, fa, pt] =>
        (match unhxB t, parseNat d, unhxB r, unhxB h, unhxS hm, unhxS fd, unhxB pt with
         | some t, some d, some r, some h, some hm, some fd, some pt =>
           (match newIntFromString g, newIntFromString fa with
            | some g, some fa => if d < 2 ^ 32 then some (newAttrsForwarding hrp orb PROTOCOL_HYPERLANE (.hyp t d r h hm g fd fa) pt) else some (.err "spec")
            | _, _ => some (.err "spec"))
         | _, _, _, _, _, _, _ => none)
      | ["int", r] => (match unhxS r with | some r => some (newAttrsForwarding hrp orb PROTOCOL_INTERNAL (.internal r) []) | none => none)
      | _ => none
    let rec acts (k : Nat) (rest : List String) : Option (Res (List Action)) :=
      match k, rest with
      | 0, _ => some (.ok [])
      | k + 1, "fee" :: m :: more =>
        (match parseNat m with
         | none => none
         | some m =>
           match buildInfos m more with
           | none => none
           | some (infos, rest') =>
             if infos.any Option.isNone then some (.err "act") else
             let built := Res.allM (fun (f : FeeInfo) => (newFeeInfo hrp f.recipient f.feeType).map fun _ => ()) (infos.filterMap id)
             match acts k rest' with
             | none => none
             | some tl => some (built >>= fun _ => newFeeAction hrp (infos.filterMap id) >>= fun a => tl.map fun l => a :: l))
      | _, _ => none
    (match fwd, parseNat n with
     | some (.ok f), some k =>
       (match acts k rest with
        | none => "bad-op"
        | some (.ok al) =>
          (match newPayload f al with
           | .ok p => "ok:" ++ hxB (marshalPayload false p)
           | _ => "err:payload")
        | some _ => "err:act")
     | some _, some _ => "err:fwd"
     | _, _ => "bad-op")
  | ["bech32", s] => (match unhxS s with | some s => (match accAddressFromBech32 hrp s with | some b => "ok:" ++ hxB b | none => "err") | none => "bad-op")
  | ["ics20", d] =>
    (match unhxB d with
     | some data => (match decFTPD data with
        | some x => "ok:" ++ joinWith ":" [hxS x.denom, hxS x.amount, hxS x.sender, hxS x.receiver, hxS x.memo]
        | none => "err")
     | none => "bad-op")
  | ["bigint", s] => (match unhxS s with | some s => (match newIntFromString s with | some i => "ok:" ++ intToDec i | none => "err") | none => "bad-op")
  | ["chanid", s] => (match unhxS s with | some s => if isValidChannelID s then "ok" else "err" | none => "bad-op")
  | ["validdenom", s] => (match unhxS s with | some s => if validDenom s then "ok" else "err" | none => "bad-op")
  | ["attr", "cctp", d, m, c] =>
    (match parseNat d, unhxB m, unhxB c with
     | some d, some m, some c =>
       let a := Attrs.cctp d m c
       (if (a.validate hrp Gen.moduleAddress).isOk then "ok" else "err") ++ ":" ++ hxS a.counterpartyID
     | _, _, _ => "bad-op")
  | ["attr", "hyp", t, d, r, h, hm] =>
    (match unhxB t, parseNat d, unhxB r, unhxB h, unhxS hm with
     | some t, some d, some r, some h, some hm =>
       let a := Attrs.hyp t d r h hm 0 "" 0
       (if (a.validate hrp Gen.moduleAddress).isOk then "ok" else "err") ++ ":" ++ hxS a.counterpartyID
     | _, _, _, _, _ => "bad-op")
  | ["attr", "int", r] =>
    (match unhxS r with
     | some r =>
       let a := Attrs.internal r
       (if (a.validate hrp Gen.moduleAddress).isOk then "ok" else "err") ++ ":" ++ hxS a.counterpartyID
     | none => "bad-op")
  | ["stats", sd, sa, dd, da] =>
    (match unhxS sd, parseInt sa, unhxS dd, parseInt da with
     | some sd, some sa, some dd, some da =>
       (match newTransferAttrs PROTOCOL_IBC "channel-0" sd sa with
        | .ok t =>
          let t := { t with dstDenom := dd }.setDstAmount da
          "ok:" ++ joinWith "," ((buildDispatched t).map fun e => hxS e.1 ++ ":" ++ intToDec e.2.1 ++ "/" ++ intToDec e.2.2)
        | _ => "err")
     | _, _, _, _ => "bad-op")
  | _ => "bad-op"

/-! ### stateful operations -/

def faultsOf (l : List (String × Nat)) : Faults := fun site k => l.any fun e => e.1 == site && (e.2 == k || e.2 == 0)

def recvLine (st : DState) (f : List String) (harness : Bool) : String × DState :=
  match mkPacket f with
  | none => ("bad-op", st)
  | some pkt =>
    let wr := if harness then harnessWiring st.cfg st.swap else appWiring st.cfg
    let φ := if harness then faultsOf st.faults else noFaults
    let out := ibcRecv wr φ st.w pkt
    let (a, src, tag) := ackStr out.ack
    let ok := out.ack.isSuccess
    let common := "ack=" ++ a ++ " src=" ++ src ++ " bal=" ++ balDelta out.ctx.moves ++ " sup=" ++ supDelta out.ctx.moves
    let line :=
      if harness then
        common ++ " hreq=" ++ (if ok then reqRecorded out.ctx.reqs else "-") ++ " calls=" ++ (if ok then listOrDash (out.ctx.calls.map (·.1)) else "-")
          ++ " ev=" ++ (if ok then listOrDash out.ctx.events else "-") ++ " st=" ++ stateStr out.orb ++ " tag=" ++ tag
      else
        common ++ " req=" ++ (if ok then reqEvents out.ctx.ext.hypTokens out.ctx.reqs else "-") ++ " ev=" ++ (if ok then listOrDash out.ctx.events else "-")
          ++ " mv=" ++ (if ok then movesStr out.ctx.moves else "-") ++ " st=" ++ stateStr out.orb ++ " tag=" ++ tag
    (line, { st with w := out.world, faults := if harness then [] else st.faults })

def isOrbiterPacket (st : DState) (pkt : Packet) : Bool :=
  match decFTPD pkt.data with
  | none => false
  | some d => match accAddressFromBech32 st.cfg.hrp d.receiver with
    | some r => r == st.cfg.orbAddr
    | none => false

def handle (st : DState) (line : String) : String × DState :=
  let f := (line.splitOn " ").filter (· != "")
  match f with
  | [] => ("bad-op", st)
  | "pure" :: rest => (pureOp rest, st)
  | "setup" :: _ => ("ok", { initState with booted := true })
  | "recv" :: rest => recvLine st rest false
  | "recvh" :: rest => recvLine st rest true
  | ["fault", "clear"] => ("ok", { st with faults := [] })
  | ["fault", site, k] => (match parseNat k with | some k => ("ok", { st with faults := st.faults ++ [(site, k)] }) | none => ("bad-op", st))
  | ["swapctl", n, d, dn] =>
    (match parseNat n, parseNat d, unhxS dn with
     | some n, some d, some dn => if d == 0 then ("bad-op", st) else ("ok", { st with swap := { st.swap with num := n, den := d, denom := dn } })
     | _, _, _ => ("bad-op", st))
  | "withoutmw" :: rest =>
    (match mkPacket rest with
     | some pkt =>
       -- the model's side of C07: classification, and (when not addressed to the orbiter) equality of the two stacks
       let orb := isOrbiterPacket st pkt
       let a := stackOnRecv (appWiring st.cfg) noFaults st.w.orb (ctxOf st.w) pkt
       let b := bareOnRecv (appWiring st.cfg) st.w.orb (ctxOf st.w) pkt
       let (ca, _, _) := ackStr a.ack
       let (cb, _, _) := ackStr b.ack
       ("orb=" ++ (if orb then "true" else "false") ++ " ackmw=" ++ ca ++ " ackbare=" ++ cb, st)
     | none => ("bad-op", st))
  | "withoutmwc" :: rest =>
    (match mkPacket rest with
     | some pkt =>
       -- component level: the middleware directly around ICS-20 against ICS-20 alone
       let orb := isOrbiterPacket st pkt
       let a := mwOnRecv (appWiring st.cfg) noFaults st.w.orb (ctxOf st.w) pkt
       let (ca, _, _) := ackStr a.ack
       let cb := match ics20Recv st.cfg (ctxOf st.w) pkt with | .ok _ => "ok" | .err _ => "err" | .panic _ => "panic"
       ("orb=" ++ (if orb then "true" else "false") ++ " ackmw=" ++ ca ++ " ackbare=" ++ cb, st)
     | none => ("bad-op", st))
  | "cmpstacks" :: _ => ("same=true diff=-", st)
  | "cb" :: _ => ("same=true", st)
  | ["deposit", a, d, n] =>
    (match unhxB a, unhxS d, parseNat n with
     | some a, some d, some n => if n == 0 then ("bad-op", st) else ("ok", { st with w := (step (appWiring st.cfg) noFaults st.w (.deposit a d n)).2 })
     | _, _, _ => ("bad-op", st))
  | "msg" :: rest =>
    (match parseMsg rest with
     | none => ("bad-op", st)
     | some m =>
       match msgStep st.cfg noFaults st.w.orb m with
       | .ok (o, evs, _) => ("res=ok ev=" ++ listOrDash evs ++ " st=" ++ stateStr o, { st with w := { st.w with orb := o } })
       | .err t =>
         -- whose refusal it is: the module's own (registered under its codespace) or the bridge module's, handed through
         let ecs := if t.startsWith "cctp:" then "cctp" else if t == "msg:no-cctp-controller" then "undefined" else "orbiter"
         ("res=err ev=- st=" ++ stateStr st.w.orb ++ " ecs=" ++ ecs ++ " tag=" ++ t, st)
       | .panic s => ("res=panic ev=- st=" ++ stateStr st.w.orb ++ " tag=" ++ s, st))
  | ["escrowfund", ch, d, n] =>
    -- coins of a further native denomination escrowed on a channel, with ICS-20's total-escrow bookkeeping
    (match unhxS ch, unhxS d, parseNat n with
     | some ch, some d, some n =>
       if n == 0 then ("bad-op", st) else
       let w := st.w
       let bank := w.bank.mint (escrowSym "transfer" ch) d n
       let ext := { w.ext with totalEscrow := fun x => if x = d then w.ext.totalEscrow d + n else w.ext.totalEscrow x }
       ("ok", { st with w := { w with bank := bank, ext := ext } })
     | _, _, _ => ("bad-op", st))
  | ["drybegin"] => if st.saved.isSome then ("bad-op", st) else ("ok", { st with saved := some st.w })
  | ["dryend"] => (match st.saved with | some w => ("ok", { st with w := w, saved := none }) | none => ("bad-op", st))
  | "msgdry" :: rest =>
    -- the message executed on a branch that is then discarded: the result is observed, the state is not kept
    (match parseMsg rest with
     | none => ("bad-op", st)
     | some m =>
       match msgStep st.cfg noFaults st.w.orb m with
       | .ok _ => ("res=ok st=" ++ stateStr st.w.orb, st)
       | .err t => ("res=err st=" ++ stateStr st.w.orb ++ " tag=" ++ t, st)
       | .panic s => ("res=panic st=" ++ stateStr st.w.orb ++ " tag=" ++ s, st))
  | "acth" :: a :: d :: aid :: k :: rest =>
    (match parseInt a, unhxS d, parseInt aid, parseNat k with
     | some amt, some denom, some aid, some n =>
       (match buildInfos n rest with
        | none => ("bad-op", st)
        | some (infos, _) =>
          match newTransferAttrs PROTOCOL_IBC "channel-0" denom amt with
          | .ok t =>
            if infos.any Option.isNone then ("res=err dst=" ++ hxS t.dstDenom ++ ":" ++ intToDec t.dstAmount ++ " bal=-", st) else
            let w1 := { st.w with bank := st.w.bank.mint st.cfg.orbAddr denom amt.toNat }
            let act : Action := { id := aid, attrs := some (.fee (infos.filterMap id)) }
            (match executorHandle (harnessWiring st.cfg st.swap) noFaults w1.orb (ctxOf w1) t act with
             | .ok (c, t') => ("res=ok dst=" ++ hxS t'.dstDenom ++ ":" ++ intToDec t'.dstAmount ++ " bal=" ++ balDelta c.moves, st)
             | .err e => ("res=err dst=" ++ hxS t.dstDenom ++ ":" ++ intToDec t.dstAmount ++ " bal=- tag=" ++ e, st)
             | .panic e => ("res=panic dst=- bal=- tag=" ++ e, st))
          | _ => ("res=err:attrs dst=- bal=-", st))
     | _, _, _, _ => ("bad-op", st))
  | ["dispatchh", a, d, m] =>
    -- Dispatcher.DispatchPayload at component level: the payload as the codec alone decodes it
    (match parseInt a, unhxS d, unhxB m with
     | some amt, some denom, some memo =>
       let stS := " st=" ++ stateStr st.w.orb
       (match parseJsonWhole memo with
        | none => ("res=err:decode hreq=- bal=-" ++ stS, st)
        | some j =>
          match decWrapper .bpsLast j with
          | .err _ => ("res=err:decode hreq=- bal=-" ++ stS, st)
          | .panic _ => ("res=panic hreq=- bal=-" ++ stS, st)
          | .ok raw =>
            match newTransferAttrs PROTOCOL_IBC "channel-0" denom amt with
            | .ok t =>
              let w1 := { st.w with bank := st.w.bank.mint st.cfg.orbAddr denom amt.toNat }
              let wr := harnessWiring st.cfg st.swap
              (match raw.validate >>= fun p => dispatchPayload wr noFaults w1.orb (ctxOf w1) t p with
               | .ok (c, _, o') =>
                 let w2 : World := { w1 with bank := c.bank, ext := c.ext, orb := o' }
                 ("res=ok hreq=" ++ reqRecorded c.reqs ++ " bal=" ++ balDelta c.moves ++ " st=" ++ stateStr o', { st with w := w2 })
               | .err e => ("res=err hreq=- bal=-" ++ stS ++ " tag=" ++ e, st)
               | .panic e => ("res=panic hreq=- bal=-" ++ stS ++ " tag=" ++ e, st))
            | _ => ("res=err:attrs hreq=- bal=-" ++ stS, st))
     | _, _, _ => ("bad-op", st))
  | "msgh" :: rest =>
    (match parseMsg rest with
     | none => ("bad-op", st)
     | some m =>
       let hreq := match m with
         | .replaceDepositForBurn s a b c d =>
           if s == st.cfg.authority && Gen.forwardingRoutes.contains PROTOCOL_CCTP then
             "cctp.ReplaceDepositForBurn:from=" ++ hxS orbBech ++ ":msg=" ++ hxB a ++ ":att=" ++ hxB b ++ ":caller=" ++ hxB c ++ ":mint=" ++ hxB d
           else "-"
         | _ => "-"
       match msgStep st.cfg noFaults st.w.orb m with
       | .ok (o, _, _) => ("res=ok hreq=" ++ hreq ++ " st=" ++ stateStr o, { st with w := { st.w with orb := o } })
       | .err t => ("res=err hreq=" ++ hreq ++ " st=" ++ stateStr st.w.orb ++ " tag=" ++ t, st)
       | .panic s => ("res=panic hreq=" ++ hreq ++ " st=" ++ stateStr st.w.orb ++ " tag=" ++ s, st))
  | "query" :: rest =>
    (match parseQuery rest with
     | none =>
       (match rest with
        | ["ActionIDs"] => ("res=ok out=[" ++ joinWith "," ((Gen.actionIds.filter (·.1 != 0)).map fun e => intToDec e.1 ++ ":" ++ e.2) ++ "]", st)
        | ["ProtocolIDs"] => ("res=ok out=[" ++ joinWith "," ((Gen.protocolIds.filter (·.1 != 0)).map fun e => intToDec e.1 ++ ":" ++ e.2) ++ "]", st)
        | ["Balance", a, d] => (match unhxB a, unhxS d with
            | some a, some d => ("res=ok out=" ++ natToDec (st.w.bank.bal a d), st)
            | _, _ => ("bad-op", st))
        | _ => ("bad-op", st))
     | some q => (match queryStep st.w.orb q with
        | .ok o => (queryOutStr o, st)
        | .err t => ("res=err tag=" ++ t, st)
        | .panic t => ("res=panic tag=" ++ t, st)))
  | ["export"] => ("st=" ++ stateStr st.w.orb, st)
  | ["reimport"] =>
    let (obs, o) := reimportStep st.w.orb
    (match obs with
     | .reimport v i s => ("valid=" ++ (if v then "ok" else "err") ++ " init=" ++ (if i then "ok" else "panic") ++ " same=" ++ (if s then "true" else "false")
          ++ " st=" ++ stateStr o, { st with w := { st.w with orb := o } })
     | _ => ("bad-op", st))
  | ["genvalidate", g] =>
    (match parseGenesis (splitGenesisDoc g).1 with
     | some b =>
       let d : GenesisDoc := { body := b, nilSections := (splitGenesisDoc g).2 }
       (match validateGenesisDoc d with | .ok _ => "res=ok" | .err t => "res=err tag=" ++ t | .panic t => "res=panic tag=" ++ t, st)
     | none => ("bad-op", st))
  | ["geninit", g] =>
    (match parseGenesis (splitGenesisDoc g).1 with
     | some b =>
       let d : GenesisDoc := { body := b, nilSections := (splitGenesisDoc g).2 }
       (match initGenesisDoc d with | .ok o => "res=ok st=" ++ stateStr o | .err t => "res=err tag=" ++ t | .panic t => "res=panic tag=" ++ t, st)
     | none => ("bad-op", st))
  | ["genload", g] =>
    (match parseGenesis g with
     | some g =>
       (match validateGenesis g with
        | .ok _ => (match initGenesis g with
            | .ok o => ("res=ok st=" ++ stateStr o, { st with w := { st.w with orb := o } })
            | .err _ => ("res=err", st)
            | .panic _ => ("res=panic", st))
        | _ => ("res=err", st))
     | none => ("bad-op", st))
  | "env" :: rest =>
    let upd (e : EnvOp) : String × DState := ("ok", { st with w := { st.w with ext := envStep st.w.ext e } })
    (match rest with
     | ["ftfpause", b] => upd (.ftfPause (b == "1"))
     | ["blacklist", a, b] => (match unhxB a with | some a => upd (.blacklist a (b == "1")) | none => ("bad-op", st))
     | ["cctppause", which, b] => upd (.cctpPause (which == "burn") (b == "1"))
     | ["burnlimit", n] => (match parseNat n with | some n => upd (.burnLimit n) | none => ("bad-op", st))
     | ["recvenabled", b] => upd (.recvEnabled (b == "1"))
     | ["sendenabled", d, b] => (match unhxS d with | some d => upd (.sendEnabled d (b == "1")) | none => ("bad-op", st))
     | ["meta", _, _, _, _, _, _] => ("ok", st)   -- relayer, sequence, timeout, block height and time: no part in anything modelled
     | ["role", _, a] => (match unhxS a with | some _ => ("ok", st) | none => ("bad-op", st))  -- roles of other modules: no part in anything modelled
     | ["hyp", "setup", _] => ("ok", st)
     | ["hyp", "token", t, d] => (match unhxB t, unhxS d with | some t, some d => upd (.hypToken t d) | _, _ => ("bad-op", st))
     | ["hyp", "enroll", t, dom, gas] => (match unhxB t, parseNat dom, parseNat gas with
         | some t, some dom, some gas => upd (.hypEnroll t dom gas) | _, _, _ => ("bad-op", st))
     | ["hyp", "unroll", t, dom] => (match unhxB t, parseNat dom with | some t, some dom => upd (.hypUnroll t dom) | _, _ => ("bad-op", st))
     | ["hyp", "igp", d, dom, rate, price, over] => (match unhxS d, parseNat dom, parseNat rate, parseNat price, parseNat over with
         | some d, some dom, some r, some p, some o => upd (.hypHook (.igp d dom r p o)) | _, _, _, _, _ => ("bad-op", st))
     | ["hyp", "noop"] => upd (.hypHook .noop)
     | _ => ("bad-op", st))
  | _ => ("bad-op", st)

partial def loop (h : IO.FS.Stream) (out : IO.FS.Stream) (st : DState) : IO Unit := do
  let line ← h.getLine
  if line.isEmpty then return ()
  let l := (line.dropEndWhile fun c => c == '\n' || c == '\r').toString
  if l.isEmpty || l.startsWith "#" then loop h out st
  else
    let (o, st') := handle st l
    out.putStrLn o
    out.flush
    loop h out st'

def main : IO Unit := do
  let stdin ← IO.getStdin
  let stdout ← IO.getStdout
  loop stdin stdout initState
