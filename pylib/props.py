"""Per-property checks: streams (operation lines), projection, oracle."""
import scen
from checklib import Stream
from gen import Rng
from proto import hx, kv, unhx

PROPS = {}


def prop(cls):
    PROPS[cls.id] = cls
    return cls


class Base:
    level = "proof"
    assumptions = []
    explanation = ""

    @property
    def lean_files(self):
        return ["Props/%s.lean" % self.id]

    @property
    def theorem_prefixes(self):
        return ["Orbiter.%s." % self.id]

    def divergence_is_failure(self, f):
        """Is a model/implementation divergence at this property's projection a concrete failing input?"""
        return True

    def n(self, tier, quick, thorough):
        return thorough if tier == "thorough" else quick


def pure_oracle_no_panic(steps):
    return [(s.i, "panic: pure function panicked on " + s.line[:120]) for s in steps if s.op == "pure" and s.impl_raw.startswith("panic")]


@prop
class C04(Base):
    id = "C04"
    assumptions = ["amounts are math.Int values (|x| < 2^256); the bank sends of the fee action follow the bank contract of DESIGN.md §3.6"]

    def streams(self, tier, seed):
        r = Rng(seed * 1000 + 4)
        k = self.n(tier, 1, 10)
        lines = scen.fee_grid(r.fork(1), 300 * k) + scen.fee_lists(r.fork(2), 400 * k)
        return [Stream("S1-fee-arithmetic", lines, fields={"pure": ["_"]}, oracle=c04_oracle),
                Stream("S3-fee-action-end-to-end", c04_e2e_lines(r.fork(3), 150 * k), fields={"recv": ["ack", "bal", "mv"]}, oracle=c04_e2e_oracle),
                Stream("S2-fee-controller-component", c04_comp_lines(r.fork(4), 300 * k), fields={"acth": ["res", "dst", "bal"]}, oracle=c04_comp_oracle)]


def c04_expected(line):
    """Independent re-computation of the fee rule from the property statement."""
    import bech32 as _b
    f = line.split(" ")
    if f[1] == "feeamt":
        a, b = int(f[2]), int(f[3])
        if a * b >= 2 ** 256:
            return "err"
        return "ok:%d" % (a * b // 10000)
    if f[1] != "fees":
        return None
    A = int(f[2])
    n = int(f[4])
    rest = f[5:]
    credits = []
    total = 0
    if n > 5:
        return "err:validate"
    entries = []
    for i in range(n):
        rec, kind, val = unhx(rest[3 * i]).decode(), rest[3 * i + 1], unhx(rest[3 * i + 2]).decode()
        entries.append((rec, kind, val))
    import proto
    for rec, kind, val in entries:
        if kind in ("n", "N"):
            return "err:validate"
        if kind == "b":
            v = int(val)
            if v == 0 or v > 10000:
                return "err:validate"
        else:
            iv = parse_go_int(val)
            if iv is None or iv <= 0 or abs(iv) >= 2 ** 256:
                return "err:validate"
        if decode_addr(rec) is None:
            return "err:validate"
    for rec, kind, val in entries:
        if kind == "b":
            if A * int(val) >= 2 ** 256:
                return "err:compute"
            amt = A * int(val) // 10000
        else:
            amt = parse_go_int(val)
        if amt > 0:
            total += amt
            if total >= 2 ** 256:
                return "err:compute"
            credits.append((decode_addr(rec), amt))
    if total >= A:
        return "err:total"
    return "ok:total=%d;%s" % (total, ",".join("%s=%d" % (a.hex() if a else "-", m) for a, m in credits))


def parse_go_int(s):
    """big.Int.SetString(s, 0)"""
    import re
    m = re.fullmatch(r"([+-]?)(0[xX][0-9a-fA-F]+(?:_[0-9a-fA-F]+)*|0[bB][01]+(?:_[01]+)*|0[oO][0-7]+(?:_[0-7]+)*|0(?:_?[0-7]+)*|[1-9][0-9]*(?:_[0-9]+)*|0)", s)
    if not m:
        # Go also accepts "0x_1" style separators after the prefix
        m2 = re.fullmatch(r"([+-]?)(0[xX](?:_?[0-9a-fA-F]+)+|0[bB](?:_?[01]+)+|0[oO](?:_?[0-7]+)+)", s)
        if not m2:
            return None
        m = m2
    sign, body = m.group(1), m.group(2).replace("_", "")
    try:
        if body[:2].lower() == "0x":
            v = int(body[2:], 16)
        elif body[:2].lower() == "0b":
            v = int(body[2:], 2)
        elif body[:2].lower() == "0o":
            v = int(body[2:], 8)
        elif len(body) > 1 and body[0] == "0":
            v = int(body[1:], 8)
        else:
            v = int(body, 10)
    except ValueError:
        return None
    return -v if sign == "-" else v


def decode_addr(s):
    """sdk.AccAddressFromBech32 with prefix noble (independent python implementation)."""
    import bech32 as _b
    if s.strip() == "" or len(s) < 8 or len(s) > 1023:
        return None
    if any(ord(c) < 33 or ord(c) > 126 for c in s):
        return None
    if s.lower() != s and s.upper() != s:
        return None
    s = s.lower()
    pos = s.rfind("1")
    if pos < 1 or pos + 7 > len(s):
        return None
    hrp, data = s[:pos], s[pos + 1:]
    try:
        vals = [_b.CHARSET.index(c) for c in data]
    except ValueError:
        return None
    if _b.polymod(_b.hrp_expand(hrp) + vals) != 1:
        return None
    dec = _b.convertbits(vals[:-6], 5, 8, False)
    if dec is None or hrp != "noble" or len(dec) == 0 or len(dec) > 255:
        return None
    return bytes(dec)


def c04_oracle(steps):
    out = []
    for s in steps:
        if s.op != "pure":
            continue
        if s.impl_raw.startswith("panic"):
            out.append((s.i, "panic: fee computation panicked instead of refusing: " + s.line[:160]))
            continue
        exp = c04_expected(s.line)
        if exp is not None and exp != s.impl_raw:
            out.append((s.i, "fee-rule: expected %s got %s" % (exp[:160], s.impl_raw[:160])))
    return out


def c04_e2e_lines(r, n):
    """the real fee action against the real bank: boundary totals, both types, repeated recipients, bad entries"""
    import scen as _s
    from gen import U
    from proto import orb_pkt, int_fwd, fee_action
    lines, toks = _s.base_setup(with_hyp=False)
    good, other = U[0], U[1]
    dest = U[5]

    def act(entries):
        infos = []
        for rec, kind, val in entries:
            infos.append({"recipient": rec, "basis_points": {"value": val}} if kind == "b" else {"recipient": rec, "amount": {"value": str(val)}})
        return {"id": "ACTION_FEE", "attributes": {"@type": _s.FEE_URL, "fees_info": infos}}
    cases = []
    for A in (1, 2, 100, 9999, 10000, 10001, 10 ** 6, 2 ** 64 + 1):
        for k in (-1, 0, 1):
            t = A + k
            if t > 0:
                cases.append((A, [(good, "a", t)]))
                if t > 1:
                    cases.append((A, [(good, "a", t - 1), (other, "a", 1)]))
        cases += [(A, [(good, "b", 10000)]), (A, [(good, "b", 9999), (good, "b", 1)]), (A, [(good, "b", 5000), (other, "b", 5000)]), (A, [(good, "b", 9999)]),
                  (A, [(good, "b", 1)] * 5), (A, [(good, "b", 1)] * 6), (A, []), (A, [(good, "b", 3333), (good, "b", 3333), (good, "a", 1)]),
                  (A, [(good, "b", 2500), (other, "a", A // 4 or 1), (good, "b", 2500)])]
    for bad in [(good, "b", 0), (good, "b", 10001), (good, "a", 0), (good, "a", "-1"), (good, "a", "x"), ("", "b", 1), ("", "a", 1), ("noble1xyz", "a", 1),
                (good.upper(), "a", 1), ("cosmos1qyqszqgpqyqszqgpqyqszqgpqyqszqgpjnp7du", "a", 1), (good, "a", str(2 ** 256))]:
        cases.append((10 ** 6, [bad]))
        cases.append((10 ** 6, [(other, "b", 100), bad]))
        cases.append((10 ** 6, [bad, (other, "b", 100)]))
        cases.append((10 ** 6, [(other, "b", 100), bad, (good, "a", 5)]))
        cases.append((10 ** 6, [(bad[0], "b", 100), bad]))
    # basis points are a 32-bit number in the payload: every value above the maximum is refused, whatever its low 8 or 16 bits
    # would be worth on their own (65536+100, 2^16·k+1, 256+…, the top of the range)
    for v in (255, 256, 257, 10000 + 256, 65535, 65536, 65537, 65536 + 100, 65536 + 10000, 65536 + 10001, 131073, 2 * 65536 + 5000, 2 ** 24 + 1, 2 ** 31, 2 ** 31 + 100,
              2 ** 32 - 1, 2 ** 32 - 65536 + 100):
        cases.append((10 ** 6, [(good, "b", v)]))
        cases.append((10 ** 6, [(other, "b", 100), (good, "b", v)]))
    for _ in range(n):
        A = r.choice([1, 7, 100, 10 ** 4, 10 ** 6, 10 ** 9, 10 ** 18]) if r.chance(1, 2) else r.range(1, 10 ** 12)
        es = []
        for _ in range(r.range(0, 6)):
            rec = r.choice(U[:4])
            if r.chance(1, 2):
                es.append((rec, "b", r.choice([1, 10, 100, 2500, 5000, 9999, 10000]) if r.chance(1, 2) else r.range(1, 10000)))
            else:
                es.append((rec, "a", r.choice([1, A // 2 or 1, A, A - 1 or 1, A + 1]) if r.chance(1, 2) else r.range(1, max(1, A))))
        cases.append((A, es))
    # any valid address is a recipient: module accounts (blocked for ordinary sends or not), the orbiter's own, the dust collector
    import hashlib
    from proto import b32 as _b32
    for name in ["orbiter/dust_collector", "bonded_tokens_pool", "not_bonded_tokens_pool", "fee_collector", "transfer", "cctp", "fiat-tokenfactory", "warp",
                 "hyperlane", "gov", "distribution", "mint", "orbiter", "upgrade", "authority"]:
        m = _b32(hashlib.sha256(name.encode()).digest()[:20])
        cases.append((10 ** 6, [(m, "b", 100)]))
        cases.append((10 ** 6, [(good, "a", 5), (m, "a", 7)]))
    for A, es in cases:
        lines.append(orb_pkt("recv", A, int_fwd(dest), [act(es)], denom=r.choice(["uusdc", "uother"])))
    # an entry with both fee types, a null entry, under every spelling of every key on the way to it (proto name, lowerCamelCase,
    # escapes): refused, nothing paid
    for m in _s._camel_combo_memos():
        lines.append(pkt_line("recv", ftpd("transfer/channel-7/uusdc", 100000, ORB, m)))
    # a computation that fails half way (overflow of the running total after valid entries) leaves nothing behind for the next ones
    for _ in range(3):
        lines.append(orb_pkt("recv", 10 ** 6, int_fwd(dest), [act([(U[6], "a", 50), (U[7], "b", 100), (good, "a", 2 ** 256 - 1)])]))
        lines.append(orb_pkt("recv", 1000, int_fwd(dest), [act([(other, "b", 100)])]))
        lines.append(orb_pkt("recv", 1000, int_fwd(dest), [act([(good, "a", 10)])]))
    return lines


def c04_comp_lines(r, n):
    """the fee action through the executor directly (component level): what HandlePacket itself returns"""
    lines = ["setup -"]
    for l in scen.fee_lists(r, n):
        f = l.split(" ")
        # pure fees <amount> <denom> <k> … -> acth <amount> <denom> 1 <k> …
        if int(f[2]) > 0 and int(f[2]) < 2 ** 255:
            lines.append("acth %s %s 1 %s" % (f[2], f[3], " ".join(f[4:])))
    return lines


def c04_comp_oracle(steps):
    out = []
    for s in steps:
        if s.op != "acth":
            continue
        f = s.line.split(" ")
        exp = c04_expected("pure fees %s %s %s" % (f[1], f[2], " ".join(f[4:])))
        if exp is None:
            continue
        res = s.impl.get("res")
        if res == "panic":
            out.append((s.i, "panic: fee action panicked"))
        elif exp.startswith("err"):
            if res == "ok":
                out.append((s.i, "fee-not-refused: the rule refuses (%s) but the fee action succeeded, leaving %s" % (exp, s.impl.get("dst"))))
        elif res == "ok":
            total = int(exp.split(";")[0].split("=")[1])
            left = int(s.impl.get("dst", "-:0").split(":")[1])
            if left != int(f[1]) - total:
                out.append((s.i, "fee-forwarded: amount left %d, A minus fees is %d" % (left, int(f[1]) - total)))
            want = {}
            for e in exp.split(";")[1].split(","):
                if e:
                    a, v = e.split("=")
                    want[a] = want.get(a, 0) + int(v)
            delta = parse_delta(s.impl.get("bal"))
            dn = unhx(f[2]).decode()
            for a, v in want.items():
                if delta.get((a, dn), 0) != v and a != ORBHEX:
                    out.append((s.i, "fee-amount: recipient %s credited %d, the rule gives %d" % (a[:8], delta.get((a, dn), 0), v)))
    return out


def c04_e2e_oracle(steps):
    out = []
    for s in steps:
        if s.op != "recv":
            continue
        p = packet_of(s.line)
        if not p["payload"] or not receiver_is_orbiter(p):
            continue
        A = parse_go_int(p["ftpd"]["amount"])
        dn = p["ftpd"]["denom"][len(p["src_port"] + "/" + p["src_chan"] + "/"):]
        acts = p["payload"].get("pre_actions") or []
        if len(acts) != 1:
            continue
        if not isinstance(acts[0], dict) or not isinstance(acts[0].get("attributes"), dict):
            continue
        infos = acts[0]["attributes"].get("fees_info") or []
        refuse = None
        credits = {}
        total = 0
        if len(infos) > 5:
            refuse = "more than five entries"
        if not isinstance(acts[0].get("attributes"), dict) or not isinstance(infos, list):
            continue
        for fi in infos:
            if refuse:
                break
            if not isinstance(fi, dict):
                refuse = "an entry that is not a fee entry (null)"
                break
            if "basis_points" in fi and "amount" in fi:
                refuse = "an entry with both fee types"
                break
            if "basis_points" not in fi and "amount" not in fi:
                refuse = "an entry without a fee type"
                break
            if "basis_points" in fi:
                v = (fi["basis_points"] or {}).get("value", 0) if isinstance(fi["basis_points"], (dict, type(None))) else None
                if not isinstance(v, int) or isinstance(v, bool):
                    refuse = None
                    infos = None
                    break
                if v == 0 or v > 10000:
                    refuse = "bps out of range"
            else:
                iv = parse_go_int(fi["amount"]["value"])
                if iv is None or iv <= 0 or iv >= 2 ** 256:
                    refuse = "fixed amount not a positive integer"
            if decode_addr(fi.get("recipient", "")) is None:
                refuse = refuse or "invalid recipient"
        if infos is None:
            continue    # a spelling this oracle does not interpret (quoted numbers …): left to the model comparison
        if not refuse:
            for fi in infos:
                if "basis_points" in fi:
                    amt = A * fi["basis_points"]["value"] // 10000
                else:
                    amt = parse_go_int(fi["amount"]["value"])
                if amt > 0:
                    total += amt
                    a = decode_addr(fi["recipient"]).hex()
                    credits[a] = credits.get(a, 0) + amt
            if total >= A:
                refuse = "total fee %d not strictly below the amount %d" % (total, A)
        ack = s.impl.get("ack")
        if refuse:
            if ack == "ok":
                out.append((s.i, "fee-not-refused: %s, but the transfer succeeded" % refuse))
            elif s.impl.get("bal") != "-":
                out.append((s.i, "fee-paid-on-refusal: refused (%s) but balances changed" % refuse))
            continue
        if ack != "ok":
            continue   # other reasons may refuse the transfer (none expected here; the model comparison covers it)
        delta = parse_delta(s.impl.get("bal"))
        dest = decode_addr(p["payload"]["forwarding"]["attributes"]["recipient"]).hex()
        for a, v in credits.items():
            got = delta.get((a, dn), 0) - ((A - total) if a == dest else 0)
            if got != v:
                out.append((s.i, "fee-amount: recipient %s credited %d %s, the rule gives %d (A=%d)" % (a[:8], got, dn, v, A)))
        fwd = delta.get((dest, dn), 0) - credits.get(dest, 0)
        if fwd != A - total:
            out.append((s.i, "fee-forwarded: forwarded %d, A minus fees is %d" % (fwd, A - total)))
    return out


@prop
class C20(Base):
    id = "C20"
    assumptions = ["strconv / fmt decimal formatting of uint32 and int32 values is the usual decimal notation (tied by stream S1)"]

    def streams(self, tier, seed):
        r = Rng(seed * 1000 + 20)
        k = self.n(tier, 1, 10)
        lines = scen.id_grid(r.fork(1), 400 * k)
        # the identifier the attributes produce for a domain (the one transfers are matched and recorded under)
        doms = [0, 1, 5, 9, 10, 2 ** 31 - 1, 2 ** 31, 3 * 10 ** 9, 2 ** 32 - 1] + [r.range(0, 2 ** 32) for _ in range(40 * k)]
        for d in doms:
            lines.append("pure attr cctp %d %s %s" % (d, hx(b"\x00" * 12 + b"\x07" * 20), "-"))
            lines.append("pure attr hyp %s %d %s - -" % (hx(b"\x01" * 32), d, hx(b"\x09" * 32)))
        lines2, toks = scen.base_setup()
        lines2.append("deposit %s %s %d" % (hx(POOL), hx("uother"), 10 ** 30))
        lines2 += pause_targeted(toks)
        # a warp token with a single route: the identifier a transfer is matched and recorded under is the one its payload carries, and a
        # payload that names no domain (or domain 0) reaches no destination
        t3 = toks[0][0][:-8] + (2).to_bytes(8, "big")
        lines2 += ["env hyp setup " + hx("uusdc"), "env hyp token %s %s" % (hx(t3), hx("uusdc")), "env hyp enroll %s 7 0" % hx(t3),
                   msg_line("PauseCrossChains", AUTHORITY, hx("PROTOCOL_HYPERLANE"), hx("7"))]
        for dom in (7, 0, None):
            fw = hyp_fwd(t3, domain=dom if dom is not None else 0)
            if dom is None:
                del fw["attributes"]["destination_domain"]
            lines2.append(orb_pkt("recv", 10 ** 6, fw, None))
        lines2.append(msg_line("UnpauseCrossChains", AUTHORITY, hx("PROTOCOL_HYPERLANE"), hx("7")))
        for dom in (7, 0, None):
            fw = hyp_fwd(t3, domain=dom if dom is not None else 0)
            if dom is None:
                del fw["attributes"]["destination_domain"]
            lines2.append(orb_pkt("recv", 10 ** 6, fw, None))
        # one spelling per destination in messages too: every other spelling of a valid identifier — leading zeros, signs, blanks, the
        # textual form of a pair ("3:7"), another protocol's form — is refused wherever it stands in a batch (first, middle, last),
        # for pausing and for unpausing, and never changes what is paused
        goods = {"PROTOCOL_CCTP": ("7", "8"), "PROTOCOL_HYPERLANE": ("7", "8"), "PROTOCOL_INTERNAL": ("noble", "x"), "PROTOCOL_IBC": ("channel-7", "channel-8")}
        pnum = {"PROTOCOL_IBC": 1, "PROTOCOL_CCTP": 2, "PROTOCOL_HYPERLANE": 3, "PROTOCOL_INTERNAL": 4}
        for p_, (g1, g2) in goods.items():
            bads = ["007", "+7", "7 ", " 7", "", "7\x00", "%d:%s" % (pnum[p_], g1), "%d:%s" % (pnum[p_], g2), "0:" + g1, "x" * 33]
            if p_ in ("PROTOCOL_INTERNAL",):
                bads = ["", "x" * 33, "noble\x00"]
                oddok = ["4:noble", "3:7", "a:b"]        # free-form counterparties: valid, and distinct from the ones they resemble
            elif p_ == "PROTOCOL_IBC":
                bads = ["channel-007", "channel-+7", "channel-7 ", "", "1:channel-7", "Channel-7", "channel-"]
                oddok = []
            else:
                oddok = []
            lines2.append(msg_line("PauseCrossChains", AUTHORITY, hx(p_), hx(g1)))
            for b_ in bads:
                for batch in ([b_, g2], [g2, b_], [g2, b_, "9" if p_ != "PROTOCOL_IBC" else "channel-9"], [b_]):
                    lines2.append(msg_line("PauseCrossChains", AUTHORITY, hx(p_), *[hx(x) for x in batch]))
                for batch in ([b_, g1], [g1, b_], [b_]):
                    lines2.append(msg_line("UnpauseCrossChains", AUTHORITY, hx(p_), *[hx(x) for x in batch]))
                lines2.append("query IsCrossChainPaused %s %s" % (hx(p_), hx(b_)))
            for o_ in oddok:
                lines2.append(msg_line("PauseCrossChains", AUTHORITY, hx(p_), hx(o_)))
                lines2.append("query IsCrossChainPaused %s %s" % (hx(p_), hx("noble")))
                lines2.append(orb_pkt("recv", 1000, int_fwd(U[1])))
                lines2.append(msg_line("UnpauseCrossChains", AUTHORITY, hx(p_), hx(o_)))
            lines2.append("query PausedCrossChains %s nopage" % hx(p_))
            lines2.append(msg_line("UnpauseCrossChains", AUTHORITY, hx(p_), hx(g1)))
        lines2 += ["query DispatchedCounts %s %s %s %s" % (hx("PROTOCOL_IBC"), hx("channel-0"), hx("PROTOCOL_HYPERLANE"), hx("7")),
                   "query DispatchedCounts %s %s %s %s" % (hx("PROTOCOL_IBC"), hx("channel-0"), hx("PROTOCOL_HYPERLANE"), hx("0")), "export"]
        f2 = {"msg": ["res", "st"], "recv": ["ack", "st"], "recvh": ["ack"], "query": ["res", "out", "next", "total"], "export": ["st"]}
        # identifiers as a ledger loaded from a genesis holds them — free-form counterparties of the internal protocol with blanks, tabs,
        # colons, per-cent signs, digits only; the widest numbers of the bridges —: each one is found under exactly its own spelling by
        # the direct lookups, listed under it by source and by destination, exported and imported as it stands
        lines3, _ = scen.base_setup()
        odd = ["noble", "noble hub", "noble\tgrand-1", " noble", "noble ", "no:ble", "4:noble", "100%d", "%s", "7", "07", "a b c d", "~", "{}"]
        amts, cnts = [], []
        for i, o_ in enumerate(odd):
            amts.append("1|%s|4|%s|%s|%d|%d" % (hx("channel-0"), hx(o_), hx("uusdc"), 100 + i, 50 + i))
            amts.append("4|%s|2|%s|%s|%d|%d" % (hx(o_), hx(str(i)), hx("uusdc"), 200 + i, 150 + i))
            cnts.append("1|%s|4|%s|%d" % (hx("channel-0"), hx(o_), 1 + i))
            cnts.append("4|%s|2|%s|%d" % (hx(o_), hx(str(i)), 30 + i))
        for dmn in ("0", "4294967295", "2147483648"):
            amts.append("1|%s|2|%s|%s|9|9" % (hx("channel-1"), hx(dmn), hx("uusdc")))
            amts.append("1|%s|3|%s|%s|8|8" % (hx("channel-1"), hx(dmn), hx("uusdc")))
        lines3.append("genload pp=[];pcc=[];pa=[];params=0;amts=[%s];cnts=[%s]" % (",".join(amts), ",".join(cnts)))
        for i, o_ in enumerate(odd):
            lines3.append("query DispatchedAmounts %s %s %s %s %s" % (hx("PROTOCOL_IBC"), hx("channel-0"), hx("PROTOCOL_INTERNAL"), hx(o_), hx("uusdc")))
            lines3.append("query DispatchedCounts %s %s %s %s" % (hx("PROTOCOL_IBC"), hx("channel-0"), hx("PROTOCOL_INTERNAL"), hx(o_)))
            lines3.append("query DispatchedAmounts %s %s %s %s %s" % (hx("PROTOCOL_INTERNAL"), hx(o_), hx("PROTOCOL_CCTP"), hx(str(i)), hx("uusdc")))
            lines3.append("query DispatchedCounts %s %s %s %s" % (hx("PROTOCOL_INTERNAL"), hx(o_), hx("PROTOCOL_CCTP"), hx(str(i))))
        for pn in ("PROTOCOL_IBC", "PROTOCOL_CCTP", "PROTOCOL_HYPERLANE", "PROTOCOL_INTERNAL"):
            lines3 += ["query DispatchedAmountsBySrc %s nopage" % hx(pn), "query DispatchedAmountsByDst %s nopage" % hx(pn), "query DispatchedCountsBySrc %s nopage" % hx(pn)]
        lines3 += ["export", "reimport", "export", orb_pkt("recv", 1000, int_fwd(U[1])), "export"]
        f3 = dict(f2)
        f3["reimport"] = ["valid", "init", "same", "st"]
        return [Stream("S1-identifiers", lines, fields={"pure": ["_"]}, oracle=c20_oracle),
                Stream("S3-identifier-in-use", lines2, fields=f2, oracle=pause_oracle),
                Stream("S3-identifiers-in-a-loaded-ledger", lines3, fields=f3),
                Stream("S3-non-ascii-counterparty-in-a-loaded-ledger", non_ascii_ledger_lines(), fields=f3, shrink=False)]


def non_ascii_ledger_lines():
    """a counterparty identifier with a character outside ASCII: as a non-terminal part of a collections key only the first byte of
    each character would be stored (defect repaired by 8388b7e, findings/C20-non-ascii-counterparty.replay.json): such a genesis is
    refused by validation, by the model and by the implementation alike, and nothing is stored."""
    lines, _ = scen.base_setup()
    o_ = "n\u00f6ble"
    for g in ("amts=[1|%s|4|%s|%s|5|5];cnts=[1|%s|4|%s|3]" % (hx("channel-0"), hx(o_), hx("uusdc"), hx("channel-0"), hx(o_)),
              "amts=[4|%s|2|%s|%s|5|5];cnts=[4|%s|2|%s|3]" % (hx(o_), hx("1"), hx("uusdc"), hx(o_), hx("1"))):
        lines += ["genload pp=[];pcc=[];pa=[];params=0;" + g,
                  "query DispatchedAmounts %s %s %s %s %s" % (hx("PROTOCOL_IBC"), hx("channel-0"), hx("PROTOCOL_INTERNAL"), hx(o_), hx("uusdc")),
                  "query DispatchedCounts %s %s %s %s" % (hx("PROTOCOL_INTERNAL"), hx(o_), hx("PROTOCOL_CCTP"), hx("1")),
                  "query DispatchedAmountsBySrc %s nopage" % hx("PROTOCOL_INTERNAL"), "query DispatchedAmountsByDst %s nopage" % hx("PROTOCOL_INTERNAL"), "export"]
    return lines


def c20_oracle(steps):
    """canonicity: for CCTP/Hyperlane an accepted counterparty is the decimal form of a uint32;
    the textual form parses back; pure functions never panic."""
    import re
    out = []
    for s in steps:
        if s.op != "pure":
            continue
        f = s.line.split(" ")
        if s.impl_raw.startswith("panic"):
            out.append((s.i, "panic: " + s.line[:120]))
            continue
        if f[1] == "cpid" and f[2] in ("2", "3"):
            c = unhx(f[3]).decode("utf-8", "replace")
            canonical = bool(re.fullmatch(r"0|[1-9][0-9]*", c)) and int(c) < 2 ** 32
            if (s.impl_raw == "ok") != canonical:
                out.append((s.i, "non-canonical: counterparty %r for protocol %s is %s but canonical=%s" % (c, f[2], s.impl_raw, canonical)))
        if f[1] == "attr" and f[2] in ("cctp", "hyp") and ":" in s.impl_raw:
            d = int(f[3] if f[2] == "cctp" else f[4])
            got = unhx(s.impl_raw.split(":", 1)[1]).decode("utf-8", "replace")
            if got != str(d):
                out.append((s.i, "spelling: %s attributes for domain %d produce counterparty %r, pause/query/statistics use %r" % (f[2], d, got, str(d))))
    # round trip ccid -> parseccid is checked through dedicated paired lines (the id text is fed back)
    return out


# =====================================================================================================
# helpers shared by the application-level properties
import json as _json

from proto import ORB, ORB_BYTES, DUST_BYTES, AUTHORITY, b32, addr, cctp_fwd, int_fwd, hyp_fwd, fee_action, orb_pkt, pkt_line, ftpd, memo, msg_line, b64
from gen import U, USERS, DENOMS, CHANNELS, SRC_CHANNELS, PROTO_NAMES, ACTION_NAMES, CCTP_DOMAINS

ORBHEX = ORB_BYTES.hex()
DUSTHEX = DUST_BYTES.hex()


def parse_delta(s):
    """'addr/denomhex:+5,…' -> {(addr, denom str): int}"""
    d = {}
    if not s or s == "-":
        return d
    for e in s.split(","):
        k, v = e.rsplit(":", 1)
        a, dn = k.split("/", 1)
        d[(a, unhx(dn).decode("utf-8", "replace"))] = int(v)
    return d


def parse_sup(s):
    d = {}
    if not s or s == "-":
        return d
    for e in s.split(","):
        k, v = e.rsplit(":", 1)
        d[unhx(k).decode("utf-8", "replace")] = int(v)
    return d


_CAMEL = {"preActions": "pre_actions", "feesInfo": "fees_info", "basisPoints": "basis_points", "protocolId": "protocol_id",
          "passthroughPayload": "passthrough_payload", "destinationDomain": "destination_domain", "mintRecipient": "mint_recipient",
          "destinationCaller": "destination_caller", "tokenId": "token_id", "customHookId": "custom_hook_id",
          "customHookMetadata": "custom_hook_metadata", "gasLimit": "gas_limit", "maxFee": "max_fee"}


def canon_keys(x):
    """the payload under the proto field names: jsonpb accepts the lowerCamelCase name of every field too (it wins when both are given)"""
    if isinstance(x, dict):
        out = {}
        for k, v in x.items():
            if k not in _CAMEL:
                out[k] = canon_keys(v)
        for k, v in x.items():
            if k in _CAMEL:
                out[_CAMEL[k]] = canon_keys(v)
        return out
    if isinstance(x, list):
        return [canon_keys(v) for v in x]
    return x


def packet_of(line):
    """decode a recv-like line -> dict(src_port, src_chan, dst_port, dst_chan, data(bytes), ftpd(dict|None), payload(dict|None))"""
    f = line.split(" ")
    p = {"src_port": unhx(f[1]).decode("utf-8", "replace"), "src_chan": unhx(f[2]).decode("utf-8", "replace"),
         "dst_port": unhx(f[3]).decode("utf-8", "replace"), "dst_chan": unhx(f[4]).decode("utf-8", "replace"), "data": unhx(f[5])}
    p["ftpd"] = None
    p["payload"] = None
    try:
        d = _json.loads(p["data"].decode("utf-8"))
        if isinstance(d, dict):
            p["ftpd"] = d
            try:
                m = _json.loads(d.get("memo", ""))
                if isinstance(m, dict) and isinstance(m.get("orbiter"), dict):
                    p["payload"] = canon_keys(m["orbiter"])
            except Exception:
                pass
    except Exception:
        pass
    return p


def receiver_is_orbiter(p):
    if not p["ftpd"] or not isinstance(p["ftpd"].get("receiver"), str):
        return False
    a = decode_addr(p["ftpd"]["receiver"])
    return a == ORB_BYTES


RECV_OPS = ("recv", "recvh")


class Ledger:
    """Python-side running view of balances, built only from implementation observations."""

    def __init__(self):
        self.orb = {}
        self.saved = None

    def apply(self, step):
        if step.op == "setup":
            self.orb, self.saved = {}, None
        if step.op == "drybegin" and step.impl_raw == "ok":
            self.saved = dict(self.orb)
        if step.op == "dryend" and step.impl_raw == "ok" and self.saved is not None:
            self.orb, self.saved = self.saved, None
        if step.op == "dispatchh" and step.impl.get("res") == "ok":
            f = step.line.split(" ")
            d0 = unhx(f[2]).decode("utf-8", "replace")
            self.orb[d0] = self.orb.get(d0, 0) + int(f[1])      # the coin the operation put there before dispatching
            for (a, dn), v in parse_delta(step.impl.get("bal")).items():
                if a == ORBHEX:
                    self.orb[dn] = self.orb.get(dn, 0) + v
        if step.op == "deposit" and step.impl_raw == "ok":
            f = step.line.split(" ")
            if f[1] == ORBHEX:
                d = unhx(f[2]).decode()
                self.orb[d] = self.orb.get(d, 0) + int(f[3])
        if step.op in RECV_OPS:
            for (a, dn), v in parse_delta(step.impl.get("bal")).items():
                if a == ORBHEX:
                    self.orb[dn] = self.orb.get(dn, 0) + v


def c01_oracle(steps):
    out = []
    led = Ledger()
    for s in steps:
        before = dict(led.orb)
        led.apply(s)
        if s.op not in RECV_OPS:
            continue
        ack = s.impl.get("ack")
        if ack != "ok":
            continue
        delta = parse_delta(s.impl.get("bal"))
        for (a, dn), v in delta.items():
            if a == ORBHEX and v > 0:
                out.append((s.i, "stranded: success acknowledgement and the orbiter balance of %s grew by %d" % (dn, v)))
        p = packet_of(s.line)
        if receiver_is_orbiter(p):
            # the whole delivered coin has left: nothing of the delivered denom stays
            dn = p["ftpd"].get("denom", "")
            pre = p["src_port"] + "/" + p["src_chan"] + "/"
            if dn.startswith(pre):
                dn = dn[len(pre):]
            if led.orb.get(dn, 0) != 0:
                out.append((s.i, "stranded: success acknowledgement but %d %s remain on the orbiter account" % (led.orb.get(dn, 0), dn)))
    return out


def c14_oracle(steps):
    out = []
    for s in steps:
        if s.op in RECV_OPS and s.impl.get("ack") == "panic":
            # attribution rule (DESIGN.md C14): a panic raised inside the wrapped ICS-20 application for a packet the
            # middleware passed on unchanged is inherited from ibc-go
            if s.impl.get("pattr") == "app" and not receiver_is_orbiter(packet_of(s.line)):
                continue
            out.append((s.i, "panic: receive path panicked (attributed to %s)" % s.impl.get("pattr")))
        if s.op in ("msg", "query") and s.impl.get("res") == "panic":
            out.append((s.i, "panic: %s panicked" % s.op))
        if s.op == "pure" and s.impl_raw.startswith("panic"):
            out.append((s.i, "panic: parser entry point panicked"))
    return out


def rollback_oracle(steps):
    """an error acknowledgement commits nothing (C03)"""
    out = []
    prev_st = None
    for s in steps:
        if s.op in RECV_OPS:
            if s.impl.get("ack") in ("err", "panic"):
                if s.impl.get("bal") != "-" or s.impl.get("sup") != "-":
                    out.append((s.i, "partial: error acknowledgement but balances changed: %s" % s.impl.get("bal", "")[:200]))
                if prev_st is not None and s.impl.get("st") != prev_st:
                    out.append((s.i, "partial: error acknowledgement but orbiter state changed"))
        if "st" in s.impl:
            prev_st = s.impl["st"]
    return out


def history_stream(name, seed_tag, tier, seed, n_quick, n_thorough, fields, oracle, n_hist_quick=3, n_hist_thorough=12, **kw):
    out = []
    nh = n_hist_thorough if tier == "thorough" else n_hist_quick
    n = n_thorough if tier == "thorough" else n_quick
    for h in range(nh):
        r = Rng(seed * 100000 + seed_tag * 100 + h)
        lines, toks = scen.base_setup()
        lines += scen.tuned_history(r, n, toks, **kw)
        out.append(Stream("%s-%d" % (name, h), lines, fields=fields, oracle=oracle))
    return out


# ----------------------------------------------------------------------------------------------- C01

def c01_targeted(r):
    """receiver grid x routes x prior deposits x pause states."""
    lines, toks = scen.base_setup()
    import bech32 as _b32
    recvs = [ORB, ORB.upper(), ORB[:8] + ORB[8:].upper(), "cosmos" + ORB[5:], b32(DUST_BYTES), U[0], b32(bytes(20)), ORB + " ", "", "garbage",
             _b32.encode("cosmos", ORB_BYTES), _b32.encode("nobl", ORB_BYTES)]
    tok = toks[0][0]
    # on a chain where nothing was ever swept: a fee paid to the dust collector's address (any valid address can be a recipient), then a
    # coin left on the orbiter account by anybody, then ordinary transfers of that coin — swept and forwarded as always
    # (repaired defect 14028a5: the first plain send created a base account there and every later sweep panicked)
    lines.append(orb_pkt("recv", 10 ** 6, int_fwd(U[1]), [fee_action([(b32(DUST_BYTES), "b", 100)])]))
    lines.append(orb_pkt("recv", 10 ** 6, int_fwd(U[1]), [fee_action([(b32(DUST_BYTES), "a", 3)])], denom="uother"))
    for dn_ in ("uusdc", "uother"):
        lines.append("deposit %s %s 5" % (hx(ORB_BYTES), hx(dn_)))
        lines.append(orb_pkt("recv", 10 ** 6, int_fwd(U[1]), None, denom=dn_))
        lines.append("deposit %s %s 7" % (hx(ORB_BYTES), hx(dn_)))
        lines.append(orb_pkt("recvh", 10 ** 6, int_fwd(U[1]), [fee_action([(U[2], "b", 100)])], denom=dn_))
    routes = [cctp_fwd(domain=0), int_fwd(U[1]), int_fwd(ORB), int_fwd(ORB.upper()), hyp_fwd(tok, domain=1), int_fwd(b32(DUST_BYTES)),
              cctp_fwd(domain=0, mint=b"\x00" * 32), cctp_fwd(domain=9)]
    feesets = [None, [fee_action([(U[2], "b", 100)])], [fee_action([(ORB, "b", 100)])], [fee_action([(ORB, "a", 5), (U[3], "a", 5)])], [fee_action([])]]
    for rc in recvs:
        for rt in routes:
            for fs in (feesets if rc == ORB else feesets[:2]):
                if r.chance(1, 3):
                    lines.append("deposit %s %s %d" % (hx(ORB_BYTES), hx("uusdc"), r.range(1, 999)))
                lines.append(orb_pkt("recv", r.choice([1000, 10 ** 6, 7]), rt, fs, receiver=rc))
    # plain transfers to the orbiter account with every kind of memo
    for m in ["", "{}", "null", "{\"orbiter\":null}", "{\"orbiter\":{}}", "[]", "x", "{\"forward\":{}}", "{\"orbiter\":{\"forwarding\":null}}"]:
        lines.append(pkt_line("recv", ftpd("transfer/channel-7/uusdc", 1000, ORB, m)))
        lines.append(pkt_line("recv", ftpd("uatom", 1000, ORB, m)))
        lines.append(pkt_line("recv", ftpd("transfer/channel-7/uusdc", 1000, ORB.upper(), m)))
    # coins that are not Noble-native, sent to the orbiter account with a perfectly valid payload: refused (refunded), never credited
    for dn in scen.DENOM_GRID:
        for m in (good_payloads := [memo(int_fwd(U[1])), memo(cctp_fwd(domain=0), [fee_action([(U[2], "b", 100)])])]):
            lines.append(pkt_line("recv", ftpd(dn, 1000, ORB, m)))
    # sizes: valid orbiter transfers whose packet data is far larger than usual — white space inside the memo, a pretty-printed memo,
    # long hook metadata, a long sender, white space around the packet's own fields (no limit of the sending chain binds here)
    gm = memo(int_fwd(U[1]), [fee_action([(U[2], "b", 100)])])
    for size in (20000, 36000, 36800, 36865, 37100, 40000, 70000, 140000):
        padded = gm[:-1] + " " * size + "}"
        lines.append(pkt_line("recv", ftpd("transfer/channel-7/uusdc", 1000, ORB, padded)))
        pretty = _json.dumps(_json.loads(gm), indent=size // 40)
        lines.append(pkt_line("recv", ftpd("transfer/channel-7/uusdc", 1000, ORB, pretty)))
        lines.append(pkt_line("recv", ftpd("transfer/channel-7/uusdc", 1000, ORB, gm, sender="s" * size)))
        lines.append(orb_pkt("recv", 1000, hyp_fwd(tok, domain=1, meta="0x" + "ab" * (size // 2))))
        whole = ftpd("transfer/channel-7/uusdc", 1000, ORB, gm)
        lines.append(pkt_line("recv", whole[:-1] + " " * size + "}"))
        lines.append(pkt_line("recv", "{" + " " * size + whole[1:]))
        lines.append(pkt_line("recv", ftpd("transfer/channel-7/uusdc", 1000, ORB, memo(cctp_fwd(domain=0, passthrough=b"p" * size)))))
    # every encoding of the packet's own fields: the same orbiter transfer spelled in ways a counterparty that does not
    # serialise canonically may produce (trailing bytes after the first JSON value, white space, repeated or escaped keys,
    # escaped values, reordered fields); whatever ICS-20 accepts as a transfer to the orbiter must go through the orbiter flow
    good = memo(int_fwd(U[1]), [fee_action([(U[2], "b", 100)])])
    base = ftpd("transfer/channel-7/uusdc", 1000, ORB, good)
    esc_key = base.replace("\"receiver\"", "\"\\u0072eceiver\"")
    esc_val = base.replace("\"receiver\":\"" + ORB, "\"receiver\":\"\\u006e" + ORB[1:])
    dup1 = base[:-1] + ",\"receiver\":\"" + U[0] + "\"}"
    dup2 = "{\"receiver\":\"" + U[0] + "\"," + base[1:]
    d = _json.loads(base)
    reordered = _json.dumps({k: d[k] for k in ("memo", "receiver", "sender", "amount", "denom")}, separators=(",", ":"))
    spaced = _json.dumps(d, indent=2)
    for v in [base + "{}", base + "}", base + "\nnoble", base + " ", base + "\n", " " + base, "\t\n" + base + "\r\n", base + "[]", base + base, base + "null", base + "0",
              esc_key, esc_val, dup1, dup2, reordered, spaced, base.replace(":", " : ", 2), "\ufeff" + base]:
        lines.append("deposit %s %s %d" % (hx(ORB_BYTES), hx("uusdc"), 3))
        lines.append(pkt_line("recv", v))
    return lines


def dry_lines(r, toks, n):
    """operations executed on a branch of the state that is then dropped (drybegin … dryend: a transaction that fails at its end, a
    simulation) leave no trace: whatever the module keeps — stores, and anything it might keep outside them — is as before"""
    lines, _ = scen.base_setup()
    tok = toks[0][0]
    hist = scen.tuned_history(r, n, toks, p_admin=30, p_deposit=6, p_query=10, p_reimport=0)
    out = []
    i = 0
    while i < len(hist):
        if r.chance(1, 4):
            k = r.range(1, 4)
            out.append("drybegin")
            if r.chance(1, 2):
                # written on the branch, read on the branch (a query, a packet), dropped with the branch
                out.append(msg_line("UpdateParams", AUTHORITY, str(r.choice([0, 5, 64]))))
                out.append("query Params")
                out.append(orb_pkt("recv", 1000, cctp_fwd(domain=0, passthrough=b"\x02" * r.choice([1, 6, 70]))))
            if r.chance(1, 3):
                out.append(msg_line(r.choice(["PauseProtocol", "UnpauseProtocol"]), AUTHORITY, hx(r.choice(PROTO_NAMES))))
                out.append("query PausedProtocols")
            out += hist[i:i + k]
            out.append("dryend")
            if r.chance(1, 2):
                out.append("query Params")
                out.append(orb_pkt("recv", 1000, cctp_fwd(domain=0, passthrough=b"\x02" * r.choice([1, 6, 70]))))
            i += k
        else:
            out.append(hist[i])
            i += 1
        if r.chance(1, 10):
            out += ["query Params", "query PausedProtocols", "query PausedActions", "export"]
        if r.chance(1, 10):
            out.append(orb_pkt("recv", 1000, cctp_fwd(domain=0, passthrough=b"\x01" * r.choice([0, 3, 30])), [fee_action([(U[3], "b", 50)])]))
    lines0 = lines
    lines = []
    # every kind of write, each followed by every kind of read, first on a dropped branch and then the same reads for real: what a
    # read computed on the branch (and might remember outside the store) is not what holds afterwards
    fee = [fee_action([(U[3], "b", 50)])]

    def reads():
        q = ["query PausedProtocols", "query PausedActions", "query Params", "query PausedCrossChains %s nopage" % hx("PROTOCOL_CCTP"),
             "query DispatchedAmountsBySrc %s nopage" % hx("PROTOCOL_IBC"),
             "query DispatchedCounts %s %s %s %s" % (hx("PROTOCOL_IBC"), hx("channel-0"), hx("PROTOCOL_CCTP"), hx("0")),
             "query DispatchedAmounts %s %s %s %s %s" % (hx("PROTOCOL_IBC"), hx("channel-0"), hx("PROTOCOL_INTERNAL"), hx("noble"), hx("uusdc"))]
        q += ["query IsProtocolPaused " + hx(p_) for p_ in PROTO_NAMES] + ["query IsActionPaused " + hx(a_) for a_ in ACTION_NAMES]
        q += ["query IsCrossChainPaused %s %s" % (hx(p_), hx(c_)) for p_, c_ in (("PROTOCOL_CCTP", "0"), ("PROTOCOL_HYPERLANE", "1"), ("PROTOCOL_INTERNAL", "noble"))]
        q += [orb_pkt("recv", 10 ** 6, cctp_fwd(domain=0), fee), orb_pkt("recv", 10 ** 6, hyp_fwd(tok, domain=1, gas=100000, fee=("uusdc", 10 ** 6))),
              orb_pkt("recv", 10 ** 6, int_fwd(U[1]), fee), orb_pkt("recv", 1000, cctp_fwd(domain=0, passthrough=b"\x07")), orb_pkt("recv", 1000, int_fwd(U[1]), [swap_action()]),
              orb_pkt("recv", 1000, int_fwd(U[1]), None, denom="uother")]
        return q
    writers = [[msg_line("PauseProtocol", AUTHORITY, hx("PROTOCOL_CCTP"))], [msg_line("PauseProtocol", AUTHORITY, hx("PROTOCOL_INTERNAL"))],
               [msg_line("PauseAction", AUTHORITY, hx("ACTION_FEE"))], [msg_line("PauseAction", AUTHORITY, hx("ACTION_SWAP"))],
               [msg_line("PauseCrossChains", AUTHORITY, hx("PROTOCOL_CCTP"), hx("0"))], [msg_line("PauseCrossChains", AUTHORITY, hx("PROTOCOL_HYPERLANE"), hx("1"))],
               [msg_line("PauseCrossChains", AUTHORITY, hx("PROTOCOL_INTERNAL"), hx("noble"))], [msg_line("UpdateParams", AUTHORITY, "5")],
               [orb_pkt("recv", 777, cctp_fwd(domain=0)), orb_pkt("recv", 777, int_fwd(U[1]))],
               ["env ftfpause 1"], ["env blacklist %s 1" % addr(1 + 1).hex()], ["env cctppause burn 1"], ["env cctppause send 1"], ["env burnlimit 5"],
               ["env hyp unroll %s 1" % hx(tok)], ["env hyp enroll %s 1 77" % hx(tok)], ["env hyp igp %s 1 10000000000 1 50000" % hx("uusdc")],
               ["env recvenabled 0"], ["deposit %s %s 12345" % (hx(ORB_BYTES), hx("uusdc"))]]
    for w_ in writers:
        lines += ["drybegin"] + w_ + reads() + ["dryend"] + reads()
    lines.append("export")
    # a warp token created and used on a dropped branch, then its identifier assigned again to a token of another denomination
    t3 = tok[:-8] + (2).to_bytes(8, "big")
    lines += ["drybegin", "env hyp setup " + hx("uother"), "env hyp token %s %s" % (hx(t3), hx("uother")), "env hyp enroll %s 1 0" % hx(t3),
              orb_pkt("recv", 1000, hyp_fwd(t3, domain=1), None, denom="uother"), "dryend",
              "env hyp setup " + hx("uusdc"), "env hyp token %s %s" % (hx(t3), hx("uusdc")), "env hyp enroll %s 1 0" % hx(t3),
              "deposit %s %s 5000" % (hx(ORB_BYTES), hx("uusdc")),
              orb_pkt("recv", 1000, hyp_fwd(t3, domain=1), None, denom="uother"),
              orb_pkt("recv", 1000, hyp_fwd(t3, domain=1), None, denom="uusdc"), "export"]
    lines = lines0 + lines + out
    return lines


def large_ledger_lines(r):
    """a ledger with more entries than any page: export, in-place re-import and the listings must still carry every entry"""
    lines = ["setup -"]
    amts, cnts = [], []
    for ch in range(13):
        for dom in range(11):
            sc, dc = "channel-%d" % ch, str(dom * 7)
            cnts.append("1|%s|2|%s|%d" % (hx(sc), hx(dc), r.range(1, 99)))
            for dn in (["uusdc", "uother"] if (ch + dom) % 3 == 0 else ["uusdc"]):
                amts.append("1|%s|2|%s|%s|%d|%d" % (hx(sc), hx(dc), hx(dn), r.range(1, 10 ** 9), r.range(0, 10 ** 9)))
    g = "pp=[];pcc=[];pa=[];params=7;amts=[%s];cnts=[%s]" % (",".join(amts), ",".join(cnts))
    lines += ["genload " + g, "export", "reimport", "export",
              "query DispatchedCountsBySrc %s nopage" % hx("PROTOCOL_IBC"), "query DispatchedAmountsByDst %s nopage" % hx("PROTOCOL_CCTP"),
              orb_pkt("recv", 1000, cctp_fwd(domain=7), dst_chan="channel-12"), orb_pkt("recv", 1000, cctp_fwd(domain=70), dst_chan="channel-9"),
              "reimport", "export", "geninit " + g]
    return lines


def everything_paused_lines():
    """everything that can be paused is paused: the export of an unchanged state, and every listing, is the same every time, before and
    after a restart"""
    return ["setup -"] + [msg_line("PauseAction", AUTHORITY, hx(a)) for a in reversed(ACTION_NAMES)] + \
        [msg_line("PauseProtocol", AUTHORITY, hx(p_)) for p_ in reversed(PROTO_NAMES)] + \
        [msg_line("PauseCrossChains", AUTHORITY, hx("PROTOCOL_CCTP"), hx("7"), hx("10"), hx("1"), hx("0")),
         msg_line("PauseCrossChains", AUTHORITY, hx("PROTOCOL_INTERNAL"), hx("noble")), msg_line("PauseCrossChains", AUTHORITY, hx("PROTOCOL_IBC"), hx("channel-1"), hx("channel-0"))] + \
        ["export"] * 12 + ["query PausedActions", "query PausedProtocols"] * 6 + ["reimport"] + ["export"] * 8 + ["query PausedActions", "query PausedProtocols"] * 4


def stats_limit_lines(toks):
    """a chain started from a genesis whose totals sit at the limits of their types: the statistics update is refused (and
    swallowed); the transfer itself must go through completely — fees paid, coin forwarded, nothing left behind"""
    lines, _ = scen.base_setup()
    tok = toks[0][0]
    big = 2 ** 256 - 1
    fee = [fee_action([(U[2], "b", 100), (U[3], "a", 7)])]
    g = "pp=[];pcc=[];pa=[];params=0;amts=[1|%s|4|%s|%s|%d|%d,1|%s|2|%s|%s|%d|7,1|%s|3|%s|%s|%d|%d];cnts=[1|%s|4|%s|%d,1|%s|2|%s|5,1|%s|4|%s|%d,1|%s|2|%s|%d]" % (
        hx("channel-0"), hx("noble"), hx("uusdc"), big, big - 5, hx("channel-0"), hx("0"), hx("uusdc"), big - 999,
        hx("channel-0"), hx("1"), hx("uusdc"), big - 1, big - 1, hx("channel-0"), hx("noble"), 2 ** 64 - 1, hx("channel-0"), hx("0"),
        # routes whose counter is saturated while their amounts are not: the coin is still recorded
        hx("channel-1"), hx("noble"), 2 ** 64 - 1, hx("channel-1"), hx("0"), 2 ** 64 - 1)
    lines.append("genload " + g)
    for op in ("recv", "recvh"):
        lines += [orb_pkt(op, 1000, int_fwd(U[1])), orb_pkt(op, 1000, int_fwd(U[1]), fee), orb_pkt(op, 6, int_fwd(U[1])),
                  orb_pkt(op, 999, cctp_fwd(domain=0)), orb_pkt(op, 10 ** 6, cctp_fwd(domain=0), fee),
                  orb_pkt(op, 10 ** 6, hyp_fwd(tok, domain=1), fee), orb_pkt(op, 10 ** 6, hyp_fwd(tok, domain=1)),
                  orb_pkt(op, 1000, int_fwd(U[1]), fee, dst_chan="channel-1"), orb_pkt(op, 1000, cctp_fwd(domain=0), None, dst_chan="channel-1"),
                  orb_pkt(op, 777, int_fwd(U[1]), None, denom="uother", dst_chan="channel-1")]
    lines.append("export")
    # totals that cross the widths of the machine integers while every single amount fits them (an 18-decimals coin gets there in
    # a handful of transfers): recorded exactly, readable by every query, carried by the export
    lines.append("escrowfund %s %s %d" % (hx("channel-1"), hx("aeth"), 2 ** 70))
    for seq in ([2 ** 63, 2 ** 63], [2 ** 64 - 1, 1], [9 * 10 ** 18, 9 * 10 ** 18, 9 * 10 ** 18], [2 ** 62, 2 ** 62, 2 ** 62, 2 ** 62, 1], [2 ** 31, 2 ** 31, 2 ** 32, 2 ** 32]):
        dest = U[1 + len(seq)]
        for a_ in seq:
            lines.append(orb_pkt("recv", a_, int_fwd(dest), None, denom="aeth", dst_chan="channel-1"))
            lines.append("query DispatchedAmounts %s %s %s %s %s" % (hx("PROTOCOL_IBC"), hx("channel-1"), hx("PROTOCOL_INTERNAL"), hx("noble"), hx("aeth")))
        lines.append(orb_pkt("recv", 4 * 10 ** 18, cctp_fwd(domain=0), [fee_action([(U[2], "b", 1)])]))
    lines += ["query DispatchedAmountsBySrc %s nopage" % hx("PROTOCOL_IBC"), "query DispatchedCountsBySrc %s nopage" % hx("PROTOCOL_IBC"), "export", "reimport", "export"]
    # counters at the widths of the machine integers below the last one (a long-lived route, or a validated genesis): the next
    # transfers are counted like any other
    rts = [("channel-0", 4, "PROTOCOL_INTERNAL", "noble", int_fwd(U[1])), ("channel-0", 2, "PROTOCOL_CCTP", "0", cctp_fwd(domain=0)),
           ("channel-1", 4, "PROTOCOL_INTERNAL", "noble", int_fwd(U[1])), ("channel-1", 2, "PROTOCOL_CCTP", "0", cctp_fwd(domain=0)),
           ("channel-0", 3, "PROTOCOL_HYPERLANE", "1", hyp_fwd(tok, domain=1))]
    for widths in ([2 ** 31 - 1, 2 ** 32 - 1, 2 ** 63 - 1, 2 ** 63, 2 ** 64 - 2], [2 ** 63 - 2, 2 ** 53, 2 ** 32, 2 ** 63 + 1, 2 ** 31]):
        cn = ",".join("1|%s|%d|%s|%d" % (hx(ch), pn, hx(cp), wv) for ((ch, pn, _, cp, _), wv) in zip(rts, widths))
        lines.append("genload pp=[];pcc=[];pa=[];params=0;amts=[];cnts=[%s]" % cn)
        for _ in range(2):
            for (ch, pn, pname, cp, fw) in rts:
                lines.append(orb_pkt("recv", 1000, fw, None, dst_chan=ch))
                lines.append("query DispatchedCounts %s %s %s %s" % (hx("PROTOCOL_IBC"), hx(ch), hx(pname), hx(cp)))
        lines += ["query DispatchedCountsBySrc %s nopage" % hx("PROTOCOL_IBC"), "export", "reimport", "export"]
    return lines


def case_variant_lines(toks):
    """denominations that differ only by case are different denominations: the coin credited is the coin that leaves, whatever else
    (the minting denomination, a warp token's collateral) is spelled almost like it and happens to sit on the orbiter account"""
    lines, _ = scen.base_setup()
    tok = {d: t for (t, d) in toks}
    for dn in ("UUSDC", "uUsdc", "UOTHER"):
        lines.append("escrowfund %s %s %d" % (hx("channel-0"), hx(dn), 10 ** 12))
    lines.append("deposit %s %s 500" % (hx(ORB_BYTES), hx("uusdc")))
    lines.append("deposit %s %s 500" % (hx(ORB_BYTES), hx("uother")))
    fee = [fee_action([(U[4], "b", 100)])]
    for dn in ("UUSDC", "uUsdc", "UOTHER"):
        for rt in (hyp_fwd(tok["uusdc"], domain=1), hyp_fwd(tok["uother"], domain=1), cctp_fwd(domain=0), int_fwd(U[1])):
            for acts in (None, fee):
                for op in ("recv", "recvh"):
                    lines.append(orb_pkt(op, 500, rt, acts, denom=dn))
    lines.append("export")
    return lines


def surroundings_lines(toks):
    """what surrounds a packet without being part of what it asks for — the relayer that delivered it (anyone: the orbiter account,
    a fee recipient, the forwarding recipient, the dust collector), its sequence number and timeouts, the height and time of the
    block — changes nothing: the same transfers under every setting"""
    lines, _ = scen.base_setup()
    tok = toks[0][0]
    fee = [fee_action([(U[4], "b", 100), (U[3], "a", 7)])]
    probes = [orb_pkt("recv", 10 ** 6, cctp_fwd(domain=0), fee), orb_pkt("recv", 10 ** 6, int_fwd(U[1]), fee), orb_pkt("recv", 10 ** 6, hyp_fwd(tok, domain=1), fee),
              orb_pkt("recvh", 10 ** 6, int_fwd(U[1]), [swap_action(), fee[0]]), orb_pkt("recv", 10 ** 6, int_fwd(U[1]), None, denom="uother"),
              orb_pkt("recv", 10 ** 6, cctp_fwd(domain=0, passthrough=b"\x01")), orb_pkt("recv", 999, int_fwd(ORB)), orb_pkt("recv", 5, int_fwd(U[1]), [fee_action([(U[4], "a", 5)])]),
              pkt_line("recv", ftpd("uatom", 7, U[0], memo(int_fwd(U[1])))), "query DispatchedAmountsBySrc %s nopage" % hx("PROTOCOL_IBC")]
    settings = [("-", "-", "-", "-", "-", "-")]
    for rel in (ORB_BYTES, addr(4 + 1), addr(1 + 1), DUST_BYTES, b"", b"\x01", bytes(32), bytes(20)):
        settings.append((rel.hex() if rel else "00"[:0] or "", "-", "-", "-", "-", "-"))
    for seq in (0, 1, 2 ** 32, 2 ** 64 - 2):
        settings.append(("-", str(seq), "-", "-", "-", "-"))
    for th, ts in ((1, 0), (0, 1), (2 ** 63, 2 ** 63), (0, 0)):
        settings.append(("-", "-", str(th), str(ts), "-", "-"))
    for h_, t_ in ((1, 1), (2, 0), (10 ** 6, 1700000000), (2 ** 62, 4102444800), (17, 1700000000), (100, 1700000001), (1000, 1800000000)):
        settings.append(("-", "-", "-", "-", str(h_), str(t_)))
    # the same packet again and again (what a first use computes, a later use may not recompute), with an in-place restart between
    for pr in probes[:8]:
        lines += [pr, pr, pr]
    lines += ["export", "reimport"]
    for pr in probes[:8]:
        lines += [pr, pr]
    for st_ in settings:
        st2 = tuple(x if x != "" else "-" for x in st_)
        lines.append("env meta " + " ".join(st2))
        lines += probes
        lines.append("deposit %s %s 3" % (hx(ORB_BYTES), hx("uusdc")))
    lines.append("export")
    return lines


def shared_scenarios(seed, toks, tier, skip=()):
    """scenario generators written for one property and useful to every property about the outcome of a transfer: each property
    runs them at its own projection and under its own oracle"""
    n = 60 if tier != "thorough" else 250
    out = []

    def add(name, fn):
        if name not in skip:
            out.append((name, fn))
    add("receiver-and-memo-grid", lambda: c01_targeted(Rng(seed * 1000 + 901)))
    add("bridge-refusals", lambda: c03_natural_lines(Rng(seed * 1000 + 902), toks))
    add("statistics-at-the-limit", lambda: stats_limit_lines(toks))
    add("dropped-branches", lambda: dry_lines(Rng(seed * 1000 + 903), toks, n))
    add("credited-coin-on-every-route", lambda: c16_route_lines(Rng(seed * 1000 + 904), toks))
    add("attribute-shapes", lambda: c05_lines(Rng(seed * 1000 + 905), toks, n))
    add("fee-boundaries", lambda: c04_e2e_lines(Rng(seed * 1000 + 906), 30))
    add("pause-levels", lambda: scen.base_setup()[0] + ["deposit %s %s %d" % (hx(POOL), hx("uother"), 10 ** 30)] + pause_targeted(toks))
    add("case-variant-denominations", lambda: case_variant_lines(toks))
    add("surroundings", lambda: surroundings_lines(toks))
    add("spellings", lambda: scen.base_setup()[0] + [pkt_line("recv", ftpd("transfer/channel-7/uusdc", 100000, ORB, m)) for m in scen._camel_combo_memos()])
    return [(name, fn()) for (name, fn) in out]


def shared_streams(seed, toks, tier, fields, oracle, skip=()):
    return [Stream("S3-shared-" + name, lines, fields=fields, oracle=oracle) for (name, lines) in shared_scenarios(seed, toks, tier, skip)]


@prop
class C01(Base):
    id = "C01"
    assumptions = ["IBC core commits the cached state iff the acknowledgement is a success (emulated by the harness as ibc-go's RecvPacket does)",
                   "bank / ICS-20 / bridge contracts of DESIGN.md §3.6"]

    def streams(self, tier, seed):
        f = {"recv": ["ack", "bal", "mv"], "recvh": ["ack", "bal"]}
        _, toks = scen.base_setup()
        sts = [Stream("S3-receiver-grid", c01_targeted(Rng(seed * 1000 + 1)), fields=f, oracle=c01_oracle),
               Stream("S3-bridge-refusals", c03_natural_lines(Rng(seed), toks), fields=f, oracle=c01_oracle),
               Stream("S3-statistics-at-the-limit", stats_limit_lines(toks), fields=f, oracle=c01_oracle),
               Stream("S3-dropped-branches", dry_lines(Rng(seed * 1000 + 101), toks, self.n(tier, 80, 300)))]
        sts += history_stream("S3-history", 1, tier, seed, 150, 600, f, c01_oracle)
        sts += shared_streams(seed, toks, tier, f, c01_oracle, skip=("receiver-and-memo-grid", "bridge-refusals", "statistics-at-the-limit", "dropped-branches"))
        return sts


# ----------------------------------------------------------------------------------------------- C14 / C15

def c14_packets(r, toks, per_shape):
    """mutated payloads through the whole stack (to the orbiter address), extreme attribute values, raw bytes"""
    lines = []
    shapes = scen.payload_shapes(toks)
    for doc in shapes:
        ms = scen.mutations(doc, r, per_shape)
        for m in ms:
            denom = "uusdc"
            lines.append(pkt_line("recv", ftpd("transfer/channel-7/" + denom, r.choice([1000, 10 ** 6]), ORB, m)))
    for m in scen.EXTRA_MEMOS:
        lines.append(pkt_line("recv", ftpd("transfer/channel-7/uusdc", 1000, ORB, m)))
    # extreme packet fields
    good = memo(int_fwd(U[1]))
    for amt in ["0", "-1", "+5", "007", "0x10", "1_0", "", "x", str(2 ** 256 - 1), str(2 ** 256), "1e3", " 1", "1.0"]:
        lines.append(pkt_line("recv", ftpd("transfer/channel-7/uusdc", amt, ORB, good)))
    for dn in ["transfer/channel-7/x", "transfer/channel-7/ab", "transfer/channel-7/1abc", "transfer/channel-7/", "transfer/channel-7/a b c", "transfer/channel-7/" + "a" * 129,
               "transfer/channel-7/transfer/channel-3/uusdc", "uusdc", "", "/", "transfer/channel-7/uusdc/", "transfer/channel-7/ibc/ABC"]:
        lines.append(pkt_line("recv", ftpd(dn, 1000, ORB, good)))
        lines.append(pkt_line("recv", ftpd(dn, 1000, U[0], "")))
    # every spelling of the receiver that decodes to the orbiter account (escapes in the JSON string, upper case, both) with every kind
    # of malformed memo: what is addressed to the orbiter is refused when malformed, however the address was written
    def esc_all(x):
        return "".join("\\u%04x" % ord(ch) for ch in x)
    spellings = ['"' + ORB + '"', '"\\u006e' + ORB[1:] + '"', '"' + esc_all(ORB) + '"', '"' + ORB[:-1] + "\\u%04x" % ord(ORB[-1]) + '"', '"' + ORB.upper() + '"',
                 '"\\u004e' + ORB.upper()[1:] + '"', '"' + ORB[:10] + "\\u0031"[:0] + ORB[10:] + '"']
    bad_memos = ["", "x", "{}", "{\"orbiter\":null}", "{\"orbiter\":{}}", "{\"orbiter\":{\"forwarding\":null}}", "{\"orbiter\":{\"pre_actions\":[null]}}",
                 "{\"orbiter\":{\"forwarding\":" + _json.dumps(int_fwd(U[1])) + "},\"other\":1}", memo(int_fwd("")), good]
    for sp_ in spellings:
        for bm in bad_memos:
            data = "{\"denom\":\"transfer/channel-7/uusdc\",\"amount\":\"1000\",\"sender\":\"%s\",\"receiver\":%s,\"memo\":%s}" % (b32(addr(200)), sp_, _json.dumps(bm))
            lines.append(pkt_line("recv", data))
    # every denomination of the grid (the bare prefix, pieces of it, doubled slashes, slash-carrying natives …) with a valid
    # payload to the orbiter, from every source the grid pairs them with
    for dn in scen.DENOM_GRID:
        for (sp, sc) in [("transfer", "channel-7"), ("transfer", "channel-70"), ("other", "channel-7")]:
            lines.append(pkt_line("recv", ftpd(dn, 1000, ORB, good), src_port=sp, src_chan=sc))
            lines.append(pkt_line("recv", ftpd(dn, 1000, ORB, memo(cctp_fwd(domain=0), [fee_action([(U[4], "b", 100)])])), src_port=sp, src_chan=sc))
    for sp, sc, dp, dc in [("", "channel-7", "transfer", "channel-0"), ("transfer", "", "transfer", "channel-0"), ("transfer", "channel-7", "transfer", "chan"),
                           ("transfer", "channel-7", "transfer", ""), ("transfer", "channel-7", "", "channel-0"), ("transfer", "channel-7", "transfer", "channel-18446744073709551616"),
                           ("tr ansfer", "channel-7", "transfer", "channel-0")]:
        lines.append(pkt_line("recv", ftpd(sp + "/" + sc + "/uusdc", 1000, ORB, good), src_port=sp, src_chan=sc, dst_port=dp, dst_chan=dc))
    # raw bytes as packet data
    for b in scen.random_bytes_memos(r, 60):
        lines.append(pkt_line("recv", b))
    for b in [b"", b"null", b"[]", b"{}", b"{\"receiver\":\"" + ORB.encode() + b"\"}", b"{\"receiver\":\"" + ORB.encode() + b"\",\"memo\":\"{}\"}",
              b"{\"denom\":1}", b"{\"denom\":null,\"receiver\":\"" + ORB.encode() + b"\"}", b"{\"receiver\":\"" + ORB.encode() + b"\"} trailing", b"{\"extra\":1,\"receiver\":\"" + ORB.encode() + b"\"}",
              b"{\"Receiver\":\"" + ORB.encode() + b"\"}"]:
        lines.append(pkt_line("recv", b))
    # hyperlane extreme attribute values
    tok = toks[0][0]
    for rec in [b"", b"\x01" * 31, b"\x01" * 33, b"\x01" * 32]:
        for fee in [None, ("uusdc", -1), ("x", 5), ("", 5), ("uusdc", 0), ("uusdc", 2 ** 256 - 1)]:
            for gas in [None, -1, 0, 2 ** 256 - 1]:
                lines.append(orb_pkt("recv", 1000, hyp_fwd(tok, domain=1, recipient=rec, gas=gas, fee=fee)))
    for t in [b"", b"\x01" * 31, b"\x02" * 32]:
        lines.append(orb_pkt("recv", 1000, hyp_fwd(t, domain=1)))
    # extreme values all the way into the bridge modules: a gas paymaster as hook (its arithmetic runs on the payload's numbers), coins of
    # its denomination at hand, amounts at the width of the integers with escrow to match, long metadata, every maximum fee
    tok_o = toks[1][0] if len(toks) > 1 else tok
    lines.append("escrowfund %s %s %d" % (hx("channel-0"), hx("uother"), 2 ** 255))
    lines.append("env hyp igp %s 1 10000000000 1 100000" % hx("stake"))
    for amt in (1, 2 ** 64, 2 ** 128, 2 ** 200, 2 ** 254):
        for gas in (0, 1, 2 ** 63, 2 ** 64 - 1, 2 ** 64, -1):
            for fee in (("stake", 2 ** 256 - 1), ("stake", 1), ("uother", 2 ** 255), None):
                lines.append("deposit %s %s %d" % (hx(ORB_BYTES), hx("stake"), 10 ** 12))
                lines.append(orb_pkt("recv", amt, hyp_fwd(tok_o, domain=1, gas=gas, fee=fee, meta=r.choice([None, "0x", "0x" + "ab" * 5000])), denom="uother"))
    lines.append(orb_pkt("recv", 2 ** 254, hyp_fwd(tok_o, domain=1, gas=7, fee=("stake", 10 ** 9), hook=b"router_post_dispatch" + (4).to_bytes(4, "big") + (1).to_bytes(8, "big")), denom="uother"))
    lines.append("env hyp noop")
    for amt in (2 ** 64, 2 ** 128, 2 ** 200):
        lines.append(orb_pkt("recv", amt, int_fwd(U[1]), [fee_action([(U[0], "b", 9999)])], denom="uother"))
        lines.append(orb_pkt("recv", amt, hyp_fwd(tok_o, domain=1), [fee_action([(U[0], "b", 1)])], denom="uother"))
    # …and into CCTP: amounts beyond 64 and 128 bits with escrow and burn limit to match, every caller and recipient shape with them
    lines.append("escrowfund %s %s %d" % (hx("channel-0"), hx("uusdc"), 2 ** 250))
    lines.append("env burnlimit %d" % (2 ** 255))
    for amt in (2 ** 63, 2 ** 64, 2 ** 64 + 1, 2 ** 128, 2 ** 200, 2 ** 249):
        for fwd in (cctp_fwd(domain=0), cctp_fwd(domain=5, caller=b"\x05" * 32), cctp_fwd(domain=0, mint=b"\x01" * 20), cctp_fwd(domain=4294967295), cctp_fwd(domain=0, caller=b"\x05" * 33)):
            lines.append(orb_pkt("recv", amt, fwd, [fee_action([(U[0], "b", 1)])]))
            lines.append(orb_pkt("recv", amt, fwd, None))
    lines.append("env burnlimit 1000000000000000000000000")
    # fee extremes end to end
    lines.append(orb_pkt("recv", 2 ** 256 - 1, int_fwd(U[1]), [fee_action([(U[0], "a", 2 ** 255), (U[2], "a", 2 ** 255)])], denom="uother"))
    lines.append(orb_pkt("recv", 10 ** 30, int_fwd(U[1]), [fee_action([(U[0], "b", 10000), (U[2], "b", 10000)])], denom="uother"))
    # the same recipient more than once with amounts whose sum leaves 256 bits; sums of every arrangement near the bound
    big = 2 ** 255
    for es in ([(U[0], "a", big), (U[0], "a", big)], [(U[0], "a", big), (U[2], "a", 5), (U[0], "a", big)], [(U[0], "a", 2 ** 256 - 1), (U[0], "a", 1)],
               [(U[0], "a", 2 ** 256 - 1), (U[0], "b", 1)], [(U[0], "b", 10000)] * 5, [(U[0], "a", big - 1), (U[0], "a", big)]):
        lines.append(orb_pkt("recv", 2 ** 256 - 1, int_fwd(U[1]), [fee_action(es)], denom="uother"))
        lines.append(orb_pkt("recv", 1000, int_fwd(U[1]), [fee_action(es)]))
    # coins already sitting on the orbiter account (anyone can send them), in the transferred denomination and in others, before valid
    # and invalid packets
    for dn, n_ in (("uusdc", 5), ("uother", 1), ("uusdc", 10 ** 30), ("stake", 7)):
        lines.append("deposit %s %s %d" % (hx(ORB_BYTES), hx(dn), n_))
        for rt in (int_fwd(U[1]), cctp_fwd(domain=0), hyp_fwd(tok, domain=1)):
            lines.append(orb_pkt("recv", 1000, rt, [fee_action([(U[2], "b", 100)])]))
            lines.append(orb_pkt("recv", 1000, rt, None, denom="uother"))
        lines.append(pkt_line("recv", ftpd("transfer/channel-7/uusdc", 1000, ORB, "{\"orbiter\":{}}")))
    return lines



def model_branch_lines(toks):
    """inputs aimed at guards of the model that the generic generators rarely or never reach (measured from the guard-tag
    histogram of the evidence): every line is one more point where the model and the implementation must agree"""
    tok = toks[0][0]
    sender_bl = b32(addr(201))
    lines, _ = scen.base_setup()
    ok_fee = [fee_action([(U[2], "b", 100)])]
    big = 2 ** 256 - 1
    lines += [
        # attribute validation corners
        orb_pkt("recv", 10 ** 6, cctp_fwd(domain=4)),                                                  # CCTP to Noble itself
        orb_pkt("recv", 10 ** 6, hyp_fwd(tok, domain=1313817164)), orb_pkt("recv", 10 ** 6, hyp_fwd(tok, domain=1196573006)),
        orb_pkt("recv", 10 ** 6, hyp_fwd(tok, domain=1, hook=b"\x05" * 5)), orb_pkt("recv", 10 ** 6, hyp_fwd(tok, domain=1, hook=b"\x05" * 33)),
        orb_pkt("recv", 10 ** 6, hyp_fwd(tok, domain=1, meta="zz")), orb_pkt("recv", 10 ** 6, hyp_fwd(tok, domain=1, meta="0xzz")),
        orb_pkt("recv", 10 ** 6, hyp_fwd(tok, domain=1, meta="0xabc")), orb_pkt("recv", 10 ** 6, hyp_fwd(tok, domain=1, meta="0xab")),
        orb_pkt("recv", 10 ** 6, hyp_fwd(b"\x0e" * 32, domain=1)),                                       # unknown warp token
    ] + [orb_pkt("recv", 10 ** 6, hyp_fwd(tok, domain=1, meta=m_)) for m_ in ("0", "x", " ", "0X", "0Xab", "0xAB", "é", "0", "00", "0x0", "x0", "\u00000x", "0x" + "ab" * 300)] + [
        orb_pkt("recv", 10 ** 6, hyp_fwd(tok, domain=1, gas="1" + "0" * 80)),                            # math.Int beyond 256 bits
        orb_pkt("recv", big, int_fwd(U[1]), [fee_action([(U[2], "b", 10000)])], denom="uother"),         # amount * bps overflows 2^256
        # decoder corners
        pkt_line("recv", ftpd("transfer/channel-7/uusdc", 1000, ORB, "{\"orbiter\":null}")),
        pkt_line("recv", ftpd("transfer/channel-7/uusdc", 1000, ORB, _json.dumps({"orbiter": {"forwarding": int_fwd(U[1]), "pre_actions": [{"id": "ACTION_FEE", "attributes": cctp_fwd(domain=0)["attributes"]}]}}))),
        pkt_line("recv", ftpd("transfer/channel-7/uusdc", 1000, ORB, _json.dumps({"orbiter": {"forwarding": {"protocol_id": "PROTOCOL_CCTP", "attributes": fee_action([(U[2], "b", 1)])["attributes"]}}}))),
        pkt_line("recv", ftpd("transfer/channel-7/uusdc", 1000, ORB, _json.dumps({"orbiter": {"forwarding": {"protocol_id": "PROTOCOL_CCTP", "attributes": {"@type": scen.CCTP_URL, "destination_domain": 0, "mint_recipient": [1, 2, "x"]}}}}))),
        pkt_line("recv", ftpd("transfer/channel-7/uusdc", 1000, ORB, _json.dumps({"orbiter": {"forwarding": {"protocol_id": "PROTOCOL_CCTP", "attributes": {"@type": scen.CCTP_URL, "destination_domain": 0, "mint_recipient": [1, 2, 300]}}}}))),
        pkt_line("recv", ftpd("transfer/channel-7/uusdc", 1000, ORB, _json.dumps({"orbiter": {"forwarding": {"protocol_id": "PROTOCOL_CCTP", "attributes": {"@type": scen.CCTP_URL, "destination_domain": 0, "mint_recipient": [1, 2, 3]}}}}))),
        # blockibc / fiat-tokenfactory corners (the minting denom)
        "env blacklist %s 1" % hx(addr(200)), orb_pkt("recv", 10 ** 6, cctp_fwd(domain=0), ok_fee), "env blacklist %s 0" % hx(addr(200)),   # the packet's sender
        "env blacklist %s 1" % hx(ORB_BYTES), orb_pkt("recv", 10 ** 6, cctp_fwd(domain=0), ok_fee), "env blacklist %s 0" % hx(ORB_BYTES),  # the receiver
        "env blacklist %s 1" % hx(addr(2)), orb_pkt("recv", 10 ** 6, int_fwd(U[2])), "env blacklist %s 0" % hx(addr(2)),                   # internal recipient
        "env ftfpause 1", orb_pkt("recv", 10 ** 6, cctp_fwd(domain=0), ok_fee), orb_pkt("recv", 10 ** 6, int_fwd(U[1]), ok_fee, denom="uother"), "env ftfpause 0",
        pkt_line("recv", ftpd("transfer/channel-7/uusdc", 1000, ORB, memo(int_fwd(U[1])), sender="not-bech32")),
        pkt_line("recv", ftpd("transfer/channel-7/uother", 1000, ORB, memo(int_fwd(U[1])), sender=" ")),
        pkt_line("recv", ftpd("transfer/channel-7/uother", 1000, "noble1qqqqqqqqqqqqqqqqqqqqqqqqqqqqqqqqqqqqqqq", "")),
        # the default Hyperlane hook: wrong domain, cap too low, nothing to charge
        "env hyp igp %s 2 10000000000 1 50000" % hx("uusdc"), orb_pkt("recv", 10 ** 6, hyp_fwd(tok, domain=1, gas=100000, fee=("uusdc", 10 ** 6))),
        "env hyp igp %s 1 10000000000 1 50000" % hx("uusdc"), orb_pkt("recv", 10 ** 6, hyp_fwd(tok, domain=1, gas=100000, fee=("uusdc", 5))),
        orb_pkt("recv", 10 ** 6, hyp_fwd(tok, domain=1, gas=100000, fee=("uother", 10 ** 6))),
        orb_pkt("recv", 10 ** 6, hyp_fwd(tok, domain=1, gas=100000)),
        "env hyp igp %s 1 0 1 50000" % hx("uusdc"), orb_pkt("recv", 10 ** 6, hyp_fwd(tok, domain=1, gas=100000, fee=("uusdc", 10 ** 6))),
        "env hyp noop",
        # queries with identifiers that do not exist
        "query IsProtocolPaused " + hx("PROTOCOL_NOPE"), "query IsActionPaused " + hx("ACTION_NOPE"), "query IsCrossChainPaused %s %s" % (hx("PROTOCOL_CCTP"), hx("x")),
        "query IsCrossChainPaused %s %s" % (hx("PROTOCOL_NOPE"), hx("1")), "query PausedCrossChains %s nopage" % hx("PROTOCOL_NOPE"),
        "query DispatchedCounts %s %s %s %s" % (hx("PROTOCOL_NOPE"), hx("channel-0"), hx("PROTOCOL_CCTP"), hx("0")),
        "query DispatchedCounts %s %s %s %s" % (hx("PROTOCOL_IBC"), hx("x"), hx("PROTOCOL_CCTP"), hx("0")),
        "query DispatchedCounts %s %s %s %s" % (hx("PROTOCOL_IBC"), hx("channel-0"), hx("PROTOCOL_NOPE"), hx("0")),
        "query DispatchedCounts %s %s %s %s" % (hx("PROTOCOL_IBC"), hx("channel-0"), hx("PROTOCOL_CCTP"), hx("x")),
        "query DispatchedAmounts %s %s %s %s %s" % (hx("PROTOCOL_IBC"), hx("channel-0"), hx("PROTOCOL_CCTP"), hx("0"), "-"),
        "query DispatchedAmounts %s %s %s %s %s" % (hx("PROTOCOL_NOPE"), hx("channel-0"), hx("PROTOCOL_CCTP"), hx("0"), hx("uusdc")),
        "query DispatchedCountsBySrc %s nopage" % hx("PROTOCOL_NOPE"), "query DispatchedAmountsByDst %s nopage" % hx("PROTOCOL_NOPE"),
        "query Params",
        orb_pkt("recv", 10 ** 6, int_fwd(U[1]), ok_fee),                                                 # control
    ]
    # a chain started from a genesis whose totals sit at the limits of their types: the statistics update overflows
    # (amounts: 256 bits, counts: 64 bits); the transfer must still be acknowledged, never abort
    big = 2 ** 256 - 1
    g = "pp=[];pcc=[];pa=[];params=0;amts=[1|%s|4|%s|%s|%d|%d,1|%s|2|30|%s|%d|7];cnts=[1|%s|4|%s|%d,1|%s|2|30|5]" % (
        hx("channel-0"), hx("noble"), hx("uusdc"), big, big - 5, hx("channel-0"), hx("uusdc"), big - 999, hx("channel-0"), hx("noble"), 2 ** 64 - 1, hx("channel-0"))
    lines += ["genload " + g,
              orb_pkt("recv", 1000, int_fwd(U[1])), orb_pkt("recv", 1000, int_fwd(U[1]), ok_fee), orb_pkt("recv", 6, int_fwd(U[1])),
              orb_pkt("recv", 999, cctp_fwd(domain=0)), orb_pkt("recv", 1000, cctp_fwd(domain=0)),
              orb_pkt("recv", 1000, int_fwd(U[1]), dst_chan="channel-1"), "export"]
    return lines

@prop
class C14(Base):
    id = "C14"
    assumptions = ["panics inside external modules on requests the orbiter validated, stack exhaustion and out-of-memory cannot be exhibited by the model",
                   "a panic raised below the wrapped application for a packet the middleware passed on unchanged is attributed to ibc-go, not to the orbiter",
                   "IgpSane: the gas paymasters and router gas defaults configured in the Hyperlane module cannot overflow 256 bits with a 64-bit gas limit (set by the paymaster's owner; the streams configure sane ones)"]

    def streams(self, tier, seed):
        r = Rng(seed * 1000 + 14)
        lines, toks = scen.base_setup()
        per = 400 if tier == "thorough" else 90
        s1 = scen.parse_lines_for(scen.payload_shapes(toks), r.fork(1), per * 2) + ["pure parse " + hx(m) for m in scen.EXTRA_MEMOS]
        s1 += ["pure parse " + hx(b) for b in scen.random_bytes_memos(r.fork(2), 300 if tier == "thorough" else 80)]
        s1 += ["pure ics20 " + hx(b) for b in scen.random_bytes_memos(r.fork(3), 100)]
        s3 = lines + c14_packets(r.fork(4), toks, per)
        return [Stream("S1-parser-mutations", s1, fields={"pure": ["_"]}, oracle=c14_oracle),
                Stream("S3-malformed-packets", s3, fields={"recv": ["ack", "src"]}, oracle=c14_oracle),
                Stream("S3-model-branches", model_branch_lines(toks), fields={"recv": ["ack", "src", "bal", "mv", "st"], "query": ["res", "out"], "genload": ["res", "st"], "export": ["st"]}, oracle=c14_oracle)] + \
            shared_streams(seed, toks, tier, {"recv": ["ack", "src"], "recvh": ["ack", "src"], "msg": ["res"], "query": ["res"]}, c14_oracle, skip=("spellings",))


# ----------------------------------------------------------------------------------------------- C02

def module_addrs():
    import os
    try:
        f = _json.load(open(os.path.join(os.environ.get("VERIF_CACHE", os.path.join(scen.VERIF, ".cache")), "facts.json")))
        import base64
        return {k: base64.b64decode(v).hex() for k, v in f["Bytes"].items()}
    except Exception:
        return {}


def c02_oracle(steps):
    out = []
    led = Ledger()
    mods = module_addrs()
    for s in steps:
        pre = dict(led.orb)
        led.apply(s)
        if s.op not in RECV_OPS or s.impl.get("ack") != "ok":
            continue
        p = packet_of(s.line)
        if not receiver_is_orbiter(p) or not p["payload"]:
            continue
        delta = parse_delta(s.impl.get("bal"))
        sup = parse_sup(s.impl.get("sup"))
        try:
            A = parse_go_int(p["ftpd"]["amount"])
        except Exception:
            continue
        dn = p["ftpd"]["denom"][len(p["src_port"] + "/" + p["src_chan"] + "/"):]
        # (i) per denom: what accounts gained/lost in total equals the change of supply
        per = {}
        for (a, d), v in delta.items():
            per[d] = per.get(d, 0) + v
        for d in set(per) | set(sup):
            if per.get(d, 0) != sup.get(d, 0):
                out.append((s.i, "conservation: accounts of %s changed by %d in total but supply changed by %d" % (d, per.get(d, 0), sup.get(d, 0))))
        # (ii) supply only shrinks, and only by the CCTP burn
        route = (p["payload"].get("forwarding") or {}).get("protocol_id")
        for d, v in sup.items():
            if v > 0 or (v < 0 and route not in ("PROTOCOL_CCTP", 2)):
                out.append((s.i, "supply: supply of %s changed by %d on route %s" % (d, v, route)))
        # (iii) the escrow released exactly the packet's coin
        esc = ("escrow:%s/%s" % (p["dst_port"], p["dst_chan"])).encode().hex()
        if delta.get((esc, dn), 0) != -A:
            out.append((s.i, "escrow: escrow released %d of %s, packet amount %d" % (-delta.get((esc, dn), 0), dn, A)))
        # (iv) the orbiter keeps nothing of the delivered coin; what it held before goes to the dust collector
        had = pre.get(dn, 0)
        fee_rcpts = set()
        for act in p["payload"].get("pre_actions") or []:
            try:
                for fi in act["attributes"].get("fees_info") or []:
                    a = decode_addr(fi.get("recipient", ""))
                    if a:
                        fee_rcpts.add(a.hex())
            except Exception:
                pass
        if delta.get((ORBHEX, dn), 0) != -had:
            out.append((s.i, "orbiter: orbiter balance of %s changed by %d, pre-existing %d" % (dn, delta.get((ORBHEX, dn), 0), had)))
        if DUSTHEX not in fee_rcpts and delta.get((DUSTHEX, dn), 0) != had:
            out.append((s.i, "dust: dust collector received %d of %s, pre-existing orbiter balance %d" % (delta.get((DUSTHEX, dn), 0), dn, had)))
        # (v) nobody else: only fee recipients and the route's account
        allowed = {esc, ORBHEX, DUSTHEX}
        for act in p["payload"].get("pre_actions") or []:
            try:
                for fi in act["attributes"].get("fees_info") or []:
                    a = decode_addr(fi.get("recipient", ""))
                    if a:
                        allowed.add(a.hex())
            except Exception:
                pass
        attrs = (p["payload"].get("forwarding") or {}).get("attributes") or {}
        if route in ("PROTOCOL_INTERNAL", 4):
            a = decode_addr(attrs.get("recipient", ""))
            if a:
                allowed.add(a.hex())
        if route in ("PROTOCOL_HYPERLANE", 3):
            allowed.add(mods.get("warpModuleAddress", ""))
        allowed.add("swap-pool-account-01".encode().hex())
        for (a, d), v in delta.items():
            if a not in allowed:
                out.append((s.i, "bystander: account %s changed by %d %s" % (a, v, d)))
        # (vi) the outgoing amount is strictly positive: what left towards fees is strictly less than A
        gained = sum(v for (a, d), v in delta.items() if d == dn and v > 0 and a not in (DUSTHEX,))
        if DUSTHEX in fee_rcpts:
            gained += delta.get((DUSTHEX, dn), 0) - had
        burned = -sup.get(dn, 0)
        if gained + burned != A:
            out.append((s.i, "split: fee credits + outgoing = %d, delivered %d" % (gained + burned, A)))
    return out


@prop
class C02(Base):
    id = "C02"
    assumptions = C01.assumptions + ["the Hyperlane mailbox uses a no-op post-dispatch hook (a charging hook is reported under C11)"]

    def streams(self, tier, seed):
        f = {"recv": ["ack", "bal", "sup", "mv"], "recvh": ["ack", "bal", "sup"]}
        _, toks = scen.base_setup()
        return history_stream("S3-ledger", 2, tier, seed, 200, 700, f, c02_oracle, p_admin=6, p_deposit=10, p_query=0, p_reimport=0) + \
            [Stream("S3-bridge-refusals", c03_natural_lines(Rng(seed), toks), fields=f, oracle=lambda st: c02_oracle(st) + c01_oracle(st)),
             Stream("S3-statistics-at-the-limit", stats_limit_lines(toks), fields=f, oracle=lambda st: c02_oracle(st) + c01_oracle(st)),
             Stream("S3-dropped-branches", dry_lines(Rng(seed * 1000 + 102), toks, self.n(tier, 80, 300))),
             Stream("S3-receiver-and-memo-grid", c01_targeted(Rng(seed * 1000 + 2)), fields=f, oracle=lambda st: c02_oracle(st) + c01_oracle(st))] + \
            shared_streams(seed, toks, tier, f, lambda st: c02_oracle(st) + c01_oracle(st), skip=("receiver-and-memo-grid", "bridge-refusals", "statistics-at-the-limit", "dropped-branches"))


# ----------------------------------------------------------------------------------------------- C03

FAULT_SITES = ["bank.SendCoinsFromModuleToModule", "app.OnRecvPacket", "bank.SendCoins", "event.Emit", "cctp.DepositForBurn", "cctp.DepositForBurnWithCaller",
               "warp.Token", "warp.RemoteTransfer", "bank.Send"]


def c03_fault_lines(r, toks, pairs=False):
    lines, _ = scen.base_setup()
    tok = toks[0][0]
    shapes = []
    for fwd in [cctp_fwd(domain=0), cctp_fwd(domain=1, caller=b"\x05" * 32), int_fwd(U[1]), hyp_fwd(tok, domain=1)]:
        for nfee in (0, 1, 3):
            acts = None if nfee == 0 else [fee_action([(U[2 + i], "b", 100 + i) for i in range(nfee)])]
            shapes.append((fwd, acts))
    for fwd, acts in shapes:
        for site in FAULT_SITES:
            for k in (1, 2, 3, 4):
                if site not in ("bank.SendCoins", "event.Emit") and k > 1:
                    continue
                # a pre-existing balance so that the sweep is a real call
                lines.append("deposit %s %s 5" % (hx(ORB_BYTES), hx("uusdc")))
                lines.append("fault %s %d" % (site, k))
                lines.append(orb_pkt("recvh", 10 ** 6, fwd, acts))
        if pairs:
            for a in FAULT_SITES[:4]:
                for b in FAULT_SITES[2:]:
                    lines.append("deposit %s %s 5" % (hx(ORB_BYTES), hx("uusdc")))
                    lines.append("fault %s 1" % a)
                    lines.append("fault %s 2" % b)
                    lines.append(orb_pkt("recvh", 10 ** 6, fwd, acts))
        # unfaulted control
        lines.append(orb_pkt("recvh", 10 ** 6, fwd, acts))
    return lines


def c03_natural_lines(r, toks):
    lines, _ = scen.base_setup()
    tok = toks[0][0]
    ok_fee = [fee_action([(U[2], "b", 100)])]
    lines += [
        orb_pkt("recv", 10 ** 6, int_fwd(b32(DUST_BYTES)), ok_fee),                  # blocked internal recipient
        orb_pkt("recv", 10 ** 6, int_fwd(U[1]), [fee_action([(b32(DUST_BYTES), "b", 100)])]),  # fee to a blocked account is a plain SendCoins
        # the bank's send-enabled switch of a denomination governs user sends (the internal route is one): nothing else of a transfer —
        # the sweep of what sits on the orbiter account, the fees, the bridge routes — asks it
        "env sendenabled %s 0" % hx("uusdc"), "deposit %s %s 3" % (hx(ORB_BYTES), hx("uusdc")),
        orb_pkt("recv", 10 ** 6, cctp_fwd(domain=0), ok_fee), "deposit %s %s 1" % (hx(ORB_BYTES), hx("uusdc")),
        orb_pkt("recv", 10 ** 6, hyp_fwd(tok, domain=1), ok_fee), "deposit %s %s 1" % (hx(ORB_BYTES), hx("uusdc")),
        orb_pkt("recv", 10 ** 6, int_fwd(U[1]), ok_fee), orb_pkt("recv", 10 ** 6, cctp_fwd(domain=0), None), orb_pkt("recvh", 10 ** 6, cctp_fwd(domain=0), ok_fee),
        orb_pkt("recv", 10 ** 6, int_fwd(U[1]), None, denom="uother"),
        "env sendenabled %s 1" % hx("uusdc"), orb_pkt("recv", 10 ** 6, int_fwd(U[1]), ok_fee),
        "env ftfpause 1", orb_pkt("recv", 10 ** 6, cctp_fwd(domain=0), ok_fee), "env ftfpause 0",
        "env cctppause burn 1", orb_pkt("recv", 10 ** 6, cctp_fwd(domain=0), ok_fee), "env cctppause burn 0",
        "env cctppause send 1", orb_pkt("recv", 10 ** 6, cctp_fwd(domain=0), ok_fee), "env cctppause send 0",
        "env burnlimit 999", orb_pkt("recv", 10 ** 6, cctp_fwd(domain=0), ok_fee), orb_pkt("recv", 999 + 10, cctp_fwd(domain=0), [fee_action([(U[2], "a", 10)])]),
        "env burnlimit 1000000000000000000000000",
        orb_pkt("recv", 10 ** 6, cctp_fwd(domain=9), ok_fee),                        # no token messenger
        orb_pkt("recv", 10 ** 6, cctp_fwd(domain=0, mint=b"\x00" * 32), ok_fee),       # zero mint recipient
        orb_pkt("recv", 10 ** 6, cctp_fwd(domain=0, mint=b"\x01" * 20), ok_fee),       # short mint recipient (fails after the burn)
        orb_pkt("recv", 10 ** 6, cctp_fwd(domain=0, caller=b"\x01" * 20), ok_fee),
        orb_pkt("recv", 10 ** 6, hyp_fwd(tok, domain=77), ok_fee),                   # unenrolled router
        orb_pkt("recv", 10 ** 6, hyp_fwd(tok, domain=1), ok_fee, denom="uother"),    # token of another denom
        "env blacklist %s 1" % hx(USERS[2]), orb_pkt("recv", 10 ** 6, cctp_fwd(domain=0), ok_fee), "env blacklist %s 0" % hx(USERS[2]),
        "env recvenabled 0", orb_pkt("recv", 10 ** 6, int_fwd(U[1]), ok_fee), "env recvenabled 1",
        orb_pkt("recv", 2 * 10 ** 30 + 1, int_fwd(U[1]), ok_fee),                    # more than the escrow holds
        orb_pkt("recv", 10 ** 6, int_fwd(U[1]), ok_fee),                             # control
    ]
    # fees that leave nothing (or exactly one unit) to forward, on every route: all-or-nothing at the boundary
    for rt in (int_fwd(U[1]), cctp_fwd(domain=0), hyp_fwd(tok, domain=1)):
        for A, es in [(10 ** 6, [(U[2], "b", 10000)]), (10 ** 6, [(U[2], "b", 5000), (U[3], "b", 5000)]), (1000, [(U[2], "a", 1000)]), (1000, [(U[2], "a", 999)]),
                      (1000, [(U[2], "a", 1001)]), (10000, [(U[2], "b", 1), (U[3], "a", 9999)]), (10000, [(U[2], "b", 1), (U[3], "a", 9998)]),
                      (1000, [(ORB, "a", 10)]), (1000, [(ORB, "b", 100), (U[2], "a", 5)])]:
            lines.append(orb_pkt("recv", A, rt, [fee_action(es)]))
    return lines


def c03_oracle(steps):
    out = rollback_oracle(steps)
    pending = []
    for s in steps:
        if s.op == "fault" and s.impl_raw == "ok":
            f = s.line.split(" ")
            if f[1] != "clear":
                pending.append((f[1], int(f[2])))
        elif s.op == "recvh":
            calls = [] if s.impl.get("calls") in (None, "-") else s.impl["calls"].split(",")
            fired = [(site, k) for site, k in pending if calls.count(site) >= k]
            if fired and s.impl.get("ack") == "ok":
                out.append((s.i, "swallowed: call %s #%d failed but the acknowledgement is a success" % fired[0]))
            pending = []
    return out


def c03_panic_lines(toks):
    """an external module that panics instead of returning an error: the transaction aborts (or the packet is refused) — the
    panic must never be turned into a success acknowledgement with part of the work done"""
    lines, _ = scen.base_setup()
    tok = toks[0][0]
    for fwd in [cctp_fwd(domain=0), cctp_fwd(domain=1, caller=b"\x05" * 32), int_fwd(U[1]), hyp_fwd(tok, domain=1)]:
        for acts in (None, [fee_action([(U[2], "b", 100), (U[3], "a", 9)])]):
            for site in FAULT_SITES:
                for k in (1, 2):
                    if site not in ("bank.SendCoins", "event.Emit") and k > 1:
                        continue
                    lines.append("deposit %s %s 5" % (hx(ORB_BYTES), hx("uusdc")))
                    lines.append("fault %s %d panic" % (site, k))
                    lines.append(orb_pkt("recvh", 10 ** 6, fwd, acts))
    return lines


@prop
class C03(Base):
    id = "C03"
    assumptions = C01.assumptions + ["fault injection is at the external boundaries of the harness-wired stack (same code, decorators at bank / ICS-20 / CCTP / warp / event service)"]

    def streams(self, tier, seed):
        r = Rng(seed * 1000 + 3)
        _, toks = scen.base_setup()
        f = {"recvh": ["ack", "bal", "sup", "st", "calls"], "recv": ["ack", "bal", "sup", "mv", "st"]}
        return [Stream("S2-fault-enumeration", c03_fault_lines(r, toks, pairs=(tier == "thorough")), fields=f, oracle=c03_oracle),
                Stream("S3-natural-failures", c03_natural_lines(r, toks), fields=f, oracle=c03_oracle),
                Stream("S3-statistics-at-the-limit", stats_limit_lines(toks), fields=f, oracle=c03_oracle),
                Stream("S2-panicking-externals", c03_panic_lines(toks), model=False, oracle=c03_oracle, note="implementation only: the model's fault oracle returns errors"),
                Stream("S3-dropped-branches", dry_lines(Rng(seed * 1000 + 103), toks, self.n(tier, 80, 300))),
                Stream("S3-receiver-and-memo-grid", c01_targeted(Rng(seed * 1000 + 3)), fields=f, oracle=lambda st: c03_oracle(st) + c01_oracle(st))] + \
            shared_streams(seed, toks, tier, f, lambda st: c03_oracle(st) + c01_oracle(st), skip=("receiver-and-memo-grid", "bridge-refusals", "statistics-at-the-limit", "dropped-branches"))


# ----------------------------------------------------------------------------------------------- C05

def expected_hreq(p):
    """the request the bridge must receive, recomputed from the payload and the coin left after the fees"""
    fw = p["payload"]["forwarding"]
    a = fw["attributes"]
    import base64
    orb_h = hx(ORB)

    def bz(x):
        return base64.b64decode(x) if x else b""
    if a["@type"] == scen.CCTP_URL:
        mint, caller = bz(a.get("mint_recipient")), bz(a.get("destination_caller"))
        base = "from=%s:amount={amt}:domain=%d:mint=%s:burn={dn}" % (orb_h, a.get("destination_domain", 0), hx(mint))
        if caller:
            return "cctp.DepositForBurnWithCaller:" + base + ":caller=" + hx(caller)
        return "cctp.DepositForBurn:" + base
    if a["@type"] == scen.INT_URL:
        return "bank.Send:from=%s:to=%s:coins={dn}={amt}" % (orb_h, hx(a.get("recipient", "")))
    if a["@type"] == scen.HYP_URL:
        hook = bz(a.get("custom_hook_id"))
        fee = a.get("max_fee") or {}
        return "warp.RemoteTransfer:sender=%s:token=%s:domain=%d:recipient=%s:amount={amt}:hook=%s:gas=%s:feedenom=%s:feeamt=%s:meta=%s" % (
            orb_h, bz(a.get("token_id")).hex(), a.get("destination_domain", 0), bz(a.get("recipient")).hex(), hook.hex() if hook else "nil",
            parse_go_int(a.get("gas_limit", "0")), hx(fee.get("denom", "")), parse_go_int(fee.get("amount", "0")), hx(a.get("custom_hook_metadata", "")))
    return None


KIND_OF_PROTO = {"PROTOCOL_CCTP": scen.CCTP_URL, "PROTOCOL_HYPERLANE": scen.HYP_URL, "PROTOCOL_INTERNAL": scen.INT_URL, 2: scen.CCTP_URL, 3: scen.HYP_URL, 4: scen.INT_URL}


def c05_oracle(steps):
    out = []
    for s in steps:
        if s.op == "msgh" and " ReplaceDepositForBurn " in s.line:
            f = s.line.split(" ")
            signer = unhx(f[2]).decode("utf-8", "replace")
            if signer == AUTHORITY:
                exp = "cctp.ReplaceDepositForBurn:from=%s:msg=%s:att=%s:caller=%s:mint=%s" % (hx(ORB), f[3], f[4], f[5], f[6])
                if s.impl.get("hreq") != exp:
                    out.append((s.i, "replace-request: CCTP received %s, expected %s" % (s.impl.get("hreq", "")[:200], exp[:200])))
            elif s.impl.get("hreq") != "-":
                out.append((s.i, "replace-request: a non-authority signer reached CCTP"))
            continue
        if s.op != "recvh" or s.impl.get("ack") != "ok":
            continue
        p = packet_of(s.line)
        if not receiver_is_orbiter(p) or not p["payload"] or not isinstance(p["payload"].get("forwarding"), dict):
            continue
        fw = p["payload"]["forwarding"]
        attrs = fw.get("attributes") or {}
        pid = fw.get("protocol_id")
        if KIND_OF_PROTO.get(pid) != attrs.get("@type"):
            out.append((s.i, "mismatch-accepted: protocol %s executed with attributes %s" % (pid, attrs.get("@type"))))
            continue
        reqs = [x for x in (s.impl.get("hreq") or "-").split(";") if not x.startswith("swap:")]
        if len(reqs) != 1:
            out.append((s.i, "route: %d bridge requests for one transfer: %s" % (len(reqs), s.impl.get("hreq", "")[:200])))
            continue
        if any(isinstance(a, dict) and a.get("id") in ("ACTION_SWAP", 2) for a in (p["payload"].get("pre_actions") or [])):
            continue      # a denomination-changing test controller ran: the amount and denomination forwarded are C06's subject
        exp = expected_hreq(p)
        if exp is None:
            continue
        # the coin left after the actions: from the request itself the amount is whatever it says; check it against
        # the ledger: delivered minus fee credits
        delta = parse_delta(s.impl.get("bal"))
        A = parse_go_int(p["ftpd"]["amount"])
        dn = p["ftpd"]["denom"][len(p["src_port"] + "/" + p["src_chan"] + "/"):]
        fee_rcpts = set()
        for act in p["payload"].get("pre_actions") or []:
            for fi in (act.get("attributes") or {}).get("fees_info") or []:
                a = decode_addr(fi.get("recipient", ""))
                if a:
                    fee_rcpts.add(a.hex())
        route_acct = None
        if attrs.get("@type") == scen.INT_URL:
            ra = decode_addr(attrs.get("recipient", ""))
            route_acct = ra.hex() if ra else None
        fees_paid = 0
        for (a, d), v in delta.items():
            if d == dn and v > 0 and a in fee_rcpts and a != route_acct:
                fees_paid += v
        if route_acct in fee_rcpts:
            # the recipient is also a fee recipient: its gain is fee + forwarded; use the request's own amount
            fees_paid = None
        got = reqs[0]
        if fees_paid is not None:
            want = exp.format(amt=A - fees_paid, dn=hx(dn))
            if got != want:
                out.append((s.i, "request: bridge received %s, payload says %s" % (got[:300], want[:300])))
    return out


def c05_lines(r, toks, n):
    lines, _ = scen.base_setup()
    tok, tdenom = toks[0]
    # every field varied independently, pairwise distinct values
    for i in range(n):
        k = r.below(3)
        amount = r.choice([10 ** 6, 12345, 999983, 10 ** 12])
        acts = [fee_action([(U[2], "b", r.choice([100, 250])), (U[3], "a", r.choice([7, 11]))])] if r.chance(1, 2) else None
        if k == 0:
            fwd = cctp_fwd(domain=r.choice(CCTP_DOMAINS), mint=r.bytes(32), caller=r.choice([None, r.bytes(32)]), passthrough=None)
            lines.append(orb_pkt("recvh", amount, fwd, acts))
        elif k == 1:
            fwd = int_fwd(r.choice(U[:6]))
            lines.append(orb_pkt("recvh", amount, fwd, acts, denom=r.choice(DENOMS)))
        else:
            fwd = hyp_fwd(tok, domain=r.choice([1, 2]), recipient=r.bytes(32), hook=None, meta=r.choice([None, "0x" + r.bytes(3).hex()]),
                          gas=r.choice([None, 0, 77, 50001]), fee=r.choice([None, ("uusdc", 0), ("uusdc", 13), ("stake", 5)]))
            lines.append(orb_pkt("recvh", amount, fwd, acts, denom=tdenom))
    # mint recipients and destination callers of every shape (short, long, all zero): the request carries them as written, with the
    # caller variant of the CCTP message exactly when a caller was given; what CCTP refuses is refused
    for caller in (b"\x01", b"\x07" * 20, b"\x09" * 31, b"\x0a" * 33, b"\x0b" * 64, bytes(32), bytes(31) + b"\x01", bytes(20)):
        for op in ("recvh", "recv"):
            lines.append(orb_pkt(op, 10 ** 6, cctp_fwd(domain=0, mint=r.bytes(32), caller=caller)))
    for mint in (b"\x01", b"\x07" * 20, b"\x09" * 31, b"\x0a" * 33, bytes(32), bytes(31) + b"\x01", bytes(20)):
        for op in ("recvh", "recv"):
            lines.append(orb_pkt(op, 10 ** 6, cctp_fwd(domain=0, mint=mint, caller=r.choice([None, r.bytes(32)]))))
    # the same for the Hyperlane addresses: token, recipient and hook of every length (short, exact, one more, a valid value
    # followed by more bytes, textual "0x…" forms): only exact ones are used, and the request carries all of them
    hook32 = b"\x5a" * 32
    shapes = lambda v: [v[:1], v[:20], v[:31], v, v + b"\x00", v + b"\x01" * 32, bytes(12) + v[:20], bytes(32) + v[:20], ("0x" + v.hex()).encode(), ("0x" + v.hex()).encode()[:32], b""]
    for op in ("recvh", "recv"):
        for t_ in shapes(tok):
            lines.append(orb_pkt(op, 10 ** 6, hyp_fwd(t_, domain=1, recipient=r.bytes(32)), denom=tdenom))
        for rc_ in shapes(b"\x21" * 12 + addr(3)):
            lines.append(orb_pkt(op, 10 ** 6, hyp_fwd(tok, domain=1, recipient=rc_), denom=tdenom))
        for hk_ in shapes(hook32) + shapes(bytes(32)):
            lines.append(orb_pkt(op, 10 ** 6, hyp_fwd(tok, domain=1, recipient=r.bytes(32), hook=hk_), denom=tdenom))
    # gas limits of every sign and width (no rule bounds them): the request carries the payload's number; first with the no-op hook
    # (the number is not used, the transfer succeeds), then — below — under a gas paymaster with coins for the payment at hand
    gases = [-1, -40000, -99999, -100000, -100001, -2 ** 63, 2 ** 63 - 1, 2 ** 63, 2 ** 64 - 1, 2 ** 64, 2 ** 128, 2 ** 255, 2 ** 256 - 1, 1, 99999]
    for g_ in gases:
        for op in ("recvh", "recv"):
            lines.append(orb_pkt(op, 10 ** 6, hyp_fwd(tok, domain=1, recipient=r.bytes(32), gas=g_, fee=("uusdc", 10 ** 6)), denom=tdenom))
    # under a gas paymaster the payment cannot be covered by the transferred coin (all of it is forwarded): refused, whatever the number
    lines.append("env hyp igp %s 1 10000000000 1 100000" % hx("uusdc"))
    for g_ in gases:
        for op in ("recvh", "recv"):
            lines.append(orb_pkt(op, 10 ** 6, hyp_fwd(tok, domain=1, recipient=r.bytes(32), gas=g_, fee=("uusdc", 10 ** 6)), denom=tdenom))
    lines.append("env hyp noop")
    # hooks the payload names itself: hyperlane-cosmos resolves them by type (bytes 20..24) and number (last eight bytes) only —
    # the no-op hook of the set-up, gas paymasters created earlier (whatever the mailbox default is now), and ones that do not exist
    def hook_id(ty, n_, prefix=b"router_post_dispatch"):
        return prefix.ljust(20, b"\x00")[:20] + ty.to_bytes(4, "big") + n_.to_bytes(8, "big")
    lines.append("env hyp igp %s 1 10000000000 1 50000" % hx("uusdc"))
    lines.append("env hyp igp %s 1 10000000000 2 1000" % hx("uusdc"))
    lines.append("env hyp igp %s 2 10000000000 1 50000" % hx("uusdc"))
    lines.append("env hyp noop")
    for ty in (0, 1, 3, 4, 5, 2 ** 32 - 1):
        for n_ in (0, 1, 2, 3, 4, 2 ** 64 - 1):
            for pre in (b"router_post_dispatch", b"", b"\xff" * 20):
                if pre != b"router_post_dispatch" and (ty not in (0, 4) or n_ > 2):
                    continue
                for op in ("recvh", "recv"):
                    lines.append(orb_pkt(op, 10 ** 6, hyp_fwd(tok, domain=1, recipient=r.bytes(32), hook=hook_id(ty, n_, pre), gas=100000, fee=("uusdc", 10 ** 6)), denom=tdenom))
    lines.append(orb_pkt("recv", 10 ** 6, hyp_fwd(tok, domain=1, recipient=r.bytes(32), hook=hook_id(4, 2), gas=100000, fee=("uusdc", 5)), denom=tdenom))
    lines.append(orb_pkt("recv", 10 ** 6, hyp_fwd(tok, domain=1, recipient=r.bytes(32), hook=hook_id(4, 3), gas=100000, fee=("uusdc", 10 ** 6)), denom=tdenom))
    # every (protocol id, attribute type) combination, symbolic and numeric ids, out of range numbers
    attr_sets = [cctp_fwd(domain=0)["attributes"], int_fwd(U[1])["attributes"], hyp_fwd(tok, domain=1)["attributes"]]
    for pid in PROTO_NAMES + ["PROTOCOL_UNSUPPORTED", -1, 0, 1, 2, 3, 4, 5, 6, 7, 2 ** 31 - 1]:
        for a in attr_sets:
            lines.append(orb_pkt("recvh", 10 ** 6, {"protocol_id": pid, "attributes": a}))
    for aid in ACTION_NAMES + ["ACTION_UNSUPPORTED", -1, 0, 1, 2, 3, 4, 99]:
        act = fee_action([(U[2], "b", 100)])
        act["id"] = aid
        lines.append(orb_pkt("recv", 10 ** 6, int_fwd(U[1]), [act]))
    # ReplaceDepositForBurn through the recording message server
    for signer in (AUTHORITY, U[0], ORB, ""):
        for _ in range(3):
            lines.append("msgh ReplaceDepositForBurn %s %s %s %s %s" % (hx(signer), hx(r.bytes(r.range(1, 40))), hx(r.bytes(r.range(1, 70))), hx(r.bytes(32)), hx(r.bytes(32))))
    # a well-formed original CCTP message (header 116 bytes + burn message 132 bytes) with every combination of present, empty
    # and all-zero replacement fields: the fields must reach CCTP exactly as the authority wrote them
    def be(n, k):
        return n.to_bytes(k, "big")
    body = be(0, 4) + b"\x11" * 32 + b"\x22" * 32 + be(12345, 32) + b"\x33" * 32
    orig = be(0, 4) + be(4, 4) + be(0, 4) + be(7, 8) + b"\x44" * 32 + b"\x55" * 32 + b"\x66" * 32 + body
    for caller in (b"", b"\x77" * 32, bytes(32)):
        for mint in (b"", b"\x88" * 32, bytes(32)):
            lines.append("msgh ReplaceDepositForBurn %s %s %s %s %s" % (hx(AUTHORITY), hx(orig), hx(r.bytes(65)), hx(caller), hx(mint)))
    return lines


def c05_unrouted_oracle(steps):
    out = c05_oracle(steps)
    for s in steps:
        if s.op in RECV_OPS and s.impl.get("ack") == "ok":
            p = packet_of(s.line)
            if not p["payload"]:
                continue
            for act in p["payload"].get("pre_actions") or []:
                if isinstance(act, dict) and act.get("id") not in ("ACTION_FEE", 1) and s.op == "recv":
                    out.append((s.i, "unrouted-action: action %r executed though the chain wires only the fee controller" % (act.get("id"),)))
            pid = (p["payload"].get("forwarding") or {}).get("protocol_id")
            if pid not in ("PROTOCOL_CCTP", "PROTOCOL_HYPERLANE", "PROTOCOL_INTERNAL", 2, 3, 4):
                out.append((s.i, "unrouted-protocol: protocol %r used as outgoing route" % (pid,)))
    return out


@prop
class C05(Base):
    id = "C05"
    assumptions = C03.assumptions

    def streams(self, tier, seed):
        r = Rng(seed * 1000 + 5)
        _, toks = scen.base_setup()
        f = {"recvh": ["ack", "hreq"], "recv": ["ack", "req"], "msgh": ["res", "hreq"]}
        return [Stream("S2-recorded-requests", c05_lines(r, toks, self.n(tier, 150, 1500)), fields=f, oracle=c05_unrouted_oracle)] + \
            history_stream("S3-typed-events", 5, tier, seed, 120, 500, {"recv": ["ack", "req"]}, None, n_hist_quick=1, n_hist_thorough=4, p_admin=5, p_deposit=3, p_query=0, p_reimport=0) + \
            shared_streams(seed, toks, tier, f, c05_unrouted_oracle, skip=("attribute-shapes",))


# ----------------------------------------------------------------------------------------------- C06

POOL = "swap-pool-account-01".encode()


def swap_action():
    a = fee_action([])
    a["id"] = "ACTION_SWAP"
    return a


def c06_lines(r, n):
    lines, toks = scen.base_setup()
    lines.append("deposit %s %s %d" % (hx(POOL), hx("uother"), 10 ** 30))
    lines.append("deposit %s %s %d" % (hx(POOL), hx("uusdc"), 10 ** 30))
    fee1 = fee_action([(U[2], "b", 1000)])
    fee2 = fee_action([(U[3], "a", 777), (U[2], "b", 50)])
    orders = [[fee1], [swap_action()], [fee1, swap_action()], [swap_action(), fee1], [swap_action(), fee2], [fee1, fee2], [swap_action(), swap_action()],
              [fee1, swap_action(), fee2], [swap_action(), fee1, swap_action()], []]
    rules = [(1, 1, "uother"), (2, 1, "uother"), (1, 3, "uother"), (1, 1, "uusdc"), (3, 2, "uusdc"), (0, 1, "uother"), (1, 10 ** 7, "uother")]
    routes = [int_fwd(U[1]), cctp_fwd(domain=0)]
    # the Hyperlane route, with a maximum fee in the running denomination, in another one, and none: the request carries the running amount
    tokd = {d: t for (t, d) in toks}
    for mf in (None, ("uusdc", 5000), ("uusdc", 0), ("uother", 7)):
        for acts in ([], [fee1], [fee1, fee2]):
            lines.append(orb_pkt("recvh", 10 ** 6, hyp_fwd(tokd["uusdc"], domain=1, fee=mf), acts, denom="uusdc"))
            lines.append(orb_pkt("recv", 10 ** 6, hyp_fwd(tokd["uusdc"], domain=1, fee=mf), acts, denom="uusdc"))
    lines.append("swapctl 2 1 " + hx("uother"))
    for mf in (None, ("uother", 5000), ("uusdc", 5000)):
        lines.append(orb_pkt("recvh", 10 ** 6, hyp_fwd(tokd["uother"], domain=1, fee=mf), [swap_action(), fee1], denom="uusdc"))
    for num, den, dn in rules:
        lines.append("swapctl %d %d %s" % (num, den, hx(dn)))
        for acts in orders:
            for rt in routes:
                for amt in (10 ** 6, 10001, 7):
                    lines.append(orb_pkt("recvh", amt, rt, acts, denom=r.choice(["uusdc", "uusdc", "uother"])))
    # coins of the denomination a swap pays out already sit on the orbiter account (they are not swept: the sweep is for the
    # transferred denomination): the forwarder must send exactly what the last action left, so these transfers are refused
    for (num, den, out_dn, in_dn) in [(5, 2, "uother", "uusdc"), (1, 1, "uusdc", "uother"), (2, 1, "uother", "uusdc")]:
        lines.append("swapctl %d %d %s" % (num, den, hx(out_dn)))
        lines.append("deposit %s %s 7" % (hx(ORB_BYTES), hx(out_dn)))
        for acts in ([swap_action()], [swap_action(), fee1], [fee1, swap_action()]):
            for rt in routes:
                lines.append(orb_pkt("recvh", 10 ** 6, rt, acts, denom=in_dn))
        # a transfer of that denomination sweeps it again
        lines.append(orb_pkt("recvh", 1000, int_fwd(U[1]), [], denom=out_dn))
    # the dispatcher itself (component level, below the memo parser): the same rules hold for a payload handed to it directly
    lines.append("swapctl 2 1 " + hx("uother"))
    for acts in orders + [[fee1, fee1], [fee1, swap_action(), fee1], [swap_action(), fee2, swap_action()], [fee2, fee1, fee2]]:
        for rt in routes:
            lines.append("dispatchh %d %s %s" % (10 ** 6, hx("uusdc"), hx(memo(rt, acts))))
    fwj = _json.dumps(int_fwd(U[1]))
    for m in ['{"orbiter":{"pre_actions":[null],"forwarding":%s}}' % fwj, '{"orbiter":{"pre_actions":[{"id":"ACTION_FEE"}],"forwarding":%s}}' % fwj,
              '{"orbiter":{"pre_actions":[{"id":"ACTION_FEE","attributes":null}],"forwarding":%s}}' % fwj, '{"orbiter":{"forwarding":{"protocol_id":"PROTOCOL_INTERNAL"}}}',
              '{"orbiter":{"forwarding":null}}', '{"orbiter":null}', '{}',
              '{"orbiter":{"forwarding":{"protocol_id":"PROTOCOL_CCTP","attributes":%s}}}' % _json.dumps(int_fwd(U[1])["attributes"]),
              '{"orbiter":{"forwarding":{"protocol_id":"PROTOCOL_IBC","attributes":%s}}}' % _json.dumps(int_fwd(U[1])["attributes"]),
              '{"orbiter":{"forwarding":{"protocol_id":9,"attributes":%s}}}' % _json.dumps(int_fwd(U[1])["attributes"])]:
        lines.append("dispatchh %d %s %s" % (1000, hx("uusdc"), hx(m)))
    lines.append("dispatchh %d %s %s" % (10 ** 6, hx("uusdc"), hx("{\"orbiter\":{\"pre_actions\":[]}}")))
    lines.append("dispatchh %d %s %s" % (10 ** 6, hx("uusdc"), hx("{\"orbiter\":{\"pre_actions\":[{\"id\":7}],\"forwarding\":" + _json.dumps(int_fwd(U[1])) + "}}")))
    for _ in range(n):
        num, den, dn = r.choice(rules)
        lines.append("swapctl %d %d %s" % (num, den, hx(dn)))
        acts = r.choice(orders)
        if r.chance(1, 8):
            lines.append("deposit %s %s %d" % (hx(ORB_BYTES), hx(dn), r.range(1, 50)))
        lines.append(orb_pkt("recvh", scen.rand_amount(r) % 10 ** 20 + 1, r.choice(routes), acts, denom=r.choice(DENOMS)))
    return lines


def c06_oracle(steps):
    """each action sees the coin left by its predecessor; the forwarder sends the coin left by the last action"""
    out = []
    rule = (1, 1, "uother")
    for s in steps:
        if s.op == "swapctl" and s.impl_raw == "ok":
            f = s.line.split(" ")
            rule = (int(f[1]), int(f[2]), unhx(f[3]).decode())
        if s.op == "dispatchh":
            try:
                doc = _json.loads(unhx(s.line.split(" ")[3]).decode())
                ids = [a.get("id") for a in (doc.get("orbiter") or {}).get("pre_actions") or [] if isinstance(a, dict)]
            except Exception:
                continue
            if len(set(ids)) != len(ids) and s.impl.get("res") == "ok":
                out.append((s.i, "duplicate: the dispatcher executed a payload repeating an action identifier: %s" % ids))
            continue
        if s.op != "recvh":
            continue
        p = packet_of(s.line)
        if not p["payload"] or not receiver_is_orbiter(p):
            continue
        acts = p["payload"].get("pre_actions") or []
        ids = [a.get("id") for a in acts if isinstance(a, dict)]
        if len(set(ids)) != len(ids):
            if s.impl.get("ack") == "ok":
                out.append((s.i, "duplicate: a payload repeating an action identifier was executed: %s" % ids))
            continue
        if s.impl.get("ack") != "ok":
            continue
        amt = parse_go_int(p["ftpd"]["amount"])
        dn = p["ftpd"]["denom"][len(p["src_port"] + "/" + p["src_chan"] + "/"):]
        expect_swaps = []
        fee_total = {}
        for a in acts:
            if a.get("id") == "ACTION_SWAP":
                o = amt * rule[0] // rule[1]
                expect_swaps.append("swap:in=%s:%d:out=%s:%d" % (hx(dn), amt, hx(rule[2]), o))
                amt, dn = o, rule[2]
            else:
                tot = 0
                for fi in a["attributes"]["fees_info"]:
                    if "basis_points" in fi:
                        v = amt * fi["basis_points"]["value"] // 10000
                    else:
                        v = int(fi["amount"]["value"])
                    if v > 0:
                        tot += v
                        ra = decode_addr(fi["recipient"]).hex()
                        fee_total[(ra, dn)] = fee_total.get((ra, dn), 0) + v
                amt -= tot
        reqs = (s.impl.get("hreq") or "-").split(";")
        got_swaps = [x for x in reqs if x.startswith("swap:")]
        if got_swaps != expect_swaps:
            out.append((s.i, "order: swap controller saw %s, payload order implies %s" % (got_swaps, expect_swaps)))
        bridge = [x for x in reqs if not x.startswith("swap:")]
        if len(bridge) == 1:
            b = bridge[0]
            ok = ("amount=%d:" % amt in b and ("burn=%s" % hx(dn)) in b) or ("coins=%s=%d" % (hx(dn), amt)) in b or \
                (b.startswith("warp.RemoteTransfer:") and (":amount=%d:" % amt) in b)
            if not ok:
                out.append((s.i, "final-coin: forwarded %s, the last action left %d %s" % (b[-120:], amt, dn)))
        delta = parse_delta(s.impl.get("bal"))
        for (ra, d), v in fee_total.items():
            # the internal recipient may coincide with a fee recipient
            if delta.get((ra, d), 0) < v:
                out.append((s.i, "fee-base: recipient %s credited %d %s, the running amount implies %d" % (ra[:8], delta.get((ra, d), 0), d, v)))
    return out


@prop
class C06(Base):
    id = "C06"
    assumptions = C03.assumptions + ["the denomination-changing controller registered under ACTION_SWAP is the harness's scripted one; the theorems quantify over arbitrary controllers"]

    def streams(self, tier, seed):
        r = Rng(seed * 1000 + 6)
        f = {"recvh": ["ack", "hreq", "bal", "st"]}
        _, toks = scen.base_setup()
        f2 = {"recvh": ["ack", "hreq", "bal", "st"], "recv": ["ack", "req", "bal", "mv", "st"], "dispatchh": ["res", "hreq", "bal", "st"]}
        return [Stream("S2-two-controllers", c06_lines(r, self.n(tier, 60, 800)), fields=f, oracle=c06_oracle)] + \
            shared_streams(seed, toks, tier, f2, None)


# ----------------------------------------------------------------------------------------------- C07

def c07_lines(r, n):
    lines, toks = scen.base_setup()
    goodmemo = memo(int_fwd(U[1]), [fee_action([(U[2], "b", 100)])])
    import bech32 as _b32
    foreign = [_b32.encode("cosmos", ORB_BYTES), _b32.encode("osmo", ORB_BYTES), _b32.encode("noblevaloper", ORB_BYTES), _b32.encode("nobl", ORB_BYTES)]
    recvs = [U[0], U[1], b32(DUST_BYTES), "", "garbage", "cosmos" + ORB[5:], ORB + "x", b32(bytes(20)), b32(bytes(32))] + foreign
    denoms = ["transfer/channel-7/uusdc", "transfer/channel-7/uother", "uatom", "transfer/channel-3/uatom", "transfer/channel-7/transfer/channel-3/uatom", "transfer/channel-7/x", "ibc/ABC", ""]
    memos = ["", goodmemo, "{}", "hello", "{\"orbiter\":{}}", "{\"forward\":{\"receiver\":\"x\"}}"]
    for rc in recvs:
        for dn in denoms:
            for m in memos[:3] if rc != U[0] else memos:
                lines.append(pkt_line("withoutmw", ftpd(dn, r.choice([1, 1000, 0, "x"]), rc, m)))
    for b in scen.random_bytes_memos(r, n):
        lines.append(pkt_line("withoutmw", b))
    for b in [b"", b"null", b"[]", b"{}", b"{\"receiver\":\"" + U[0].encode() + b"\"}", b"{\"denom\":\"uatom\",\"amount\":\"5\",\"sender\":\"a\",\"receiver\":\"" + U[0].encode() + b"\"} trailing",
              b"{\"denom\":\"uatom\",\"amount\":\"5\",\"sender\":\"a\",\"receiver\":\"" + U[0].encode() + b"\",\"extra\":1}"]:
        lines.append(pkt_line("withoutmw", b))
    # structural mutations of well-formed ICS-20 data (extra keys, aliases, wrong types) for an ordinary receiver and for the
    # orbiter address: whatever the transfer application does not accept as ICS-20 data is not an orbiter packet either
    # a balance on the module account makes a wrongly started orbiter flow visible (it is swept before the transfer application runs)
    lines.append("deposit %s %s %d" % (hx(ORB_BYTES), hx("uusdc"), 777))
    for rc, mm in ((U[0], ""), (ORB, goodmemo), (ORB, ""), (ORB, "hello"), (ORB, "{\"orbiter\":{}}"), (foreign[0], goodmemo), (foreign[0], "")):
        doc = {"denom": "transfer/channel-7/uusdc", "amount": "5", "sender": b32(addr(200)), "receiver": rc, "memo": mm}
        for m in scen.mutations(doc, r, 80 if mm in ("", goodmemo) else 20):
            lines.append(pkt_line("withoutmw", m))
        base = _json.dumps(doc, separators=(",", ":"))
        for m in [base.replace("\"receiver\"", "\"Receiver\""), base.replace("\"receiver\"", "\"RECEIVER\""), base.replace("\"memo\"", "\"Memo\""),
                  base[:-1] + ",\"fee\":\"1\"}", base[:-1] + ",\"receiver\":\"" + U[1] + "\"}", "[" + base + "]", base + base]:
            lines.append(pkt_line("withoutmw", m))
    # sizes: memos and whole packets far beyond anything the orbiter itself would take, escaped and not
    for size in (4000, 20000, 26676, 32768, 32769, 50000, 140000):
        nested = _json.dumps({"wasm": {"contract": "x" * 40, "msg": {"k": "\"" * (size // 4), "p": "y" * (size // 2)}}})[:size]
        for rc in (U[0], foreign[0], ""):
            lines.append(pkt_line("withoutmw", ftpd("uatom", 5, rc, nested)))
            lines.append(pkt_line("withoutmw", ftpd("transfer/channel-7/uusdc", 5, rc, "z" * size)))
        lines.append(pkt_line("withoutmw", b"\x00" * size))
        lines.append(pkt_line("withoutmw", ftpd("uatom", 5, "r" * size, "")))
        lines.append(pkt_line("withoutmw", ftpd("d" * size, 5, U[0], "")))
    # the transfer application may be bound to another port than the default one (its genesis says which): the middleware is wired
    # around the application, not around a port name
    for dp in ("transfer-v2", "ics20", "noble.transfer", "transfer2", "t", "TRANSFER"):
        for rc in (U[0], foreign[0], ORB):
            lines.append(pkt_line("withoutmw", ftpd("uatom", 5, rc, ""), dst_port=dp))
            lines.append(pkt_line("withoutmw", ftpd("uatom", 5, rc, goodmemo), dst_port=dp))
            lines.append(pkt_line("withoutmw", ftpd("transfer/channel-7/uusdc", 5, rc, goodmemo), dst_port=dp))
            lines.append(pkt_line("recv", ftpd("uatom", 5, rc, goodmemo), dst_port=dp))
    # all valid channel / port identifiers on the source side; channel-N on the destination side
    for sp, sc in [("transfer", "channel-0"), ("wasm.abc", "channel-99999"), ("ics20", "chan-free-form"), ("a.b_c+d-e#[f]<g>", "channel-18446744073709551615")]:
        for dc in ["channel-0", "channel-1", "channel-18446744073709551615", "channel-007"]:
            lines.append(pkt_line("withoutmw", ftpd(sp + "/" + sc + "/uusdc", 5, U[0], ""), src_port=sp, src_chan=sc, dst_chan=dc))
            lines.append(pkt_line("withoutmw", ftpd("uatom", 5, U[0], goodmemo), src_port=sp, src_chan=sc, dst_chan=dc))
    # interleave with state: pauses, params, real transfers, then again
    lines.append(msg_line("PauseProtocol", AUTHORITY, hx("PROTOCOL_CCTP")))
    lines.append(msg_line("PauseAction", AUTHORITY, hx("ACTION_FEE")))
    lines.append(msg_line("UpdateParams", AUTHORITY, "16"))
    lines.append(orb_pkt("recv", 1000, int_fwd(U[1])))
    for rc in recvs[:4]:
        for dn in denoms[:4]:
            lines.append(pkt_line("withoutmw", ftpd(dn, 7, rc, goodmemo)))
            lines.append(pkt_line("recv", ftpd(dn, 7, rc, goodmemo)))
    # every pause that names the IBC protocol or the channels in use: none of the orbiter's pause state concerns foreign traffic
    lines.append(msg_line("PauseProtocol", AUTHORITY, hx("PROTOCOL_IBC")))
    lines.append(msg_line("PauseCrossChains", AUTHORITY, hx("PROTOCOL_IBC"), hx("channel-0"), hx("channel-1"), hx("channel-7")))
    for p_ in ("PROTOCOL_HYPERLANE", "PROTOCOL_INTERNAL"):
        lines.append(msg_line("PauseProtocol", AUTHORITY, hx(p_)))
    lines.append(msg_line("PauseAction", AUTHORITY, hx("ACTION_SWAP")))
    for rc in recvs[:4]:
        for dn in denoms[:4]:
            for dc in ("channel-0", "channel-1"):
                lines.append(pkt_line("withoutmw", ftpd(dn, 7, rc, goodmemo), dst_chan=dc))
                lines.append(pkt_line("withoutmw", ftpd(dn, 7, rc, ""), dst_chan=dc))
    for b in [b"", b"null", b"{}", b"not json"]:
        lines.append(pkt_line("withoutmw", b))
    lines.append(msg_line("UnpauseProtocol", AUTHORITY, hx("PROTOCOL_IBC")))
    lines.append(pkt_line("withoutmw", ftpd("uatom", 7, U[0], goodmemo)))
    # orbiter-addressed ones (no constraint, classification only)
    lines.append(pkt_line("withoutmw", ftpd("transfer/channel-7/uusdc", 7, ORB, goodmemo)))
    lines.append(pkt_line("withoutmw", ftpd("transfer/channel-7/uusdc", 7, ORB.upper(), goodmemo)))
    for kind in ("ack", "timeout", "send", "writeack"):
        for fail in ("0", "1"):
            lines.append("cb %s %s %s %s" % (kind, hx(r.bytes(20)), hx(r.bytes(8)), fail))
    # every comparison twice: on the chain's stack (blockibc above the middleware) and at component level (the middleware
    # directly around ICS-20), since what is stacked above may hide what the middleware does with data it should not touch
    out = []
    for ln in lines:
        out.append(ln)
        if ln.startswith("withoutmw "):
            out.append("withoutmwc " + ln[len("withoutmw "):])
    return out


def c07_oracle(steps):
    out = []
    for s in steps:
        if s.op in ("withoutmw", "withoutmwc"):
            orb = s.model.get("orb")
            if orb is None:
                orb = "true" if receiver_is_orbiter(packet_of(s.line)) else "false"
            if orb == "false" and s.impl.get("same") != "true":
                out.append((s.i, "not-transparent: a packet not addressed to the orbiter is handled differently with the middleware: %s (ack with=%s without=%s)" % (
                    s.impl.get("diff"), s.impl.get("ackmw"), s.impl.get("ackbare"))))
        if s.op == "cb" and s.impl.get("same") != "true":
            out.append((s.i, "callback: %s is not passed through unchanged" % s.line.split(" ")[1]))
    return out


@prop
class C07(Base):
    id = "C07"
    assumptions = ["the byte-level equality (ack bytes, event list, dump of every KV store) is implementation-against-implementation differential evidence; the Lean theorem is the model equation",
                   "destination channels range over channel-N (the only form ibc-go core assigns)"]

    def streams(self, tier, seed):
        r = Rng(seed * 1000 + 7)
        f = {"withoutmw": ["ackmw", "ackbare"], "withoutmwc": ["ackmw", "ackbare"], "recv": ["ack", "bal", "st"], "msg": ["res", "st"], "cb": ["same"]}
        return [Stream("S5-with-and-without-middleware", c07_lines(r, self.n(tier, 80, 800)), fields=f, oracle=c07_oracle)]


# ----------------------------------------------------------------------------------------------- C08 / C09 / C10

class PauseSpec:
    """abstract pause state, applied from successful messages only (written from the property statement)"""
    P = {"PROTOCOL_IBC": 1, "PROTOCOL_CCTP": 2, "PROTOCOL_HYPERLANE": 3, "PROTOCOL_INTERNAL": 4}
    A = {"ACTION_FEE": 1, "ACTION_SWAP": 2}

    def __init__(self):
        self.protocols, self.cross, self.actions = set(), set(), set()

    def snapshot(self):
        return (frozenset(self.protocols), frozenset(self.cross), frozenset(self.actions))

    def apply(self, line, ok):
        f = line.split(" ")
        rpc = f[1]
        args = [unhx(x).decode("utf-8", "replace") for x in f[3:]] if rpc != "UpdateParams" else f[3:]
        if not ok:
            return
        if rpc == "PauseProtocol":
            self.protocols.add(self.P[args[0]])
        elif rpc == "UnpauseProtocol":
            self.protocols.discard(self.P[args[0]])
        elif rpc == "PauseCrossChains":
            if len(args) == 1:
                self.protocols.add(self.P[args[0]])
            for c in args[1:]:
                self.cross.add((self.P[args[0]], c))
        elif rpc == "UnpauseCrossChains":
            if len(args) == 1:
                self.protocols.discard(self.P[args[0]])
            for c in args[1:]:
                self.cross.discard((self.P[args[0]], c))
        elif rpc == "PauseAction":
            self.actions.add(self.A[args[0]])
        elif rpc == "UnpauseAction":
            self.actions.discard(self.A[args[0]])


def dest_of(p):
    fw = (p["payload"] or {}).get("forwarding") or {}
    a = fw.get("attributes") or {}
    pid = PauseSpec.P.get(fw.get("protocol_id"), fw.get("protocol_id"))
    if a.get("@type") in (scen.CCTP_URL, scen.HYP_URL):
        return pid, str(a.get("destination_domain", 0))
    if a.get("@type") == scen.INT_URL:
        return pid, "noble"
    return pid, None


def pause_oracle(steps):
    out = []
    spec = PauseSpec()
    prev_st = None
    for s in steps:
        if s.op == "setup":
            spec = PauseSpec()
        if s.op == "msg":
            ok = s.impl.get("res") == "ok"
            before = spec.snapshot()
            rpc = s.line.split(" ")[1]
            f = s.line.split(" ")
            signer = unhx(f[2]).decode("utf-8", "replace")
            if rpc in ("PauseProtocol", "UnpauseProtocol", "PauseCrossChains", "UnpauseCrossChains", "PauseAction", "UnpauseAction"):
                try:
                    spec.apply(s.line, ok)
                except KeyError:
                    if ok:
                        out.append((s.i, "bad-id: %s accepted an unknown identifier" % rpc))
                    continue
                if ok and spec.snapshot() == before and signer == AUTHORITY:
                    out.append((s.i, "redundant: a redundant %s succeeded" % rpc))
                if not ok and prev_st is not None and s.impl.get("st") != prev_st:
                    out.append((s.i, "partial-batch: %s failed but the state changed" % rpc))
                # the exported sets are exactly the spec's sets
                st = s.impl.get("st", "")
                got_p = set(int(x) for x in st.split(";")[0][4:-1].split(",") if x)
                got_a = set(int(x) for x in st.split(";")[2][4:-1].split(",") if x)
                got_c = set()
                for x in st.split(";")[1][5:-1].split(","):
                    if x:
                        a, b = x.split("|")
                        got_c.add((int(a), unhx(b).decode("utf-8", "replace")))
                if got_p != spec.protocols or got_a != spec.actions or got_c != spec.cross:
                    out.append((s.i, "state: after %s the stored pause sets are %s/%s/%s, the history implies %s/%s/%s" % (
                        rpc, sorted(got_p), sorted(got_c), sorted(got_a), sorted(spec.protocols), sorted(spec.cross), sorted(spec.actions))))
        if s.op in RECV_OPS and s.impl.get("ack") == "ok":
            p = packet_of(s.line)
            if p["payload"] and receiver_is_orbiter(p):
                pid, cp = dest_of(p)
                if pid in spec.protocols or (pid, cp) in spec.cross:
                    out.append((s.i, "paused-forwarded: transfer to (%s,%s) executed while paused" % (pid, cp)))
                for a in p["payload"].get("pre_actions") or []:
                    aid = PauseSpec.A.get(a.get("id"), a.get("id")) if isinstance(a, dict) else None
                    if aid in spec.actions:
                        out.append((s.i, "paused-action: payload containing paused action %s executed" % aid))
                    if aid == 2 and s.op == "recv":
                        out.append((s.i, "unrouted-action: a payload naming ACTION_SWAP executed on the chain's own wiring (no swap controller)"))
        if s.op == "query":
            q = s.line.split(" ")
            if q[1] == "PausedProtocols" and s.impl.get("res") == "ok":
                got = set(int(x) for x in s.impl["out"][1:-1].split(",") if x)
                if got != spec.protocols:
                    out.append((s.i, "query: PausedProtocols reports %s, the history implies %s" % (sorted(got), sorted(spec.protocols))))
            if q[1] == "PausedActions" and s.impl.get("res") == "ok":
                got = set(int(x) for x in s.impl["out"][1:-1].split(",") if x)
                if got != spec.actions:
                    out.append((s.i, "query: PausedActions reports %s, the history implies %s" % (sorted(got), sorted(spec.actions))))
            if q[1] == "IsProtocolPaused" and s.impl.get("res") == "ok":
                pid = PauseSpec.P.get(unhx(q[2]).decode())
                if (s.impl["out"] == "true") != (pid in spec.protocols):
                    out.append((s.i, "query: IsProtocolPaused(%s)=%s disagrees with the history" % (pid, s.impl["out"])))
            if q[1] == "IsActionPaused" and s.impl.get("res") == "ok":
                aid = PauseSpec.A.get(unhx(q[2]).decode())
                if (s.impl["out"] == "true") != (aid in spec.actions):
                    out.append((s.i, "query: IsActionPaused(%s)=%s disagrees with the history" % (aid, s.impl["out"])))
            if q[1] == "IsCrossChainPaused" and s.impl.get("res") == "ok":
                pid = PauseSpec.P.get(unhx(q[2]).decode())
                cp = unhx(q[3]).decode("utf-8", "replace")
                if (s.impl["out"] == "true") != ((pid, cp) in spec.cross):
                    out.append((s.i, "query: IsCrossChainPaused(%s,%s)=%s disagrees with the history" % (pid, cp, s.impl["out"])))
            if q[1] == "PausedCrossChains" and s.impl.get("res") == "ok" and q[3:] == ["nopage"]:
                pid = PauseSpec.P.get(unhx(q[2]).decode())
                got = sorted(unhx(x).decode("utf-8", "replace") for x in s.impl["out"][1:-1].split(",") if x)
                want = sorted(c for (pp, c) in spec.cross if pp == pid)
                if len(want) <= 100 and got != want:
                    out.append((s.i, "query: PausedCrossChains(%s) lists %s, the history implies %s" % (pid, got, want)))
        if "st" in s.impl:
            prev_st = s.impl["st"]
    return out


def pause_targeted(toks):
    """for every destination: pause -> probe -> unpause -> probe, at protocol and at cross-chain level; same for actions"""
    tok = toks[0][0]
    lines = []
    dests = [("PROTOCOL_CCTP", "0", cctp_fwd(domain=0), "uusdc"), ("PROTOCOL_CCTP", "5", cctp_fwd(domain=5), "uusdc"),
             ("PROTOCOL_HYPERLANE", "1", hyp_fwd(tok, domain=1), "uusdc"), ("PROTOCOL_HYPERLANE", "4294967295", hyp_fwd(tok, domain=4294967295), "uusdc"),
             ("PROTOCOL_HYPERLANE", "2147483648", hyp_fwd(tok, domain=2147483648), "uusdc"), ("PROTOCOL_INTERNAL", "noble", int_fwd(U[1]), "uother")]
    fee = [fee_action([(U[4], "b", 100)])]
    for p, c, fwd, dn in dests:
        for acts in (None, fee):
            lines.append(orb_pkt("recv", 10 ** 6, fwd, acts, denom=dn))
        lines.append(msg_line("PauseCrossChains", AUTHORITY, hx(p), hx(c)))
        lines.append("query IsCrossChainPaused %s %s" % (hx(p), hx(c)))
        for acts in (None, fee):
            lines.append(orb_pkt("recv", 10 ** 6, fwd, acts, denom=dn))
        # a paused destination is refused with an acknowledgement whatever else is wrong with the payload that names it: attributes
        # of every malformed shape (short, empty, over-long identifiers and recipients), to the paused pair and under the paused protocol
        def _bad(p_, c_):
            if p_ == "PROTOCOL_HYPERLANE":
                return [hyp_fwd(tok, domain=int(c_), recipient=b"\x07" * k) for k in (0, 3, 20, 31, 33)] + [hyp_fwd(b"", domain=int(c_)), hyp_fwd(tok[:5], domain=int(c_)),
                        hyp_fwd(tok, domain=int(c_), hook=b"\x01" * 5), hyp_fwd(tok, domain=int(c_), gas=-1), hyp_fwd(tok, domain=int(c_), fee=("", 5))]
            if p_ == "PROTOCOL_CCTP":
                return [cctp_fwd(domain=int(c_), mint=b"\x07" * k) for k in (0, 3, 20, 31, 33)] + [cctp_fwd(domain=int(c_), caller=b"\x05" * k) for k in (3, 33, 64)]
            return [int_fwd(""), int_fwd("noble1xyz"), int_fwd("cosmos1qyqszqgpqyqszqgpqyqszqgpqyqszqgpjnp7du"), int_fwd(ORB)]
        for bf in _bad(p, c):
            lines.append(orb_pkt("recv", 10 ** 6, bf, None, denom=dn))
        lines.append(msg_line("PauseProtocol", AUTHORITY, hx(p)))
        for bf in _bad(p, c)[:6]:
            lines.append(orb_pkt("recv", 10 ** 6, bf, None, denom=dn))
        lines.append(msg_line("UnpauseProtocol", AUTHORITY, hx(p)))
        lines.append(msg_line("PauseCrossChains", AUTHORITY, hx(p), hx(c)))          # redundant
        lines.append(msg_line("UnpauseCrossChains", AUTHORITY, hx(p), hx(c)))
        lines.append(orb_pkt("recv", 10 ** 6, fwd, None, denom=dn))
        lines.append(msg_line("UnpauseCrossChains", AUTHORITY, hx(p), hx(c)))        # redundant
        lines.append(msg_line("PauseProtocol", AUTHORITY, hx(p)))
        lines.append(orb_pkt("recv", 10 ** 6, fwd, None, denom=dn))
        lines.append(msg_line("UnpauseProtocol", AUTHORITY, hx(p)))
        lines.append(orb_pkt("recv", 10 ** 6, fwd, None, denom=dn))
        # batches: a redundant id in the middle must fail the whole batch
        lines.append(msg_line("PauseCrossChains", AUTHORITY, hx(p), hx(c)))
        other = {"PROTOCOL_CCTP": ["1", "7"], "PROTOCOL_HYPERLANE": ["2", "9"], "PROTOCOL_INTERNAL": ["x", "y"]}[p]
        lines.append(msg_line("PauseCrossChains", AUTHORITY, hx(p), hx(other[0]), hx(c), hx(other[1])))
        lines.append("query PausedCrossChains %s nopage" % hx(p))
        lines.append(msg_line("UnpauseCrossChains", AUTHORITY, hx(p), hx(other[0]), hx(c)))
        lines.append("query PausedCrossChains %s nopage" % hx(p))
        lines.append(msg_line("UnpauseCrossChains", AUTHORITY, hx(p), hx(c)))
        # the two levels nested: an identifier paused while its whole protocol is paused stays paused when the protocol is released,
        # and the other way round
        lines.append(msg_line("PauseProtocol", AUTHORITY, hx(p)))
        lines.append(msg_line("PauseCrossChains", AUTHORITY, hx(p), hx(c)))
        lines.append("query IsCrossChainPaused %s %s" % (hx(p), hx(c)))
        lines.append("query PausedCrossChains %s nopage" % hx(p))
        lines.append(msg_line("UnpauseProtocol", AUTHORITY, hx(p)))
        lines.append(orb_pkt("recv", 10 ** 6, fwd, None, denom=dn))
        lines.append(msg_line("PauseProtocol", AUTHORITY, hx(p)))
        lines.append(msg_line("UnpauseCrossChains", AUTHORITY, hx(p), hx(c)))
        lines.append("query IsCrossChainPaused %s %s" % (hx(p), hx(c)))
        lines.append(orb_pkt("recv", 10 ** 6, fwd, None, denom=dn))
        lines.append(msg_line("UnpauseProtocol", AUTHORITY, hx(p)))
        lines.append(orb_pkt("recv", 10 ** 6, fwd, None, denom=dn))
        lines.append("export")
    # more paused destinations than any page holds: the export and a restart from it keep every one of them
    lines.append(msg_line("PauseCrossChains", AUTHORITY, hx("PROTOCOL_CCTP"), *[hx(str(i)) for i in range(0, 100)]))
    lines.append(msg_line("PauseCrossChains", AUTHORITY, hx("PROTOCOL_CCTP"), *[hx(str(i)) for i in range(100, 130)]))
    lines += ["export", "reimport", "export", "query IsCrossChainPaused %s %s" % (hx("PROTOCOL_CCTP"), hx("99")),
              "query IsCrossChainPaused %s %s" % (hx("PROTOCOL_CCTP"), hx("129")), "query PausedCrossChains %s nopage" % hx("PROTOCOL_CCTP"),
              orb_pkt("recv", 10 ** 6, cctp_fwd(domain=99), None), orb_pkt("recv", 10 ** 6, cctp_fwd(domain=5), None), orb_pkt("recv", 10 ** 6, cctp_fwd(domain=130), None)]
    lines.append(msg_line("UnpauseCrossChains", AUTHORITY, hx("PROTOCOL_CCTP"), *[hx(str(i)) for i in range(0, 100)]))
    lines.append(msg_line("UnpauseCrossChains", AUTHORITY, hx("PROTOCOL_CCTP"), *[hx(str(i)) for i in range(100, 130)]))
    lines.append("export")
    # one spelling per identifier: what the pause messages refuse, the queries refuse too (while domain 5 is paused)
    for p in ("PROTOCOL_CCTP", "PROTOCOL_HYPERLANE"):
        lines.append(msg_line("PauseCrossChains", AUTHORITY, hx(p), hx("5")))
        for c in ("5", "05", "+5", " 5", "5 ", "5.0", "0x5", "4294967296", "4294967301", "-1", "channel-5", "", "x" * 33, "٥"):
            lines.append("query IsCrossChainPaused %s %s" % (hx(p), hx(c)))
            lines.append(msg_line("PauseCrossChains", AUTHORITY, hx(p), hx(c)))
            lines.append(msg_line("UnpauseCrossChains", AUTHORITY, hx(p), hx(c)))
            lines.append("query DispatchedCounts %s %s %s %s" % (hx("PROTOCOL_IBC"), hx("channel-0"), hx(p), hx(c)))
        lines.append("query PausedCrossChains %s nopage" % hx(p))
    for c in ("channel-0", "channel-00", "Channel-0", "channel-", "channel-18446744073709551616", "", "noble"):
        lines.append("query IsCrossChainPaused %s %s" % (hx("PROTOCOL_IBC"), hx(c)))
        lines.append("query IsCrossChainPaused %s %s" % (hx("PROTOCOL_INTERNAL"), hx(c)))
    # both actions paused, every listing query, a restart from the export: the paused set is what the messages made it
    lines += [msg_line("PauseAction", AUTHORITY, hx("ACTION_SWAP")), msg_line("PauseAction", AUTHORITY, hx("ACTION_FEE")), "query ActionIDs", "query ProtocolIDs",
              "query PausedActions", "query IsActionPaused " + hx("ACTION_SWAP"), "query IsActionPaused " + hx("ACTION_FEE"), "export", "reimport", "export", "query PausedActions",
              orb_pkt("recv", 10 ** 6, int_fwd(U[1]), fee), orb_pkt("recv", 10 ** 6, int_fwd(U[1]), None),
              msg_line("UnpauseAction", AUTHORITY, hx("ACTION_SWAP")), msg_line("UnpauseAction", AUTHORITY, hx("ACTION_FEE")), "query PausedActions"]
    # every subset of the actions, reached in both orders: each single-item query answers for its own item only
    def ask_all():
        out_ = ["query PausedActions", "query PausedProtocols"]
        out_ += ["query IsActionPaused " + hx(a_) for a_ in ACTION_NAMES + ["ACTION_UNSUPPORTED"]]
        out_ += ["query IsProtocolPaused " + hx(p_) for p_ in PROTO_NAMES + ["PROTOCOL_UNSUPPORTED"]]
        return out_
    for first, second in (("ACTION_FEE", "ACTION_SWAP"), ("ACTION_SWAP", "ACTION_FEE")):
        lines += ask_all()
        lines.append(msg_line("PauseAction", AUTHORITY, hx(first)))
        lines += ask_all()
        lines.append(msg_line("PauseAction", AUTHORITY, hx(second)))
        lines += ask_all()
        lines.append(msg_line("UnpauseAction", AUTHORITY, hx(first)))
        lines += ask_all()
        lines.append(orb_pkt("recv", 10 ** 6, int_fwd(U[1]), fee))
        lines.append(msg_line("UnpauseAction", AUTHORITY, hx(second)))
    # …and the same for the protocols, and for neighbours of a paused destination
    for p_ in PROTO_NAMES:
        lines.append(msg_line("PauseProtocol", AUTHORITY, hx(p_)))
        lines += ask_all()
        lines.append(msg_line("UnpauseProtocol", AUTHORITY, hx(p_)))
    lines.append(msg_line("PauseCrossChains", AUTHORITY, hx("PROTOCOL_CCTP"), hx("5"), hx("50")))
    for p_, c_ in (("PROTOCOL_CCTP", "4"), ("PROTOCOL_CCTP", "5"), ("PROTOCOL_CCTP", "6"), ("PROTOCOL_CCTP", "50"), ("PROTOCOL_CCTP", "500"), ("PROTOCOL_CCTP", "0"),
                   ("PROTOCOL_HYPERLANE", "5"), ("PROTOCOL_HYPERLANE", "50"), ("PROTOCOL_INTERNAL", "noble"), ("PROTOCOL_IBC", "channel-5")):
        lines.append("query IsCrossChainPaused %s %s" % (hx(p_), hx(c_)))
    lines.append(msg_line("UnpauseCrossChains", AUTHORITY, hx("PROTOCOL_CCTP"), hx("5"), hx("50")))
    # actions
    for a in ("ACTION_FEE", "ACTION_SWAP"):
        lines.append(msg_line("PauseAction", AUTHORITY, hx(a)))
        lines.append("query IsActionPaused " + hx(a))
        lines.append("query PausedActions")
        for acts in (None, fee, [swap_action()], [swap_action(), fee[0]], [fee[0], swap_action()]):
            lines.append(orb_pkt("recv", 10 ** 6, int_fwd(U[1]), acts))
            lines.append(orb_pkt("recvh", 10 ** 6, int_fwd(U[1]), acts))
        lines.append(msg_line("PauseAction", AUTHORITY, hx(a)))                      # redundant
        lines.append(msg_line("UnpauseAction", AUTHORITY, hx(a)))
        lines.append("query IsActionPaused " + hx(a))
        for acts in (fee, [swap_action(), fee[0]]):
            lines.append(orb_pkt("recv", 10 ** 6, int_fwd(U[1]), acts))
            lines.append(orb_pkt("recvh", 10 ** 6, int_fwd(U[1]), acts))
        lines.append(msg_line("UnpauseAction", AUTHORITY, hx(a)))                    # redundant
    return lines


def pause_history(r, n, toks, actions_focus=False):
    lines = []
    cps = {"PROTOCOL_CCTP": ["0", "1", "5", "7", "01", "4294967295"], "PROTOCOL_HYPERLANE": ["1", "2", "9"], "PROTOCOL_INTERNAL": ["noble", "x", "a:b"], "PROTOCOL_IBC": ["channel-0", "channel-9"]}
    tok = toks[0][0]
    # identifiers are names: a number, in range or wrapping around 2^32, never names a protocol or an action
    odd_ids = ["1", "2", "3", "0", "01", " 1", "+1", "4294967297", "4294967298", "-4294967295", "8589934593", "1.0", "action_fee", "Action_Fee", "FEE", "protocol_cctp", "CCTP"]
    for x in odd_ids:
        lines.append(msg_line("PauseAction", AUTHORITY, hx(x)))
        lines.append("query IsActionPaused " + hx(x))
        lines.append(msg_line("PauseProtocol", AUTHORITY, hx(x)))
        lines.append("query IsProtocolPaused " + hx(x))
        lines.append(msg_line("PauseCrossChains", AUTHORITY, hx(x), hx("1")))
        lines.append("query IsCrossChainPaused %s %s" % (hx(x), hx("1")))
        lines.append(msg_line("UnpauseAction", AUTHORITY, hx(x)))
    lines.append("query PausedActions")
    lines.append("query PausedProtocols")
    lines += ["query ActionIDs", "query ProtocolIDs"]
    lines.append(orb_pkt("recv", 10 ** 6, int_fwd(U[1]), [fee_action([(U[4], "b", 100)])]))
    for _ in range(n):
        k = r.below(100)
        if k < 40:
            kind = r.below(12)
            signer = AUTHORITY if r.chance(9, 10) else r.choice([U[0], ORB, "", AUTHORITY.upper()])
            if actions_focus:
                kind = 8 + r.below(4) if r.chance(3, 4) else kind
            if kind < 4:
                lines.append(msg_line(r.choice(["PauseProtocol", "UnpauseProtocol"]), signer, hx(r.choice(PROTO_NAMES + ["PROTOCOL_UNSUPPORTED", "x"] if r.chance(1, 8) else PROTO_NAMES))))
            elif kind < 8:
                p = r.choice(PROTO_NAMES)
                k2 = r.below(10)
                nids = 0 if k2 == 0 else (r.range(1, 4) if k2 < 8 else r.range(99, 102))
                pool = cps[p]
                ids = [r.choice(pool) if nids < 50 else str(i + 10) for i in range(nids)]
                if nids and r.chance(1, 10):
                    ids.append("")   # invalid id inside a batch
                lines.append(msg_line(r.choice(["PauseCrossChains", "UnpauseCrossChains"]), signer, hx(p), *[hx(x) for x in ids]))
            else:
                lines.append(msg_line(r.choice(["PauseAction", "UnpauseAction"]), signer, hx(r.choice(ACTION_NAMES + ["ACTION_UNSUPPORTED", "y"] if r.chance(1, 8) else ACTION_NAMES))))
            if r.chance(1, 8):
                # the same message on a branch that is dropped (simulation, or a later message of the transaction failed)
                lines[-1] = "msgdry" + lines[-1][3:]
        elif k < 60:
            q = r.below(7)
            if r.chance(1, 12):
                lines.append(r.choice(["query ActionIDs", "query ProtocolIDs", "export", "reimport"]))
            elif q == 0:
                lines.append("query PausedProtocols")
            elif q == 1:
                lines.append("query PausedActions")
            elif q == 2:
                lines.append("query IsProtocolPaused " + hx(r.choice(PROTO_NAMES)))
            elif q == 3:
                lines.append("query IsActionPaused " + hx(r.choice(ACTION_NAMES)))
            elif q == 4:
                p = r.choice(PROTO_NAMES)
                lines.append("query IsCrossChainPaused %s %s" % (hx(p), hx(r.choice(cps[p]))))
            else:
                lines.append("query PausedCrossChains %s nopage" % hx(r.choice(PROTO_NAMES)))
        else:
            # probe transfers to every destination, with and without the fee action
            route = r.below(3)
            if route == 0:
                fwd = cctp_fwd(domain=r.choice([0, 1, 5]))
                dn = "uusdc"
            elif route == 1:
                fwd = int_fwd(r.choice(U[:3]))
                dn = r.choice(DENOMS)
            else:
                fwd = hyp_fwd(tok, domain=r.choice([1, 2]))
                dn = "uusdc"
            acts = [fee_action([(U[4], "b", 100)])] if r.chance(1, 2) else None
            lines.append(orb_pkt("recv", 10 ** 6, fwd, acts, denom=dn))
    return lines


@prop
class C08(Base):
    id = "C08"
    assumptions = ["messages run under the SDK's message-level rollback (cached context written only on success), as the harness executes them through the app's MsgServiceRouter"]

    def streams(self, tier, seed):
        out = []
        f = {"msg": ["res", "st"], "msgdry": ["res", "st"], "recv": ["ack"], "recvh": ["ack"], "query": ["res", "out", "next", "total"]}
        for h in range(self.n(tier, 3, 12)):
            r = Rng(seed * 100000 + 800 + h)
            lines, toks = scen.base_setup()
            if h == 0:
                lines.append("deposit %s %s %d" % (hx(POOL), hx("uother"), 10 ** 30))
                lines += pause_targeted(toks)
            lines += pause_history(r, self.n(tier, 200, 800), toks)
            out.append(Stream("S3-pause-history-%d" % h, lines, fields=f, oracle=pause_oracle))
        _, toks = scen.base_setup()
        out.append(Stream("S3-dropped-branches", dry_lines(Rng(seed * 1000 + 108), toks, self.n(tier, 80, 300))))
        out.append(Stream("S3-everything-paused-repeated-exports", everything_paused_lines()))
        wl, walks = pcc_walk_build(Rng(seed * 1000 + 208))
        out.append(Stream("S3-paused-listing-page-by-page", wl, fields=f, oracle=c13_make_oracle(walks), shrink=False))
        return out


@prop
class C09(Base):
    id = "C09"
    assumptions = C08.assumptions

    def streams(self, tier, seed):
        out = []
        f = {"msg": ["res", "st"], "msgdry": ["res", "st"], "recv": ["ack", "bal"], "recvh": ["ack", "bal"], "query": ["res", "out"]}
        for h in range(self.n(tier, 3, 12)):
            r = Rng(seed * 100000 + 900 + h)
            lines, toks = scen.base_setup()
            if h == 0:
                lines.append("deposit %s %s %d" % (hx(POOL), hx("uother"), 10 ** 30))
                lines += pause_targeted(toks)
            lines += pause_history(r, self.n(tier, 200, 800), toks, actions_focus=True)
            out.append(Stream("S3-action-pause-history-%d" % h, lines, fields=f, oracle=pause_oracle))
        return out


def c10_lines(r, n):
    lines = ["setup -"]
    signers = [U[0], U[1], ORB, b32(DUST_BYTES), "", " ", "garbage", AUTHORITY.upper(), AUTHORITY + " ", AUTHORITY[:-1], "cosmos1zw7vatnx0vla7gzxucgypz0kfr6965ak7xurzj"]
    bodies = {
        "PauseProtocol": [[hx(p)] for p in PROTO_NAMES + ["", "x"]],
        "UnpauseProtocol": [[hx(p)] for p in PROTO_NAMES + ["", "x"]],
        "PauseCrossChains": [[hx("PROTOCOL_CCTP")], [hx("PROTOCOL_CCTP"), hx("1")], [hx("PROTOCOL_INTERNAL"), hx("noble"), hx("x")], [hx("x"), hx("1")], [hx("PROTOCOL_CCTP")] + [hx(str(i)) for i in range(101)]],
        "UnpauseCrossChains": [[hx("PROTOCOL_CCTP")], [hx("PROTOCOL_CCTP"), hx("1")], [hx("PROTOCOL_INTERNAL"), hx("noble")], [hx("x"), hx("1")]],
        "PauseAction": [[hx(a)] for a in ACTION_NAMES + ["", "x"]],
        "UnpauseAction": [[hx(a)] for a in ACTION_NAMES + ["", "x"]],
        "UpdateParams": [["0"], ["1"], ["4294967295"]],
        "ReplaceDepositForBurn": [[hx(b"\x01" * 10), hx(b"\x02" * 65), hx(b"\x03" * 32), hx(b"\x04" * 32)], ["-", "-", "-", "-"]],
    }
    # some state first so that unpause messages would have something to change
    lines.append(msg_line("PauseProtocol", AUTHORITY, hx("PROTOCOL_CCTP")))
    lines.append(msg_line("PauseAction", AUTHORITY, hx("ACTION_FEE")))
    lines.append(msg_line("PauseCrossChains", AUTHORITY, hx("PROTOCOL_INTERNAL"), hx("noble")))
    for rpc, bs in bodies.items():
        for b in bs:
            for sg in signers:
                lines.append(msg_line(rpc, sg, *b))
    # the authority itself, every RPC and every body, through the application's own message router (whatever wraps the controllers
    # there): valid content succeeds — at the limits too (99, 100 counterparties) — and a refusal is the one the content calls for
    many = lambda k: [hx("PROTOCOL_HYPERLANE")] + [hx(str(i + 1000)) for i in range(k)]
    for k in (99, 100, 101):
        lines.append(msg_line("PauseCrossChains", AUTHORITY, *many(k)))
        lines.append(msg_line("PauseCrossChains", U[0], *many(k)))
        lines.append(msg_line("UnpauseCrossChains", AUTHORITY, *many(k)))
        lines.append(msg_line("UnpauseCrossChains", AUTHORITY, *many(k)))
    for rpc, bs in bodies.items():
        for b in bs:
            lines.append(msg_line(rpc, AUTHORITY, *b))
    lines.append(msg_line("UnpauseProtocol", AUTHORITY, hx("PROTOCOL_CCTP")))
    lines.append(msg_line("ReplaceDepositForBurn", AUTHORITY, hx(b"\x01" * 248), hx(b"\x02" * 65), hx(b"\x03" * 32), hx(b"\x04" * 32)))
    # holders of roles in the bridge modules, and the module accounts themselves, are not the authority either
    roles = ["cctp.owner", "cctp.pauser", "cctp.attestermanager", "cctp.tokencontroller", "ftf.owner", "ftf.pauser", "ftf.blacklister", "ftf.masterminter"]
    holders = []
    for i, role in enumerate(roles):
        who = b32(addr(40 + i))
        holders.append(who)
        lines.append("env role %s %s" % (role, hx(who)))
    mods = [b32(bytes.fromhex(v)) for k, v in sorted(module_addrs().items())]
    for rpc, bs in bodies.items():
        for b in bs:
            for sg in holders + mods:
                lines.append(msg_line(rpc, sg, *b))
    signers = signers + holders + mods
    # the one RPC that reaches a bridge, through the recording message server: a foreign signer's request never gets there
    def be(n_, k_):
        return n_.to_bytes(k_, "big")
    body = be(0, 4) + b"\x11" * 32 + b"\x22" * 32 + be(12345, 32) + b"\x33" * 32
    orig = be(0, 4) + be(4, 4) + be(0, 4) + be(7, 8) + b"\x44" * 32 + b"\x55" * 32 + b"\x66" * 32 + body
    for sg in signers + [AUTHORITY]:
        lines.append("msgh ReplaceDepositForBurn %s %s %s %s %s" % (hx(sg), hx(orig), hx(b"\x02" * 65), hx(b"\x03" * 32), hx(b"\x04" * 32)))
        lines.append("msgh ReplaceDepositForBurn %s %s %s %s %s" % (hx(sg), hx(b"\x01" * 10), hx(b"\x02" * 65), "-", "-"))
    # the authority's own valid message goes through whatever the pause switches say
    for prep in ([], [msg_line("PauseCrossChains", AUTHORITY, hx("PROTOCOL_CCTP"), hx("0"))], [msg_line("UnpauseProtocol", AUTHORITY, hx("PROTOCOL_CCTP"))],
                 [msg_line("PauseProtocol", AUTHORITY, hx("PROTOCOL_CCTP"))]):
        lines += prep
        lines.append("msgh ReplaceDepositForBurn %s %s %s %s %s" % (hx(AUTHORITY), hx(orig), hx(b"\x02" * 65), hx(b"\x05" * 32), hx(b"\x06" * 32)))
    lines.append(msg_line("UnpauseCrossChains", AUTHORITY, hx("PROTOCOL_CCTP"), hx("0")))
    # the authority with valid content succeeds
    lines += [msg_line("UnpauseProtocol", AUTHORITY, hx("PROTOCOL_CCTP")), msg_line("UnpauseAction", AUTHORITY, hx("ACTION_FEE")),
              msg_line("UnpauseCrossChains", AUTHORITY, hx("PROTOCOL_INTERNAL"), hx("noble")), msg_line("UpdateParams", AUTHORITY, "5"),
              msg_line("PauseProtocol", AUTHORITY, hx("PROTOCOL_HYPERLANE")), msg_line("PauseAction", AUTHORITY, hx("ACTION_SWAP")),
              msg_line("PauseCrossChains", AUTHORITY, hx("PROTOCOL_CCTP"), hx("1"), hx("5"))]
    for _ in range(n):
        rpc = r.choice(sorted(bodies))
        lines.append(msg_line(rpc, r.choice(signers + [AUTHORITY]), *r.choice(bodies[rpc])))
    return lines


def c10_oracle(steps):
    out = []
    prev = None
    for s in steps:
        if s.op == "msg":
            f = s.line.split(" ")
            signer = unhx(f[2]).decode("utf-8", "replace")
            if signer != AUTHORITY:
                if s.impl.get("res") != "err":
                    out.append((s.i, "unauthorised-accepted: %s signed by %r returned %s" % (f[1], signer, s.impl.get("res"))))
                if prev is not None and s.impl.get("st") != prev:
                    out.append((s.i, "unauthorised-changed-state: %s signed by %r changed the module state" % (f[1], signer)))
                if s.impl.get("req", "-") != "-":
                    out.append((s.i, "unauthorised-reached-bridge: %s signed by %r reached a bridge" % (f[1], signer)))
        if s.op == "msgh":
            f = s.line.split(" ")
            signer = unhx(f[2]).decode("utf-8", "replace")
            if signer != AUTHORITY:
                if s.impl.get("res") != "err":
                    out.append((s.i, "unauthorised-accepted: %s signed by %r returned %s" % (f[1], signer, s.impl.get("res"))))
                if s.impl.get("hreq", "-") != "-":
                    out.append((s.i, "unauthorised-reached-bridge: %s signed by %r reached the bridge: %s" % (f[1], signer, s.impl.get("hreq")[:80])))
        if s.op == "msgany":
            signer = unhx(s.line.split(" ")[2]).decode("utf-8", "replace")
            if signer != AUTHORITY and (s.impl.get("res") not in ("err",) or s.impl.get("unchanged") != "true"):
                out.append((s.i, "unauthorised-accepted: %s signed by %r: res=%s unchanged=%s" % (s.line.split(" ")[1], signer, s.impl.get("res"), s.impl.get("unchanged"))))
        if "st" in s.impl:
            prev = s.impl["st"]
    return out


def c10_surface_lines(r, n):
    """every Msg RPC registered by the module, enumerated from the service descriptors at run time"""
    from proto import Proc, IMPL
    p = Proc([IMPL])
    p.ask("setup -")
    out = p.ask("listrpcs")
    p.close()
    rpcs = [x.split(":") for x in out[len("rpcs="):].split(",") if x]
    lines = ["setup -", msg_line("PauseProtocol", AUTHORITY, hx("PROTOCOL_CCTP")), msg_line("PauseAction", AUTHORITY, hx("ACTION_FEE"))]
    signers = [U[0], ORB, "", "garbage", AUTHORITY.upper(), b32(DUST_BYTES)]
    for name, inp, sfield in rpcs:
        for sg in signers:
            for k in range(n):
                lines.append("msgany %s %s %d" % (inp, hx(sg), r.below(10 ** 9)))
    return lines, rpcs


@prop
class C10(Base):
    id = "C10"
    assumptions = ["ante handlers and signature verification are outside the module; the property is about the handlers' own authority check"]

    def streams(self, tier, seed):
        r = Rng(seed * 1000 + 10)
        f = {"msg": ["res", "st", "ecs"], "msgh": ["res", "hreq", "st"]}
        surf, rpcs = c10_surface_lines(r.fork(2), self.n(tier, 8, 50))
        return [Stream("S3-rpc-signer-body-grid", c10_lines(r.fork(1), self.n(tier, 200, 2000)), fields=f, oracle=c10_oracle),
                Stream("S3-descriptor-enumerated-surface", surf, model=False, oracle=c10_oracle, note="%d RPCs from the service descriptors: %s" % (len(rpcs), ",".join(x[0].split("/")[-1] for x in rpcs)))]


# ----------------------------------------------------------------------------------------------- C11

def c11_lines(r, n, toks):
    """the same transfers on the same state, once with an empty orbiter account and once after deposits"""
    base = []
    for _ in range(n):
        base.append(scen.rand_transfer2(r, "recvh", toks))
    # some transfers carry a passthrough payload (the limit is raised first in both passes)
    for i in range(0, len(base), 4):
        if base[i].startswith("recvh"):
            fwd = r.choice([cctp_fwd(domain=0, passthrough=r.bytes(r.range(1, 32))), hyp_fwd(toks[0][0], domain=1, passthrough=r.bytes(r.range(1, 32)))])
            base[i] = orb_pkt("recvh", r.range(1000, 10 ** 9), fwd, [fee_action([(U[3], "b", 100)])] if r.chance(1, 2) else None)
    lines1, _ = scen.base_setup()
    lines2, _ = scen.base_setup()
    lines1.append(msg_line("UpdateParams", AUTHORITY, "64"))
    lines2.append(msg_line("UpdateParams", AUTHORITY, "64"))
    pairs = []
    l1 = list(lines1)
    l2 = list(lines2)
    deposits = {}
    for t in base:
        i1 = len(l1)
        l1.append(t)
        nd = r.below(3)
        dep = {}
        # the packet's own amount and denomination (a deposit that mirrors the coin about to arrive), its neighbours and multiples
        try:
            _p = packet_of(t)
            _A = int(_p["ftpd"]["amount"])
            _dn = _p["ftpd"]["denom"].split("/")[-1]
        except Exception:
            _A, _dn = 0, "uusdc"
        for _ in range(nd):
            d = r.choice(DENOMS + ["stake"])
            a = r.choice([1, 7, 10 ** 6, 10 ** 24, r.range(1, 10 ** 9)])
            if _A > 0 and r.chance(1, 3):
                d, a = _dn, r.choice([_A, _A, _A + 1, max(1, _A - 1), 2 * _A])
            dep[d] = dep.get(d, 0) + a
            l2.append("deposit %s %s %d" % (hx(ORB_BYTES), hx(d), a))
        i2 = len(l2)
        l2.append(t)
        pairs.append((i1, i2, dep))
    return l1, l2, pairs


def strip_orb_dust(bal):
    d = parse_delta(bal)
    return {k: v for k, v in d.items() if k[0] not in (ORBHEX, DUSTHEX)}


def c11_make_oracle(off2, pairs):
    def oracle(steps):
        out = []
        held = {}
        for (i1, i2, dep) in pairs:
            a, b = steps[i1], steps[off2 + i2]
            for d, v in dep.items():
                held[d] = held.get(d, 0) + v
            for k in ("ack", "hreq", "ev", "st"):
                if a.impl.get(k) != b.impl.get(k):
                    out.append((off2 + i2, "depends-on-dust: %s differs with pre-existing orbiter coins: %s vs %s" % (k, (a.impl.get(k) or "")[:160], (b.impl.get(k) or "")[:160])))
                    break
            else:
                if strip_orb_dust(a.impl.get("bal")) != strip_orb_dust(b.impl.get("bal")):
                    out.append((off2 + i2, "depends-on-dust: balance effects on other accounts differ with pre-existing orbiter coins"))
            if b.impl.get("ack") == "ok":
                p = packet_of(b.line)
                dn = p["ftpd"]["denom"][len(p["src_port"] + "/" + p["src_chan"] + "/"):]
                db = parse_delta(b.impl.get("bal"))
                want = held.get(dn, 0)
                if db.get((DUSTHEX, dn), 0) != want:
                    out.append((off2 + i2, "dust-not-swept: dust collector received %d %s, %d were sitting on the orbiter account" % (db.get((DUSTHEX, dn), 0), dn, want)))
                for (acc, d), v in db.items():
                    if acc == ORBHEX and d != dn:
                        # a denomination-changing action may leave nothing either; any change of another denom is a use of dust
                        out.append((off2 + i2, "other-denom-touched: orbiter balance of %s changed by %d during a %s transfer" % (d, v, dn)))
                held[dn] = 0
        return out
    return oracle


@prop
class C11(Base):
    id = "C11"
    assumptions = C01.assumptions + ["`c11_others_left` is proved for mailboxes whose post-dispatch hook charges nothing or charges in the transferred denomination (see the known finding for a charging hook in another denomination)"]

    def streams(self, tier, seed):
        out = []
        _, toks = scen.base_setup()
        for h in range(self.n(tier, 2, 8)):
            r = Rng(seed * 100000 + 1100 + h)
            l1, l2, pairs = c11_lines(r, self.n(tier, 120, 500), toks)
            lines = l1 + l2
            f = {"recvh": ["ack", "bal", "hreq", "st"]}
            out.append(Stream("S3-paired-with-and-without-deposits-%d" % h, lines, fields=f, oracle=c11_make_oracle(len(l1), pairs), shrink=False))
        # the recorded finding: a mailbox whose default hook charges gas in a denomination the orbiter happens to hold
        tok = toks[0][0]
        kf, _ = scen.base_setup()
        kf += ["env hyp igp %s 1 10000000000 1 50000" % hx("stake"), "deposit %s %s 5000000" % (hx(ORB_BYTES), hx("stake")),
               orb_pkt("recv", 10 ** 6, hyp_fwd(tok, domain=1, gas=100000, fee=("stake", 10 ** 6))), "env hyp noop",
               # …and the same paymaster named by the payload itself while the mailbox default is the no-op hook again
               orb_pkt("recv", 10 ** 6, hyp_fwd(tok, domain=1, gas=100000, fee=("stake", 10 ** 6),
                                                 hook=b"router_post_dispatch" + (4).to_bytes(4, "big") + (1).to_bytes(8, "big"))),
               orb_pkt("recv", 10 ** 6, hyp_fwd(tok, domain=1, gas=100000, fee=("stake", 10 ** 6)))]
        # gas limits of every sign and width and maximum fees in either denomination, with the paymaster's coins at hand: the payment
        # is the paymaster's arithmetic on the payload's number (a maximum fee in another denomination than the paymaster's bounds nothing)
        kf.append("env hyp igp %s 1 10000000000 1 100000" % hx("stake"))
        for g_ in [-1, -40000, -99999, -100000, -100001, -2 ** 63, 2 ** 63 - 1, 2 ** 63, 2 ** 64 - 1, 2 ** 64, 2 ** 128, 2 ** 255, 2 ** 256 - 1, 0, 1, 99999]:
            for mf in (("stake", 10 ** 6), ("uusdc", 10 ** 6), ("stake", 5), ("stake", 0), None):
                kf.append("deposit %s %s 500000" % (hx(ORB_BYTES), hx("stake")))
                kf.append(orb_pkt("recv", 10 ** 6, hyp_fwd(tok, domain=1, gas=g_, fee=mf)))
        kf.append("env hyp noop")
        out.append(Stream("S3-igp-hook-corpus", kf, fields={"recv": ["ack", "bal"]}, oracle=c11_igp_oracle))
        out += shared_streams(seed, toks, tier, {"recv": ["ack", "bal", "mv", "st"], "recvh": ["ack", "bal", "hreq", "st"]}, c01_oracle,
                              skip=("attribute-shapes", "pause-levels", "spellings"))
        # a restart (export, validate, initialise) of a chain on whose orbiter account somebody left coins — of the transferred
        # denomination, of others, of many: the module comes back as it was and the next transfers go through
        rs, _ = scen.base_setup()
        rs += ["reimport", orb_pkt("recv", 1000, int_fwd(U[1]))]
        for deps in ([("stake", 9)], [("uusdc", 7)], [("uusdc", 7), ("stake", 9)], [("uother", 1), ("aeth", 2 ** 70), ("stake", 1)]):
            for (dn, am) in deps:
                rs.append("deposit %s %s %d" % (hx(ORB_BYTES), hx(dn), am))
            rs += ["reimport", "export", orb_pkt("recv", 1000, int_fwd(U[1])), orb_pkt("recv", 5000, cctp_fwd(domain=0), [fee_action([(U[2], "b", 100)])]),
                   "genload pp=[];pcc=[];pa=[];params=0;amts=[];cnts=[]", orb_pkt("recv", 1000, int_fwd(U[1])), "reimport", "export"]
        out.append(Stream("S3-restart-with-coins-on-the-account", rs, fields={"recv": ["ack", "bal", "st"], "reimport": ["valid", "init", "same", "st"], "export": ["st"]}, oracle=c01_oracle))
        return out


def c11_igp_oracle(steps):
    out = []
    for s in steps:
        if s.op == "recv" and s.impl.get("ack") == "ok":
            p = packet_of(s.line)
            dn = p["ftpd"]["denom"][len(p["src_port"] + "/" + p["src_chan"] + "/"):]
            for (acc, d), v in parse_delta(s.impl.get("bal")).items():
                if acc == ORBHEX and d != dn and v != 0:
                    out.append((s.i, "other-denom-touched: orbiter balance of %s changed by %d during a %s transfer" % (d, v, dn)))
    return out


# ----------------------------------------------------------------------------------------------- C12

def c12_oracle(steps):
    """the statistics are the fold of the successful transfers (recomputed from implementation observations)"""
    out = []
    amts, cnts = {}, {}
    for s in steps:
        if s.op == "setup":
            amts, cnts = {}, {}
        if s.op in ("recvh",) and s.impl.get("ack") == "ok":
            p = packet_of(s.line)
            if p["payload"] and receiver_is_orbiter(p):
                pid, cp = dest_of(p)
                A = parse_go_int(p["ftpd"]["amount"])
                dn = p["ftpd"]["denom"][len(p["src_port"] + "/" + p["src_chan"] + "/"):]
                src = (1, p["dst_chan"])
                # what was forwarded: the bridge request
                reqs = [x for x in (s.impl.get("hreq") or "-").split(";") if not x.startswith("swap:")]
                import re
                m = re.search(r"amount=(\d+)", reqs[0]) if reqs and reqs[0] != "-" else None
                out_dn = dn
                if m:
                    fwd = int(m.group(1))
                    m2 = re.search(r"burn=([0-9a-f]+)", reqs[0])
                    if m2:
                        out_dn = unhx(m2.group(1)).decode()
                else:
                    m3 = re.search(r"coins=([0-9a-f]+)=(\d+)", reqs[0]) if reqs else None
                    if not m3:
                        continue
                    out_dn, fwd = unhx(m3.group(1)).decode(), int(m3.group(2))
                if "warp.RemoteTransfer" in reqs[0]:
                    sw = [x for x in (s.impl.get("hreq") or "").split(";") if x.startswith("swap:")]
                    if sw:
                        out_dn = unhx(sw[-1].split(":")[3].split("=")[1]).decode()
                if out_dn == dn:
                    k = (src, (pid, cp), dn)
                    a = amts.get(k, (0, 0))
                    amts[k] = (a[0] + A, a[1] + fwd)
                else:
                    k1, k2 = (src, (pid, cp), dn), (src, (pid, cp), out_dn)
                    a = amts.get(k1, (0, 0))
                    amts[k1] = (a[0] + A, a[1])
                    b = amts.get(k2, (0, 0))
                    amts[k2] = (b[0], b[1] + fwd)
                cnts[(src, (pid, cp))] = cnts.get((src, (pid, cp)), 0) + 1
        if "st" in s.impl and s.op in ("recvh", "recv", "msg", "export"):
            st = s.impl["st"]
            try:
                got_a, got_c = {}, {}
                parts = dict(x.split("=", 1) for x in st.split(";"))
                for e in parts["amts"][1:-1].split(","):
                    if e:
                        f = e.split("|")
                        got_a[((int(f[0]), unhx(f[1]).decode()), (int(f[2]), unhx(f[3]).decode()), unhx(f[4]).decode())] = (int(f[5]), int(f[6]))
                for e in parts["cnts"][1:-1].split(","):
                    if e:
                        f = e.split("|")
                        got_c[((int(f[0]), unhx(f[1]).decode()), (int(f[2]), unhx(f[3]).decode()))] = int(f[4])
            except Exception:
                continue
            if got_a != amts or got_c != cnts:
                da = {k: (got_a.get(k), amts.get(k)) for k in set(got_a) | set(amts) if got_a.get(k) != amts.get(k)}
                dc = {k: (got_c.get(k), cnts.get(k)) for k in set(got_c) | set(cnts) if got_c.get(k) != cnts.get(k)}
                out.append((s.i, "stats-not-fold: recorded vs fold of successful transfers differ: amounts %s counts %s" % (str(da)[:300], str(dc)[:200])))
                amts, cnts = got_a, got_c   # resynchronise so that one defect is reported once
    return out


@prop
class C12(Base):
    id = "C12"
    assumptions = ["totals stay below 2^256 and counts below 2^64-1 (inside that headroom; beyond it the update is refused and logged)"]

    def streams(self, tier, seed):
        out = []
        f = {"recvh": ["ack", "st"], "msg": ["res", "st"], "query": ["res", "out", "next", "total"], "reimport": ["valid", "init", "same", "st"]}
        for h in range(self.n(tier, 3, 10)):
            r = Rng(seed * 100000 + 1200 + h)
            lines, toks = scen.base_setup()
            lines.append("deposit %s %s %d" % (hx(POOL), hx("uother"), 10 ** 30))
            lines.append("swapctl 2 1 " + hx("uother"))
            hist = scen.tuned_history(r, self.n(tier, 200, 700), toks, op="recvh", p_admin=10, p_deposit=4, p_query=10, p_reimport=1)
            # sprinkle denomination-changing actions
            hist2 = []
            for l in hist:
                hist2.append(l)
                if l.startswith("recvh") and r.chance(1, 8):
                    hist2.append(orb_pkt("recvh", r.range(1, 10 ** 9), int_fwd(r.choice(U[:3])), [swap_action(), fee_action([(U[4], "b", 100)])], denom="uusdc", dst_chan=r.choice(CHANNELS)))
            out.append(Stream("S3-stats-history-%d" % h, lines + hist2, fields=f, oracle=c12_oracle))
        out.append(Stream("S3-large-ledger", large_ledger_lines(Rng(seed * 1000 + 112))))
        _, toks = scen.base_setup()
        out += shared_streams(seed, toks, tier, {"recv": ["ack", "st"], "recvh": ["ack", "st"], "msg": ["res", "st"], "export": ["st"], "query": ["res", "out"]}, None,
                              skip=("spellings",))
        return out


# ----------------------------------------------------------------------------------------------- C16

def c16_lines(r, n):
    lines, toks = scen.base_setup()
    good = memo(int_fwd(U[1]))
    for d in scen.DENOM_GRID:
        for (p, c) in [("transfer", "channel-7"), ("transfer", "channel-70"), ("other", "channel-7")]:
            lines.append("pure denom %s %s %s" % (hx(d), hx(p), hx(c)))
            # what ICS-20 alone credits for the same denomination, and what the orbiter does with it
            lines.append(pkt_line("recv", ftpd(d, 1000, U[0], ""), src_port=p, src_chan=c))
            lines.append(pkt_line("recvh", ftpd(d, 1000, ORB, good), src_port=p, src_chan=c))
    for a in ["1", "01", "010", "0x10", "0b11", "0o17", "1_000", "+5", "5", "-5", "0", "", " 1", "1e3", str(10 ** 25)]:
        lines.append(pkt_line("recv", ftpd("transfer/channel-7/uusdc", a, U[0], "")))
        lines.append(pkt_line("recvh", ftpd("transfer/channel-7/uusdc", a, ORB, good)))
    # returning natives whose names contain slashes, with coins in escrow: released by ICS-20, processed by the orbiter
    for d in ("a/b", "factory/noble1xyz/sub", "gamm/pool/7", "hyperlane/0x1234", "x/y/z", "aUSDY", "ausdy"):
        lines.append("escrowfund %s %s %d" % (hx("channel-0"), hx(d), 10 ** 9))
        lines.append(pkt_line("recv", ftpd("transfer/channel-7/" + d, 1000, U[0], "")))
        for op in ("recv", "recvh"):
            lines.append(pkt_line(op, ftpd("transfer/channel-7/" + d, 1000, ORB, good)))
            lines.append(pkt_line(op, ftpd("transfer/channel-7/" + d, 1000, ORB, memo(int_fwd(U[1]), [fee_action([(U[4], "b", 100)])]))))
    # the identifiers of the sending side are the counterparty's choice (any port, any channel name of 8 to 64 characters): a native coin
    # returning under them is released by ICS-20 and processed by the orbiter all the same
    for sp, sc in [("transfer", "channel-noble"), ("transfer", "nobletransfer"), ("transfer", "channel-7-usdc"), ("transfer", "c" * 40), ("transfer", "c" * 64),
                   ("transfer", "channel-18446744073709551615"), ("transfer", "channel-18446744073709551616"), ("transfer", "08-wasm-0"), ("transfer", "CHANNEL-7"),
                   ("wasm.noble1qyqszqgpqyqszqgpqyqszqgpqyqszqgpjnp7du", "channel-7"), ("icahost", "channel-7"), ("p" * 128, "channel-7"), ("transfer", "channel-7.a_b+c#[d]<e>")]:
        for op in ("recv", "recvh"):
            lines.append(pkt_line(op, ftpd("%s/%s/uusdc" % (sp, sc), 1000, ORB, good), src_port=sp, src_chan=sc))
            lines.append(pkt_line(op, ftpd("%s/%s/uusdc" % (sp, sc), 1000, ORB, memo(cctp_fwd(domain=0), [fee_action([(U[4], "b", 100)])])), src_port=sp, src_chan=sc))
        lines.append(pkt_line("recv", ftpd("%s/%s/uusdc" % (sp, sc), 1000, U[0], ""), src_port=sp, src_chan=sc))
    lines += ["query DispatchedAmountsBySrc %s nopage" % hx("PROTOCOL_IBC"), "query DispatchedAmountsByDst %s nopage" % hx("PROTOCOL_INTERNAL"), "export"]
    for d in ("aUSDY", "ausdy", "AUSDY", "a/b", "x/y/z"):
        lines.append("query DispatchedAmounts %s %s %s %s %s" % (hx("PROTOCOL_IBC"), hx("channel-0"), hx("PROTOCOL_INTERNAL"), hx("noble"), hx(d)))
    lines += scen.denom_grid(r, n)
    return lines


def c16_route_lines(r, toks):
    """the coin forwarded is the coin ICS-20 credited, on every route, whatever else the attributes carry (a maximum fee in the same
    or another denomination, a warp token whose collateral is another denomination) and whatever sits on the orbiter account"""
    lines, _ = scen.base_setup()
    tok = {d: t for (t, d) in toks}
    fee = [fee_action([(U[4], "b", 100)])]
    # a fee whose recipient is the orbiter account itself: the running amount shrinks while the coins stay — the forwarder must notice
    for sf in ([fee_action([(ORB, "b", 100)])], [fee_action([(ORB, "a", 5), (U[3], "a", 5)])], [fee_action([(U[3], "b", 50), (ORB.upper(), "a", 1)])]):
        for rt in (int_fwd(U[1]), cctp_fwd(domain=0), hyp_fwd(tok["uusdc"], domain=1)):
            for op in ("recv", "recvh"):
                lines.append(orb_pkt(op, 10 ** 6, rt, sf, denom="uusdc"))
    for dn in ("uusdc", "uother"):
        other = "uother" if dn == "uusdc" else "uusdc"
        routes = [int_fwd(U[1])]
        if dn == "uusdc":
            routes += [cctp_fwd(domain=0), cctp_fwd(domain=5, caller=b"\x05" * 32)]
        for mf in (None, (dn, 0), (dn, 100), (dn, 10 ** 6), (other, 5), ("stake", 1)):
            routes.append(hyp_fwd(tok[dn], domain=1, fee=mf))
        routes.append(hyp_fwd(tok[other], domain=1))            # a token whose collateral is the other denomination
        for rt in routes:
            for acts in (None, fee):
                for op in ("recvh", "recv"):
                    lines.append(orb_pkt(op, 10 ** 6, rt, acts, denom=dn))
    # a warp token that was used before, coins of its collateral already on the orbiter account, and a transfer of another
    # denomination naming that token: nothing but the credited coin may leave
    lines.append(orb_pkt("recv", 1000, hyp_fwd(tok["uusdc"], domain=1), None, denom="uusdc"))
    lines.append(orb_pkt("recvh", 1000, hyp_fwd(tok["uusdc"], domain=1), None, denom="uusdc"))
    lines.append("deposit %s %s 500" % (hx(ORB_BYTES), hx("uusdc")))
    for op in ("recv", "recvh"):
        lines.append(orb_pkt(op, 500, hyp_fwd(tok["uusdc"], domain=1), None, denom="uother"))
        lines.append(orb_pkt(op, 500, hyp_fwd(tok["uusdc"], domain=1), fee, denom="uother"))
    lines.append(orb_pkt("recv", 1000, int_fwd(U[1]), None, denom="uusdc"))
    return lines


def c16_oracle(steps):
    out = []
    last_pure = None
    last_plain = None
    for s in steps:
        if s.op == "pure" and s.line.split(" ")[1] == "denom":
            last_pure = s
            last_plain = None
            continue
        if s.op == "recv" and last_pure is not None:
            last_plain = s
            continue
        if s.op == "recvh":
            p = packet_of(s.line)
            if not receiver_is_orbiter(p):
                continue
            if s.impl.get("ack") == "ok":
                delta = parse_delta(s.impl.get("bal"))
                esc = ("escrow:%s/%s" % (p["dst_port"], p["dst_chan"])).encode().hex()
                released = [(d, -v) for (a, d), v in delta.items() if a == esc and v < 0]
                minted = parse_sup(s.impl.get("sup"))
                if any(v > 0 for v in minted.values()):
                    out.append((s.i, "voucher-processed: an orbiter transfer minted a voucher (token not native to this chain)"))
                if len(released) != 1:
                    out.append((s.i, "not-returning: orbiter transfer succeeded without releasing exactly one escrowed coin: %s" % released))
                    continue
                dn, amt = released[0]
                # the coin acted on, forwarded and recorded is the coin ICS-20 credited
                import re
                req = s.impl.get("hreq") or ""
                m = re.search(r"coins=([0-9a-f]+)=(\d+)", req)
                no_actions = not (p["payload"] or {}).get("pre_actions")
                if m and no_actions and (unhx(m.group(1)).decode() != dn or int(m.group(2)) != amt):
                    out.append((s.i, "different-coin: forwarded %s %s, ICS-20 credited %d %s" % (m.group(2), unhx(m.group(1)).decode(), amt, dn)))
                m = re.search(r"cctp\.DepositForBurn\w*:from=[0-9a-f]+:amount=(\d+):.*?:burn=([0-9a-f]+)", req)
                if m and no_actions and (unhx(m.group(2)).decode() != dn or int(m.group(1)) != amt):
                    out.append((s.i, "different-coin: burned %s %s, ICS-20 credited %d %s" % (m.group(1), unhx(m.group(2)).decode(), amt, dn)))
                m = re.search(r"warp\.RemoteTransfer:.*?:amount=(\d+):", req)
                if m and no_actions and int(m.group(1)) != amt:
                    out.append((s.i, "different-coin: remote transfer of %s, ICS-20 credited %d %s" % (m.group(1), amt, dn)))
                # (a negative change is the sweep of what was sitting there before: C11's subject, not this property's)
                orbk = [(a, d) for (a, d), v in delta.items() if a == ORB_BYTES.hex() and v > 0]
                if orbk:
                    out.append((s.i, "different-coin: part of the credited coin stayed on the orbiter account: %s" % orbk))
                st = s.impl.get("st", "")
                if ("|%s|" % hx(dn)) not in st:
                    out.append((s.i, "different-coin: statistics do not record denom %s" % dn))
                if last_pure is not None and last_pure.impl_raw.startswith("ok:"):
                    if unhx(last_pure.impl_raw[3:]).decode() != dn and p["ftpd"]["denom"] == unhx(last_pure.line.split(" ")[2]).decode("utf-8", "replace"):
                        out.append((s.i, "different-coin: RecoverNativeDenom says %s, ICS-20 credited %s" % (unhx(last_pure.impl_raw[3:]).decode(), dn)))
                # a one-hop voucher whose prefix is the packet's source port and channel
                pre = p["src_port"] + "/" + p["src_chan"] + "/"
                d0 = p["ftpd"]["denom"]
                if not d0.startswith(pre) or "/" in dn and False:
                    out.append((s.i, "not-native: accepted denom %r is not prefixed by the source port/channel" % d0))
            last_pure = None
    return out


@prop
class C16(Base):
    id = "C16"
    assumptions = ["ibc-go's denomination helpers (SenderChainIsSource, ParseDenomTrace, GetDenomPrefix) are shared by the orbiter and ICS-20; the model mirrors them and the theorem c16_same_coin is parametric in them"]

    def streams(self, tier, seed):
        r = Rng(seed * 1000 + 16)
        f = {"pure": ["_"], "recv": ["ack", "bal", "mv"], "recvh": ["ack", "bal", "hreq", "st"], "dispatchh": ["res", "hreq", "bal", "st"],
             "query": ["res", "out"], "export": ["st"]}
        _, toks = scen.base_setup()
        f2 = {"recv": ["ack", "bal", "req", "mv", "st"], "recvh": ["ack", "bal", "hreq", "st"]}
        return [Stream("S1+S3-denominations-beside-ICS20", c16_lines(r, self.n(tier, 200, 2000)), fields=f, oracle=c16_oracle),
                Stream("S3-credited-coin-on-every-route", c16_route_lines(r.fork(2), toks), fields=f2, oracle=c16_oracle),
                Stream("S3-dropped-branches", dry_lines(Rng(seed * 1000 + 116), toks, self.n(tier, 60, 300))),
                Stream("S3-statistics-at-the-limit", stats_limit_lines(toks), fields=f2, oracle=c16_oracle)] + \
            shared_streams(seed, toks, tier, f2, c16_oracle, skip=("credited-coin-on-every-route", "statistics-at-the-limit", "dropped-branches"))


# ----------------------------------------------------------------------------------------------- C18

def c18_lines(r, n):
    lines, toks = scen.base_setup()
    limit_values = [0, 1, 2, 16, 17, 64, 255, 256, 4096, 2 ** 32 - 1]

    def probes(limit):
        out = []
        for L in sorted({0, 1, max(0, limit - 1), limit, limit + 1, limit + 2, 2 * limit + 3} & set(range(0, 6000))):
            rt = r.choice([cctp_fwd(domain=0, passthrough=b"\xab" * L), hyp_fwd(toks[0][0], domain=1, passthrough=b"\xcd" * L)])
            out.append(orb_pkt("recv", 1000, rt))
        # only the passthrough bytes count: other opaque attribute data (hook metadata, callers, recipients) never does
        for L in sorted({0, limit} & set(range(0, 6000))):
            out.append(orb_pkt("recv", 1000, hyp_fwd(toks[0][0], domain=1, passthrough=b"\xcd" * L, meta="0x" + "ab" * r.choice([1, 3, 40]))))
            out.append(orb_pkt("recv", 1000, cctp_fwd(domain=0, passthrough=b"\xab" * L, caller=b"\x05" * 32)))
        # the limit counts bytes, whatever they are: all-zero payloads, data padded with zeros to the next 32-byte word (the way an ABI
        # encoder pads), zeros in front, 0xff — at the lengths around the limit and at the word boundaries just above it
        nxt = (limit // 32 + 1) * 32
        for L in sorted({max(0, limit - 1), limit, limit + 1, nxt, nxt + 32, limit + 31, limit + 32} & set(range(1, 6000))):
            k = min(limit, L)
            for body in (b"\x00" * L, b"\xab" * k + b"\x00" * (L - k), b"\x00" * (L - 1) + b"\x01", b"\xff" * L, b"\xab" * max(0, L - 1) + b"\x00"):
                if len(body) == L:
                    out.append(orb_pkt("recv", 1000, cctp_fwd(domain=0, passthrough=body)))
        return out
    lines += probes(0)                       # default parameters
    lines.append("query Params")
    # every value set by the authority in turn, including back to zero, each followed by the boundary probes;
    # and an over-limit probe right after coins were left on the orbiter account
    for v in [16, 64, 8, 0, 1, 0, 2 ** 32 - 1, 0, 17]:
        lines.append(msg_line("UpdateParams", AUTHORITY, str(v)))
        lines.append("query Params")
        lines += probes(v)
        if v < 5000:
            lines.append("deposit %s %s 3" % (hx(ORB_BYTES), hx("uusdc")))
            lines.append(orb_pkt("recv", 1000, cctp_fwd(domain=0, passthrough=b"\xee" * (v + 1))))
            lines.append(orb_pkt("recv", 1000, cctp_fwd(domain=0, passthrough=b"\xee" * v)))
    # an update executed on a branch that is dropped (simulation, or a later message of the same transaction failed)
    # sets nothing: the limit in force stays the committed one, whichever way the dropped value differs
    for (committed, dropped) in [(16, 64), (64, 16), (0, 17), (17, 0)]:
        lines.append(msg_line("UpdateParams", AUTHORITY, str(committed)))
        lines.append("msgdry" + msg_line("UpdateParams", AUTHORITY, str(dropped))[3:])
        lines.append("query Params")
        lines += probes(committed)
        lines += probes(dropped)
    # every width and byte pattern of the 32-bit value: each power of two with its neighbours, every value of the top byte and of
    # the low byte (however the number is stored, it is the number that was set): the query reports it, it is exported and
    # imported as it is, and a small passthrough is inside every limit ≥ its size
    pats = []
    for k in range(32):
        pats += [2 ** k, 2 ** k - 1, 2 ** k + 1]
    pats += [b_ << 24 for b_ in range(1, 256)] + [(b_ << 24) | 0x808001 for b_ in (0x08, 0x0a, 0x10, 0x12, 0x80)] + [0x08808001, 0x0a000800, 0x7fffffff, 0x80000000, 0xfffffffe]
    pats += [0x0800 | b_ for b_ in (0, 1, 0x7f, 0x80, 0xff)] + [(b_ << 8) | 0x08 for b_ in (0, 1, 0x7f, 0x80, 0xff)]
    for j, v in enumerate(sorted(set(x for x in pats if 0 <= x < 2 ** 32))):
        lines.append(msg_line("UpdateParams", AUTHORITY, str(v)))
        lines.append("query Params")
        L = 0 if v == 0 else min(v, 3)
        lines.append(orb_pkt("recv", 1000, cctp_fwd(domain=0, passthrough=b"\xab" * L)))
        if v < 4:
            lines.append(orb_pkt("recv", 1000, cctp_fwd(domain=0, passthrough=b"\xab" * (v + 1))))
        if j % 16 == 0:
            lines += ["export", "reimport", "query Params"]
    for _ in range(n):
        v = r.choice(limit_values)
        signer = AUTHORITY if r.chance(4, 5) else U[0]
        if r.chance(1, 6):
            w = r.choice(limit_values)
            lines.append("msgdry" + msg_line("UpdateParams", signer, str(w))[3:])
            lines.append("query Params")
            lines += probes(w)
            continue
        lines.append(msg_line("UpdateParams", signer, str(v)))
        lines.append("query Params")
        cur = v if signer == AUTHORITY else None
        lines += probes(v if cur is not None else r.choice(limit_values))
        if r.chance(1, 6):
            lines.append("reimport")
        if r.chance(1, 5):
            lines.append("deposit %s %s 3" % (hx(ORB_BYTES), hx("uusdc")))
    return lines


def c18_oracle(steps):
    out = []
    limit = 0
    for s in steps:
        if s.op == "setup":
            limit = 0
        if s.op == "msg" and s.line.split(" ")[1] == "UpdateParams" and s.impl.get("res") == "ok":
            limit = int(s.line.split(" ")[3])
        if s.op == "query" and s.line.split(" ")[1] == "Params" and s.impl.get("res") == "ok":
            if int(s.impl["out"]) != limit:
                out.append((s.i, "limit-not-last-set: Params reports %s, the value most recently set is %d" % (s.impl["out"], limit)))
        if s.op in RECV_OPS:
            p = packet_of(s.line)
            if not p["payload"] or not receiver_is_orbiter(p):
                continue
            import base64
            pt = (p["payload"].get("forwarding") or {}).get("passthrough_payload") or ""
            try:
                L = len(base64.b64decode(pt))
            except Exception:
                continue
            if L > limit and s.impl.get("ack") == "ok":
                out.append((s.i, "over-limit-accepted: passthrough of %d bytes accepted with limit %d" % (L, limit)))
            if L <= limit and s.impl.get("ack") != "ok":
                txt = unhx(s.impl.get("acktxt", "-")).decode("utf-8", "replace")
                if "passthrough payload size" in txt:
                    out.append((s.i, "within-limit-refused: passthrough of %d bytes refused for size with limit %d" % (L, limit)))
            if L > limit and s.impl.get("ack") == "err" and s.impl.get("bal") != "-":
                out.append((s.i, "after-credit: size refusal after funds moved"))
    return out


@prop
class C18(Base):
    id = "C18"
    assumptions = []

    def streams(self, tier, seed):
        r = Rng(seed * 1000 + 18)
        f = {"recv": ["ack", "bal"], "msg": ["res", "st"], "msgdry": ["res", "st"], "query": ["res", "out"], "reimport": ["valid", "init", "same", "st"]}
        _, toks = scen.base_setup()
        return [Stream("S3-parameter-history", c18_lines(r, self.n(tier, 25, 250)), fields=f, oracle=c18_oracle),
                Stream("S3-dropped-branches", dry_lines(Rng(seed * 1000 + 118), toks, self.n(tier, 60, 300)))]


# ----------------------------------------------------------------------------------------------- C13

def c13_genesis_doc(r):
    """a ledger as a chain started from a genesis may hold it: several *source* protocols (the same domain number under CCTP
    and Hyperlane), destinations whose ids are prefixes of one another, several denoms per route"""
    srcs = [(1, "channel-0"), (1, "channel-1"), (2, "1"), (3, "1"), (2, "10"), (3, "10"), (4, "noble")] + [(1, "channel-%d" % i) for i in range(2, 12)]
    # among the destinations: identifiers that begin with their protocol's own number, or repeat it (2:2, 2:22, 3:31337, 4:4…)
    dsts = [(2, "0"), (2, "1"), (3, "1"), (3, "10"), (3, "100"), (4, "noble"), (4, "nob"), (2, "2"), (2, "21"), (2, "22"), (3, "3"), (3, "31337"), (3, "324"),
            (4, "4"), (4, "44:4")]
    amts, cnts = [], []
    for (sp, sc) in srcs:
        for (dp, dc) in dsts:
            if (sp, sc) == (dp, dc) or r.chance(1, 4):
                continue
            cnts.append("%d|%s|%d|%s|%d" % (sp, hx(sc), dp, hx(dc), r.range(1, 50)))
            for dn in r.shuffle(["uusdc", "uother", "ueure", "uusd", "uusdcx"])[: r.range(1, 3)]:
                # among them one-legged rows (only incoming, only outgoing: what a denomination-changing action leaves)
                # …and rows at the width of the stored integers: each leg may hold up to 2^256-1 on its own
                big = 2 ** 256 - 1
                i_, o_ = r.choice([(r.range(1, 10 ** 9), r.range(0, 10 ** 9)), (0, r.range(1, 10 ** 9)), (r.range(1, 10 ** 9), 0), (r.range(1, 10 ** 9), r.range(1, 10 ** 9)),
                                   (big, big), (2 ** 255, 2 ** 255), (big, 1), (1, big), (2 ** 255 + 7, 2 ** 255 - 7), (big, 0), (0, big)] if r.chance(1, 3) else
                                  [(r.range(1, 10 ** 9), r.range(1, 10 ** 9))])
                amts.append("%d|%s|%d|%s|%s|%d|%d" % (sp, hx(sc), dp, hx(dc), hx(dn), i_, o_))
    return "pp=[];pcc=[];pa=[];params=0;amts=[%s];cnts=[%s]" % (",".join(amts), ",".join(cnts))


def c13_build(r, n_hist, limits, tier, genesis=False):
    from proto import Proc, IMPL
    lines, toks = scen.base_setup(routers=((1, 50000), (2, 0), (10, 0), (11, 0), (100, 0)))
    tok = toks[0][0]
    if genesis:
        lines.append("genload " + c13_genesis_doc(r))
    # a ledger with many routes: sources x destinations (including ids where one is a prefix of another) x denoms
    for _ in range(n_hist):
        k = r.below(10)
        if k < 3:
            fwd, dn = cctp_fwd(domain=r.choice([0, 1, 5])), "uusdc"
        elif k < 7:
            fwd, dn = hyp_fwd(tok, domain=r.choice([1, 2, 10, 11, 100])), "uusdc"
        else:
            fwd, dn = int_fwd(r.choice(U[:2])), r.choice(DENOMS)
        acts = [fee_action([(U[4], "b", 100)])] if r.chance(1, 2) else None
        lines.append(orb_pkt("recv", r.range(1, 10 ** 6), fwd, acts, denom=dn, dst_chan=r.choice(CHANNELS)))
    lines.append(msg_line("PauseCrossChains", AUTHORITY, hx("PROTOCOL_CCTP"), *[hx(str(x)) for x in (0, 1, 10, 11, 100, 5, 55, 4294967295)]))
    lines.append(msg_line("PauseCrossChains", AUTHORITY, hx("PROTOCOL_INTERNAL"), *[hx(x) for x in ("a", "ab", "abc", "b", "noble")]))
    lines.append(msg_line("PauseCrossChains", AUTHORITY, hx("PROTOCOL_HYPERLANE"), hx("7")))
    p = Proc([IMPL])
    for l in lines:
        p.ask(l)
    walks = []
    qs = []
    for pn in PROTO_NAMES:
        qs.append(("PausedCrossChains", hx(pn)))
        for q in ("DispatchedCountsBySrc", "DispatchedCountsByDst", "DispatchedAmountsBySrc", "DispatchedAmountsByDst"):
            qs.append((q, hx(pn)))
    for (q, arg) in qs:
        # reference listing: one page large enough for everything, total counted
        ref_i = len(lines)
        lines.append("query %s %s - 0 100000 1 0" % (q, arg))
        ref = kv(p.ask(lines[-1]))
        n_ref = len(split_items(ref.get("out", "[]")))
        for lim in limits:
            for rev in (0, 1):
                for ct in (0, 1):
                    # by key
                    idxs, key, seen = [], "-", set()
                    for _ in range(n_ref // max(1, lim) + 8):
                        l = "query %s %s %s 0 %d %d %d" % (q, arg, key, lim, ct, rev)
                        idxs.append(len(lines))
                        lines.append(l)
                        o = kv(p.ask(l))
                        nk = o.get("next", "-")
                        if o.get("res") != "ok" or nk == "-" or nk in seen:
                            break
                        seen.add(nk)
                        key = nk
                    walks.append(("key", q, arg, lim, rev, ct, ref_i, idxs))
                # by offset
                idxs, off = [], 0
                for _ in range(n_ref // max(1, lim) + 8):
                    l = "query %s %s - %d %d 1 %d" % (q, arg, off, lim, rev)
                    idxs.append(len(lines))
                    lines.append(l)
                    o = kv(p.ask(l))
                    if o.get("res") != "ok" or o.get("out", "[]") == "[]":
                        break
                    off += lim
                walks.append(("offset", q, arg, lim, rev, 1, ref_i, idxs))
        # odd requests: key and offset together, unknown key, key past the end
        for l in ["query %s %s %s 3 2 0 0" % (q, arg, hx("zz")), "query %s %s %s 0 2 0 0" % (q, arg, hx("\xff\xff")), "query %s %s %s 0 2 1 1" % (q, arg, hx("0")),
                  "query %s %s - 1000 2 1 0" % (q, arg)]:
            lines.append(l)
            p.ask(l)
    # direct lookups: positive entries found, absent ones not found
    for sp in ("PROTOCOL_IBC",):
        for sc in CHANNELS:
            for (dp, dc) in [("PROTOCOL_CCTP", "0"), ("PROTOCOL_CCTP", "1"), ("PROTOCOL_CCTP", "7"), ("PROTOCOL_HYPERLANE", "1"), ("PROTOCOL_HYPERLANE", "10"), ("PROTOCOL_INTERNAL", "noble"), ("PROTOCOL_INTERNAL", "x")]:
                lines.append("query DispatchedCounts %s %s %s %s" % (hx(sp), hx(sc), hx(dp), hx(dc)))
                for dn in DENOMS:
                    lines.append("query DispatchedAmounts %s %s %s %s %s" % (hx(sp), hx(sc), hx(dp), hx(dc), hx(dn)))
    # a lookup names one entry exactly: neither a beginning of a recorded denomination or identifier, nor an extension of one
    for (sc, dp, dc) in [("channel-0", "PROTOCOL_CCTP", "0"), ("channel-1", "PROTOCOL_HYPERLANE", "1"), ("channel-0", "PROTOCOL_INTERNAL", "noble"), ("channel-", "PROTOCOL_CCTP", "0"),
                         ("channel-0", "PROTOCOL_HYPERLANE", "10"), ("channel-0", "PROTOCOL_HYPERLANE", "100"), ("channel-0", "PROTOCOL_INTERNAL", "nob"), ("channel-00", "PROTOCOL_CCTP", "0")]:
        for dn in ("uusdc", "uus", "uusd", "u", "uusdcx", "uusdc ", "UUSDC", "uother", "uothe", "ueure", "ueur"):
            lines.append("query DispatchedAmounts %s %s %s %s %s" % (hx("PROTOCOL_IBC"), hx(sc), hx(dp), hx(dc), hx(dn)))
        lines.append("query DispatchedCounts %s %s %s %s" % (hx("PROTOCOL_IBC"), hx(sc), hx(dp), hx(dc)))
    lines.append("export")
    p.close()
    return lines, walks


def pcc_walk_build(r):
    """the listing of paused counterparties read page by page (forward by key, by offset in both directions, every page size): the
    pages together are the current set, each entry once, in order — what the messages made it"""
    from proto import Proc, IMPL
    lines = ["setup -"]
    lines.append(msg_line("PauseCrossChains", AUTHORITY, hx("PROTOCOL_CCTP"), *[hx(str(x)) for x in (0, 1, 10, 11, 100, 5, 55, 4294967295)]))
    lines.append(msg_line("PauseCrossChains", AUTHORITY, hx("PROTOCOL_CCTP"), *[hx(str(x)) for x in range(200, 300)]))
    lines.append(msg_line("PauseCrossChains", AUTHORITY, hx("PROTOCOL_INTERNAL"), *[hx(x) for x in ("a", "ab", "abc", "b", "noble")]))
    lines.append(msg_line("PauseCrossChains", AUTHORITY, hx("PROTOCOL_HYPERLANE"), hx("7")))
    lines.append(msg_line("UnpauseCrossChains", AUTHORITY, hx("PROTOCOL_CCTP"), hx("10"), hx("250")))
    p = Proc([IMPL])
    for l in lines:
        p.ask(l)
    walks = []
    for pn in PROTO_NAMES:
        q, arg = "PausedCrossChains", hx(pn)
        ref_i = len(lines)
        lines.append("query %s %s - 0 100000 1 0" % (q, arg))
        ref = kv(p.ask(lines[-1]))
        n_ref = len(split_items(ref.get("out", "[]")))
        for lim in (1, 2, 3, 50, 100, 101, 1000):
            for ct in (0, 1):
                idxs, key, seen = [], "-", set()
                for _ in range(n_ref // max(1, lim) + 8):
                    l = "query %s %s %s 0 %d %d 0" % (q, arg, key, lim, ct)
                    idxs.append(len(lines))
                    lines.append(l)
                    o = kv(p.ask(l))
                    nk = o.get("next", "-")
                    if o.get("res") != "ok" or nk == "-" or nk in seen:
                        break
                    seen.add(nk)
                    key = nk
                walks.append(("key", q, arg, lim, 0, ct, ref_i, idxs))
            for rev in (0, 1):
                idxs, off = [], 0
                for _ in range(n_ref // max(1, lim) + 8):
                    l = "query %s %s - %d %d 1 %d" % (q, arg, off, lim, rev)
                    idxs.append(len(lines))
                    lines.append(l)
                    o = kv(p.ask(l))
                    if o.get("res") != "ok" or o.get("out", "[]") == "[]":
                        break
                    off += lim
                walks.append(("offset", q, arg, lim, rev, 1, ref_i, idxs))
        lines.append("query %s %s nopage" % (q, arg))
    lines.append("export")
    p.close()
    return lines, walks


def split_items(out):
    return [x for x in out[1:-1].split(",") if x]


def c13_make_oracle(walks):
    def oracle(steps):
        out = []
        # the export is the ledger
        exp = None
        for s in reversed(steps):
            if s.op == "export":
                exp = dict(x.split("=", 1) for x in s.impl["st"].split(";"))
                break
        for (mode, q, arg, lim, rev, ct, ref_i, idxs) in walks:
            ref = split_items(steps[ref_i].impl.get("out", "[]"))
            got = []
            stuck = False
            for j, i in enumerate(idxs):
                s = steps[i]
                if s.impl.get("res") != "ok":
                    continue
                items = split_items(s.impl.get("out", "[]"))
                got += items
                if mode == "key" and j == len(idxs) - 1 and s.impl.get("next", "-") != "-":
                    stuck = True
                if j == 0 and ct == 1 and ref:
                    if int(s.impl.get("total", "0")) != len(ref):
                        out.append((i, "total: %s reports total %s for %d matching entries" % (q, s.impl.get("total"), len(ref))))
            want = list(reversed(ref)) if rev else ref
            if stuck or got != want:
                kind = "reverse-key" if (mode == "key" and rev) else mode
                out.append((idxs[-1], "walk-%s: following %s pages of %s (limit %d, reverse %d) visits %d entries (%d distinct) of %d%s" % (
                    kind, mode, q, lim, rev, len(got), len(set(got)), len(ref), ", never terminating" if stuck else "")))
        # listings against the export: by source / by destination = filter of the ledger
        if exp is not None:
            amts = split_items(exp["amts"])
            cnts = split_items(exp["cnts"])
            for s in steps:
                if s.op == "query" and s.line.endswith(" nopage") and s.impl.get("res") == "ok":
                    f = s.line.split(" ")
                    pid = PauseSpec.P.get(unhx(f[2]).decode())
                    items = split_items(s.impl.get("out", "[]"))
                    if f[1] == "DispatchedAmountsBySrc":
                        want = [a for a in amts if int(a.split("|")[0]) == pid]
                    elif f[1] == "DispatchedAmountsByDst":
                        want = [a for a in amts if int(a.split("|")[2]) == pid]
                    elif f[1] == "DispatchedCountsBySrc":
                        want = [c for c in cnts if int(c.split("|")[0]) == pid]
                    elif f[1] == "DispatchedCountsByDst":
                        want = [c for c in cnts if int(c.split("|")[2]) == pid]
                    else:
                        continue
                    if sorted(items) != sorted(want) or len(set(items)) != len(items):
                        out.append((s.i, "listing: %s(%s) returns %d entries, the ledger has %d matching" % (f[1], pid, len(items), len(want))))
                if s.op == "query" and s.line.split(" ")[1] in ("DispatchedCounts", "DispatchedAmounts"):
                    f = s.line.split(" ")
                    src = "%d|%s" % (PauseSpec.P[unhx(f[2]).decode()], f[3])
                    dst = "%d|%s" % (PauseSpec.P[unhx(f[4]).decode()], f[5])
                    if f[1] == "DispatchedCounts":
                        present = [c for c in cnts if c.startswith(src + "|" + dst + "|")]
                    else:
                        present = [a for a in amts if a.startswith(src + "|" + dst + "|" + f[6] + "|")]
                    if (s.impl.get("res") == "ok") != bool(present):
                        out.append((s.i, "lookup: %s returns %s, the ledger %s the entry" % (f[1], s.impl.get("res"), "has" if present else "does not have")))
                    elif present and split_items(s.impl.get("out", "[]")) != present:
                        out.append((s.i, "lookup: %s returns a different entry than the ledger" % f[1]))
        return out
    return oracle


@prop
class C13(Base):
    id = "C13"
    assumptions = ["query.CollectionPaginate of the pinned SDK is modelled (forward, reverse, key and offset modes); reverse pagination by key inherits an SDK defect (known finding)"]

    def streams(self, tier, seed):
        out = []
        for h in range(self.n(tier, 1, 4)):
            r = Rng(seed * 100000 + 1300 + h)
            lines, walks = c13_build(r, self.n(tier, 60, 150), [1, 2, 3] if tier == "quick" else [1, 2, 3, 7, 50], tier)
            f = {"query": ["res", "out", "next", "total"], "export": ["st"], "recv": ["ack", "st"], "msg": ["res", "st"], "genload": ["res", "st"]}
            out.append(Stream("S3-pagination-walks-%d" % h, lines, fields=f, oracle=c13_make_oracle(walks), note="%d walks" % len(walks), shrink=False))
            # the same walks on a chain started from a genesis with several source protocols, then continued by transfers
            # (page sizes on both sides of the default of 100, over a ledger with more matching entries than that)
            lines, walks = c13_build(r.fork(7), self.n(tier, 12, 40), [2, 3, 100, 101, 150, 1000] if tier == "quick" else [1, 2, 3, 7, 50, 99, 100, 101, 103, 150, 1000, 2 ** 63], tier, genesis=True)
            out.append(Stream("S3-pagination-walks-genesis-%d" % h, lines, fields=f, oracle=c13_make_oracle(walks), note="%d walks" % len(walks), shrink=False))
        return out


# ----------------------------------------------------------------------------------------------- C15

def hxb(b):
    return b.hex() if b else "-"


def c15_roundtrip_build(r, n, toks):
    """constructor-built payloads -> MarshalJSON (real code, and the model's encoder: compared byte for byte) -> parse;
    expected canonical payload computed here. A share of the constructor calls is invalid (refused by both)."""
    from proto import Proc, IMPL
    p = Proc([IMPL])
    lines, _ = scen.base_setup()
    lines = list(lines)
    expect = {}
    tok = toks[0][0]
    odd_denoms = ["", "a<b>&c", "q\"uote\\", "tab\there", "uni\u2028x\u00e9y\u2029", "\x7f~ ", "\x01\x1f\x08\x0c\n\r", "\U0001F600"]
    for i in range(n):
        k = r.below(3)
        nact = r.choice([0, 1, 1, 2]) if r.chance(1, 6) else r.below(2)
        pt = r.choice([b"", b"", r.bytes(r.range(1, 40))])
        bad = r.chance(1, 6)
        if k == 0:
            dom = r.choice([0, 1, 5, 7, 2 ** 32 - 1]) if not bad else r.choice([4, 4, 0])
            mint = r.bytes(r.choice([32, 20, 1])) if not (bad and dom != 4) else b""
            caller = r.choice([b"", r.bytes(32)])
            spec = "cctp:%d:%s:%s:%s" % (dom, hxb(mint), hxb(caller), hxb(pt))
            fw = "fwd{pid=2;attr=cctp(%d,%s,%s);pt=%s}" % (dom, hxb(mint), hxb(caller), hxb(pt))
        elif k == 1:
            rec = r.choice(U) if not bad else r.choice(["", "noble1qqqq", ORB, U[0].upper(), "cosmos1zw7vatnx0vla7gzxucgypz0kfr6965ak7xurzj"])
            spec = "int:%s" % hx(rec)
            fw = "fwd{pid=4;attr=int(%s);pt=-}" % hx(rec)
        else:
            dom = r.choice([1, 2, 10, 2 ** 32 - 1]) if not bad else r.choice([1, scen.HYP_NOBLE_MAINNET if hasattr(scen, "HYP_NOBLE_MAINNET") else 1313817164])
            rc, hook = r.bytes(32 if not bad else r.choice([32, 31, 33, 0])), r.choice([b"", r.bytes(32)] if not bad else [b"", r.bytes(31)])
            meta = r.choice(["", "0x", "0xabcdef", "0xABCDEF01"]) if not bad else r.choice(["", "abcd", "0xabc", "0xzz", "0X12"])
            gas = r.choice([0, 1, 50000, 2 ** 200, -5, 2 ** 256 - 1])
            fd, fa = r.choice([("uusdc", 0), ("uusdc", 5), ("stake", 10 ** 30), ("ibc/27394FB092D2ECCD56123C74F36E4C1F926001CEADA9CA97EA622B25F41E5EB2", 7)])
            if r.chance(1, 3):
                fd, fa = r.choice(odd_denoms), r.choice([0, 0, 0, 3])
            spec = "hyp:%s:%d:%s:%s:%s:%d:%s:%d:%s" % (hxb(tok), dom, hxb(rc), hxb(hook), hx(meta), gas, hx(fd), fa, hxb(pt))
            fw = "fwd{pid=3;attr=hyp(%s,%d,%s,%s,%s,%d,%s,%d);pt=%s}" % (hxb(tok), dom, hxb(rc), hxb(hook), hx(meta), gas, hx(fd), fa, hxb(pt))
        acts_spec, acts_c = "", []
        for _ in range(nact):
            m = r.range(0, 5) if not r.chance(1, 10) else 6
            es, cs = [], []
            for _ in range(m):
                rec = r.choice(U) if not r.chance(1, 12) else r.choice(["", "nope", U[1].upper()])
                if r.chance(1, 2):
                    v = r.choice([1, 100, 10000]) if not r.chance(1, 10) else r.choice([0, 10001, 2 ** 32 - 1])
                    es.append("%s b %s" % (hx(rec), hx(str(v))))
                    cs.append("%s:b:%d" % (hx(rec), v))
                else:
                    v = str(r.choice([1, 7, 10 ** 30])) if not r.chance(1, 10) else r.choice(["0", "-1", "abc", "0x10", "1_000", "+5", "007", str(2 ** 256)])
                    es.append("%s a %s" % (hx(rec), hx(v)))
                    cs.append("%s:a:%s" % (hx(rec), hx(v)))
            acts_spec += " fee %d %s" % (m, " ".join(es))
            acts_c.append("{id=1;attr=fee([%s])}" % ",".join(cs))
        l1 = ("pure marshal %s %d%s" % (spec, nact, acts_spec)).rstrip()
        o = p.ask(l1)
        lines.append(l1)
        if o.startswith("ok:"):
            l2 = "pure parse " + o[3:]
            lines.append(l2)
            expect[len(lines) - 1] = "ok:" + fw + ";acts[" + ",".join(acts_c) + "]"
            lines.append("pure parse2 " + o[3:])
            if r.chance(1, 3):
                # …and the marshalled memo as a transfer through the whole stack: what the module writes, the module executes
                lines.append(pkt_line("recv", ftpd("transfer/channel-7/uusdc", 10 ** 6, ORB, unhx(o[3:]).decode("utf-8", "surrogateescape"))))
    p.close()
    return lines, expect


def c15_accept_oracle(steps):
    """a memo is accepted only if it is a JSON object whose single root key is 'orbiter', with one forwarding of a supported
    id and registered forwarding attributes, and pre-actions with distinct supported ids and registered action attributes"""
    out = []
    fwd_urls = {scen.CCTP_URL, scen.HYP_URL, scen.INT_URL}
    for s in steps:
        if s.op != "pure" or s.line.split(" ")[1] != "parse" or not s.impl_raw.startswith("ok:"):
            continue
        raw = unhx(s.line.split(" ")[2])
        try:
            pairs = []

            def hook(pp):
                pairs.append(pp)
                return dict(pp)
            doc = _json.loads(raw.decode("utf-8", "replace"), object_pairs_hook=hook)
        except Exception:
            out.append((s.i, "accepted-not-json: %r" % raw[:80]))
            continue
        if not isinstance(doc, dict) or list(doc.keys()) != ["orbiter"] or not isinstance(doc["orbiter"], dict):
            out.append((s.i, "accepted-root: root of an accepted memo is %s" % (list(doc.keys()) if isinstance(doc, dict) else type(doc).__name__)))
            continue
        o = doc["orbiter"]
        known = {"forwarding", "pre_actions", "preActions"}
        if set(o) - known:
            out.append((s.i, "accepted-unknown-field: %s" % sorted(set(o) - known)))
        fw = o.get("forwarding")
        if not isinstance(fw, dict) or not isinstance(fw.get("attributes"), dict) or fw["attributes"].get("@type") not in fwd_urls:
            out.append((s.i, "accepted-forwarding: accepted without a forwarding of a registered type"))
            continue
        pid = fw.get("protocol_id", fw.get("protocolId"))
        if pid not in PROTO_NAMES and pid not in (1, 2, 3, 4):
            out.append((s.i, "accepted-protocol-id: %r" % (pid,)))
        acts = o.get("pre_actions", o.get("preActions")) or []
        ids = []
        for a in acts:
            if not isinstance(a, dict) or not isinstance(a.get("attributes"), dict) or a["attributes"].get("@type") != scen.FEE_URL:
                out.append((s.i, "accepted-action: accepted with an action that lacks registered action attributes"))
                break
            i = a.get("id")
            i = {"ACTION_FEE": 1, "ACTION_SWAP": 2}.get(i, i)
            if i not in (1, 2):
                out.append((s.i, "accepted-action-id: %r" % (a.get("id"),)))
            ids.append(i)
        if len(set(ids)) != len(ids):
            out.append((s.i, "accepted-repeated-action: %s" % ids))
    return out


def c15_make_rt_oracle(expect):
    def oracle(steps):
        out = []
        for i, want in expect.items():
            s = steps[i]
            if s.impl_raw != want:
                out.append((i, "round-trip: MarshalJSON output parses to %s, the constructed payload is %s" % (s.impl_raw[:200], want[:200])))
        return out
    return oracle


def c15_purity_lines(r, toks, reps):
    both = "{\"orbiter\":{\"pre_actions\":[{\"id\":\"ACTION_FEE\",\"attributes\":{\"@type\":\"" + scen.FEE_URL + "\",\"fees_info\":[{\"recipient\":\"" + U[0] + "\",\"basis_points\":{\"value\":100},\"amount\":{\"value\":\"7\"}}]}}],\"forwarding\":" + _json.dumps(int_fwd(U[1])) + "}}"
    both2 = both.replace("\"basis_points\":{\"value\":100},\"amount\":{\"value\":\"7\"}", "\"amount\":{\"value\":\"7\"},\"basisPoints\":{\"value\":100}")
    memos = [_json.dumps(d, separators=(",", ":")) for d in scen.payload_shapes(toks)] + [both, both2]
    lines = []
    groups = []
    for m in memos:
        g = []
        for _ in range(reps):
            g.append(len(lines))
            lines.append("pure parse " + hx(m))
        groups.append(g)
    return lines, groups


def c15_make_purity_oracle(groups):
    def oracle(steps):
        out = []
        for g in groups:
            outs = {steps[i].impl_raw for i in g}
            if len(outs) > 1:
                both = "basis_points" in unhx(steps[g[0]].line.split(" ")[2]).decode() or "basisPoints" in unhx(steps[g[0]].line.split(" ")[2]).decode()
                memo_txt = unhx(steps[g[0]].line.split(" ")[2]).decode()
                tag = "impure-oneof" if ("\"amount\":{" in memo_txt and ("basis_points" in memo_txt or "basisPoints" in memo_txt) and memo_txt.count("recipient") == 1 + memo_txt.count("InternalAttributes")) else "impure"
                out.append((g[-1], "%s: the same memo parses to %d different payloads across %d calls" % (tag, len(outs), len(g))))
        return out
    return oracle


@prop
class C15(Base):
    id = "C15"
    assumptions = ["theorems are at the JSON tree level; the text layer (encoding/json) is tied by correspondence only"]

    def streams(self, tier, seed):
        r = Rng(seed * 1000 + 15)
        _, toks = scen.base_setup()
        per = 600 if tier == "thorough" else 120
        s1 = scen.parse_lines_for(scen.payload_shapes(toks), r.fork(1), per) + ["pure parse " + hx(m) for m in scen.EXTRA_MEMOS]
        # every sequence of action identifiers up to length 4 (symbolic and numeric spellings): repeats at any distance
        import itertools
        fa = fee_action([(U[0], "b", 10)])["attributes"]
        for n in range(1, 5):
            for ids in itertools.product(["ACTION_FEE", "ACTION_SWAP", 1, 2], repeat=n):
                if n == 4 and r.chance(1, 2):
                    continue
                acts = [{"id": i, "attributes": fa} for i in ids]
                s1.append("pure parse " + hx(_json.dumps({"orbiter": {"forwarding": int_fwd(U[1]), "pre_actions": acts}}, separators=(",", ":"))))
        # enum values are the proto names or the numbers, nothing else: every other way of naming a protocol or an action (short names,
        # other case, the number as a string, the name without its prefix) is refused, in the parser and through the stack
        for pid_ in ["cctp", "internal", "hyperlane", "ibc", "CCTP", "Internal", "INTERNAL", "protocol_internal", "Protocol_Internal", "PROTOCOL_internal", "4", " 4", "4 ",
                     "04", "0x4", "PROTOCOL_INTERNAL ", " PROTOCOL_INTERNAL", "PROTOCOL-INTERNAL", "internal ", "noble", "", "unsupported", "PROTOCOL_UNSUPPORTED"]:
            fw_ = int_fwd(U[1])
            fw_["protocol_id"] = pid_
            m_ = _json.dumps({"orbiter": {"forwarding": fw_}}, separators=(",", ":"))
            s1.append("pure parse " + hx(m_))
            s1.append(pkt_line("recv", ftpd("transfer/channel-7/uusdc", 1000, ORB, m_)))
        for aid_ in ["fee", "swap", "FEE", "Fee", "action_fee", "Action_Fee", "ACTION_fee", "1", " 1", "01", "ACTION_FEE ", "ACTION-FEE", "", "unsupported"]:
            a_ = fee_action([(U[0], "b", 10)])
            a_["id"] = aid_
            m_ = _json.dumps({"orbiter": {"forwarding": int_fwd(U[1]), "pre_actions": [a_]}}, separators=(",", ":"))
            s1.append("pure parse " + hx(m_))
            s1.append(pkt_line("recv", ftpd("transfer/channel-7/uusdc", 1000, ORB, m_)))
        # acceptance is decided where the packet enters (the adapter's ParsePacket, in front of the hooks), not only in the function the
        # parser exports: the same memos — well-formed or not — through the whole stack, to the orbiter account
        r5 = r.fork(5)
        thr = []
        for l in s1:
            if l.startswith("pure parse ") and (r5.chance(1, 2) or len(l) < 120):
                try:
                    thr.append(pkt_line("recv", ftpd("transfer/channel-7/uusdc", 1000, ORB, bytes.fromhex(l[len("pure parse "):]).decode("utf-8"))))
                except Exception:
                    pass
        s1 += thr
        rt, expect = c15_roundtrip_build(r.fork(2), self.n(tier, 120, 1200), toks)
        pl, groups = c15_purity_lines(r.fork(3), toks, 16)
        f = {"pure": ["_"]}
        # one parser for the whole life of a node: every memo again, in another order, each one twice, between memos with other root keys
        s1l = []
        pool = [l[len("pure parse "):] for l in s1 if l.startswith("pure parse ")]
        other_roots = [hx(x) for x in ("{\"forward\":{\"receiver\":\"x\"}}", "{\"wasm\":{}}", "{\"note\":\"thanks\"}", "{\"orbiter\":{},\"a\":1}", "{\"b\":2,\"orbiter\":null}", "{}", "[1]", "x")]
        rr = r.fork(9)
        for m in rr.shuffle(pool)[:300] + rr.shuffle(pool)[:300]:
            s1l.append("pure parsel " + m)
            if rr.chance(1, 5):
                s1l.append("pure parsel " + rr.choice(other_roots))
        return [Stream("S1-acceptance", scen.base_setup()[0] + s1, fields={"pure": ["_"], "recv": ["ack", "bal"]}, oracle=c15_accept_oracle),
                Stream("S1-one-parser-many-memos", s1l, fields=f),
                Stream("S1-marshal-parse-roundtrip", rt, fields={"pure": ["_"], "recv": ["ack", "bal", "req"]}, oracle=c15_make_rt_oracle(expect), shrink=False),
                Stream("S1-purity-16-fresh-decodes", pl, fields={}, oracle=c15_make_purity_oracle(groups), shrink=False)]


# ----------------------------------------------------------------------------------------------- C17

def cc(p, c):
    return "%d|%s" % (p, hx(c))


def gen_genesis(r):
    """a genesis document in the canonical text form, around the validity boundary"""
    pp = [r.choice([1, 2, 3, 4, 0, 5, -1]) if r.chance(1, 6) else r.choice([1, 2, 3, 4]) for _ in range(r.below(4))]
    if r.chance(1, 5) and pp:
        pp.append(pp[0])           # repeated entry
    pa = [r.choice([1, 2]) for _ in range(r.below(3))]
    if r.chance(1, 8):
        pa.append(r.choice([0, 3]))
    cps = {1: ["channel-0", "channel-9", "channel-x"], 2: ["0", "1", "01", "4294967295", "4294967296"], 3: ["1", "10", "-1"], 4: ["noble", "a:b", "x" * 32, "x" * 33, "a\x00b", ""]}
    pcc = []
    for _ in range(r.below(5)):
        p = r.choice([1, 2, 3, 4])
        c = r.choice(cps[p][:2]) if r.chance(3, 4) else r.choice(cps[p])
        pcc.append(cc(p, c))
    if r.chance(1, 6) and pcc:
        pcc.append(pcc[0])
    if r.chance(1, 15):
        pcc.append("nil")
    amts, cnts = [], []
    for _ in range(r.below(5)):
        sp, dp = 1, r.choice([2, 3, 4])
        sc = r.choice(["channel-0", "channel-1"]) if r.chance(7, 8) else r.choice(cps[1])
        dc = r.choice(cps[dp][:2]) if r.chance(5, 6) else r.choice(cps[dp])
        if r.chance(1, 12):
            sp, sc = 4, r.choice(cps[4])
        dn = r.choice(["uusdc", "uother", "a/b", ""]) if r.chance(1, 6) else r.choice(DENOMS)
        i, o = r.choice([(5, 4), (0, 4), (5, 0), (0, 0), (-1, 4), (2 ** 256 - 1, 1)]) if r.chance(1, 4) else (r.range(1, 10 ** 9), r.range(1, 10 ** 9))
        amts.append("%s|%s|%s|%d|%d" % (cc(sp, sc), cc(dp, dc), hx(dn), i, o))
        cnts.append("%s|%s|%d" % (cc(sp, sc), cc(dp, dc), r.choice([0, 1, 7, 2 ** 64 - 1]) if r.chance(1, 4) else r.range(1, 1000)))
    if r.chance(1, 6) and amts:
        amts.append(amts[0])
    return "pp=[%s];pcc=[%s];pa=[%s];params=%d;amts=[%s];cnts=[%s]" % (
        ",".join(str(x) for x in pp), ",".join(pcc), ",".join(str(x) for x in pa), r.choice([0, 16, 2 ** 32 - 1]), ",".join(amts), ",".join(cnts))


def c17_doc_lines(r, n):
    lines = ["setup -"]
    fixed = ["pp=[];pcc=[];pa=[];params=0;amts=[];cnts=[]", "pp=[2,2];pcc=[];pa=[];params=0;amts=[];cnts=[]", "pp=[];pcc=[];pa=[1,1];params=0;amts=[];cnts=[]",
             "pp=[];pcc=[2|31,2|31];pa=[];params=0;amts=[];cnts=[]", "pp=[];pcc=[4|" + hx("a\x00b") + "];pa=[];params=0;amts=[];cnts=[]",
             "pp=[];pcc=[];pa=[];params=0;amts=[4|" + hx("a\x00b") + "|2|30|" + hx("uusdc") + "|1|1];cnts=[]",
             "pp=[];pcc=[];pa=[];params=0;amts=[1|" + hx("channel-0") + "|4|" + hx("a\x00b") + "|" + hx("uusdc") + "|1|1];cnts=[]",
             "pp=[];pcc=[];pa=[];params=0;amts=[];cnts=[4|" + hx("a\x00b") + "|2|30|5]",
             "pp=[];pcc=[];pa=[];params=0;amts=[1|" + hx("channel-0") + "|4|" + hx("a:b") + "|" + hx("uusdc") + "|1|1];cnts=[1|" + hx("channel-0") + "|4|" + hx("a:b") + "|3]"]
    # documents that leave a component section out, or spell it null (every non-empty subset, both spellings)
    secs = ["adapter", "dispatcher", "forwarder", "executor"]
    base = fixed[0]
    import itertools
    for k in range(1, 5):
        for sub in itertools.combinations(secs, k):
            fixed.append(base + ";omit=" + ",".join(sub))
            fixed.append(base + ";nil=" + ",".join(sub))
    fixed.append(base + ";omit=adapter;nil=executor")
    # two spellings that some normalisation would identify (leading zeros, case, blanks), side by side in every list: whatever
    # validation accepts as two entries, initialisation stores as two entries
    pairs = [(1, "channel-7", "channel-07"), (1, "channel-0", "channel-00000000000000000000"), (1, "channel-1", "channel-001"), (1, "channel-1", "Channel-1"),
             (2, "1", "01"), (2, "7", "+7"), (3, "1", "01"), (3, "10", "10 "), (4, "noble", "Noble"), (4, "noble", "NOBLE"), (4, "a", "a "), (4, "a", " a"),
             (4, "noble", "noble\x00")]
    for (p_, a_, b_) in pairs:
        fixed.append("pp=[];pcc=[%s,%s];pa=[];params=0;amts=[];cnts=[]" % (cc(p_, a_), cc(p_, b_)))
        fixed.append("pp=[];pcc=[%s,%s];pa=[];params=0;amts=[];cnts=[]" % (cc(p_, b_), cc(p_, a_)))
        src, dst = cc(1, "channel-0"), cc(4, "noble")
        if p_ == 1:
            fixed.append("pp=[];pcc=[];pa=[];params=0;amts=[%s|%s|%s|5|4,%s|%s|%s|7|6];cnts=[%s|%s|1,%s|%s|2]" % (
                cc(p_, a_), dst, hx("uusdc"), cc(p_, b_), dst, hx("uusdc"), cc(p_, a_), dst, cc(p_, b_), dst))
        else:
            fixed.append("pp=[];pcc=[];pa=[];params=0;amts=[%s|%s|%s|5|4,%s|%s|%s|7|6];cnts=[%s|%s|1,%s|%s|2]" % (
                src, cc(p_, a_), hx("uusdc"), src, cc(p_, b_), hx("uusdc"), src, cc(p_, a_), src, cc(p_, b_)))
    for (a_, b_) in (("uusdc", "UUSDC"), ("uusdc", "uusdc "), ("ausdy", "aUSDY")):
        fixed.append("pp=[];pcc=[];pa=[];params=0;amts=[%s|%s|%s|5|4,%s|%s|%s|7|6];cnts=[%s|%s|2]" % (
            cc(1, "channel-0"), cc(4, "noble"), hx(a_), cc(1, "channel-0"), cc(4, "noble"), hx(b_), cc(1, "channel-0"), cc(4, "noble")))
    docs = fixed + [gen_genesis(r) for _ in range(n)]
    for i in range(n // 6):
        docs.append(gen_genesis(r) + ";" + r.choice(["omit", "nil"]) + "=" + ",".join(r.shuffle(secs)[: r.range(1, 2)]))
    for g in docs:
        lines.append("genvalidate " + g)
        lines.append("geninit " + g)
    return lines


def c17_doc_oracle(steps):
    out = []
    last = None
    for s in steps:
        if s.op == "genvalidate":
            last = s
        elif s.op == "geninit" and last is not None:
            if last.impl.get("res") == "ok" and s.impl.get("res") != "ok":
                what = "repeated" if "already paused" in "" else ""
                g = s.line.split(" ")[1]
                kind = "validated-not-initialisable"
                import re
                parts = dict(x.split("=", 1) for x in g.split(";"))
                items = lambda k: [x for x in parts[k][1:-1].split(",") if x]
                if "omit" in parts or "nil" in parts:
                    out.append((s.i, "validated-not-initialisable-missing-section: " + g[-60:]))
                    continue
                if len(set(items("pp"))) != len(items("pp")) or len(set(items("pcc"))) != len(items("pcc")) or len(set(items("pa"))) != len(items("pa")):
                    kind = "validated-not-initialisable-repeated-pause-entry"
                elif "00" in g and any("00" in x for x in items("amts") + items("cnts")):
                    kind = "validated-not-initialisable-nul-in-key"
                out.append((s.i, "%s: genesis accepted by ValidateGenesis makes InitGenesis %s" % (kind, s.impl.get("res"))))
            if last.impl.get("res") == "panic":
                out.append((last.i, "validate-panic: ValidateGenesis panicked"))
            last = None
    return out


def c17_hist_oracle(steps):
    out = []
    for s in steps:
        if s.op == "reimport":
            if s.impl.get("valid") != "ok":
                out.append((s.i, "export-invalid: the exported genesis does not pass validation"))
            elif s.impl.get("init") != "ok":
                out.append((s.i, "export-not-initialisable: the exported genesis cannot be initialised"))
            elif s.impl.get("same") != "true":
                out.append((s.i, "export-not-fixpoint: export -> init -> export yields a different genesis"))
            elif s.impl.get("raw", "true") != "true":
                out.append((s.i, "store-not-restored: the module store after export -> init differs from the store before: " + s.impl.get("raw", "")[:200]))
        if s.op == "geninit" and s.line.startswith("geninit @"):
            pass
    return out


def c17_export_geninit_build(r, n, toks):
    """history; at points export the state and initialise a FRESH chain with it; its export must be the same"""
    from proto import Proc, IMPL
    lines, _ = scen.base_setup()
    lines += scen.tuned_history(r, n, toks, p_admin=25, p_deposit=3, p_query=0, p_reimport=0)
    p = Proc([IMPL])
    out_lines = []
    expect = {}
    for i, l in enumerate(lines):
        o = p.ask(l)
        out_lines.append(l)
        if (i % 40 == 39) or i == len(lines) - 1:
            e = kv(p.ask("export"))
            out_lines.append("export")
            out_lines.append("genvalidate " + e["st"])
            expect[len(out_lines) - 1] = ("valid", None)
            out_lines.append("geninit " + e["st"])
            expect[len(out_lines) - 1] = ("init", e["st"])
    p.close()
    return out_lines, expect


def c17_make_fresh_oracle(expect):
    def oracle(steps):
        out = c17_hist_oracle(steps) + pause_oracle(steps)
        for i, (kind, st) in expect.items():
            s = steps[i]
            if kind == "valid" and s.impl.get("res") != "ok":
                out.append((i, "export-invalid: the exported genesis does not pass validation"))
            if kind == "init":
                if s.impl.get("res") != "ok":
                    out.append((i, "export-not-initialisable: a fresh chain cannot be initialised from the export (%s)" % s.impl.get("res")))
                elif s.impl.get("st") != st:
                    out.append((i, "export-not-fixpoint: a fresh chain initialised from the export exports a different genesis"))
        return out
    return oracle


@prop
class C17(Base):
    id = "C17"
    assumptions = ["'behaves identically' is observed by continuing the same history after an in-place export -> validate -> init round trip and comparing with the model, whose behaviour depends on the module state only"]

    def streams(self, tier, seed):
        out = []
        f = {"reimport": ["valid", "init", "same", "st"], "recv": ["ack", "st"], "msg": ["res", "st"], "genvalidate": ["res"], "geninit": ["res", "st"], "export": ["st"]}
        _, toks = scen.base_setup()
        for h in range(self.n(tier, 2, 8)):
            r = Rng(seed * 100000 + 1700 + h)
            lines, _ = scen.base_setup()
            lines += scen.tuned_history(r, self.n(tier, 200, 600), toks, p_admin=25, p_deposit=3, p_query=5, p_reimport=8)
            out.append(Stream("S3-history-with-reimports-%d" % h, lines, fields=f, oracle=lambda st: c17_hist_oracle(st) + pause_oracle(st)))
        r = Rng(seed * 1000 + 17)
        ll, expect = c17_export_geninit_build(r.fork(1), self.n(tier, 160, 600), toks)
        out.append(Stream("S3-export-to-fresh-chain", ll, fields=f, oracle=c17_make_fresh_oracle(expect), shrink=False))
        out.append(Stream("S3-genesis-documents", c17_doc_lines(r.fork(2), self.n(tier, 120, 1500)), fields=f, oracle=c17_doc_oracle))
        out.append(Stream("S3-large-ledger", large_ledger_lines(Rng(seed * 1000 + 117))))
        out.append(Stream("S3-everything-paused-repeated-exports", everything_paused_lines(), fields=f))
        return out


# ----------------------------------------------------------------------------------------------- C19

def c19_lines(r, n, toks):
    lines, _ = scen.base_setup()
    hist = scen.tuned_history(r, n, toks, p_admin=15, p_deposit=5, p_query=10, p_reimport=2)
    # error-provoking inputs: every class of refusal puts its text into the committed acknowledgement
    errs = []
    good = scen.payload_shapes(toks)
    for doc in good:
        for m in scen.mutations(doc, r, 25):
            errs.append(pkt_line("recv", ftpd("transfer/channel-7/uusdc", 1000, ORB, m)))
    two_unknown = "{\"orbiter\":{\"forwarding\":" + _json.dumps(int_fwd(U[1])) + ",\"aaa\":1,\"bbb\":2,\"ccc\":3}}"
    three_unknown_attr = "{\"orbiter\":{\"forwarding\":{\"protocol_id\":\"PROTOCOL_INTERNAL\",\"attributes\":{\"@type\":\"" + scen.INT_URL + "\",\"recipient\":\"" + U[1] + "\",\"x1\":1,\"x2\":2,\"x3\":3}}}}"
    for m in [two_unknown, three_unknown_attr] * 4:
        errs.append(pkt_line("recv", ftpd("transfer/channel-7/uusdc", 1000, ORB, m)))
    # several pre-actions, each invalid for a reason of its own (an identifier that names nothing, one out of the enum, attributes
    # missing, attributes of the wrong kind): the refusal committed is the one of the first in payload order, in every replay
    import itertools as _it
    fa_ = fee_action([(U[2], "b", 100)])["attributes"]
    defects = [{"id": "ACTION_UNSUPPORTED", "attributes": fa_}, {"id": "ACTION_FEE"}, {"id": 99, "attributes": fa_}, {"id": "ACTION_SWAP", "attributes": None},
               {"id": "ACTION_SWAP", "attributes": fa_}, {"id": 0}, {"id": "ACTION_FEE", "attributes": {"@type": scen.FEE_URL, "fees_info": [{"recipient": "", "basis_points": {"value": 1}}]}}]
    for k_ in (2, 3):
        for combo in _it.permutations(defects, k_):
            if k_ == 3 and r.chance(5, 6):
                continue
            m_ = _json.dumps({"orbiter": {"forwarding": int_fwd(U[1]), "pre_actions": list(combo)}}, separators=(",", ":"))
            for _ in range(3):
                errs.append(pkt_line("recv", ftpd("transfer/channel-7/uusdc", 1000, ORB, m_)))
    # totals that leave 63 and 64 bits while every amount fits (what a node may hand to a gauge, a counter, a log line)
    errs.append("escrowfund %s %s %d" % (hx("channel-0"), hx("aeth"), 2 ** 70))
    for a_ in (4 * 10 ** 18, 4 * 10 ** 18, 4 * 10 ** 18, 2 ** 63, 2 ** 64 - 1, 1):
        errs.append(orb_pkt("recv", a_, int_fwd(U[1]), None, denom="aeth"))
        errs.append(orb_pkt("recv", a_, int_fwd(U[1]), [fee_action([(U[2], "b", 1)])], denom="aeth"))
    # repeated action ids in several arrangements, fees exceeding the amount, mismatching balances
    f1 = fee_action([(U[2], "b", 100)])
    sw = swap_action()
    for acts in ([f1, f1], [f1, sw, f1], [sw, sw, f1, f1], [sw, f1, sw, f1], [f1, f1, sw, sw]):
        errs.append(orb_pkt("recv", 1000, int_fwd(U[1]), acts))
    errs.append(orb_pkt("recv", 1000, int_fwd(U[1]), [fee_action([(U[2], "a", 1000)])]))
    errs.append(orb_pkt("recv", 1000, int_fwd(U[1]), [fee_action([(U[2], "a", 5000)])]))
    errs.append(orb_pkt("recv", 1000, int_fwd(U[1]), [fee_action([(ORB, "a", 5)])]))
    # fee lists in which recipients repeat, in several arrangements: the payments and their bank events keep the list's order
    for arr in ([0, 1, 2, 3, 0], [0, 1, 0, 2, 3], [3, 2, 1, 0, 3], [1, 1, 2, 3, 4], [0, 1, 2, 0, 1], [2, 0, 2, 1, 2], [0, 1, 0], [4, 3, 4, 2]):
        for fwd in (int_fwd(U[1]), cctp_fwd(domain=0)):
            errs.append(orb_pkt("recv", 10 ** 6, fwd, [fee_action([(U[i], r.choice("ab"), 10 + 7 * j) for j, i in enumerate(arr)])]))
    # every spelling of the paths the parser's pre-checks walk (both oneof members, null elements)
    for m in scen._camel_combo_memos():
        errs.append(pkt_line("recv", ftpd("transfer/channel-7/uusdc", 100000, ORB, m)))
    # several defects in one memo, under different keys of the same object: which one is reported must not depend on anything but the memo
    amb = {"recipient": U[0], "basis_points": {"value": 100}, "amount": {"value": "7"}}
    multi = []
    for k in range(6):
        d_ = {"orbiter": {"pre_actions": [{"id": "ACTION_FEE", "attributes": {"@type": scen.FEE_URL, "fees_info": [amb]}}],
                          "forwarding": {"protocol_id": "PROTOCOL_CCTP", "attributes": {"@type": scen.CCTP_URL, "destination_domain": 0, "mint_recipient": [None]}}}}
        if k % 3 == 1:
            d_["orbiter"]["zzz"] = [None]
            d_["orbiter"]["aaa"] = {"amount": 1, "basisPoints": 2}
        if k % 3 == 2:
            d_["orbiter"]["forwarding"]["attributes"]["destination_caller"] = [1, None]
            d_["orbiter"]["forwarding"]["unknown_field"] = 1
        multi.append(_json.dumps(d_, separators=(",", ":")))
    for m in multi * 3:
        errs.append(pkt_line("recv", ftpd("transfer/channel-7/uusdc", 100000, ORB, m)))
    # a fee computation that fails half way (the running total overflows after a valid entry), then ordinary fee payments: nothing of the
    # failed computation may show up later
    for _ in range(3):
        errs.append(orb_pkt("recv", 10 ** 6, int_fwd(U[1]), [fee_action([(U[5], "a", 50), (U[6], "a", 2 ** 256 - 1)])]))
        errs.append(orb_pkt("recv", 1000, int_fwd(U[1]), [fee_action([(U[2], "b", 100)])]))
        errs.append(orb_pkt("recv", 1000, cctp_fwd(domain=0), [fee_action([(U[3], "a", 10)])]))
    both = "{\"orbiter\":{\"pre_actions\":[{\"id\":\"ACTION_FEE\",\"attributes\":{\"@type\":\"" + scen.FEE_URL + "\",\"fees_info\":[{\"recipient\":\"" + U[0] + "\",\"basis_points\":{\"value\":100},\"amount\":{\"value\":\"7\"}}]}}],\"forwarding\":" + _json.dumps(int_fwd(U[1])) + "}}"
    out = lines
    errs = r.shuffle(errs)
    k = 0
    for i, l in enumerate(hist):
        out.append(l)
        if i % 3 == 0 and k < len(errs):
            out.append(errs[k])
            k += 1
    out += errs[k:]
    for _ in range(2):
        out.append(orb_pkt("recv", 10 ** 6, int_fwd(U[1]), [fee_action([(U[5], "a", 50), (U[6], "a", 2 ** 256 - 1)])]))
        out.append(orb_pkt("recv", 1000, int_fwd(U[1]), [fee_action([(U[2], "b", 100)])]))
    out.append("export")
    # the recorded both-oneof memo, as transfers (its effect is on balances); kept last so that nothing follows it
    for _ in range(6):
        out.append(pkt_line("recv", ftpd("transfer/channel-7/uusdc", 100000, ORB, both)))
    return out


def c19_make_oracle(lines, nproc):
    def oracle(steps):
        pre = []
        for s in steps:
            if s.op in RECV_OPS and s.impl.get("evaddr") == "1":
                pre.append((s.i, "address-in-event: a value of an orbiter event looks like the address of an object"))
        if pre:
            return pre[:3]
        import concurrent.futures
        from proto import IMPL, run_batch

        # every replay is a node of its own: its own process, and its own log level (node configuration, not consensus
        # state — nothing observable may depend on it; the first run, the one compared with, has the no-op logger)
        levels = ["debug", "trace", "info", "", "error", "warn"]

        def one(k):
            # …and its own number of processors and collector pace: another schedule for anything that runs concurrently
            o, rc, err = run_batch([IMPL], lines, env={"VERIF_LOGLEVEL": levels[k % len(levels)], "GOMAXPROCS": str([1, 16, 2, 4, 8, 3][k % 6]), "VERIF_TELEMETRY": str([1, 0, 1, 0, 1, 1][k % 6]),
                                                       "GOGC": str([100, 1, 400, 10, 50, 200][k % 6])})
            return o
        with concurrent.futures.ThreadPoolExecutor(max_workers=min(8, nproc)) as ex:
            runs = list(ex.map(one, range(nproc - 1)))
        out = []
        base = [s.impl_raw for s in steps]
        for ri, o in enumerate(runs):
            if len(o) != len(base):
                out.append((len(base) - 1, "replay-length: replay %d produced %d outputs instead of %d" % (ri + 1, len(o), len(base))))
                continue
            ndiff = 0
            for i, (a, b) in enumerate(zip(base, o)):
                if a != b:
                    ka, kb = kv(a), kv(b)
                    ks = [k for k in ka if ka.get(k) != kb.get(k)]
                    memo_txt = ""
                    try:
                        memo_txt = unhx(lines[i].split(" ")[5]).decode("utf-8", "replace")
                    except Exception:
                        pass
                    oneof = "\\\"amount\\\":{" in memo_txt and "basis_points" in memo_txt
                    txt = ""
                    ta = tb = b""
                    if "acktxt" in ks:
                        ta, tb = unhx(ka["acktxt"]), unhx(kb["acktxt"])
                        txt = " ack A=%r ack B=%r" % (ta[-140:], tb[-140:])
                    if oneof:
                        tag = "nondeterministic-oneof"
                    elif set(ks) <= {"ackh", "acktxt"} and b"unknown field" in ta and b"unknown field" in tb:
                        tag = "nondeterministic-unknown-field-text"
                    else:
                        tag = "nondeterministic-" + "+".join(sorted(ks))
                    out.append((i, "%s: replaying the same history in a fresh process changes %s%s" % (tag, ",".join(ks), txt)))
                    ndiff += 1
                    if ndiff > 40:
                        break
        return out
    return oracle


@prop
class C19(Base):
    id = "C19"
    level = "other"
    explanation = ("partial: (i) Lean theorems that the model's result does not depend on the iteration oracle at the modelled map ranges and that the export is canonical; "
                   "(ii) replays of generated histories in fresh OS processes compared byte for byte (ack bytes, events, export). Wall-clock, pointer formatting and scheduler effects "
                   "cannot be exhibited by a functional model; they are covered by the replays only.")
    assumptions = ["Go randomises map iteration per range statement, so order dependence surfaces across and within replays; N replays cannot prove its absence"]

    def streams(self, tier, seed):
        r = Rng(seed * 1000 + 19)
        _, toks = scen.base_setup()
        out = []
        for h in range(self.n(tier, 1, 4)):
            lines = c19_lines(r.fork(h), self.n(tier, 150, 500), toks)
            out.append(Stream("S4-replays-in-fresh-processes-%d" % h, lines, model=False, oracle=c19_make_oracle(lines, self.n(tier, 3, 10)), shrink=False,
                              note="%d processes" % self.n(tier, 3, 10)))
            out.append(Stream("S3-model-agreement-%d" % h, lines[:-6], fields={"recv": ["ack", "src", "bal", "mv", "st"], "msg": ["res", "st"], "query": ["res", "out"], "export": ["st"]}))
        out.append(Stream("S3-dropped-branches", dry_lines(Rng(seed * 1000 + 119), toks, self.n(tier, 80, 300))))
        out.append(Stream("S3-everything-paused-repeated-exports", everything_paused_lines()))
        return out
