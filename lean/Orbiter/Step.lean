/-
  Orbiter.Step — operations and their semantics over the whole model state (DESIGN.md §3.9):
  receive, admin message, query, deposit, genesis round trip, environment changes.
-/
import Orbiter.Admin
namespace Orbiter

inductive EnvOp where
  | ftfPause (b : Bool)
  | blacklist (a : Addr) (b : Bool)
  | cctpPause (burn : Bool) (b : Bool)
  | burnLimit (n : Nat)
  | recvEnabled (b : Bool)
  | hypToken (id : Bytes) (denom : String)
  | hypEnroll (id : Bytes) (domain gas : Nat)
  | hypUnroll (id : Bytes) (domain : Nat)
  | hypHook (h : Hook)
  | sendEnabled (denom : String) (b : Bool)
  deriving Repr, DecidableEq, Inhabited

def envStep (e : ExtState) : EnvOp → ExtState
  | .ftfPause b => { e with ftfPaused := b }
  | .blacklist a b => { e with blacklisted := fun x => if x = a then b else e.blacklisted x }
  | .cctpPause true b => { e with cctpBurnPaused := b }
  | .cctpPause false b => { e with cctpSendPaused := b }
  | .burnLimit n => { e with cctpBurnLimit := some n }
  | .recvEnabled b => { e with recvEnabled := b }
  | .hypToken id d => { e with hypTokens := e.hypTokens ++ [(id, d)] }
  | .hypEnroll id dom gas => { e with hypRouters := (e.hypRouters.filter fun r => !(internalId r.1 == internalId id && r.2.1 == dom)) ++ [(id, dom, gas)] }
  | .hypUnroll id dom => { e with hypRouters := e.hypRouters.filter fun r => !(internalId r.1 == internalId id && r.2.1 == dom) }
  | .sendEnabled d b => { e with sendDisabled := fun x => if x = d then !b else e.sendDisabled x }
  | .hypHook .noop => { e with hypHook := .noop }
  | .hypHook h => { e with hypHook := h, hypIgps := e.hypIgps ++ [h] }

inductive Op where
  | recv (pkt : Packet)
  | msg (m : Msg)
  | deposit (to : Addr) (denom : String) (amt : Nat)
  | reimport
  | env (e : EnvOp)
  deriving Repr, Inhabited

/-- Observable result of a state-changing operation. -/
inductive Obs where
  | recv (ack : Ack) (moves : List Move) (reqs : List Req) (events : List String) (calls : List (String × Nat))
  | msg (ok : Bool) (events : List String)
  | unit
  | reimport (valid : Bool) (init : Bool) (same : Bool)

/-- In-place export → validate → init round trip of the module state. -/
def reimportStep (o : OrbState) : Obs × OrbState :=
  let g := exportGenesis o
  let valid := (validateGenesis g).isOk
  match initGenesis g with
  | .ok o' => (.reimport valid true (exportGenesis o' == g && o' == o), o')
  | _ => (.reimport valid false false, o)

def step (wr : Wiring) (φ : Faults) (w : World) : Op → Obs × World
  | .recv pkt =>
    let out := ibcRecv wr φ w pkt
    (.recv out.ack out.ctx.moves out.ctx.reqs out.ctx.events out.ctx.calls, out.world)
  | .msg m =>
    (match msgStep wr.cfg φ w.orb m with
     | .ok (o, evs, _) => (.msg true evs, { w with orb := o })
     | _ => (.msg false [], w))
  | .deposit to d amt => (.unit, { w with bank := w.bank.mint to d amt })
  | .reimport => let (obs, o) := reimportStep w.orb; (obs, { w with orb := o })
  | .env e => (.unit, { w with ext := envStep w.ext e })

/-- Run a history (no injected faults). -/
def run (wr : Wiring) (w : World) (ops : List Op) : World :=
  ops.foldl (fun w op => (step wr noFaults w op).2) w

end Orbiter
