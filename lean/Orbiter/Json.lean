/-
  Orbiter.Json — executable model of the syntax layer of Go's encoding/json: bytes → tree.
  Objects keep the last occurrence of each key (all consumers are Go maps: last wins); the tree keeps number
  literals as text, and records for every string whether its raw text equals its value (`plain`),
  because gogoproto's jsonpb looks at raw text for quoted enums and quoted numbers.
  Nothing is proved about this layer beyond totality; it is exercised by stream S1.
-/
import Orbiter.Prims
namespace Orbiter

inductive Json where
  | null
  | bool (b : Bool)
  | num (raw : String)
  | str (val : String) (plain : Bool)
  | arr (items : List Json)
  | obj (fields : List (String × Json))
  deriving Repr, Inhabited

namespace Json

def isNull : Json → Bool | .null => true | _ => false

/-- Value of the last occurrence of `k` (Go maps: last duplicate wins). -/
def lookupLast (fields : List (String × Json)) (k : String) : Option Json :=
  fields.foldl (fun acc (kv : String × Json) => if kv.1 == k then some kv.2 else acc) none

def hasKey (fields : List (String × Json)) (k : String) : Bool := fields.any (·.1 == k)

/-- Distinct keys, in order of first occurrence. -/
def distinctKeys (fields : List (String × Json)) : List String :=
  fields.foldl (fun acc (kv : String × Json) => if acc.contains kv.1 then acc else acc ++ [kv.1]) []

def eraseKey (fields : List (String × Json)) (k : String) : List (String × Json) :=
  fields.filter (·.1 != k)

end Json

/-! ### lexer helpers over a byte array -/

abbrev Src := ByteArray

@[inline] def Src.at (s : Src) (i : Nat) : Option UInt8 := if h : i < s.size then some (s.get i h) else none

def isWs (c : UInt8) : Bool := c == 32 || c == 9 || c == 13 || c == 10

def skipWs (s : Src) (i : Nat) : Nat :=
  let rec go (fuel i : Nat) : Nat :=
    match fuel with
    | 0 => i
    | fuel + 1 => match s.at i with
      | some c => if isWs c then go fuel (i + 1) else i
      | none => i
  go (s.size + 1 - i) i

def isDigitB (c : UInt8) : Bool := 48 ≤ c && c ≤ 57

def skipDigits (s : Src) (i : Nat) : Nat :=
  let rec go (fuel i : Nat) : Nat :=
    match fuel with
    | 0 => i
    | fuel + 1 => match s.at i with
      | some c => if isDigitB c then go fuel (i + 1) else i
      | none => i
  go (s.size + 1 - i) i

/-- End position of a JSON number literal starting at `i`, if there is one. -/
def scanNumber (s : Src) (i : Nat) : Option Nat := do
  let i := if s.at i == some 45 then i + 1 else i
  let c ← s.at i
  let i ← if c == 48 then some (i + 1)
          else if 49 ≤ c && c ≤ 57 then some (skipDigits s (i + 1))
          else none
  let i ← if s.at i == some 46 then
            (match s.at (i + 1) with
             | some d => if isDigitB d then some (skipDigits s (i + 2)) else none
             | none => none)
          else some i
  if s.at i == some 101 || s.at i == some 69 then
    let j := if s.at (i + 1) == some 43 || s.at (i + 1) == some 45 then i + 2 else i + 1
    match s.at j with
    | some d => if isDigitB d then some (skipDigits s (j + 1)) else none
    | none => none
  else some i

/-- The bytes `i … j-1` (those that exist). -/
def sliceBytes (s : Src) (i j : Nat) : List UInt8 := (List.range (j - i)).filterMap fun k => s.at (i + k)

def sliceString (s : Src) (i j : Nat) : String :=
  String.ofList ((sliceBytes s i j).map fun b => Char.ofNat b.toNat)

def hex4 (s : Src) (i : Nat) : Option Nat := do
  let a ← s.at i; let b ← s.at (i + 1); let c ← s.at (i + 2); let d ← s.at (i + 3)
  let va ← hexVal? (Char.ofNat a.toNat); let vb ← hexVal? (Char.ofNat b.toNat)
  let vc ← hexVal? (Char.ofNat c.toNat); let vd ← hexVal? (Char.ofNat d.toNat)
  pure (va * 4096 + vb * 256 + vc * 16 + vd)

def replacementChar : Char := Char.ofNat 0xFFFD

def isCont (c : UInt8) : Bool := 0x80 ≤ c && c ≤ 0xBF

/-- `utf8.DecodeRune` on the bytes at `i`: the rune and its width; an invalid or truncated
sequence yields U+FFFD of width 1 (reported by the flag). -/
def decodeRune (s : Src) (i : Nat) : Char × Nat × Bool :=
  match s.at i with
  | none => (replacementChar, 1, false)
  | some b0 =>
    let n0 := b0.toNat
    if n0 < 0x80 then (Char.ofNat n0, 1, true)
    else if 0xC2 ≤ n0 && n0 ≤ 0xDF then
      match s.at (i + 1) with
      | some b1 => if isCont b1 then (Char.ofNat (((n0 &&& 0x1F) <<< 6) ||| (b1.toNat &&& 0x3F)), 2, true)
                   else (replacementChar, 1, false)
      | none => (replacementChar, 1, false)
    else if 0xE0 ≤ n0 && n0 ≤ 0xEF then
      match s.at (i + 1), s.at (i + 2) with
      | some b1, some b2 =>
        let lo : Nat := if n0 == 0xE0 then 0xA0 else 0x80
        let hi : Nat := if n0 == 0xED then 0x9F else 0xBF
        if lo ≤ b1.toNat && b1.toNat ≤ hi && isCont b2 then
          (Char.ofNat (((n0 &&& 0x0F) <<< 12) ||| ((b1.toNat &&& 0x3F) <<< 6) ||| (b2.toNat &&& 0x3F)), 3, true)
        else (replacementChar, 1, false)
      | _, _ => (replacementChar, 1, false)
    else if 0xF0 ≤ n0 && n0 ≤ 0xF4 then
      match s.at (i + 1), s.at (i + 2), s.at (i + 3) with
      | some b1, some b2, some b3 =>
        let lo : Nat := if n0 == 0xF0 then 0x90 else 0x80
        let hi : Nat := if n0 == 0xF4 then 0x8F else 0xBF
        if lo ≤ b1.toNat && b1.toNat ≤ hi && isCont b2 && isCont b3 then
          (Char.ofNat (((n0 &&& 0x07) <<< 18) ||| ((b1.toNat &&& 0x3F) <<< 12) ||| ((b2.toNat &&& 0x3F) <<< 6)
            ||| (b3.toNat &&& 0x3F)), 4, true)
        else (replacementChar, 1, false)
      | _, _, _ => (replacementChar, 1, false)
    else (replacementChar, 1, false)

/-- Scan a string whose opening quote is at `i - 1`; returns value, plain flag, position after the
closing quote. -/
def scanString (s : Src) (i : Nat) : Option (String × Bool × Nat) :=
  let rec go (fuel i : Nat) (acc : List Char) (plain : Bool) : Option (String × Bool × Nat) :=
    match fuel with
    | 0 => none
    | fuel + 1 =>
      match s.at i with
      | none => none
      | some c =>
        if c == 34 then some (String.ofList acc.reverse, plain, i + 1)
        else if c < 32 then none
        else if c == 92 then
          match s.at (i + 1) with
          | none => none
          | some e =>
            if e == 34 then go fuel (i + 2) ('"' :: acc) false
            else if e == 92 then go fuel (i + 2) ('\\' :: acc) false
            else if e == 47 then go fuel (i + 2) ('/' :: acc) false
            else if e == 98 then go fuel (i + 2) (Char.ofNat 8 :: acc) false
            else if e == 102 then go fuel (i + 2) (Char.ofNat 12 :: acc) false
            else if e == 110 then go fuel (i + 2) ('\n' :: acc) false
            else if e == 114 then go fuel (i + 2) ('\r' :: acc) false
            else if e == 116 then go fuel (i + 2) ('\t' :: acc) false
            else if e == 117 then
              match hex4 s (i + 2) with
              | none => none
              | some r =>
                if 0xD800 ≤ r && r < 0xE000 then
                  -- surrogate: a valid pair is combined, anything else becomes U+FFFD
                  let pair : Option Nat :=
                    if r < 0xDC00 && s.at (i + 6) == some 92 && s.at (i + 7) == some 117 then
                      match hex4 s (i + 8) with
                      | some r2 => if 0xDC00 ≤ r2 && r2 < 0xE000 then some (0x10000 + ((r - 0xD800) <<< 10) + (r2 - 0xDC00)) else none
                      | none => none
                    else none
                  match pair with
                  | some cp => go fuel (i + 12) (Char.ofNat cp :: acc) false
                  | none => go fuel (i + 6) (replacementChar :: acc) false
                else go fuel (i + 6) (Char.ofNat r :: acc) false
            else none
        else
          let (ch, w, ok) := decodeRune s i
          go fuel (i + w) (ch :: acc) (plain && ok)
  go (s.size + 1 - i) i [] true

def matchLit (s : Src) (i : Nat) (lit : String) : Bool :=
  let bs := strBytes lit
  (List.range bs.length).all fun k => s.at (i + k) == bs[k]?

/-- Keep the last occurrence of every key (every consumer of a decoded object is a Go map or jsonpb's
`map[string]RawMessage`: the last duplicate wins). -/
def dedupLast (fields : List (String × Json)) : List (String × Json) :=
  fields.foldl (fun acc (kv : String × Json) => (acc.filter (·.1 != kv.1)) ++ [kv]) []

def maxDepth : Nat := 10000

mutual
/-- Parse one JSON value starting at `i` (leading white space already skipped). -/
def parseValue (s : Src) (fuel depth i : Nat) : Option (Json × Nat) :=
  match fuel with
  | 0 => none
  | fuel + 1 =>
    match s.at i with
    | none => none
    | some c =>
      if c == 123 then
        if depth ≥ maxDepth then none else
        let j := skipWs s (i + 1)
        if s.at j == some 125 then some (.obj [], j + 1)
        else parseFields s fuel (depth + 1) j []
      else if c == 91 then
        if depth ≥ maxDepth then none else
        let j := skipWs s (i + 1)
        if s.at j == some 93 then some (.arr [], j + 1)
        else parseItems s fuel (depth + 1) j []
      else if c == 34 then
        match scanString s (i + 1) with
        | some (v, p, j) => some (.str v p, j)
        | none => none
      else if c == 116 then if matchLit s i "true" then some (.bool true, i + 4) else none
      else if c == 102 then if matchLit s i "false" then some (.bool false, i + 5) else none
      else if c == 110 then if matchLit s i "null" then some (.null, i + 4) else none
      else
        match scanNumber s i with
        | some j => some (.num (sliceString s i j), j)
        | none => none

def parseItems (s : Src) (fuel depth i : Nat) (acc : List Json) : Option (Json × Nat) :=
  match fuel with
  | 0 => none
  | fuel + 1 =>
    match parseValue s fuel depth i with
    | none => none
    | some (v, j) =>
      let j := skipWs s j
      if s.at j == some 44 then parseItems s fuel depth (skipWs s (j + 1)) (v :: acc)
      else if s.at j == some 93 then some (.arr (v :: acc).reverse, j + 1)
      else none

def parseFields (s : Src) (fuel depth i : Nat) (acc : List (String × Json)) : Option (Json × Nat) :=
  match fuel with
  | 0 => none
  | fuel + 1 =>
    if s.at i != some 34 then none else
    match scanString s (i + 1) with
    | none => none
    | some (k, _, j) =>
      let j := skipWs s j
      if s.at j != some 58 then none else
      match parseValue s fuel depth (skipWs s (j + 1)) with
      | none => none
      | some (v, j) =>
        let j := skipWs s j
        if s.at j == some 44 then parseFields s fuel depth (skipWs s (j + 1)) ((k, v) :: acc)
        else if s.at j == some 125 then some (.obj (dedupLast ((k, v) :: acc).reverse), j + 1)
        else none
end

/-- `json.Unmarshal` acceptance: exactly one value surrounded by white space. -/
def parseJsonWhole (data : Bytes) : Option Json :=
  let s : Src := ByteArray.mk data.toArray
  match parseValue s (s.size + 2) 0 (skipWs s 0) with
  | some (v, j) => if skipWs s j == s.size then some v else none
  | none => none

/-- `json.Decoder.Decode` as used by jsonpb: the first value of the stream. An object or array ends
at its closing bracket and whatever follows is ignored; a scalar must be followed by white space
or the end of input. -/
def parseJsonFirst (data : Bytes) : Option Json :=
  let s : Src := ByteArray.mk data.toArray
  match parseValue s (s.size + 2) 0 (skipWs s 0) with
  | some (v, j) =>
    match v with
    | .obj _ => some v
    | .arr _ => some v
    | _ => match s.at j with
      | none => some v
      | some c => if isWs c then some v else none
  | none => none

/-! ### float64 range of number literals (`json.Unmarshal` into `any` converts every number) -/

/-- Does the literal overflow float64 (ParseFloat returns ±Inf with a range error)? Exact comparison
with the rounding threshold 2^1024 − 2^970 for moderate exponents, magnitude shortcut otherwise. -/
def stripMinus : List Char → List Char
  | '-' :: r => r
  | r => r

/-- The exponent part of a literal after mantissa and fraction. -/
def expoOf : List Char → Int
  | c :: r => if c == 'e' || c == 'E' then
      (match r with
       | '-' :: ds => - Int.ofNat (decVal ds)
       | '+' :: ds => Int.ofNat (decVal ds)
       | ds => Int.ofNat (decVal ds))
    else 0
  | [] => 0

/-- Fraction digits and what follows them. -/
def fracOf : List Char → List Char × List Char
  | '.' :: r => (r.takeWhile isDigit, r.dropWhile isDigit)
  | r => ([], r)

def numOverflowsAbs (cs : List Char) : Bool :=
  let intPart := cs.takeWhile isDigit
  let rest := cs.dropWhile isDigit
  let fracPart := (fracOf rest).1
  let expo : Int := expoOf (fracOf rest).2
  let mant := decVal (intPart ++ fracPart)
  if mant == 0 then false else
  let e10 : Int := expo - Int.ofNat fracPart.length
  -- number of decimal digits of the mantissa
  let nd := (natDigits mant).length
  let mag : Int := e10 + Int.ofNat nd   -- value < 10^mag and ≥ 10^(mag-1)
  if mag > 400 then true
  else if mag < 300 then false
  else
    let threshold : Nat := 2 ^ 1024 - 2 ^ 970
    if e10 ≥ 0 then mant * 10 ^ e10.toNat ≥ threshold
    else mant ≥ threshold * 10 ^ (-e10).toNat

def numOverflowsFloat64 (raw : String) : Bool := numOverflowsAbs (stripMinus raw.toList)

mutual
def Json.anyNum (p : String → Bool) : Json → Bool
  | .num r => p r
  | .arr items => anyNumList p items
  | .obj fs => anyNumFields p fs
  | _ => false
def anyNumList (p : String → Bool) : List Json → Bool
  | [] => false
  | x :: xs => x.anyNum p || anyNumList p xs
def anyNumFields (p : String → Bool) : List (String × Json) → Bool
  | [] => false
  | (_, v) :: fs => v.anyNum p || anyNumFields p fs
end

mutual
/-- Is there a `null` directly inside some array, anywhere in the tree? -/
def Json.nullInArray : Json → Bool
  | .arr items => items.any Json.isNull || nullInArrayList items
  | .obj fs => nullInArrayFields fs
  | _ => false
def nullInArrayList : List Json → Bool
  | [] => false
  | x :: xs => x.nullInArray || nullInArrayList xs
def nullInArrayFields : List (String × Json) → Bool
  | [] => false
  | (_, v) :: fs => v.nullInArray || nullInArrayFields fs
end


/-- Both members of the `fee_type` oneof present in one object (under either spelling of `basis_points`). -/
def fieldsAmbiguous (fs : List (String × Json)) : Bool :=
  (Json.hasKey fs "basis_points" || Json.hasKey fs "basisPoints") && Json.hasKey fs "amount"

mutual
/-- Does some object of the tree carry both members of the oneof? (`containsAmbiguousFeeType`) -/
def Json.ambiguous : Json → Bool
  | .arr items => ambiguousList items
  | .obj fs => fieldsAmbiguous fs || ambiguousFields fs
  | _ => false
def ambiguousList : List Json → Bool
  | [] => false
  | x :: xs => x.ambiguous || ambiguousList xs
def ambiguousFields : List (String × Json) → Bool
  | [] => false
  | (_, v) :: fs => v.ambiguous || ambiguousFields fs
end

end Orbiter
