/-
  C05 — The outgoing bridge request carries exactly the user's route and parameters.
  `expectedReq t f` is the specification: the request as the payload and the post-action attributes
  determine it, with the orbiter account as sender. On the chain's own wiring a successful forwarder run
  records exactly that request and no other; where `expectedReq` is undefined (attributes of another
  protocol, a protocol without controller) the forwarder never succeeds.
-/
import Orbiter.Lemmas.Ctx
import Orbiter.Admin
import Orbiter.Expect
namespace Orbiter.C05
open Orbiter

/-- Coverage obligation: the routes registered by the built application are the ones the model wires. -/
theorem pin_routes : Gen.forwardingRoutes = [PROTOCOL_CCTP, PROTOCOL_HYPERLANE, PROTOCOL_INTERNAL] ∧
    Gen.actionRoutes = [ACTION_FEE] ∧ Gen.adapterRoutes = [PROTOCOL_IBC] := by decide

/-- Coverage obligation: everything the module can ask of the bank, CCTP, the warp module and the bank's message server is a method
of these interfaces, and each has a contract in `Recv.lean` (table at `modelExternalSurface`): a call through a helper the model
has no contract for shows here before it shows anywhere else. -/
theorem pin_external_surface : Gen.externalSurface = modelExternalSurface := by decide +kernel

/-- The request the payload asks for: parameters verbatim, post-action coin, orbiter as sender. -/
def expectedReq (t : TransferAttrs) (f : Forwarding) : Option Req :=
  match f.attrs with
  | some (.cctp domain mint caller) =>
    if f.protocolId = PROTOCOL_CCTP then
      some (Req.cctp "orbiter" t.dstAmount domain mint t.dstDenom (if caller.isEmpty then none else some caller))
    else none
  | some (.hyp tok domain rec_ hook hmeta gas feeDenom feeAmt) =>
    if f.protocolId = PROTOCOL_HYPERLANE then
      some (Req.warp "orbiter" tok domain rec_ t.dstAmount (if hook.isEmpty then none else some hook) gas feeDenom feeAmt hmeta)
    else none
  | some (.internal recipient) =>
    if f.protocolId = PROTOCOL_INTERNAL then some (Req.bankSend "orbiter" recipient t.dstDenom t.dstAmount) else none
  | _ => none

theorem c05_cctp_request (cfg : Cfg) (φ : Faults) (c c' : Ctx) (t : TransferAttrs) (f : Forwarding)
    (h : cctpController cfg φ c t f = .ok c') :
    ∃ domain mint caller, f.attrs = some (.cctp domain mint caller) ∧
      c'.reqs = c.reqs ++ [Req.cctp "orbiter" t.dstAmount domain mint t.dstDenom (if caller.isEmpty then none else some caller)] := by
  unfold cctpController at h
  simp only at h
  cases ha : f.attrs with
  | none => simp [ha] at h
  | some a =>
    simp only [ha, Res.pure_eq, Res.bind_ok] at h
    cases a with
    | cctp domain mint caller =>
      simp only at h
      obtain ⟨_, _, h⟩ := Res.bind_eq_ok.mp h
      obtain ⟨c1, h1, h⟩ := Res.bind_eq_ok.mp h
      refine ⟨domain, mint, caller, rfl, ?_⟩
      rw [cctpDepositForBurn_reqs h, Ctx.call_reqs h1]
    | hyp => simp at h
    | internal => simp at h
    | fee => simp at h

theorem c05_hyp_request (cfg : Cfg) (φ : Faults) (c c' : Ctx) (t : TransferAttrs) (f : Forwarding)
    (h : hypController cfg φ c t f = .ok c') :
    ∃ tok domain rec_ hook hmeta gas feeDenom feeAmt, f.attrs = some (.hyp tok domain rec_ hook hmeta gas feeDenom feeAmt) ∧
      c'.reqs = c.reqs ++ [Req.warp "orbiter" tok domain rec_ t.dstAmount (if hook.isEmpty then none else some hook) gas feeDenom feeAmt hmeta] := by
  unfold hypController at h
  simp only at h
  cases ha : f.attrs with
  | none => simp [ha] at h
  | some a =>
    simp only [ha, Res.pure_eq, Res.bind_ok] at h
    cases a with
    | hyp tok domain rec_ hook hmeta gas feeDenom feeAmt =>
      simp only at h
      obtain ⟨_, _, h⟩ := Res.bind_eq_ok.mp h
      obtain ⟨_, _, h⟩ := Res.bind_eq_ok.mp h
      obtain ⟨c1, h1, h⟩ := Res.bind_eq_ok.mp h
      cases ht : lookupTok c1.ext.hypTokens tok with
      | none => simp [ht] at h
      | some origin =>
        simp only [ht, Res.bind_ok, Res.guard_bind_eq_ok] at h
        obtain ⟨_, h⟩ := h
        obtain ⟨c2, h2, h⟩ := Res.bind_eq_ok.mp h
        refine ⟨tok, domain, rec_, hook, hmeta, gas, feeDenom, feeAmt, rfl, ?_⟩
        rw [warpRemoteTransfer_reqs h, Ctx.call_reqs h2, Ctx.call_reqs h1]
    | cctp => simp at h
    | internal => simp at h
    | fee => simp at h

theorem c05_internal_request (cfg : Cfg) (φ : Faults) (c c' : Ctx) (t : TransferAttrs) (f : Forwarding)
    (h : internalController cfg φ c t f = .ok c') :
    ∃ recipient, f.attrs = some (.internal recipient) ∧
      c'.reqs = c.reqs ++ [Req.bankSend "orbiter" recipient t.dstDenom t.dstAmount] := by
  unfold internalController at h
  simp only at h
  cases ha : f.attrs with
  | none => simp [ha] at h
  | some a =>
    simp only [ha, Res.pure_eq, Res.bind_ok] at h
    cases a with
    | internal recipient =>
      simp only at h
      obtain ⟨_, _, h⟩ := Res.bind_eq_ok.mp h
      obtain ⟨_, _, h⟩ := Res.bind_eq_ok.mp h
      obtain ⟨_, _, h⟩ := Res.bind_eq_ok.mp h
      obtain ⟨c1, h1, h⟩ := Res.bind_eq_ok.mp h
      refine ⟨recipient, rfl, ?_⟩
      rw [bankMsgSend_reqs h, Ctx.call_reqs h1]
    | cctp => simp at h
    | hyp => simp at h
    | fee => simp at h

/-- **The request.** On the chain's wiring, a forwarder run that succeeds used the controller of the
payload's protocol identifier and recorded exactly one request: the expected one. -/
theorem c05_request (cfg : Cfg) (π : OneofOrder) (φ : Faults) (o : OrbState) (c c' : Ctx) (t : TransferAttrs) (f : Forwarding)
    (h : forwarderHandle (appWiring cfg π) φ o c t f = .ok c') :
    ∃ r, expectedReq t f = some r ∧ c'.reqs = c.reqs ++ [r] := by
  unfold forwarderHandle at h
  obtain ⟨_, _, h⟩ := Res.bind_eq_ok.mp h
  cases ha : f.attrs with
  | none => simp [ha] at h
  | some a =>
    simp only [ha, Res.pure_eq, Res.bind_ok, Res.guard_bind_eq_ok] at h
    obtain ⟨_, _, _, _, h⟩ := h
    simp only [appWiring, appForwardingRouter] at h
    split at h
    · cases h
    · rename_i hctl
      split at hctl
      · cases hctl
      · split at hctl
        · rename_i hid
          simp only [Option.some.injEq] at hctl; subst hctl
          obtain ⟨d, m, cl, hfa, hr⟩ := c05_cctp_request cfg φ c c' t f h
          refine ⟨_, ?_, hr⟩
          simp only [expectedReq, hfa]
          have : f.protocolId = PROTOCOL_CCTP := by simpa using hid
          simp [this]
        · split at hctl
          · rename_i hid
            simp only [Option.some.injEq] at hctl; subst hctl
            obtain ⟨tok, d, r, hk, hm, g, fd, fa, hfa, hr⟩ := c05_hyp_request cfg φ c c' t f h
            refine ⟨_, ?_, hr⟩
            simp only [expectedReq, hfa]
            have : f.protocolId = PROTOCOL_HYPERLANE := by simpa using hid
            simp [this]
          · split at hctl
            · rename_i hid
              simp only [Option.some.injEq] at hctl; subst hctl
              obtain ⟨r, hfa, hr⟩ := c05_internal_request cfg φ c c' t f h
              refine ⟨_, ?_, hr⟩
              simp only [expectedReq, hfa]
              have : f.protocolId = PROTOCOL_INTERNAL := by simpa using hid
              simp [this]
            · cases hctl

/-- Attributes of a different protocol than the identifier, or an identifier without a controller on this
chain (IBC as outgoing route, unknown numbers): refused. -/
theorem c05_mismatch_refused (cfg : Cfg) (π : OneofOrder) (φ : Faults) (o : OrbState) (c c' : Ctx) (t : TransferAttrs) (f : Forwarding)
    (hm : expectedReq t f = none) : forwarderHandle (appWiring cfg π) φ o c t f ≠ .ok c' := by
  intro h
  obtain ⟨r, hr, _⟩ := c05_request cfg π φ o c c' t f h
  rw [hm] at hr; cases hr

/-- The only action with a controller on this chain is the fee action: a payload naming any other action
(swap, unknown numbers) is refused. -/
theorem c05_unrouted_action_refused (cfg : Cfg) (π : OneofOrder) (φ : Faults) (o : OrbState) (c : Ctx) (t : TransferAttrs) (a : Action)
    (hne : a.id ≠ ACTION_FEE) (r : Ctx × TransferAttrs) : executorHandle (appWiring cfg π) φ o c t a ≠ .ok r := by
  intro h
  unfold executorHandle at h
  obtain ⟨_, _, h⟩ := Res.bind_eq_ok.mp h
  simp only [Res.guard_bind_eq_ok] at h
  obtain ⟨_, h⟩ := h
  have : (appWiring cfg π).actions a.id = none := by
    simp [appWiring, appActionRouter, hne]
  simp [this] at h

/-- The deposit-replacement message reaches CCTP with exactly its fields and the orbiter account as owner
(the request as built; its acceptance by the CCTP module is outside the model). -/
theorem c05_replace_request (s : String) (a b c d : Bytes) :
    replaceRequest (.replaceDepositForBurn s a b c d) = some ("orbiter", a, b, c, d) := rfl

/-! ### non-vacuity -/
example : expectedReq { srcProtocol := 1, srcCounterparty := "channel-0", srcDenom := "uusdc", srcAmount := 100, dstDenom := "uusdc", dstAmount := 99 }
    { protocolId := 2, attrs := some (.cctp 5 [1] []), passthrough := [] } = some (Req.cctp "orbiter" 99 5 [1] "uusdc" none) := by decide
example : expectedReq { srcProtocol := 1, srcCounterparty := "channel-0", srcDenom := "uusdc", srcAmount := 100, dstDenom := "uusdc", dstAmount := 99 }
    { protocolId := 3, attrs := some (.cctp 5 [1] []), passthrough := [] } = none := by decide

end Orbiter.C05
