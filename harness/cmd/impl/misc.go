package main

import (
	"bytes"
	"crypto/sha256"
	"encoding/hex"
	"encoding/json"
	"fmt"
	"math/rand"
	"reflect"
	"regexp"
	"runtime/debug"
	"sort"
	"strconv"
	"strings"
	"time"

	"golang.org/x/crypto/sha3"
	protov2 "google.golang.org/protobuf/proto"
	"google.golang.org/protobuf/reflect/protoreflect"

	msgv1 "cosmossdk.io/api/cosmos/msg/v1"
	sdkmath "cosmossdk.io/math"
	storetypes "cosmossdk.io/store/types"
	"github.com/cosmos/cosmos-sdk/codec"
	sdk "github.com/cosmos/cosmos-sdk/types"
	"github.com/cosmos/gogoproto/proto"
	capabilitytypes "github.com/cosmos/ibc-go/modules/capability/types"
	"github.com/cosmos/ibc-go/v8/modules/apps/transfer"
	transfertypes "github.com/cosmos/ibc-go/v8/modules/apps/transfer/types"
	clienttypes "github.com/cosmos/ibc-go/v8/modules/core/02-client/types"
	channeltypes "github.com/cosmos/ibc-go/v8/modules/core/04-channel/types"
	porttypes "github.com/cosmos/ibc-go/v8/modules/core/05-port/types"
	ibcexported "github.com/cosmos/ibc-go/v8/modules/core/exported"

	cctptypes "github.com/circlefin/noble-cctp/x/cctp/types"
	"github.com/circlefin/noble-fiattokenfactory/x/blockibc"
	ftftypes "github.com/circlefin/noble-fiattokenfactory/x/fiattokenfactory/types"

	orbiter "github.com/noble-assets/orbiter/v2"
	"github.com/noble-assets/orbiter/v2/entrypoint"
	orbtypes "github.com/noble-assets/orbiter/v2/types"
	adaptertypes "github.com/noble-assets/orbiter/v2/types/component/adapter"
	dispatchertypes "github.com/noble-assets/orbiter/v2/types/component/dispatcher"
	executortypes "github.com/noble-assets/orbiter/v2/types/component/executor"
	forwardertypes "github.com/noble-assets/orbiter/v2/types/component/forwarder"
	"github.com/noble-assets/orbiter/v2/types/core"

	"verifharness/app"
)

func keccak256(b []byte) []byte {
	h := sha3.NewLegacyKeccak256()
	h.Write(b)
	return h.Sum(nil)
}

// ---------------------------------------------------------------------------------------------
// S5: the same packet on two branches of the same state, with and without the orbiter middleware.

func (s *appState) storeDump(ctx sdk.Context) map[string]string {
	out := map[string]string{}
	for _, k := range s.env.App.GetStoreKeys() {
		kv, ok := k.(*storetypes.KVStoreKey)
		if !ok {
			continue
		}
		h := sha256.New()
		it := ctx.KVStore(kv).Iterator(nil, nil)
		n := 0
		for ; it.Valid(); it.Next() {
			h.Write(it.Key())
			h.Write([]byte{0})
			h.Write(it.Value())
			h.Write([]byte{1})
			n++
		}
		it.Close()
		out[kv.Name()] = fmt.Sprintf("%d:%s", n, hex.EncodeToString(h.Sum(nil))[:16])
	}
	return out
}

type branchObs struct {
	ack    string
	ackBz  []byte
	events sdk.Events
	dump   map[string]string
	orb    string
}

func (s *appState) branch(d *driver, stack porttypes.IBCModule, pkt channeltypes.Packet) (o branchObs) {
	cacheCtx, _ := s.env.Ctx.CacheContext()
	cacheCtx = cacheCtx.WithEventManager(sdk.NewEventManager())
	func() {
		defer func() {
			if r := recover(); r != nil {
				o.ack = "panic:" + firstLine(fmt.Sprint(r))
				d.lastPanic = fmt.Sprintf("%v\n%s", r, debug.Stack())
			}
		}()
		ack := stack.OnRecvPacket(cacheCtx, pkt, s.relayerAddr())
		cls, _, bz := classifyAck(ack)
		o.ack, o.ackBz = cls, bz
	}()
	o.events = cacheCtx.EventManager().Events()
	o.dump = s.storeDump(cacheCtx)
	o.orb = s.stateStr(cacheCtx)
	return o
}

// ibc-go v8 formats a math.Int with %d in one of its own error texts ("amount must be strictly positive:
// got {824661609632}"), which prints a pointer. That text is not the orbiter's; it is masked before comparing.
var ptrRe = regexp.MustCompile(`\{\d{6,}\}`)

func maskPtr(s string) string { return ptrRe.ReplaceAllString(s, "{PTR}") }

func eventsEqual(a, b sdk.Events) bool {
	if len(a) != len(b) {
		return false
	}
	for i := range a {
		if a[i].Type != b[i].Type || len(a[i].Attributes) != len(b[i].Attributes) {
			return false
		}
		for j := range a[i].Attributes {
			if a[i].Attributes[j].Key != b[i].Attributes[j].Key || maskPtr(a[i].Attributes[j].Value) != maskPtr(b[i].Attributes[j].Value) {
				return false
			}
		}
	}
	return true
}

// withoutmw <pkt>: non-committing. Compares the real stack with blockibc -> ICS-20 (no orbiter).
//
// withoutmwc <pkt>: the same at component level: the orbiter middleware directly around ICS-20 (nothing stacked above
// it) against ICS-20 alone. The middleware must be transparent whatever sits above it in a chain's stack.
func (s *appState) withoutMW(d *driver, f []string, component bool) string {
	pkt, ok := s.mkPacket(f)
	if !ok {
		return "bad-op"
	}
	var bare, with porttypes.IBCModule
	bare = transfer.NewIBCModule(s.env.App.TransferKeeper)
	if component {
		with = entrypoint.NewIBCMiddleware(bare, s.env.App.IBCKeeper.ChannelKeeper, s.env.App.OrbiterKeeper.Adapter())
	} else {
		bare = blockibc.NewIBCMiddleware(bare, s.env.App.FTFKeeper)
		with = s.env.Stack
	}
	orbBefore := s.stateStr(s.env.Ctx)
	a := s.branch(d, with, pkt)
	b := s.branch(d, bare, pkt)
	var diffs []string
	if a.ack != b.ack || !bytes.Equal(a.ackBz, b.ackBz) {
		diffs = append(diffs, "ack")
	}
	if !eventsEqual(a.events, b.events) {
		diffs = append(diffs, "events")
	}
	names := make([]string, 0, len(a.dump))
	for n := range a.dump {
		names = append(names, n)
	}
	sort.Strings(names)
	for _, n := range names {
		if a.dump[n] != b.dump[n] {
			diffs = append(diffs, "store:"+n)
		}
	}
	if a.orb != orbBefore {
		diffs = append(diffs, "orbiterstate")
	}
	same := "true"
	diff := "-"
	if len(diffs) > 0 {
		same = "false"
		diff = strings.Join(diffs, ",")
	}
	evd := "-"
	if !eventsEqual(a.events, b.events) {
		evd = hx(fmt.Sprintf("%v ||| %v", a.events, b.events))
	}
	return fmt.Sprintf("same=%s diff=%s ackmw=%s ackbare=%s nev=%d evdiff=%s", same, diff, a.ack, b.ack, len(a.events), evd)
}

// cmpstacks <pkt>: non-committing. App-wired stack against the harness-wired stack (wiring equivalence).
func (s *appState) cmpStacks(d *driver, f []string) string {
	pkt, ok := s.mkPacket(f)
	if !ok {
		return "bad-op"
	}
	if err := s.ensureHW(); err != nil {
		return "err:hw"
	}
	s.hw.resetOp()
	s.hw.faults = map[string]map[int]bool{}
	a := s.branch(d, s.env.Stack, pkt)
	b := s.branch(d, s.hw.stack, pkt)
	var diffs []string
	if a.ack != b.ack || !bytes.Equal(a.ackBz, b.ackBz) {
		diffs = append(diffs, "ack")
	}
	if !eventsEqual(a.events, b.events) {
		diffs = append(diffs, "events")
	}
	for n := range a.dump {
		if a.dump[n] != b.dump[n] {
			diffs = append(diffs, "store:"+n)
		}
	}
	sort.Strings(diffs)
	if len(diffs) == 0 {
		return "same=true diff=-"
	}
	return "same=false diff=" + strings.Join(diffs, ",")
}

// ---------------------------------------------------------------------------------------------
// Pass-through callbacks (C07): a recording fake below the real middleware.

type fakeApp struct {
	porttypes.IBCModule
	log *[]string
	err error
}

func (f fakeApp) OnAcknowledgementPacket(ctx sdk.Context, p channeltypes.Packet, ack []byte, r sdk.AccAddress) error {
	*f.log = append(*f.log, fmt.Sprintf("ack:%d:%s:%s:%s:%s:%s:%s", p.Sequence, p.SourcePort, p.SourceChannel, hxb(p.Data), hxb(ack), hxb(r), ctx.ChainID()))
	return f.err
}

func (f fakeApp) OnTimeoutPacket(ctx sdk.Context, p channeltypes.Packet, r sdk.AccAddress) error {
	*f.log = append(*f.log, fmt.Sprintf("timeout:%d:%s:%s:%s:%s:%s", p.Sequence, p.SourcePort, p.SourceChannel, hxb(p.Data), hxb(r), ctx.ChainID()))
	return f.err
}

type fakeICS4 struct {
	log *[]string
	err error
}

func (f fakeICS4) SendPacket(ctx sdk.Context, c *capabilitytypes.Capability, sp, sc string, th clienttypes.Height, ts uint64, data []byte) (uint64, error) {
	*f.log = append(*f.log, fmt.Sprintf("send:%s:%s:%s:%d:%s", sp, sc, th.String(), ts, hxb(data)))
	return 77, f.err
}

func (f fakeICS4) WriteAcknowledgement(ctx sdk.Context, c *capabilitytypes.Capability, p ibcexported.PacketI, ack ibcexported.Acknowledgement) error {
	*f.log = append(*f.log, fmt.Sprintf("writeack:%d:%s", p.GetSequence(), hxb(ack.Acknowledgement())))
	return f.err
}

func (f fakeICS4) GetAppVersion(ctx sdk.Context, p, c string) (string, bool) {
	*f.log = append(*f.log, "appversion:"+p+":"+c)
	return "ics20-1", true
}

// cb <ack|timeout|send|writeack> <dataHex> <extraHex> <fail 0|1>
func (s *appState) callbacks(d *driver, f []string) (out string) {
	defer func() {
		if r := recover(); r != nil {
			out = "same=panic"
		}
	}()
	var direct, viaMW []string
	var ferr error
	if f[3] == "1" {
		ferr = fmt.Errorf("fake failure")
	}
	data := []byte(mustUnhx(f[1]))
	extra := []byte(mustUnhx(f[2]))
	mw := entrypoint.NewIBCMiddleware(fakeApp{log: &viaMW, err: ferr}, fakeICS4{log: &viaMW, err: ferr}, s.env.App.OrbiterKeeper.Adapter())
	fa := fakeApp{log: &direct, err: ferr}
	fi := fakeICS4{log: &direct, err: ferr}
	pkt := channeltypes.NewPacket(data, 9, "transfer", "channel-0", "transfer", "channel-7", clienttypes.NewHeight(1, 99), 5)
	rel := sdk.AccAddress([]byte("relayer-account-0001"))
	ctx := s.env.Ctx
	var e1, e2 error
	var r1, r2 uint64
	switch f[0] {
	case "ack":
		e1 = fa.OnAcknowledgementPacket(ctx, pkt, extra, rel)
		e2 = mw.OnAcknowledgementPacket(ctx, pkt, extra, rel)
	case "timeout":
		e1 = fa.OnTimeoutPacket(ctx, pkt, rel)
		e2 = mw.OnTimeoutPacket(ctx, pkt, rel)
	case "send":
		r1, e1 = fi.SendPacket(ctx, nil, "transfer", "channel-0", clienttypes.NewHeight(1, 99), 5, data)
		r2, e2 = mw.SendPacket(ctx, nil, "transfer", "channel-0", clienttypes.NewHeight(1, 99), 5, data)
	case "writeack":
		ack := channeltypes.NewResultAcknowledgement(extra)
		e1 = fi.WriteAcknowledgement(ctx, nil, pkt, ack)
		e2 = mw.WriteAcknowledgement(ctx, nil, pkt, ack)
	default:
		return "bad-op"
	}
	same := strings.Join(direct, "|") == strings.Join(viaMW, "|") && (e1 == nil) == (e2 == nil) && r1 == r2 && len(viaMW) == 1
	return fmt.Sprintf("same=%v", same)
}

// ---------------------------------------------------------------------------------------------
// Msg RPC surface, enumerated from the proto descriptors at run time (C10).

type rpcInfo struct {
	Service, Method, Input, SignerField string
}

func listOrbiterRPCs() []rpcInfo {
	var out []rpcInfo
	files, err := proto.MergedRegistry()
	if err != nil {
		return nil
	}
	files.RangeFiles(func(fd protoreflect.FileDescriptor) bool {
		if !strings.HasPrefix(string(fd.Package()), "noble.orbiter") {
			return true
		}
		svcs := fd.Services()
		for i := 0; i < svcs.Len(); i++ {
			sd := svcs.Get(i)
			if sd.Name() != "Msg" {
				continue
			}
			ms := sd.Methods()
			for j := 0; j < ms.Len(); j++ {
				md := ms.Get(j)
				signer := ""
				if opts := md.Input().Options(); opts != nil {
					if v, ok := protov2.GetExtension(opts, msgv1.E_Signer).([]string); ok && len(v) > 0 {
						signer = strings.Join(v, "+")
					}
				}
				out = append(out, rpcInfo{string(sd.FullName()), string(md.Name()), string(md.Input().FullName()), signer})
			}
		}
		return true
	})
	sort.Slice(out, func(i, j int) bool { return out[i].Service+out[i].Method < out[j].Service+out[j].Method })
	return out
}

func (s *appState) listRPCs() string {
	parts := []string{}
	for _, r := range listOrbiterRPCs() {
		parts = append(parts, fmt.Sprintf("%s/%s:%s:%s", r.Service, r.Method, r.Input, r.SignerField))
	}
	return "rpcs=" + strings.Join(parts, ",")
}

func fillRandom(v reflect.Value, rng *rand.Rand, depth int) {
	switch v.Kind() {
	case reflect.String:
		choices := []string{"", "PROTOCOL_CCTP", "PROTOCOL_IBC", "ACTION_FEE", "1", "channel-0", "noble", "x", "PROTOCOL_HYPERLANE", "ACTION_SWAP", "garbage"}
		v.SetString(choices[rng.Intn(len(choices))])
	case reflect.Uint32, reflect.Uint64, reflect.Uint8:
		v.SetUint(uint64(rng.Intn(5000)))
	case reflect.Int32, reflect.Int64:
		v.SetInt(int64(rng.Intn(7) - 1))
	case reflect.Bool:
		v.SetBool(rng.Intn(2) == 0)
	case reflect.Slice:
		n := rng.Intn(4)
		if v.Type().Elem().Kind() == reflect.Uint8 {
			b := make([]byte, rng.Intn(40))
			rng.Read(b)
			v.SetBytes(b)
			return
		}
		sl := reflect.MakeSlice(v.Type(), n, n)
		for i := 0; i < n; i++ {
			fillRandom(sl.Index(i), rng, depth+1)
		}
		v.Set(sl)
	case reflect.Struct:
		if depth > 3 {
			return
		}
		for i := 0; i < v.NumField(); i++ {
			if v.Field(i).CanSet() {
				fillRandom(v.Field(i), rng, depth+1)
			}
		}
	case reflect.Ptr:
		if depth > 3 || rng.Intn(3) == 0 {
			return
		}
		if v.Type().Elem().Kind() == reflect.Struct {
			nv := reflect.New(v.Type().Elem())
			fillRandom(nv.Elem(), rng, depth+1)
			v.Set(nv)
		}
	}
}

// msgany <inputFullName> <signerStringHex> <seed>: reflectively built body, every registered orbiter Msg.
func (s *appState) msgAny(d *driver, f []string) string {
	var info *rpcInfo
	for _, r := range listOrbiterRPCs() {
		if r.Input == f[0] {
			rr := r
			info = &rr
		}
	}
	if info == nil {
		return "res=unknownrpc"
	}
	t := proto.MessageType(info.Input)
	if t == nil {
		return "res=unknowntype"
	}
	seed, _ := strconv.ParseInt(f[2], 10, 64)
	rng := rand.New(rand.NewSource(seed))
	mv := reflect.New(t.Elem())
	fillRandom(mv.Elem(), rng, 0)
	// the signer field, named in the descriptor (snake case) -> Go field (camel case)
	goName := ""
	for _, p := range strings.Split(info.SignerField, "_") {
		if p != "" {
			goName += strings.ToUpper(p[:1]) + p[1:]
		}
	}
	fld := mv.Elem().FieldByName(goName)
	if !fld.IsValid() || fld.Kind() != reflect.String {
		return "res=nosignerfield"
	}
	fld.SetString(mustUnhx(f[1]))
	m, ok := mv.Interface().(sdk.Msg)
	if !ok {
		return "res=notmsg"
	}
	before := s.stateStr(s.env.Ctx)
	res, _, errTxt := s.runMsg(d, m)
	after := s.stateStr(s.env.Ctx)
	unauth := strings.Contains(errTxt, core.ErrUnauthorized.Error())
	return fmt.Sprintf("res=%s unchanged=%v unauthorized=%v st=%s body=%s", res, before == after, unauth, after, hx(fmt.Sprintf("%v", m)))
}

// ---------------------------------------------------------------------------------------------
// Environment operations on the external modules (S3 only).

func (s *appState) envOp(d *driver, f []string) (out string) {
	defer func() {
		if r := recover(); r != nil {
			out = "panic"
			d.lastPanic = fmt.Sprintf("%v\n%s", r, debug.Stack())
		}
	}()
	a := s.env.App
	ctx := s.env.Ctx
	switch f[0] {
	case "ftfpause":
		a.FTFKeeper.SetPaused(ctx, ftftypes.Paused{Paused: f[1] == "1"})
		return "ok"
	case "blacklist":
		addr, err := hex.DecodeString(f[1])
		if err != nil {
			return "bad-op"
		}
		if f[2] == "1" {
			a.FTFKeeper.SetBlacklisted(ctx, ftftypes.Blacklisted{AddressBz: addr})
		} else {
			a.FTFKeeper.RemoveBlacklisted(ctx, addr)
		}
		return "ok"
	case "cctppause":
		if f[1] == "burn" {
			a.CCTPKeeper.SetBurningAndMintingPaused(ctx, cctptypes.BurningAndMintingPaused{Paused: f[2] == "1"})
		} else {
			a.CCTPKeeper.SetSendingAndReceivingMessagesPaused(ctx, cctptypes.SendingAndReceivingMessagesPaused{Paused: f[2] == "1"})
		}
		return "ok"
	case "burnlimit":
		n, ok := sdkmath.NewIntFromString(f[1])
		if !ok {
			return "bad-op"
		}
		a.CCTPKeeper.SetPerMessageBurnLimit(ctx, cctptypes.PerMessageBurnLimit{Denom: app.USDC, Amount: n})
		return "ok"
	case "recvenabled":
		p := a.TransferKeeper.GetParams(ctx)
		p.ReceiveEnabled = f[1] == "1"
		a.TransferKeeper.SetParams(ctx, p)
		return "ok"
	case "meta":
		// meta <relayerHex|-> <sequence|-> <timeoutHeight|-> <timeoutStamp|-> <blockHeight|-> <blockUnixTime|->
		if len(f) < 7 {
			return "bad-op"
		}
		num := func(x string) (uint64, bool) {
			if x == "-" {
				return 0, false
			}
			n, err := strconv.ParseUint(x, 10, 64)
			return n, err == nil
		}
		if f[1] != "-" {
			b, err := hex.DecodeString(f[1])
			if err != nil {
				return "bad-op"
			}
			s.relayer = sdk.AccAddress(b)
		}
		if n, ok := num(f[2]); ok {
			s.seq = n
		}
		if n, ok := num(f[3]); ok {
			s.timeoutHeight = n
		}
		if n, ok := num(f[4]); ok {
			s.timeoutStamp = n
		}
		if n, ok := num(f[5]); ok {
			s.env.Ctx = s.env.Ctx.WithBlockHeight(int64(n & 0x7fffffffffffffff))
		}
		if n, ok := num(f[6]); ok {
			s.env.Ctx = s.env.Ctx.WithBlockTime(time.Unix(int64(n&0x3fffffffff), 0).UTC())
		}
		return "ok"
	case "role":
		// role <module.role> <hex(address string)>: appoint the holder of a role of another module
		raw, err := hex.DecodeString(f[2])
		if err != nil {
			return "bad-op"
		}
		who := string(raw)
		switch f[1] {
		case "cctp.owner":
			a.CCTPKeeper.SetOwner(ctx, who)
		case "cctp.pauser":
			a.CCTPKeeper.SetPauser(ctx, who)
		case "cctp.attestermanager":
			a.CCTPKeeper.SetAttesterManager(ctx, who)
		case "cctp.tokencontroller":
			a.CCTPKeeper.SetTokenController(ctx, who)
		case "ftf.owner":
			a.FTFKeeper.SetOwner(ctx, ftftypes.Owner{Address: who})
		case "ftf.pauser":
			a.FTFKeeper.SetPauser(ctx, ftftypes.Pauser{Address: who})
		case "ftf.blacklister":
			a.FTFKeeper.SetBlacklister(ctx, ftftypes.Blacklister{Address: who})
		case "ftf.masterminter":
			a.FTFKeeper.SetMasterMinter(ctx, ftftypes.MasterMinter{Address: who})
		default:
			return "bad-op"
		}
		return "ok"
	case "sendenabled":
		// sendenabled <denomHex> <0|1>: the bank's per-denomination switch (what bank MsgSetSendEnabled sets)
		raw, err := hex.DecodeString(f[1])
		if err != nil {
			return "bad-op"
		}
		a.BankKeeper.SetSendEnabled(ctx, string(raw), f[2] == "1")
		return "ok"
	case "hyp":
		return s.hypOp(d, f[1:])
	}
	return "bad-op"
}

// ---------------------------------------------------------------------------------------------
// Genesis (C17).

func parseCCID(x string) (*core.CrossChainID, bool) {
	if x == "nil" {
		return nil, true
	}
	p := strings.Split(x, "|")
	if len(p) != 2 {
		return nil, false
	}
	n, err := strconv.ParseInt(p[0], 10, 32)
	if err != nil {
		return nil, false
	}
	return &core.CrossChainID{ProtocolId: core.ProtocolID(n), CounterpartyId: mustUnhx(p[1])}, true
}

func splitList(x string) []string {
	x = strings.TrimSuffix(strings.TrimPrefix(x, "["), "]")
	if x == "" {
		return nil
	}
	return strings.Split(x, ",")
}

// parseCanonGenesis reads the canonical state string (the same form stateStr prints).
func parseCanonGenesis(c string) (*orbtypes.GenesisState, bool) {
	g := &orbtypes.GenesisState{
		AdapterGenesis:    &adaptertypes.GenesisState{},
		DispatcherGenesis: &dispatchertypes.GenesisState{},
		ForwarderGenesis:  &forwardertypes.GenesisState{},
		ExecutorGenesis:   &executortypes.GenesisState{},
	}
	for _, kv := range strings.Split(c, ";") {
		i := strings.IndexByte(kv, '=')
		if i < 0 {
			return nil, false
		}
		k, v := kv[:i], kv[i+1:]
		switch k {
		case "pp":
			for _, x := range splitList(v) {
				n, err := strconv.ParseInt(x, 10, 32)
				if err != nil {
					return nil, false
				}
				g.ForwarderGenesis.PausedProtocolIds = append(g.ForwarderGenesis.PausedProtocolIds, core.ProtocolID(n))
			}
		case "pcc":
			for _, x := range splitList(v) {
				id, ok := parseCCID(x)
				if !ok {
					return nil, false
				}
				g.ForwarderGenesis.PausedCrossChainIds = append(g.ForwarderGenesis.PausedCrossChainIds, id)
			}
		case "pa":
			for _, x := range splitList(v) {
				n, err := strconv.ParseInt(x, 10, 32)
				if err != nil {
					return nil, false
				}
				g.ExecutorGenesis.PausedActionIds = append(g.ExecutorGenesis.PausedActionIds, core.ActionID(n))
			}
		case "params":
			n, err := strconv.ParseUint(v, 10, 32)
			if err != nil {
				return nil, false
			}
			g.AdapterGenesis.Params.MaxPassthroughPayloadSize = uint32(n)
		case "amts":
			for _, x := range splitList(v) {
				p := strings.Split(x, "|")
				if len(p) != 7 {
					return nil, false
				}
				src, ok1 := parseCCID(p[0] + "|" + p[1])
				dst, ok2 := parseCCID(p[2] + "|" + p[3])
				in, ok3 := sdkmath.NewIntFromString(p[5])
				outA, ok4 := sdkmath.NewIntFromString(p[6])
				if !ok1 || !ok2 || !ok3 || !ok4 {
					return nil, false
				}
				g.DispatcherGenesis.DispatchedAmounts = append(g.DispatcherGenesis.DispatchedAmounts, dispatchertypes.DispatchedAmountEntry{
					SourceId: src, DestinationId: dst, Denom: mustUnhx(p[4]),
					AmountDispatched: dispatchertypes.AmountDispatched{Incoming: in, Outgoing: outA},
				})
			}
		case "cnts":
			for _, x := range splitList(v) {
				p := strings.Split(x, "|")
				if len(p) != 5 {
					return nil, false
				}
				src, ok1 := parseCCID(p[0] + "|" + p[1])
				dst, ok2 := parseCCID(p[2] + "|" + p[3])
				n, err := strconv.ParseUint(p[4], 10, 64)
				if !ok1 || !ok2 || err != nil {
					return nil, false
				}
				g.DispatcherGenesis.DispatchedCounts = append(g.DispatcherGenesis.DispatchedCounts, dispatchertypes.DispatchCountEntry{
					SourceId: src, DestinationId: dst, Count: n,
				})
			}
		default:
			return nil, false
		}
	}
	return g, true
}

var genesisSectionKeys = map[string]string{"adapter": "adapter_genesis", "dispatcher": "dispatcher_genesis", "forwarder": "forwarder_genesis", "executor": "executor_genesis"}

// genesisDocJSON renders the canonical genesis string as the JSON document handed to the AppModule. Entries `nil=a,b` spell
// the named component sections `null`, `omit=a,b` leave them out of the document.
func genesisDocJSON(cdc codec.Codec, c string) ([]byte, bool) {
	var body, nils, omits []string
	for _, kv := range strings.Split(c, ";") {
		switch {
		case strings.HasPrefix(kv, "nil="):
			nils = append(nils, strings.Split(kv[4:], ",")...)
		case strings.HasPrefix(kv, "omit="):
			omits = append(omits, strings.Split(kv[5:], ",")...)
		default:
			body = append(body, kv)
		}
	}
	g, ok := parseCanonGenesis(strings.Join(body, ";"))
	if !ok {
		return nil, false
	}
	bz, err := cdc.MarshalJSON(g)
	if err != nil {
		return nil, false
	}
	if len(nils) == 0 && len(omits) == 0 {
		return bz, true
	}
	var doc map[string]json.RawMessage
	if err := json.Unmarshal(bz, &doc); err != nil {
		return nil, false
	}
	for _, n := range nils {
		if n == "" {
			continue
		}
		k, ok := genesisSectionKeys[n]
		if !ok {
			return nil, false
		}
		doc[k] = json.RawMessage("null")
	}
	for _, n := range omits {
		if n == "" {
			continue
		}
		k, ok := genesisSectionKeys[n]
		if !ok {
			return nil, false
		}
		delete(doc, k)
	}
	out, err := json.Marshal(doc)
	if err != nil {
		return nil, false
	}
	return out, true
}

func (s *appState) genesisOp(d *driver, f []string) (out string) {
	defer func() {
		if r := recover(); r != nil {
			out = "res=panic"
			d.lastPanic = fmt.Sprintf("%v\n%s", r, debug.Stack())
		}
	}()
	cdc := s.env.Cdc
	mod := orbiter.NewAppModule(s.env.App.OrbiterKeeper)
	switch f[0] {
	case "genvalidate":
		bz, ok := genesisDocJSON(cdc, f[1])
		if !ok {
			return "bad-op"
		}
		if err := mod.ValidateGenesis(cdc, nil, bz); err != nil {
			return "res=err"
		}
		return "res=ok"
	case "geninit":
		bz, ok := genesisDocJSON(cdc, f[1])
		if !ok {
			return "bad-op"
		}
		cfg := s.env.Cfg
		cfg.OrbiterGenesis = bz
		env2, err := app.Boot(cfg)
		if err != nil {
			if strings.HasPrefix(err.Error(), "boot panic") {
				d.lastPanic = err.Error()
				return "res=panic"
			}
			return "res=err"
		}
		defer env2.Close()
		s2 := &appState{env: env2, denomByHash: map[string]string{}, escrowSym: map[string]string{}}
		return "res=ok st=" + s2.stateStr(env2.Ctx)
	case "genload":
		// wipe the module store and initialise it, in place, from the given genesis (a chain started from that genesis)
		g, ok := parseCanonGenesis(f[1])
		if !ok {
			return "bad-op"
		}
		bz, err := cdc.MarshalJSON(g)
		if err != nil {
			return "bad-op"
		}
		if err := mod.ValidateGenesis(cdc, nil, bz); err != nil {
			return "res=err"
		}
		ctx := s.env.Ctx
		cacheCtx, write := ctx.CacheContext()
		store := cacheCtx.KVStore(s.env.App.GetKey(core.ModuleName))
		var keys [][]byte
		it := store.Iterator(nil, nil)
		for ; it.Valid(); it.Next() {
			keys = append(keys, append([]byte{}, it.Key()...))
		}
		it.Close()
		for _, k := range keys {
			store.Delete(k)
		}
		mod.InitGenesis(cacheCtx, cdc, bz)
		write()
		return "res=ok st=" + s.stateStr(ctx)
	case "reimport":
		// export -> validate -> wipe the module store -> init -> export, in place, through the AppModule
		ctx := s.env.Ctx
		before := s.stateStr(ctx)
		bz := mod.ExportGenesis(ctx, cdc)
		valid := "ok"
		if err := mod.ValidateGenesis(cdc, nil, bz); err != nil {
			valid = "err"
		}
		cacheCtx, write := ctx.CacheContext()
		store := cacheCtx.KVStore(s.env.App.GetKey(core.ModuleName))
		var keys [][]byte
		rawBefore := map[string]string{}
		it := store.Iterator(nil, nil)
		for ; it.Valid(); it.Next() {
			keys = append(keys, append([]byte{}, it.Key()...))
			rawBefore[string(it.Key())] = string(it.Value())
		}
		it.Close()
		for _, k := range keys {
			store.Delete(k)
		}
		initRes := "ok"
		func() {
			defer func() {
				if r := recover(); r != nil {
					initRes = "panic"
					d.lastPanic = fmt.Sprintf("%v\n%s", r, debug.Stack())
				}
			}()
			mod.InitGenesis(cacheCtx, cdc, bz)
		}()
		if initRes != "ok" {
			return fmt.Sprintf("valid=%s init=%s same=false st=%s", valid, initRes, before)
		}
		after := s.stateStr(cacheCtx)
		bz2 := mod.ExportGenesis(cacheCtx, cdc)
		same := after == before && bytes.Equal(bz, bz2)
		// the module store itself, key by key: whatever the module keeps there — under any prefix — is carried by the export
		raw := "true"
		rawAfter := map[string]string{}
		it2 := store.Iterator(nil, nil)
		for ; it2.Valid(); it2.Next() {
			rawAfter[string(it2.Key())] = string(it2.Value())
		}
		it2.Close()
		var diffs []string
		for k, v := range rawBefore {
			if w, ok := rawAfter[k]; !ok {
				diffs = append(diffs, "lost:"+hex.EncodeToString([]byte(k)))
			} else if w != v {
				diffs = append(diffs, "changed:"+hex.EncodeToString([]byte(k)))
			}
		}
		for k := range rawAfter {
			if _, ok := rawBefore[k]; !ok {
				diffs = append(diffs, "new:"+hex.EncodeToString([]byte(k)))
			}
		}
		if len(diffs) > 0 {
			sort.Strings(diffs)
			if len(diffs) > 4 {
				diffs = diffs[:4]
			}
			raw = strings.Join(diffs, ",")
		}
		write()
		return fmt.Sprintf("valid=%s init=ok same=%v raw=%s st=%s", valid, same, raw, after)
	}
	return "bad-op"
}

var _ = transfertypes.ModuleName
