/-
  Order facts: the byte-wise lexicographic order is a strict total order; the key encodings of the
  collections are injective on valid keys; inserting into / rebuilding sorted lists.
  Used for the textual export/import round trip (C17) and for pagination by key (C13).
-/
import Orbiter.Lemmas.Inv
namespace Orbiter

/-! ### bytes -/

theorem strBytes_inj {a b : String} (h : strBytes a = strBytes b) : a = b := by
  unfold strBytes at h
  have h1 : a.toUTF8.data = b.toUTF8.data := Array.toList_inj.mp h
  have h2 : a.toUTF8 = b.toUTF8 := by
    cases ha : a.toUTF8; cases hb : b.toUTF8
    simp only [ha, hb] at h1
    rw [h1]
  exact String.toByteArray_inj.mp h2

theorem bytesLt_irrefl (a : Bytes) : bytesLt a a = false := by
  induction a with
  | nil => rfl
  | cons x xs ih =>
    simp only [bytesLt]
    have : ¬ x < x := by simp [UInt8.lt_iff_toNat_lt]
    simp [this, ih]

theorem bytesLt_trans {a b c : Bytes} (h1 : bytesLt a b = true) (h2 : bytesLt b c = true) : bytesLt a c = true := by
  induction a generalizing b c with
  | nil =>
    cases b with
    | nil => simp [bytesLt] at h1
    | cons y ys =>
      cases c with
      | nil => simp [bytesLt] at h2
      | cons z zs => simp [bytesLt]
  | cons x xs ih =>
    cases b with
    | nil => simp [bytesLt] at h1
    | cons y ys =>
      cases c with
      | nil => simp [bytesLt] at h2
      | cons z zs =>
        simp only [bytesLt] at h1 h2 ⊢
        simp only [UInt8.lt_iff_toNat_lt, gt_iff_lt] at h1 h2 ⊢
        by_cases hxy : x.toNat < y.toNat
        · by_cases hyz : y.toNat < z.toNat
          · have : x.toNat < z.toNat := by omega
            simp [this]
          · simp only [hyz, ↓reduceIte] at h2
            by_cases hzy : z.toNat < y.toNat
            · simp [hzy] at h2
            · have : x.toNat < z.toNat := by omega
              simp [this]
        · simp only [hxy, ↓reduceIte] at h1
          by_cases hyx : y.toNat < x.toNat
          · simp [hyx] at h1
          · simp only [hyx, ↓reduceIte] at h1
            have hxy' : x.toNat = y.toNat := by omega
            by_cases hyz : y.toNat < z.toNat
            · have : x.toNat < z.toNat := by omega
              simp [this]
            · simp only [hyz, ↓reduceIte] at h2
              by_cases hzy : z.toNat < y.toNat
              · simp [hzy] at h2
              · simp only [hzy, ↓reduceIte] at h2
                have h1' : ¬ x.toNat < z.toNat := by omega
                have h2' : ¬ z.toNat < x.toNat := by omega
                simp only [h1', h2', ↓reduceIte]
                exact ih h1 h2

theorem bytesLt_total {a b : Bytes} (h1 : bytesLt a b = false) (h2 : bytesLt b a = false) : a = b := by
  induction a generalizing b with
  | nil =>
    cases b with
    | nil => rfl
    | cons y ys => simp [bytesLt] at h1
  | cons x xs ih =>
    cases b with
    | nil => simp [bytesLt] at h2
    | cons y ys =>
      simp only [bytesLt, UInt8.lt_iff_toNat_lt, gt_iff_lt] at h1 h2
      by_cases hxy : x.toNat < y.toNat
      · simp [hxy] at h1
      · by_cases hyx : y.toNat < x.toNat
        · simp [hyx] at h2
        · simp only [hxy, hyx, ↓reduceIte] at h1 h2
          have : x = y := by
            apply UInt8.toNat_inj.mp
            omega
          rw [this, ih h1 h2]

theorem bytesLt_asymm {a b : Bytes} (h : bytesLt a b = true) : bytesLt b a = false := by
  cases hb : bytesLt b a with
  | false => rfl
  | true => have := bytesLt_trans h hb; rw [bytesLt_irrefl] at this; cases this

/-! ### a strict total order on the elements satisfying `V`, given as a Boolean relation -/

structure StrictOn {α} (lt : α → α → Bool) (V : α → Prop) : Prop where
  irrefl : ∀ a, lt a a = false
  trans : ∀ a b c, lt a b = true → lt b c = true → lt a c = true
  total : ∀ a b, V a → V b → lt a b = false → lt b a = false → a = b

def SortedBy {α} (lt : α → α → Bool) (l : List α) : Prop := l.Pairwise fun a b => lt a b = true

theorem StrictOn.asymm {α} {lt : α → α → Bool} {V : α → Prop} (h : StrictOn lt V) {a b : α} (hab : lt a b = true) : lt b a = false := by
  cases hb : lt b a with
  | false => rfl
  | true => have := h.trans a b a hab hb; rw [h.irrefl] at this; cases this

theorem sorted_insertBy {α} {lt : α → α → Bool} {V : α → Prop} (h : StrictOn lt V) (x : α) (l : List α)
    (hx : V x) (hl : ∀ y ∈ l, V y) (hn : x ∉ l) (hs : SortedBy lt l) : SortedBy lt (insertBy lt x l) := by
  induction l with
  | nil => simp [insertBy, SortedBy]
  | cons y ys ih =>
    simp only [insertBy]
    unfold SortedBy at hs ⊢
    rw [List.pairwise_cons] at hs
    split
    · rename_i hxy
      rw [List.pairwise_cons]
      refine ⟨?_, List.pairwise_cons.mpr hs⟩
      intro z hz
      rcases List.mem_cons.mp hz with rfl | hz
      · exact hxy
      · exact h.trans x y z hxy (hs.1 z hz)
    · rename_i hxy
      have hxy' : lt x y = false := by simpa using hxy
      have hyx : lt y x = true := by
        cases hq : lt y x with
        | true => rfl
        | false =>
          exfalso
          exact hn (by rw [h.total x y hx (hl y List.mem_cons_self) hxy' hq]; exact List.mem_cons_self)
      rw [List.pairwise_cons]
      refine ⟨?_, ih (fun z hz => hl z (List.mem_cons_of_mem _ hz)) (fun hm => hn (List.mem_cons_of_mem _ hm)) hs.2⟩
      intro z hz
      rcases (mem_insertBy lt x z ys).mp hz with rfl | hz
      · exact hyx
      · exact hs.1 z hz

/-- Inserting an element greater than everything present appends it. -/
theorem insertBy_append {α} {lt : α → α → Bool} {V : α → Prop} (h : StrictOn lt V) (x : α) (l : List α)
    (hgt : ∀ y ∈ l, lt y x = true) : insertBy lt x l = l ++ [x] := by
  induction l with
  | nil => rfl
  | cons y ys ih =>
    simp only [insertBy]
    have : lt x y = false := h.asymm (hgt y List.mem_cons_self)
    simp only [this, Bool.false_eq_true, ↓reduceIte, List.cons_append]
    rw [ih (fun z hz => hgt z (List.mem_cons_of_mem _ hz))]

/-- Rebuilding a sorted list by inserting its elements one by one gives the list back. -/
theorem foldl_insertBy_sorted {α} {lt : α → α → Bool} {V : α → Prop} (h : StrictOn lt V) (l acc : List α)
    (hs : SortedBy lt (acc ++ l)) : l.foldl (fun acc x => insertBy lt x acc) acc = acc ++ l := by
  induction l generalizing acc with
  | nil => simp
  | cons x xs ih =>
    simp only [List.foldl_cons]
    have hgt : ∀ y ∈ acc, lt y x = true := by
      intro y hy
      unfold SortedBy at hs
      rw [List.pairwise_append] at hs
      exact hs.2.2 y hy x List.mem_cons_self
    rw [insertBy_append h x acc hgt]
    have : acc ++ [x] ++ xs = acc ++ x :: xs := by simp
    rw [ih (acc ++ [x]) (by rw [this]; exact hs), this]


/-! ### UTF-8: the bytes of a string, and NUL -/

theorem strBytes_eq (s : String) : strBytes s = s.toList.flatMap String.utf8EncodeChar := by
  unfold strBytes String.toUTF8
  rw [← String.utf8Encode_toList]
  unfold List.utf8Encode
  rw [List.toList_data_toByteArray]

theorem strBytes_append (a b : String) : strBytes (a ++ b) = strBytes a ++ strBytes b := by
  simp only [strBytes_eq, String.toList_append, List.flatMap_append]

theorem utf8EncodeChar_ne_zero (c : Char) (hc : c ≠ Char.ofNat 0) : ∀ b ∈ String.utf8EncodeChar c, b ≠ 0 := by
  have hv : c.val.toNat ≠ 0 := by
    intro h
    apply hc
    apply Char.ext
    apply UInt32.toNat_inj.mp
    rw [h]; rfl
  have hlt : c.val.toNat < 1114112 := by
    have := c.valid
    rcases this with h | ⟨_, h⟩
    · have : c.val.toNat < 55296 := h; omega
    · exact h
  intro b hb
  unfold String.utf8EncodeChar at hb
  simp only at hb
  have key : ∀ x : Nat, x % 256 ≠ 0 → UInt8.ofNat x ≠ 0 := by
    intro x hx h
    have := congrArg UInt8.toNat h
    simp only [UInt8.toNat_ofNat'] at this
    exact hx this
  split at hb
  · simp only [List.mem_singleton] at hb; subst hb; apply key; omega
  · split at hb
    · simp only [List.mem_cons, List.mem_nil_iff, or_false] at hb
      rcases hb with rfl | rfl <;> (apply key; omega)
    · split at hb
      · simp only [List.mem_cons, List.mem_nil_iff, or_false] at hb
        rcases hb with rfl | rfl | rfl <;> (apply key; omega)
      · simp only [List.mem_cons, List.mem_nil_iff, or_false] at hb
        rcases hb with rfl | rfl | rfl | rfl <;> (apply key; omega)

/-- A string without the NUL character has no zero byte. -/
theorem strBytes_noNul {s : String} (h : hasNul s = false) : ∀ b ∈ strBytes s, b ≠ 0 := by
  rw [strBytes_eq]
  intro b hb
  simp only [List.mem_flatMap] at hb
  obtain ⟨c, hc, hbc⟩ := hb
  unfold hasNul at h
  rw [List.any_eq_false] at h
  exact utf8EncodeChar_ne_zero c (by simpa using h c hc) b hbc

/-! ### key encodings are injective on valid keys -/

theorem uint8_ofNat_inj {x y : Nat} (hx : x < 256) (hy : y < 256) (h : UInt8.ofNat x = UInt8.ofNat y) : x = y := by
  have := congrArg UInt8.toNat h
  simp only [UInt8.toNat_ofNat'] at this
  omega

theorem encInt32_length (i : Int) : (encInt32 i).length = 4 := by simp [encInt32]

/-- The key prefix of a protocol number is injective on the int32 range. -/
theorem encInt32_inj {a b : Int} (ha : -2147483648 ≤ a ∧ a < 2147483648) (hb : -2147483648 ≤ b ∧ b < 2147483648)
    (h : encInt32 a = encInt32 b) : a = b := by
  unfold encInt32 at h
  simp only [List.cons.injEq, and_true] at h
  obtain ⟨h3, h2, h1, h0⟩ := h
  generalize hua : ((a + 2147483648) % 4294967296).toNat = ua at h3 h2 h1 h0
  generalize hub : ((b + 2147483648) % 4294967296).toNat = ub at h3 h2 h1 h0
  have ra : ua < 4294967296 := by omega
  have rb : ub < 4294967296 := by omega
  have e3 := uint8_ofNat_inj (by omega) (by omega) h3
  have e2 := uint8_ofNat_inj (by omega) (by omega) h2
  have e1 := uint8_ofNat_inj (by omega) (by omega) h1
  have e0 := uint8_ofNat_inj (by omega) (by omega) h0
  have : ua = ub := by omega
  omega


theorem nt_inj {a a' r r' : Bytes} (ha : ∀ b ∈ a, b ≠ 0) (ha' : ∀ b ∈ a', b ≠ 0) (h : a ++ 0 :: r = a' ++ 0 :: r') : a = a' ∧ r = r' := by
  induction a generalizing a' with
  | nil =>
    cases a' with
    | nil => simp only [List.nil_append, List.cons.injEq, true_and] at h; exact ⟨rfl, h⟩
    | cons y ys =>
      simp only [List.nil_append, List.cons_append, List.cons.injEq] at h
      exact absurd h.1.symm (ha' y List.mem_cons_self)
  | cons x xs ih =>
    cases a' with
    | nil =>
      simp only [List.nil_append, List.cons_append, List.cons.injEq] at h
      exact absurd h.1 (ha x List.mem_cons_self)
    | cons y ys =>
      simp only [List.cons_append, List.cons.injEq] at h
      obtain ⟨i1, i2⟩ := ih (fun b hb => ha b (List.mem_cons_of_mem _ hb)) (fun b hb => ha' b (List.mem_cons_of_mem _ hb)) h.2
      exact ⟨by rw [h.1, i1], i2⟩

def int32Range (p : Int) : Prop := -2147483648 ≤ p ∧ p < 2147483648

theorem ccEnc_inj {a b : Int × String} (ha : int32Range a.1) (hb : int32Range b.1)
    (h : encInt32 a.1 ++ strBytes a.2 = encInt32 b.1 ++ strBytes b.2) : a = b := by
  obtain ⟨h1, h2⟩ := List.append_inj h (by rw [encInt32_length, encInt32_length])
  exact Prod.ext (encInt32_inj ha hb h1) (strBytes_inj h2)

theorem amtEnc_inj {a b : AmtKey} (ha : int32Range a.srcProto) (hb : int32Range b.srcProto)
    (na1 : hasNul a.srcCp = false) (na2 : hasNul a.dstId = false) (nb1 : hasNul b.srcCp = false) (nb2 : hasNul b.dstId = false)
    (h : a.enc = b.enc) : a = b := by
  unfold AmtKey.enc encStrNT at h
  simp only [List.append_assoc] at h
  obtain ⟨h1, h⟩ := List.append_inj h (by rw [encInt32_length, encInt32_length])
  simp only [List.singleton_append] at h
  obtain ⟨h2, h⟩ := nt_inj (strBytes_noNul na1) (strBytes_noNul nb1) h
  obtain ⟨h3, h4⟩ := nt_inj (strBytes_noNul na2) (strBytes_noNul nb2) h
  obtain ⟨a1, a2, a3, a4⟩ := a
  obtain ⟨b1, b2, b3, b4⟩ := b
  simp only at h1 h2 h3 h4 ha hb
  rw [encInt32_inj ha hb h1, strBytes_inj h2, strBytes_inj h3, strBytes_inj h4]

theorem cntEnc_inj {a b : CntKey} (ha : int32Range a.srcProto) (hb : int32Range b.srcProto)
    (ha' : int32Range a.dstProto) (hb' : int32Range b.dstProto)
    (na1 : hasNul a.srcCp = false) (nb1 : hasNul b.srcCp = false) (h : a.enc = b.enc) : a = b := by
  unfold CntKey.enc encStrNT at h
  simp only [List.append_assoc] at h
  obtain ⟨h1, h⟩ := List.append_inj h (by rw [encInt32_length, encInt32_length])
  simp only [List.singleton_append] at h
  obtain ⟨h2, h⟩ := nt_inj (strBytes_noNul na1) (strBytes_noNul nb1) h
  obtain ⟨h3, h4⟩ := List.append_inj h (by rw [encInt32_length, encInt32_length])
  obtain ⟨a1, a2, a3, a4⟩ := a
  obtain ⟨b1, b2, b3, b4⟩ := b
  simp only at h1 h2 h3 h4 ha hb ha' hb'
  rw [encInt32_inj ha hb h1, strBytes_inj h2, encInt32_inj ha' hb' h3, strBytes_inj h4]

/-! ### the four key orders are strict total orders on valid keys -/

theorem intLt_strict : StrictOn intLt (fun _ => True) :=
  ⟨fun a => by simp [intLt], fun a b c h1 h2 => by simp only [intLt, decide_eq_true_eq] at *; omega,
   fun a b _ _ h1 h2 => by simp only [intLt, decide_eq_false_iff_not] at *; omega⟩

theorem ccLt_strict : StrictOn ccLt (fun pc => int32Range pc.1) :=
  ⟨fun a => bytesLt_irrefl _, fun _ _ _ h1 h2 => bytesLt_trans h1 h2,
   fun a b ha hb h1 h2 => ccEnc_inj ha hb (bytesLt_total h1 h2)⟩

def amtKeyOk (k : AmtKey) : Prop := int32Range k.srcProto ∧ hasNul k.srcCp = false ∧ hasNul k.dstId = false
def cntKeyOk (k : CntKey) : Prop := int32Range k.srcProto ∧ int32Range k.dstProto ∧ hasNul k.srcCp = false

theorem amtLt_strict : StrictOn amtLt amtKeyOk :=
  ⟨fun a => bytesLt_irrefl _, fun _ _ _ h1 h2 => bytesLt_trans h1 h2,
   fun a b ha hb h1 h2 => amtEnc_inj ha.1 hb.1 ha.2.1 ha.2.2 hb.2.1 hb.2.2 (bytesLt_total h1 h2)⟩

theorem cntLt_strict : StrictOn cntLt cntKeyOk :=
  ⟨fun a => bytesLt_irrefl _, fun _ _ _ h1 h2 => bytesLt_trans h1 h2,
   fun a b ha hb h1 h2 => cntEnc_inj ha.1 hb.1 ha.2.1 hb.2.1 ha.2.2 hb.2.2 (bytesLt_total h1 h2)⟩


/-! ### ordered maps -/

theorem keys_ins_eq {κ ν} (lt : κ → κ → Bool) (k : κ) (v : ν) (l : List (κ × ν)) :
    (upsert.ins lt k v l).map (·.1) = insertBy lt k (l.map (·.1)) := by
  induction l with
  | nil => rfl
  | cons e rest ih =>
    simp only [upsert.ins, List.map_cons, insertBy]
    split
    · rfl
    · simp only [List.map_cons, ih]

theorem sorted_keys_upsert {κ ν} [DecidableEq κ] {lt : κ → κ → Bool} {V : κ → Prop} (h : StrictOn lt V) (m : List (κ × ν)) (k : κ) (v : ν)
    (hk : V k) (hm : ∀ e ∈ m, V e.1) (hs : SortedBy lt (m.map (·.1))) : SortedBy lt ((upsert lt m k v).map (·.1)) := by
  unfold upsert
  split
  · rw [keys_map_replace]; exact hs
  · rename_i hex
    rw [keys_ins_eq]
    apply sorted_insertBy h k _ hk ?_ ?_ hs
    · intro y hy
      simp only [List.mem_map] at hy
      obtain ⟨e, he, rfl⟩ := hy
      exact hm e he
    · intro hmem
      apply hex
      simp only [List.mem_map] at hmem
      obtain ⟨e, he, hek⟩ := hmem
      simp only [List.any_eq_true, beq_iff_eq]
      exact ⟨e, he, hek⟩

theorem upsert_append {κ ν} [DecidableEq κ] {lt : κ → κ → Bool} {V : κ → Prop} (h : StrictOn lt V) (m : List (κ × ν)) (k : κ) (v : ν)
    (hgt : ∀ e ∈ m, lt e.1 k = true) : upsert lt m k v = m ++ [(k, v)] := by
  unfold upsert
  have hne : ¬ (m.any (fun x => x.1 == k) = true) := by
    simp only [List.any_eq_true, beq_iff_eq, not_exists, not_and]
    intro e he hek
    have := hgt e he
    rw [hek, h.irrefl] at this
    cases this
  simp only [hne, Bool.false_eq_true, ↓reduceIte]
  induction m with
  | nil => rfl
  | cons e rest ih =>
    simp only [upsert.ins]
    have : lt k e.1 = false := h.asymm (hgt e List.mem_cons_self)
    simp only [this, Bool.false_eq_true, ↓reduceIte, List.cons_append]
    rw [ih (fun x hx => hgt x (List.mem_cons_of_mem _ hx))]
    simp only [List.any_eq_true, beq_iff_eq, not_exists, not_and]
    intro x hx hxk
    have := hgt x (List.mem_cons_of_mem _ hx)
    rw [hxk, h.irrefl] at this
    cases this

theorem foldl_upsert_sorted {κ ν} [DecidableEq κ] {lt : κ → κ → Bool} {V : κ → Prop} (h : StrictOn lt V) (l acc : List (κ × ν))
    (hs : SortedBy lt ((acc ++ l).map (·.1))) : l.foldl (fun a e => upsert lt a e.1 e.2) acc = acc ++ l := by
  induction l generalizing acc with
  | nil => simp
  | cons x xs ih =>
    simp only [List.foldl_cons]
    have hgt : ∀ e ∈ acc, lt e.1 x.1 = true := by
      intro e he
      unfold SortedBy at hs
      rw [List.map_append, List.pairwise_append] at hs
      exact hs.2.2 e.1 (List.mem_map_of_mem he) x.1 (List.mem_map_of_mem List.mem_cons_self)
    rw [upsert_append h acc x.1 x.2 hgt]
    have : acc ++ [(x.1, x.2)] ++ xs = acc ++ x :: xs := by simp
    rw [ih (acc ++ [(x.1, x.2)]) (by rw [this]; exact hs), this]


end Orbiter
