/-
  C12 — Dispatch statistics equal the fold of the successful transfers.
  Abstract view of the two maps: `amtOf o k` (incoming, outgoing) and `cntOf o k`, zero where nothing is
  stored. A successful orbiter transfer adds its received amount to `incoming` of (route, source denom),
  its forwarded amount to `outgoing` of (route, destination denom) and one to the count of the route;
  nothing else — refused transfers, foreign traffic, admin messages, deposits, environment changes —
  changes either map.
-/
import Orbiter.Lemmas.Recv
import Orbiter.Lemmas.Genesis
namespace Orbiter.C12
open Orbiter

def amtOf (o : OrbState) (k : AmtKey) : Int × Int := lookupD o.amounts k (0, 0)
def cntOf (o : OrbState) (k : CntKey) : Nat := lookupD o.counts k 0

/-- Only positive amounts are recorded. -/
def incr (x : Int) : Int := if x > 0 then x else 0

theorem addAmount_spec {o o' : OrbState} {k : AmtKey} {i u : Int} (h : addAmount o k i u = some o') (k' : AmtKey) :
    amtOf o' k' = (if k' = k then ((amtOf o k).1 + incr i, (amtOf o k).2 + incr u) else amtOf o k') ∧ o'.counts = o.counts := by
  unfold addAmount at h
  simp only at h
  generalize hc : (overflows256 _ || overflows256 _) = cnd at h
  cases cnd with
  | true => simp at h
  | false =>
    simp only [Bool.false_eq_true, ↓reduceIte, Option.some.injEq] at h
    subst h
    refine ⟨?_, rfl⟩
    simp only [amtOf]
    rw [lookupD_upsert]
    by_cases hk : k' = k
    · simp only [hk, ↓reduceIte, incr]
      congr 1
      · split <;> simp
      · split <;> simp
    · simp only [hk, ↓reduceIte]

theorem incr_zero : incr 0 = 0 := by decide

theorem addAmounts_build_spec (mk : String → AmtKey) (hmk : ∀ d d', mk d = mk d' → d = d') (t : TransferAttrs) (o : OrbState)
    (h : (addAmounts mk (buildDispatched t) o).2 = true) :
    (∀ k, amtOf (addAmounts mk (buildDispatched t) o).1 k =
      ((amtOf o k).1 + (if k = mk t.srcDenom then incr t.srcAmount else 0),
       (amtOf o k).2 + (if k = mk t.dstDenom then incr t.dstAmount else 0))) ∧
    (addAmounts mk (buildDispatched t) o).1.counts = o.counts := by
  unfold buildDispatched at h ⊢
  by_cases hd : t.srcDenom = t.dstDenom
  · have hb : (t.srcDenom == t.dstDenom) = true := by simpa using hd
    simp only [hb, ↓reduceIte, addAmounts] at h ⊢
    cases h1 : addAmount o (mk t.srcDenom) t.srcAmount t.dstAmount with
    | none => simp [h1] at h
    | some o1 =>
      simp only
      refine ⟨?_, (addAmount_spec h1 (mk t.srcDenom)).2⟩
      intro k
      rw [(addAmount_spec h1 k).1, ← hd]
      by_cases hk : k = mk t.srcDenom
      · simp [hk]
      · simp [hk]
  · have hb : (t.srcDenom == t.dstDenom) = false := by simpa using hd
    simp only [hb, Bool.false_eq_true, ↓reduceIte, addAmounts] at h ⊢
    cases h1 : addAmount o (mk t.srcDenom) t.srcAmount 0 with
    | none => simp [h1] at h
    | some o1 =>
      simp only [h1] at h ⊢
      cases h2 : addAmount o1 (mk t.dstDenom) 0 t.dstAmount with
      | none => simp [h2] at h
      | some o2 =>
        simp only
        refine ⟨?_, ((addAmount_spec h2 (mk t.srcDenom)).2).trans (addAmount_spec h1 (mk t.srcDenom)).2⟩
        have hne : mk t.srcDenom ≠ mk t.dstDenom := fun e => hd (hmk _ _ e)
        intro k
        rw [(addAmount_spec h2 k).1]
        by_cases hk2 : k = mk t.dstDenom
        · subst hk2
          have hk1 : mk t.dstDenom ≠ mk t.srcDenom := fun e => hne e.symm
          simp only [↓reduceIte, (addAmount_spec h1 (mk t.dstDenom)).1, hk1, incr_zero, Int.add_zero]
        · simp only [hk2, ↓reduceIte, (addAmount_spec h1 k).1]
          by_cases hk1 : k = mk t.srcDenom
          · simp [hk1, incr_zero]
          · simp [hk1]

/-- The effect of a statistics update that did not hit the (2^256 / 2^64) overflow guards. -/
theorem c12_update_spec (o : OrbState) (t : TransferAttrs) (f : Forwarding) (a : Attrs) (ha : f.attrs = some a)
    (hok : (updateStats o t f).2 = true) :
    (∀ k, amtOf (updateStats o t f).1 k =
      ((amtOf o k).1 + (if k = { srcProto := t.srcProtocol, srcCp := t.srcCounterparty, dstId := ccidString f.protocolId a.counterpartyID, denom := t.srcDenom } then incr t.srcAmount else 0),
       (amtOf o k).2 + (if k = { srcProto := t.srcProtocol, srcCp := t.srcCounterparty, dstId := ccidString f.protocolId a.counterpartyID, denom := t.dstDenom } then incr t.dstAmount else 0))) ∧
    (∀ ck, cntOf (updateStats o t f).1 ck =
      cntOf o ck + (if ck = { srcProto := t.srcProtocol, srcCp := t.srcCounterparty, dstProto := f.protocolId, dstCp := a.counterpartyID } then 1 else 0)) := by
  have hmk : ∀ d d' : String,
      ({ srcProto := t.srcProtocol, srcCp := t.srcCounterparty, dstId := ccidString f.protocolId a.counterpartyID, denom := d } : AmtKey) =
      { srcProto := t.srcProtocol, srcCp := t.srcCounterparty, dstId := ccidString f.protocolId a.counterpartyID, denom := d' } → d = d' := by
    intro d d' e; injection e
  unfold updateStats at hok ⊢
  simp only [ha] at hok ⊢
  split at hok
  · cases hok
  · rename_i hv
    split
    · rename_i hv'; exact absurd hv' hv
    · split at hok
      · cases hok
      · rename_i hr
        split
        · rename_i hr'; exact absurd hr' hr
        · have hr' : (addAmounts (fun d => ({ srcProto := t.srcProtocol, srcCp := t.srcCounterparty, dstId := ccidString f.protocolId a.counterpartyID, denom := d } : AmtKey)) (buildDispatched t) o).2 = true := by
            simpa using hr
          obtain ⟨s1, s2⟩ := addAmounts_build_spec _ hmk t o hr'
          unfold addCount at hok ⊢
          simp only at hok ⊢
          split at hok
          · cases hok
          · rename_i hmax
            split
            · rename_i hmax'; exact absurd hmax' hmax
            · constructor
              · intro k
                exact s1 k
              · intro ck
                simp only [cntOf]
                rw [lookupD_upsert, s2]
                by_cases hck : ck = { srcProto := t.srcProtocol, srcCp := t.srcCounterparty, dstProto := f.protocolId, dstCp := a.counterpartyID }
                · simp [hck]
                · simp [hck]


/-! ### what a successful forwarder run guarantees about the identifiers: the update is never skipped -/

theorem forwarder_ok_valid {wr : Wiring} {φ : Faults} {o : OrbState} {c c' : Ctx} {t : TransferAttrs} {f : Forwarding}
    (h : forwarderHandle wr φ o c t f = .ok c') :
    ∃ a, f.attrs = some a ∧ crossChainValid f.protocolId a.counterpartyID = true ∧
      crossChainValid t.srcProtocol t.srcCounterparty = true ∧ t.srcAmount > 0 ∧ t.dstAmount > 0 := by
  unfold forwarderHandle at h
  cases hv : (f.validate >>= fun _ => t.validate) with
  | err e => simp [hv, Res.mapErr] at h
  | panic e => simp [hv, Res.mapErr] at h
  | ok u =>
    simp only [hv, Res.mapErr, Res.bind_ok] at h
    obtain ⟨_, _, ht⟩ := Res.bind_eq_ok.mp hv
    have hsrc : crossChainValid t.srcProtocol t.srcCounterparty = true ∧ t.srcAmount > 0 ∧ t.dstAmount > 0 := by
      unfold TransferAttrs.validate at ht
      split at ht
      · cases ht
      · rename_i h1
        split at ht
        · cases ht
        · split at ht
          · cases ht
          · rename_i h3
            split at ht
            · cases ht
            · split at ht
              · cases ht
              · rename_i h5
                exact ⟨by simpa using h1, by omega, by omega⟩
    cases ha : f.attrs with
    | none => simp [ha] at h
    | some a =>
      simp only [ha, Res.pure_eq, Res.bind_ok] at h
      refine ⟨a, rfl, ?_, hsrc⟩
      split at h
      · simp at h
      · split at h
        · simp at h
        · rename_i hcc
          simpa using hcc

/-! ### frame: everything that is not a successful orbiter transfer leaves both maps alone -/

/-- A refused transfer (error acknowledgement or abort) leaves no trace. -/
theorem c12_refused_unchanged (wr : Wiring) (φ : Faults) (w : World) (pkt : Packet)
    (h : (ibcRecv wr φ w pkt).ack.isSuccess = false) : (ibcRecv wr φ w pkt).orb = w.orb := by
  have := ibcRecv_error_commits_nothing wr φ w pkt h
  exact congrArg World.orb this

/-- Traffic that is not an orbiter transfer leaves no trace, successful or not. -/
theorem c12_foreign_unchanged (wr : Wiring) (φ : Faults) (w : World) (pkt : Packet)
    (hno : adaptPacket wr pkt = .ok .notOrbiter) : (ibcRecv wr φ w pkt).orb = w.orb := by
  cases hs : (ibcRecv wr φ w pkt).ack.isSuccess with
  | false => exact c12_refused_unchanged wr φ w pkt hs
  | true =>
    have he := ibcRecv_success hs
    rw [he] at hs ⊢
    rcases mwOnRecv_success_cases hs with ⟨_, c, _, h⟩ | ⟨t, p, h⟩
    · rw [h]
    · rw [hno] at h; cases h

/-- Admin messages never touch the statistics. -/
theorem c12_admin_unchanged (cfg : Cfg) (φ : Faults) (o o' : OrbState) (m : Msg) (evs : List String) (rq : List Req)
    (h : msgStep cfg φ o m = .ok (o', evs, rq)) : o'.amounts = o.amounts ∧ o'.counts = o.counts := by
  have hsp : ∀ (o o' : OrbState) p, setPausedProtocol o p = .ok o' → o'.amounts = o.amounts ∧ o'.counts = o.counts := by
    intro o o' p h; rw [(setPausedProtocol_spec h).2]; exact ⟨rfl, rfl⟩
  have hsu : ∀ (o o' : OrbState) p, setUnpausedProtocol o p = .ok o' → o'.amounts = o.amounts ∧ o'.counts = o.counts := by
    intro o o' p h; rw [(setUnpausedProtocol_spec h).2]; exact ⟨rfl, rfl⟩
  have hcp : ∀ (o o' : OrbState) p c, setPausedCrossChain o p c = .ok o' → o'.amounts = o.amounts ∧ o'.counts = o.counts := by
    intro o o' p c h; rw [(setPausedCrossChain_spec h).2.2]; exact ⟨rfl, rfl⟩
  have hcu : ∀ (o o' : OrbState) p c, setUnpausedCrossChain o p c = .ok o' → o'.amounts = o.amounts ∧ o'.counts = o.counts := by
    intro o o' p c h; rw [(setUnpausedCrossChain_spec h).2]; exact ⟨rfl, rfl⟩
  have hap : ∀ (o o' : OrbState) a, setPausedAction o a = .ok o' → o'.amounts = o.amounts ∧ o'.counts = o.counts := by
    intro o o' p h; rw [(setPausedAction_spec h).2.2]; exact ⟨rfl, rfl⟩
  have hau : ∀ (o o' : OrbState) a, setUnpausedAction o a = .ok o' → o'.amounts = o.amounts ∧ o'.counts = o.counts := by
    intro o o' p h; rw [(setUnpausedAction_spec h).2]; exact ⟨rfl, rfl⟩
  have hfp : ∀ b (o o' : OrbState) p ids, forwarderPause b o p ids = .ok o' → o'.amounts = o.amounts ∧ o'.counts = o.counts := by
    intro b o o' p ids h
    unfold forwarderPause at h
    split at h
    · cases h
    · split at h
      · cases b
        · exact hsu _ _ _ h
        · exact hsp _ _ _ h
      · split at h
        · cases h
        · refine Res.foldlM_inv _ (fun x => x.amounts = o.amounts ∧ x.counts = o.counts) ?_ ids o o' ⟨rfl, rfl⟩ h
          intro b1 a b2 hb hs
          cases b
          · simp only [Bool.false_eq_true, ↓reduceIte] at hs
            obtain ⟨x, y⟩ := hcu _ _ _ _ hs; exact ⟨x.trans hb.1, y.trans hb.2⟩
          · simp only [↓reduceIte] at hs
            obtain ⟨x, y⟩ := hcp _ _ _ _ hs; exact ⟨x.trans hb.1, y.trans hb.2⟩
  unfold msgStep at h
  split at h
  · cases h
  · cases m with
    | updateParams s n =>
      simp only [Res.ok.injEq, Prod.mk.injEq] at h
      obtain ⟨rfl, _, _⟩ := h
      exact ⟨rfl, rfl⟩
    | replaceDepositForBurn s a b c d => simp only at h; split at h <;> cases h
    | pauseProtocol s pid =>
      simp only at h
      cases hp : protocolIdFromString pid with
      | none => simp [hp] at h
      | some p =>
        simp only [hp] at h
        obtain ⟨o1, hf, h⟩ := Res.bind_eq_ok.mp h
        obtain ⟨_, _, h⟩ := Res.bind_eq_ok.mp h
        cases h
        exact hfp _ _ _ _ _ hf
    | unpauseProtocol s pid =>
      simp only at h
      cases hp : protocolIdFromString pid with
      | none => simp [hp] at h
      | some p =>
        simp only [hp] at h
        obtain ⟨o1, hf, h⟩ := Res.bind_eq_ok.mp h
        obtain ⟨_, _, h⟩ := Res.bind_eq_ok.mp h
        cases h
        exact hfp _ _ _ _ _ hf
    | pauseCrossChains s pid ids =>
      simp only at h
      cases hp : protocolIdFromString pid with
      | none => simp [hp] at h
      | some p =>
        simp only [hp] at h
        split at h
        · cases h
        · obtain ⟨o1, hf, h⟩ := Res.bind_eq_ok.mp h
          obtain ⟨_, _, h⟩ := Res.bind_eq_ok.mp h
          cases h
          exact hfp _ _ _ _ _ hf
    | unpauseCrossChains s pid ids =>
      simp only at h
      cases hp : protocolIdFromString pid with
      | none => simp [hp] at h
      | some p =>
        simp only [hp] at h
        split at h
        · cases h
        · obtain ⟨o1, hf, h⟩ := Res.bind_eq_ok.mp h
          obtain ⟨_, _, h⟩ := Res.bind_eq_ok.mp h
          cases h
          exact hfp _ _ _ _ _ hf
    | pauseAction s aid =>
      simp only at h
      cases hp : actionIdFromString aid with
      | none => simp [hp] at h
      | some a =>
        simp only [hp] at h
        obtain ⟨o1, hf, h⟩ := Res.bind_eq_ok.mp h
        obtain ⟨_, _, h⟩ := Res.bind_eq_ok.mp h
        cases h
        exact hap _ _ _ hf
    | unpauseAction s aid =>
      simp only at h
      cases hp : actionIdFromString aid with
      | none => simp [hp] at h
      | some a =>
        simp only [hp] at h
        obtain ⟨o1, hf, h⟩ := Res.bind_eq_ok.mp h
        obtain ⟨_, _, h⟩ := Res.bind_eq_ok.mp h
        cases h
        exact hau _ _ _ hf

/-! ### the successful transfer -/

/-- A successfully acknowledged orbiter transfer performs exactly one statistics update, with the
attributes left by the last action and the payload's forwarding — and that update is not skipped: the
identifiers are valid and both amounts positive. -/
theorem c12_success (wr : Wiring) (φ : Faults) (w : World) (pkt : Packet) (t : TransferAttrs) (p : Payload)
    (hs : (ibcRecv wr φ w pkt).ack.isSuccess = true) (ha : adaptPacket wr pkt = .ok (.orbiter t p)) :
    ∃ c2 c3 t' f a, dispatchActions wr φ w.orb p.preActions c2 t = .ok (c3, t') ∧ p.forwarding = some f ∧ f.attrs = some a ∧
      crossChainValid f.protocolId a.counterpartyID = true ∧ crossChainValid t'.srcProtocol t'.srcCounterparty = true ∧
      t'.srcAmount > 0 ∧ t'.dstAmount > 0 ∧
      (ibcRecv wr φ w pkt).orb = (updateStats w.orb t' f).1 := by
  obtain ⟨c1, c2, c3, t3, _, _, hd, _⟩ := ibcRecv_success_dispatch hs ha
  obtain ⟨c4, f, _, hda, hf, hfw, ho⟩ := dispatchPayload_ok hd
  obtain ⟨a, hfa, v1, v2, v3, v4⟩ := forwarder_ok_valid hfw
  exact ⟨c2, c4, t3, f, a, hda, hf, hfa, v1, v2, v3, v4, ho⟩

/-- The source side of the attributes is fixed by the packet: source protocol IBC, source counterparty
the channel the packet arrived on, the recovered denomination and the packet's amount. -/
theorem c12_source_from_packet (wr : Wiring) (pkt : Packet) (t : TransferAttrs) (p : Payload)
    (ha : adaptPacket wr pkt = .ok (.orbiter t p)) :
    t.srcProtocol = PROTOCOL_IBC ∧ t.srcCounterparty = pkt.dstChan ∧ t.dstDenom = t.srcDenom ∧ t.dstAmount = t.srcAmount ∧
    ∃ d, decFTPD pkt.data = some d ∧ newIntFromString d.amount = some t.srcAmount ∧
      recoverNativeDenom d.denom pkt.srcPort pkt.srcChan = .ok t.srcDenom := by
  unfold adaptPacket at ha
  cases hd : decFTPD pkt.data with
  | none => simp [hd] at ha
  | some d =>
    simp only [hd] at ha
    cases hr : accAddressFromBech32 wr.cfg.hrp d.receiver with
    | none => simp [hr] at ha
    | some r =>
      simp only [hr] at ha
      split at ha
      · cases ha
      · obtain ⟨p', _, ha⟩ := Res.bind_eq_ok.mp ha
        cases hamt : newIntFromString d.amount with
        | none => simp [hamt] at ha
        | some amt =>
          simp only [hamt, Res.pure_eq, Res.bind_ok] at ha
          obtain ⟨dn, hdn, ha⟩ := Res.bind_eq_ok.mp ha
          split at ha
          · cases ha
          · obtain ⟨t0, ht0, ha⟩ := Res.bind_eq_ok.mp ha
            simp only [Res.pure_eq, Res.ok.injEq, Parsed.orbiter.injEq] at ha
            obtain ⟨rfl, rfl⟩ := ha
            unfold newTransferAttrs at ht0
            cases hv : ({ srcProtocol := PROTOCOL_IBC, srcCounterparty := pkt.dstChan, srcDenom := dn, srcAmount := amt,
                           dstDenom := dn, dstAmount := amt } : TransferAttrs).validate with
            | err e => simp [hv, Res.mapErr] at ht0
            | panic e => simp [hv, Res.mapErr] at ht0
            | ok u =>
              simp only [hv, Res.bind_ok, Res.pure_eq, Res.mapErr, Res.ok.injEq] at ht0
              subst ht0
              exact ⟨rfl, rfl, rfl, rfl, d, rfl, hamt, hdn⟩

/-- Action controllers that leave the source side of the attributes alone (as the Go type enforces: only
the destination fields have setters). -/
def Wiring.SrcStable (wr : Wiring) : Prop :=
  ∀ id ctl φ c t a c' t', wr.actions id = some ctl → ctl φ c t a = .ok (c', t') →
    t'.srcProtocol = t.srcProtocol ∧ t'.srcCounterparty = t.srcCounterparty ∧ t'.srcDenom = t.srcDenom ∧ t'.srcAmount = t.srcAmount

theorem dispatchActions_src {wr : Wiring} (hst : Wiring.SrcStable wr) (φ : Faults) (o : OrbState) (acts : List Action)
    (c c' : Ctx) (t t' : TransferAttrs) (h : dispatchActions wr φ o acts c t = .ok (c', t')) :
    t'.srcProtocol = t.srcProtocol ∧ t'.srcCounterparty = t.srcCounterparty ∧ t'.srcDenom = t.srcDenom ∧ t'.srcAmount = t.srcAmount := by
  induction acts generalizing c t with
  | nil => simp only [dispatchActions, Res.ok.injEq, Prod.mk.injEq] at h; obtain ⟨_, rfl⟩ := h; exact ⟨rfl, rfl, rfl, rfl⟩
  | cons x rest ih =>
    simp only [dispatchActions] at h
    obtain ⟨r1, hx, h⟩ := Res.bind_eq_ok.mp h
    obtain ⟨c1, t1⟩ := r1
    obtain ⟨i1, i2, i3, i4⟩ := ih c1 t1 h
    have hx' : ∃ ctl, wr.actions x.id = some ctl ∧ ctl φ c t x = .ok (c1, t1) := by
      unfold executorHandle at hx
      obtain ⟨_, _, hx⟩ := Res.bind_eq_ok.mp hx
      simp only at hx
      split at hx
      · simp at hx
      · cases hr : wr.actions x.id with
        | none => simp [hr] at hx
        | some ctl => exact ⟨ctl, rfl, by simpa [hr] using hx⟩
    obtain ⟨ctl, hr, hc⟩ := hx'
    obtain ⟨j1, j2, j3, j4⟩ := hst x.id ctl φ c t x c1 t1 hr hc
    exact ⟨i1.trans j1, i2.trans j2, i3.trans j3, i4.trans j4⟩

/-- The chain's own wiring (fee controller only) is such a wiring. -/
theorem appWiring_srcStable (cfg : Cfg) (π : OneofOrder) : Wiring.SrcStable (appWiring cfg π) := by
  intro id ctl φ c t a c' t' hr hc
  simp only [appWiring, appActionRouter] at hr
  split at hr
  · simp only [Option.some.injEq] at hr
    subst hr
    unfold feeController at hc
    simp only at hc
    split at hc
    case h_2 => simp at hc
    case h_3 => simp at hc
    simp only [Res.pure_eq, Res.bind_ok] at hc
    obtain ⟨_, _, hc⟩ := Res.bind_eq_ok.mp hc
    obtain ⟨fees, _, hc⟩ := Res.bind_eq_ok.mp hc
    split at hc
    · simp at hc
    obtain ⟨c1, _, hc⟩ := Res.bind_eq_ok.mp hc
    obtain ⟨c2, _, hc⟩ := Res.bind_eq_ok.mp hc
    simp only [Res.pure_eq, Res.ok.injEq, Prod.mk.injEq] at hc
    obtain ⟨_, rfl⟩ := hc
    exact ⟨rfl, rfl, rfl, rfl⟩
  · cases hr


/-! ### histories -/

structure Stats where
  amt : AmtKey → Int × Int
  cnt : CntKey → Nat

def absStats (o : OrbState) : Stats := { amt := amtOf o, cnt := cntOf o }

/-- The specification of one successful transfer: received amount in, forwarded amount out, one more. -/
def Stats.record (s : Stats) (t : TransferAttrs) (f : Forwarding) (a : Attrs) : Stats :=
  { amt := fun k =>
      ((s.amt k).1 + (if k = { srcProto := t.srcProtocol, srcCp := t.srcCounterparty, dstId := ccidString f.protocolId a.counterpartyID, denom := t.srcDenom } then incr t.srcAmount else 0),
       (s.amt k).2 + (if k = { srcProto := t.srcProtocol, srcCp := t.srcCounterparty, dstId := ccidString f.protocolId a.counterpartyID, denom := t.dstDenom } then incr t.dstAmount else 0))
    cnt := fun ck =>
      s.cnt ck + (if ck = { srcProto := t.srcProtocol, srcCp := t.srcCounterparty, dstProto := f.protocolId, dstCp := a.counterpartyID } then 1 else 0) }

/-- What a received packet contributes: for a successfully acknowledged orbiter transfer, the attributes
left by its last action, its forwarding and the forwarding's attributes; nothing otherwise. -/
def finalAttrs (wr : Wiring) (φ : Faults) (w : World) (pkt : Packet) : Option (TransferAttrs × Forwarding × Attrs) :=
  if (ibcRecv wr φ w pkt).ack.isSuccess then
    match adaptPacket wr pkt with
    | .ok (.orbiter t p) =>
      match beforeTransferHook wr φ w.orb (ctxOf w) t p with
      | .ok c1 =>
        match wrappedApp wr φ c1 pkt with
        | .ok c2 =>
          match dispatchActions wr φ w.orb p.preActions c2 t, p.forwarding with
          | .ok (_, t'), some f => (match f.attrs with | some a => some (t', f, a) | none => none)
          | _, _ => none
        | _ => none
      | _ => none
    | _ => none
  else none

theorem c12_recv_step (wr : Wiring) (φ : Faults) (w : World) (pkt : Packet) :
    (finalAttrs wr φ w pkt = none → (ibcRecv wr φ w pkt).orb = w.orb) ∧
    (∀ t f a, finalAttrs wr φ w pkt = some (t, f, a) → (ibcRecv wr φ w pkt).orb = (updateStats w.orb t f).1 ∧ f.attrs = some a) := by
  cases hs : (ibcRecv wr φ w pkt).ack.isSuccess with
  | false =>
    refine ⟨fun _ => c12_refused_unchanged wr φ w pkt hs, ?_⟩
    intro t f a h
    simp [finalAttrs, hs] at h
  | true =>
    cases ha : adaptPacket wr pkt with
    | err e => 
      have := mwOnRecv_success_cases (ibcRecv_success hs ▸ hs)
      rcases this with ⟨h, _⟩ | ⟨t, p, h⟩ <;> (rw [ha] at h; cases h)
    | panic e =>
      have := mwOnRecv_success_cases (ibcRecv_success hs ▸ hs)
      rcases this with ⟨h, _⟩ | ⟨t, p, h⟩ <;> (rw [ha] at h; cases h)
    | ok r =>
      cases r with
      | notOrbiter =>
        refine ⟨fun _ => c12_foreign_unchanged wr φ w pkt ha, ?_⟩
        intro t f a h
        simp [finalAttrs, hs, ha] at h
      | orbiter t p =>
        obtain ⟨c1, c2, c3, t3, h1, h2, hd, _⟩ := ibcRecv_success_dispatch hs ha
        obtain ⟨c4, f, _, hda, hf, hfw, ho⟩ := dispatchPayload_ok hd
        obtain ⟨a, hfa, _⟩ := forwarder_ok_valid hfw
        have hfin : finalAttrs wr φ w pkt = some (t3, f, a) := by
          simp [finalAttrs, hs, ha, h1, h2, hda, hf, hfa]
        refine ⟨fun h => ?_, ?_⟩
        · rw [hfin] at h; cases h
        · intro t' f' a' h
          rw [hfin] at h
          simp only [Option.some.injEq, Prod.mk.injEq] at h
          obtain ⟨rfl, rfl, rfl⟩ := h
          exact ⟨ho, hfa⟩

def specStep (wr : Wiring) (w : World) (s : Stats) : Op → Stats
  | .recv pkt => match finalAttrs wr noFaults w pkt with
    | some (t, f, a) => s.record t f a
    | none => s
  | _ => s

def specRun (wr : Wiring) : World → Stats → List Op → Stats
  | _, s, [] => s
  | w, s, op :: rest => specRun wr (step wr noFaults w op).2 (specStep wr w s op) rest

/-- No update along the history hits the 2^256 / 2^64 guards of the checked additions (the totals of a
denomination whose supply is below 2^256 cannot). -/
def NoOverflow (wr : Wiring) : World → List Op → Prop
  | _, [] => True
  | w, op :: rest =>
    (match op with
     | .recv pkt => ∀ t f a, finalAttrs wr noFaults w pkt = some (t, f, a) → (updateStats w.orb t f).2 = true
     | _ => True) ∧ NoOverflow wr (step wr noFaults w op).2 rest

def noReimport : List Op → Bool
  | [] => true
  | .reimport :: _ => false
  | _ :: rest => noReimport rest

theorem c12_step_refines (wr : Wiring) (w : World) (op : Op) (hre : noReimport [op] = true)
    (hno : NoOverflow wr w [op]) :
    absStats (step wr noFaults w op).2.orb = specStep wr w (absStats w.orb) op := by
  cases op with
  | reimport => simp [noReimport] at hre
  | deposit a d n => rfl
  | env e => rfl
  | msg m =>
    simp only [step, specStep]
    cases hm : msgStep wr.cfg noFaults w.orb m with
    | err e => rfl
    | panic e => rfl
    | ok r =>
      obtain ⟨o', evs, rq⟩ := r
      obtain ⟨h1, h2⟩ := c12_admin_unchanged _ _ _ _ _ _ _ hm
      simp only [absStats, Stats.mk.injEq]
      constructor
      · funext k; simp only [amtOf, h1]
      · funext k; simp only [cntOf, h2]
  | recv pkt =>
    simp only [step, specStep, RecvOut.world]
    obtain ⟨hn, hsome⟩ := c12_recv_step wr noFaults w pkt
    cases hf : finalAttrs wr noFaults w pkt with
    | none => simp only; rw [hn hf]
    | some r =>
      obtain ⟨t, f, a⟩ := r
      obtain ⟨ho, hfa⟩ := hsome t f a hf
      simp only
      rw [ho]
      have hok := hno.1 t f a hf
      obtain ⟨s1, s2⟩ := c12_update_spec w.orb t f a hfa hok
      simp only [absStats, Stats.record, Stats.mk.injEq]
      exact ⟨funext s1, funext s2⟩

/-- **History.** After any history of transfers (successful, refused, foreign), admin messages by anybody,
deposits and environment changes, both statistics maps are exactly the accumulation of the successful
orbiter transfers. (Histories containing an export/import round trip: see `C17`.) -/
theorem c12_history (wr : Wiring) (w : World) (ops : List Op) (hre : noReimport ops = true) (hno : NoOverflow wr w ops) :
    absStats (run wr w ops).orb = specRun wr w (absStats w.orb) ops := by
  unfold run
  induction ops generalizing w with
  | nil => rfl
  | cons op rest ih =>
    simp only [List.foldl_cons, specRun]
    have hre1 : noReimport [op] = true := by cases op <;> simp_all [noReimport]
    have hre2 : noReimport rest = true := by cases op <;> simp_all [noReimport]
    have h1 := c12_step_refines wr w op hre1 ⟨hno.1, trivial⟩
    rw [← h1]
    exact ih _ hre2 hno.2

/-- On a same-denomination route, incoming minus outgoing grows by exactly what the actions kept
(the fees): the difference between the received and the forwarded amount. -/
theorem c12_same_denom_difference (s : Stats) (t : TransferAttrs) (f : Forwarding) (a : Attrs)
    (hd : t.srcDenom = t.dstDenom) (h1 : t.srcAmount > 0) (h2 : t.dstAmount > 0) :
    let k : AmtKey := { srcProto := t.srcProtocol, srcCp := t.srcCounterparty, dstId := ccidString f.protocolId a.counterpartyID, denom := t.srcDenom }
    ((s.record t f a).amt k).1 - ((s.record t f a).amt k).2 = ((s.amt k).1 - (s.amt k).2) + (t.srcAmount - t.dstAmount) := by
  simp only [Stats.record, ← hd, ↓reduceIte, incr, h1, h2]
  omega

/-! ### non-vacuity -/
example : (updateStats {} { srcProtocol := 1, srcCounterparty := "channel-0", srcDenom := "uusdc", srcAmount := 100, dstDenom := "uusdc", dstAmount := 99 }
    { protocolId := 2, attrs := some (.cctp 0 [1] []), passthrough := [] }).2 = true := by decide

end Orbiter.C12
