/-
  C20 — Cross-chain identifiers are canonical and mean what transfers record.
  Pure theorems about types/core/id.go and the `CounterpartyID()` of the attribute types, for all
  protocol identifiers and all strings.
-/
import Orbiter.Lemmas.Decimal
import Orbiter.Ids
namespace Orbiter.C20
open Orbiter

/-! ### facts about the regenerated tables that the proofs use -/

/-- Every declared protocol number is a non-negative int32 (so `uint32(p)` prints `p`). -/
theorem protocolIds_range : ∀ e ∈ Gen.protocolIds, 0 ≤ e.1 ∧ e.1 < 2147483648 := by decide

/-- The separator is one character which is not a decimal digit. -/
theorem separator_is_colon : Gen.idSeparator.toList = [':'] := by decide

theorem protocolValid_range {p : Int} (h : protocolValid p = true) : 0 < p ∧ p < 2147483648 := by
  simp only [protocolValid, Bool.and_eq_true, bne_iff_ne, ne_eq, List.any_eq_true, beq_iff_eq] at h
  obtain ⟨hne, e, hmem, he⟩ := h
  have := protocolIds_range e hmem
  omega

/-! ### text lemmas -/

theorem splitFirst_append (ds rest : List Char) (h : ':' ∉ ds) :
    splitFirst ':' (ds ++ ':' :: rest) = some (ds, rest) := by
  induction ds with
  | nil => simp [splitFirst]
  | cons c cs ih =>
    have hc : c ≠ ':' := fun e => h (by simp [e])
    have hcs : ':' ∉ cs := fun m => h (List.mem_cons_of_mem _ m)
    simp only [List.cons_append, splitFirst, beq_iff_eq, hc, ↓reduceIte, ih hcs]

theorem parseInt_natToDec (m : Nat) : parseInt (natToDec m) = some (Int.ofNat m) := by
  unfold parseInt natToDec
  rw [String.toList_ofList]
  have hall := natDigits_all m
  have hcan := natDigits_canonical m
  have hval := natDigits_val m
  cases hd : natDigits m with
  | nil => rw [hd] at hcan; simp [canonicalDigits, allDigits] at hcan
  | cons c cs =>
    rw [hd] at hall hval hcan
    have hc : isDigit c = true := by
      simp only [List.all_cons, Bool.and_eq_true] at hall; exact hall.1
    have hm : c ≠ '-' := by intro e; rw [e] at hc; exact absurd hc (by decide)
    have hp : c ≠ '+' := by intro e; rw [e] at hc; exact absurd hc (by decide)
    have had : allDigits (c :: cs) = true := by
      simp only [canonicalDigits, Bool.and_eq_true] at hcan; exact hcan.1
    split
    · rename_i ds heq; cases heq; exact absurd rfl hm
    · rename_i ds heq; cases heq; exact absurd rfl hp
    · simp [had, hval]

/-! ### the property -/

/-- The textual form of a valid (protocol, counterparty) pair parses back to the same pair. -/
theorem c20_roundtrip (p : Int) (cp : String) (h : crossChainValid p cp = true) :
    parseCrossChainID (ccidString p cp) = some (p, cp) := by
  have hpv : protocolValid p = true := by
    simp only [crossChainValid, Bool.and_eq_true] at h; exact h.1
  obtain ⟨hp0, hp1⟩ := protocolValid_range hpv
  have hmod : (p % (2 ^ 32 : Int)).toNat = p.toNat := by
    have : p % (2 ^ 32 : Int) = p := Int.emod_eq_of_lt (by omega) (by omega)
    rw [this]
  have hlist : (ccidString p cp).toList = natDigits p.toNat ++ ':' :: cp.toList := by
    simp only [ccidString, String.toList_append, natToDec, String.toList_ofList, separator_is_colon, hmod]
    simp
  unfold parseCrossChainID
  rw [separator_is_colon]
  simp only
  rw [hlist, splitFirst_append _ _ (natDigits_no_colon _)]
  simp only
  have : String.ofList (natDigits p.toNat) = natToDec p.toNat := rfl
  rw [this]
  have hpi : parseInt32 (natToDec p.toNat) = some p := by
    unfold parseInt32
    rw [parseInt_natToDec]
    have : Int.ofNat p.toNat = p := Int.toNat_of_nonneg (by omega)
    simp only [this]
    have h12 : (-2147483648 : Int) ≤ p ∧ p ≤ 2147483647 := by omega
    simp [h12]
  rw [hpi]
  simp only [String.ofList_toList, h, ↓reduceIte]

/-- Distinct valid pairs have distinct textual forms. -/
theorem c20_injective (p q : Int) (a b : String) (ha : crossChainValid p a = true) (hb : crossChainValid q b = true)
    (h : ccidString p a = ccidString q b) : p = q ∧ a = b := by
  have r1 := c20_roundtrip p a ha
  have r2 := c20_roundtrip q b hb
  rw [h, r2] at r1
  simp only [Option.some.injEq, Prod.mk.injEq] at r1
  exact ⟨r1.1.symm, r1.2.symm⟩

theorem isCanonicalU32_iff (s : String) : isCanonicalU32 s = true ↔ ∃ n, n < 2 ^ 32 ∧ s = natToDec n := by
  constructor
  · intro h
    simp only [isCanonicalU32, Bool.and_eq_true, Bool.or_eq_true, beq_iff_eq, bne_iff_ne, ne_eq, decide_eq_true_eq] at h
    obtain ⟨⟨had, hlead⟩, hlt⟩ := h
    refine ⟨decVal s.toList, hlt, ?_⟩
    have hcan : canonicalDigits s.toList = true := by
      simp only [canonicalDigits, Bool.and_eq_true, Bool.or_eq_true, beq_iff_eq, bne_iff_ne, ne_eq]
      exact ⟨had, hlead⟩
    unfold natToDec
    rw [natDigits_decVal _ hcan, String.ofList_toList]
  · rintro ⟨n, hn, rfl⟩
    have hcan := natDigits_canonical n
    simp only [canonicalDigits, Bool.and_eq_true, Bool.or_eq_true, beq_iff_eq, bne_iff_ne, ne_eq] at hcan
    simp only [isCanonicalU32, natToDec, String.toList_ofList, Bool.and_eq_true, Bool.or_eq_true, beq_iff_eq, bne_iff_ne,
      ne_eq, decide_eq_true_eq, natDigits_val]
    exact ⟨hcan, hn⟩

theorem byteLen_natToDec (n : Nat) : byteLen (natToDec n) = (natDigits n).length := by
  unfold byteLen natToDec
  rw [String.toList_ofList]
  have hall := natDigits_all n
  generalize natDigits n = ds at hall
  have key : ∀ (l : List Char) (acc : Nat), l.all isDigit = true →
      (l.map Char.utf8Size).foldl (· + ·) acc = acc + l.length := by
    intro l
    induction l with
    | nil => intro acc _; simp
    | cons c cs ih =>
      intro acc h
      simp only [List.all_cons, Bool.and_eq_true] at h
      have hc : c.utf8Size = 1 := by
        obtain ⟨e, hlt⟩ := digitChar_digitVal c h.1
        rw [← e]; exact utf8Size_digitChar _ hlt
      simp only [List.map_cons, List.foldl_cons, List.length_cons, hc]
      rw [ih _ h.2]; omega
  simpa using key ds 0 hall

/-- For CCTP and Hyperlane an identifier is accepted exactly when it is the decimal form of a 32-bit
domain. -/
theorem c20_accepted_iff_decimal_u32 (p : Int) (c : String) (hp : p = PROTOCOL_CCTP ∨ p = PROTOCOL_HYPERLANE)
    (hlen : 10 ≤ Gen.maxCounterpartyIDLength) :
    validateCounterpartyID c p = true ↔ ∃ n, n < 2 ^ 32 ∧ c = natToDec n := by
  have hsel : validateCounterpartyID c p = (c != "" && !hasNul c && allAscii c && decide (byteLen c ≤ Gen.maxCounterpartyIDLength) && isCanonicalU32 c) := by
    rcases hp with rfl | rfl <;> simp [validateCounterpartyID, PROTOCOL_CCTP, PROTOCOL_HYPERLANE, PROTOCOL_IBC]
  rw [hsel]
  constructor
  · intro h
    simp only [Bool.and_eq_true] at h
    exact (isCanonicalU32_iff c).mp h.2
  · rintro ⟨n, hn, rfl⟩
    simp only [Bool.and_eq_true, bne_iff_ne, ne_eq, decide_eq_true_eq]
    refine ⟨⟨⟨⟨?_, ?_⟩, ?_⟩, ?_⟩, (isCanonicalU32_iff _).mpr ⟨n, hn, rfl⟩⟩
    · intro e
      have := congrArg String.toList e
      simp only [natToDec, String.toList_ofList, String.toList_empty] at this
      exact natDigitsAux_ne_nil _ _ _ (by omega) this
    · -- digits are not NUL
      simp only [hasNul, natToDec, String.toList_ofList, Bool.not_eq_true', List.any_eq_false, beq_iff_eq]
      intro ch hmem e
      have hd := natDigits_all n
      rw [List.all_eq_true] at hd
      have := hd ch hmem
      rw [e] at this
      exact absurd this (by decide)
    · -- digits are ASCII
      simp only [allAscii, natToDec, String.toList_ofList, List.all_eq_true, decide_eq_true_eq]
      intro ch hmem
      have hd := natDigits_all n
      rw [List.all_eq_true] at hd
      have hdg := hd ch hmem
      simp only [isDigit, Bool.and_eq_true, decide_eq_true_eq] at hdg
      have h9 : ch.val ≤ ('9' : Char).val := hdg.2
      have h9' := UInt32.le_iff_toNat_le.mp h9
      have e9 : ('9' : Char).val.toNat = 57 := by decide
      show ch.val.toNat < 128
      omega
    · rw [byteLen_natToDec]
      have := natDigits_length_le n 10 (by decide) (by omega)
      omega

/-- The identifier under which a transfer is matched and recorded is the decimal form of its domain. -/
theorem c20_matches_transfers_cctp (d : Nat) (m c : Bytes) : (Attrs.cctp d m c).counterpartyID = natToDec d := rfl

theorem c20_matches_transfers_hyp (t : Bytes) (d : Nat) (r h : Bytes) (hm : String) (g : Int) (fd : String) (fa : Int) :
    (Attrs.hyp t d r h hm g fd fa).counterpartyID = natToDec d := rfl

/-- No two accepted identifiers denote the same destination: accepted CCTP/Hyperlane identifiers of
the same domain are the same string. -/
theorem c20_one_spelling (a b : String) (ha : isCanonicalU32 a = true) (hb : isCanonicalU32 b = true)
    (h : decVal a.toList = decVal b.toList) : a = b := by
  obtain ⟨n, _, rfl⟩ := (isCanonicalU32_iff a).mp ha
  obtain ⟨m, _, rfl⟩ := (isCanonicalU32_iff b).mp hb
  simp only [natToDec, String.toList_ofList, natDigits_val] at h
  rw [h]

/-- An accepted identifier that names the domain of a transfer is literally the string the transfer is
matched under (so a successful pause of it covers the transfer; see C08). -/
theorem c20_pause_covers (c : String) (d : Nat) (hc : isCanonicalU32 c = true) (h : decVal c.toList = d) :
    c = natToDec d := by
  obtain ⟨n, _, rfl⟩ := (isCanonicalU32_iff c).mp hc
  simp only [natToDec, String.toList_ofList, natDigits_val] at h
  rw [h]

/-! ### non-vacuity and the excluded spellings -/

example : crossChainValid PROTOCOL_CCTP "4294967295" = true := by decide
example : parseCrossChainID (ccidString PROTOCOL_INTERNAL "a:b") = some (PROTOCOL_INTERNAL, "a:b") := by decide
example : validateCounterpartyID "01" PROTOCOL_CCTP = false := by decide
example : validateCounterpartyID "+1" PROTOCOL_CCTP = false := by decide
example : validateCounterpartyID "4294967296" PROTOCOL_HYPERLANE = false := by decide
/-- `strconv.Atoi`, the check before the repair, accepted all of these (replayed on the implementation). -/
example : atoiAccepts "01" = true ∧ atoiAccepts "+1" = true ∧ atoiAccepts "-1" = true ∧ atoiAccepts "4294967296" = true := by decide

end Orbiter.C20
