import Orbiter.Encode
import Orbiter.Lemmas.Decimal
import Orbiter.Lemmas.Order
import Orbiter.Lemmas.State

namespace Orbiter

theorem natToDec_toList (n : Nat) : (natToDec n).toList = natDigits n := by
  simp [natToDec]

theorem allDigits_natDigits (n : Nat) : allDigits (natDigits n) = true := by
  unfold allDigits
  have h1 := natDigits_all n
  have h2 : natDigits n ≠ [] := by
    unfold natDigits
    exact natDigitsAux_ne_nil _ _ _ (Nat.lt_succ_self n)
  cases h : natDigits n with
  | nil => exact absurd h h2
  | cons a l => rw [h] at h1; simpa using h1

theorem decUint32_encUint (n : Nat) (h : n < 2 ^ 32) : decUint32 (encUint n) = .ok n := by
  unfold decUint32 encUint uintOfLiteral
  simp only [natToDec_toList, allDigits_natDigits, natDigits_val, ↓reduceIte, h]

theorem decString_encStr (s : String) : decString (encStr s) = .ok s := rfl

theorem encStr_eq (s : String) : encStr s = .str s (s.toList.all rawChar) := rfl
theorem digitValBase_digit (c : Char) (h : isDigit c = true) : digitValBase c = digitVal c ∧ c ≠ '_' := by
  rcases isDigit_cases c h with h | h | h | h | h | h | h | h | h | h <;> subst h <;> decide

theorem scanDigits0_digits (ds : List Char) (h : ds.all isDigit = true) (prev : Bool) (acc cnt : Nat) (hp : ds ≠ [] ∨ prev = true ∨ cnt = 0) :
    scanDigits0 10 ds prev acc cnt = some (ds.foldl (fun a c => a * 10 + digitVal c) acc, cnt + ds.length) := by
  induction ds generalizing prev acc cnt with
  | nil =>
    unfold scanDigits0
    rcases hp with hp | hp | hp
    · exact absurd rfl hp
    · simp [hp]
    · simp [hp]
  | cons c cs ih =>
    simp only [List.all_cons, Bool.and_eq_true] at h
    obtain ⟨hv, hne⟩ := digitValBase_digit c h.1
    have hlt := digitVal_lt c h.1
    unfold scanDigits0
    have : (c == '_') = false := by simpa using hne
    simp only [this, Bool.false_eq_true, ↓reduceIte, hv, show digitVal c < 10 from hlt, List.foldl_cons, List.length_cons]
    rw [ih h.2 true _ _ (Or.inr (Or.inl rfl))]
    congr 2; omega

theorem parseNat0_natDigits (n : Nat) : parseNat0 (natDigits n) = some n := by
  by_cases hz : n = 0
  · subst hz; rw [natDigits_zero]; rfl
  · have hhead : (natDigits n).head? ≠ some '0' := natDigitsAux_head _ _ _ (by omega) (by omega)
    have hne : natDigits n ≠ [] := natDigitsAux_ne_nil _ _ _ (by omega)
    have hs := scanDigits0_digits (natDigits n) (natDigits_all n) false 0 0 (Or.inl hne)
    have hv : (natDigits n).foldl (fun a c => a * 10 + digitVal c) 0 = n := natDigits_val n
    cases hd : natDigits n with
    | nil => exact absurd hd hne
    | cons c cs =>
      rw [hd] at hhead hs hv
      have hc : c ≠ '0' := by simpa using hhead
      unfold parseNat0
      split
      · rename_i heq; cases heq; exact absurd rfl hc
      · rw [hs]; simp [hv]

theorem natDigits_head_digit (n : Nat) : ∀ c ∈ (natDigits n).head?, isDigit c = true := by
  intro c hc
  have := natDigits_all n
  cases hd : natDigits n with
  | nil => rw [hd] at hc; cases hc
  | cons a l =>
    rw [hd] at hc this
    simp only [List.head?_cons, Option.mem_def, Option.some.injEq] at hc
    subst hc
    simp only [List.all_cons, Bool.and_eq_true] at this
    exact this.1

theorem parseBigInt0_intToDec (i : Int) : parseBigInt0 (intToDec i) = some i := by
  cases i with
  | ofNat n =>
    unfold parseBigInt0 intToDec
    simp only [natToDec_toList]
    have hp := parseNat0_natDigits n
    split
    · rename_i r heq
      have := natDigits_head_digit n '-' (by rw [heq]; rfl)
      exact absurd this (by decide)
    · rename_i r heq
      have := natDigits_head_digit n '+' (by rw [heq]; rfl)
      exact absurd this (by decide)
    · rw [hp]; rfl
  | negSucc n =>
    unfold parseBigInt0 intToDec
    have : ("-" ++ natToDec (n + 1)).toList = '-' :: natDigits (n + 1) := by
      simp [natToDec_toList]
    rw [this]
    simp only [parseNat0_natDigits, Option.map_some]
    rfl

theorem decMathInt_encMathInt (i : Int) (h : overflows256 i = false) : decMathInt (encMathInt i) = .ok i := by
  unfold decMathInt encMathInt encStr
  simp only [Dec.bind_ok, parseBigInt0_intToDec, h, Bool.false_eq_true, ↓reduceIte]

/-! ### base64 -/

theorem utf8EncodeChar_ascii (b : UInt8) (h : b.toNat < 128) : String.utf8EncodeChar (Char.ofNat b.toNat) = [b] := by
  have hv : (Char.ofNat b.toNat).val.toNat = b.toNat := by
    have : b.toNat.isValidChar := by left; omega
    simp [Char.ofNat, this, Char.ofNatAux]
  unfold String.utf8EncodeChar
  simp only [hv]
  have : b.toNat ≤ 127 := by omega
  simp only [this, ↓reduceIte]
  simp

theorem strBytes_asciiString (l : Bytes) (h : ∀ b ∈ l, b.toNat < 128) : strBytes (asciiString l) = l := by
  rw [strBytes_eq]
  unfold asciiString
  simp only [String.toList_ofList]
  induction l with
  | nil => rfl
  | cons a t ih =>
    simp only [List.map_cons, List.flatMap_cons]
    rw [utf8EncodeChar_ascii a (h a (by simp)), ih (fun b hb => h b (by simp [hb]))]
    rfl

theorem b64_bits1 : ∀ x < 256, ∀ y1 < 16, ((x >>> 2) <<< 2 ||| ((x &&& 3) <<< 4 ||| y1) >>> 4) &&& 0xff = x := by decide +kernel
theorem b64_bits2 : ∀ x0 < 4, ∀ y < 256, ∀ z1 < 4, ((x0 <<< 4 ||| y >>> 4) <<< 4 ||| ((y &&& 15) <<< 2 ||| z1) >>> 2) &&& 0xff = y := by decide +kernel
theorem b64_bits3 : ∀ y0 < 16, ∀ z < 256, (((y0 <<< 2 ||| z >>> 6) <<< 6) ||| (z &&& 63)) &&& 0xff = z := by decide +kernel
theorem b64_rng1 : ∀ x < 256, x >>> 2 < 64 ∧ x &&& 3 < 4 ∧ x >>> 4 < 16 ∧ x &&& 15 < 16 ∧ x >>> 6 < 4 ∧ x &&& 63 < 64 := by decide +kernel
theorem b64_rng2 : ∀ a < 4, ∀ b < 16, (a <<< 4 ||| b) < 64 ∧ (a <<< 4) < 64 := by decide +kernel
theorem b64_rng3 : ∀ a < 16, ∀ b < 4, (a <<< 2 ||| b) < 64 ∧ (a <<< 2) < 64 := by decide +kernel
theorem b64Val_b64Char : ∀ n < 64, b64Val (b64Char n) = some n ∧ (b64Char n).toNat < 128 ∧ b64Char n ≠ 61 ∧ b64Char n ≠ 13 ∧ b64Char n ≠ 10 := by decide +kernel
theorem b64_pad1 : ∀ x < 256, ((x >>> 2) <<< 2 ||| ((x &&& 3) <<< 4) >>> 4) &&& 0xff = x := by decide +kernel
theorem b64_pad2 : ∀ x0 < 4, ∀ y < 256, ((x0 <<< 4 ||| y >>> 4) <<< 4 ||| ((y &&& 15) <<< 2) >>> 2) &&& 0xff = y := by decide +kernel

theorem b64Char_ne61 {n : Nat} (h : n < 64) : (b64Char n == 61) = false := by
  have := (b64Val_b64Char n h).2.2.1
  simpa using this

theorem b64DecodeQuads_encode : ∀ l : Bytes, b64DecodeQuads (b64Encode l) = some l
  | [] => rfl
  | [a] => by
    have ha := a.toNat_lt
    obtain ⟨r1, r2, -, -, -, -⟩ := b64_rng1 a.toNat ha
    have r3 := (b64_rng2 _ r2 0 (by omega)).2
    simp only [b64Encode, b64DecodeQuads]
    simp only [beq_self_eq_true, Bool.and_self, ↓reduceIte, (b64Val_b64Char _ r1).1, (b64Val_b64Char _ r3).1,
      Option.bind_eq_bind, Option.bind_some, Option.pure_def, b64_pad1 _ ha, UInt8.ofNat_toNat]
  | [a, b] => by
    have ha := a.toNat_lt
    have hb := b.toNat_lt
    obtain ⟨r1, r2, -, -, -, -⟩ := b64_rng1 a.toNat ha
    obtain ⟨-, -, s3, s4, -, -⟩ := b64_rng1 b.toNat hb
    have r3 := (b64_rng2 _ r2 _ s3).1
    have r4 := (b64_rng3 _ s4 0 (by omega)).2
    simp only [b64Encode, b64DecodeQuads]
    simp only [b64Char_ne61 r4, Bool.false_and, Bool.false_eq_true, beq_self_eq_true, ↓reduceIte, (b64Val_b64Char _ r1).1,
      (b64Val_b64Char _ r3).1, (b64Val_b64Char _ r4).1,
      Option.bind_eq_bind, Option.bind_some, Option.pure_def, b64_bits1 _ ha _ s3, b64_pad2 _ r2 _ hb, UInt8.ofNat_toNat]
  | a :: b :: c :: rest => by
    have ih := b64DecodeQuads_encode rest
    have ha := a.toNat_lt
    have hb := b.toNat_lt
    have hc := c.toNat_lt
    obtain ⟨r1, r2, -, -, -, -⟩ := b64_rng1 a.toNat ha
    obtain ⟨-, -, s3, s4, -, -⟩ := b64_rng1 b.toNat hb
    obtain ⟨-, -, -, -, t5, t6⟩ := b64_rng1 c.toNat hc
    have q1 := (b64_rng2 _ r2 _ s3).1
    have q2 := (b64_rng3 _ s4 _ t5).1
    simp only [b64Encode]
    cases hr : b64Encode rest with
    | nil =>
      have hrest : rest = [] := by
        cases rest with
        | nil => rfl
        | cons x xs => cases xs with
          | nil => simp [b64Encode] at hr
          | cons y ys => cases ys <;> simp [b64Encode] at hr
      subst hrest
      simp only [b64DecodeQuads]
      simp only [b64Char_ne61 q2, b64Char_ne61 t6, Bool.false_and, Bool.false_eq_true, ↓reduceIte, (b64Val_b64Char _ r1).1,
        (b64Val_b64Char _ q1).1, (b64Val_b64Char _ q2).1, (b64Val_b64Char _ t6).1,
        Option.bind_eq_bind, Option.bind_some, Option.pure_def, b64_bits1 _ ha _ s3, b64_bits2 _ r2 _ hb _ t5, b64_bits3 _ s4 _ hc,
        UInt8.ofNat_toNat]
    | cons e es =>
      rw [hr] at ih
      simp only [b64DecodeQuads]
      simp only [(b64Val_b64Char _ r1).1,
        (b64Val_b64Char _ q1).1, (b64Val_b64Char _ q2).1, (b64Val_b64Char _ t6).1, ih,
        Option.bind_eq_bind, Option.bind_some, Option.pure_def, b64_bits1 _ ha _ s3, b64_bits2 _ r2 _ hb _ t5, b64_bits3 _ s4 _ hc,
        UInt8.ofNat_toNat]

theorem b64Encode_chars : ∀ (l : Bytes), ∀ c ∈ b64Encode l, c.toNat < 128 ∧ c ≠ 13 ∧ c ≠ 10
  | [] => by simp [b64Encode]
  | [a] => by
    have ha := a.toNat_lt
    obtain ⟨r1, r2, -, -, -, -⟩ := b64_rng1 a.toNat ha
    have r3 := (b64_rng2 _ r2 0 (by omega)).2
    have k1 := b64Val_b64Char _ r1
    have k2 := b64Val_b64Char _ r3
    intro c hc
    simp only [b64Encode, List.mem_cons, List.mem_nil_iff, or_false] at hc
    rcases hc with rfl | rfl | rfl | rfl
    · exact ⟨k1.2.1, k1.2.2.2.1, k1.2.2.2.2⟩
    · exact ⟨k2.2.1, k2.2.2.2.1, k2.2.2.2.2⟩
    · decide
    · decide
  | [a, b] => by
    have ha := a.toNat_lt
    have hb := b.toNat_lt
    obtain ⟨r1, r2, -, -, -, -⟩ := b64_rng1 a.toNat ha
    obtain ⟨-, -, s3, s4, -, -⟩ := b64_rng1 b.toNat hb
    have r3 := (b64_rng2 _ r2 _ s3).1
    have r4 := (b64_rng3 _ s4 0 (by omega)).2
    have k1 := b64Val_b64Char _ r1
    have k2 := b64Val_b64Char _ r3
    have k3 := b64Val_b64Char _ r4
    intro c hc
    simp only [b64Encode, List.mem_cons, List.mem_nil_iff, or_false] at hc
    rcases hc with rfl | rfl | rfl | rfl
    · exact ⟨k1.2.1, k1.2.2.2.1, k1.2.2.2.2⟩
    · exact ⟨k2.2.1, k2.2.2.2.1, k2.2.2.2.2⟩
    · exact ⟨k3.2.1, k3.2.2.2.1, k3.2.2.2.2⟩
    · decide
  | a :: b :: c :: rest => by
    have ih := b64Encode_chars rest
    have ha := a.toNat_lt
    have hb := b.toNat_lt
    have hc := c.toNat_lt
    obtain ⟨r1, r2, -, -, -, -⟩ := b64_rng1 a.toNat ha
    obtain ⟨-, -, s3, s4, -, -⟩ := b64_rng1 b.toNat hb
    obtain ⟨-, -, -, -, t5, t6⟩ := b64_rng1 c.toNat hc
    have q1 := (b64_rng2 _ r2 _ s3).1
    have q2 := (b64_rng3 _ s4 _ t5).1
    have k1 := b64Val_b64Char _ r1
    have k2 := b64Val_b64Char _ q1
    have k3 := b64Val_b64Char _ q2
    have k4 := b64Val_b64Char _ t6
    intro x hx
    simp only [b64Encode, List.mem_cons] at hx
    rcases hx with rfl | rfl | rfl | rfl | hx
    · exact ⟨k1.2.1, k1.2.2.2.1, k1.2.2.2.2⟩
    · exact ⟨k2.2.1, k2.2.2.2.1, k2.2.2.2.2⟩
    · exact ⟨k3.2.1, k3.2.2.2.1, k3.2.2.2.2⟩
    · exact ⟨k4.2.1, k4.2.2.2.1, k4.2.2.2.2⟩
    · exact ih x hx

/-- `base64.StdEncoding.DecodeString(EncodeToString(b)) = b`. -/
theorem b64Decode_encode (l : Bytes) : b64Decode (b64Encode l) = some l := by
  unfold b64Decode
  have : (b64Encode l).filter (fun c => c != 13 && c != 10) = b64Encode l := by
    rw [List.filter_eq_self]
    intro c hc
    obtain ⟨-, h1, h2⟩ := b64Encode_chars l c hc
    simp [h1, h2]
  rw [this, b64DecodeQuads_encode]

theorem decBytes_encB64 (b : Bytes) : decBytes (encB64 b) = .ok b := by
  unfold decBytes encB64 encStr
  simp only
  rw [strBytes_asciiString _ (fun c hc => (b64Encode_chars b c hc).1), b64Decode_encode]

theorem decBytes_encBytesAny (b : Bytes) : decBytes (encBytesAny b) = .ok b := by
  unfold encBytesAny
  split
  · rename_i h
    have : b = [] := by simpa using h
    subst this; rfl
  · exact decBytes_encB64 b

theorem decBytes_encBytesTop (σ : Bool) (b : Bytes) : decBytes (encBytesTop σ b) = .ok b := by
  unfold encBytesTop
  split
  · rename_i h
    have : b = [] := by
      simp only [Bool.and_eq_true, List.isEmpty_iff] at h
      exact h.1
    subst this; rfl
  · exact decBytes_encB64 b

/-! ### enums -/

theorem intOfLiteral_intToDec (i lo hi : Int) (h1 : lo ≤ i) (h2 : i ≤ hi) : intOfLiteral (intToDec i) lo hi = .ok i := by
  cases i with
  | ofNat n =>
    unfold intOfLiteral intToDec
    simp only [natToDec_toList]
    split
    · rename_i ds heq
      have := natDigits_head_digit n '-' (by rw [heq]; rfl)
      exact absurd this (by decide)
    · simp only [allDigits_natDigits, ↓reduceIte, natDigits_val, Bool.false_eq_true]
      have : (lo ≤ Int.ofNat n && Int.ofNat n ≤ hi) = true := by
        simp only [Bool.and_eq_true, decide_eq_true_eq]; exact ⟨h1, h2⟩
      simp only [this, ↓reduceIte]
  | negSucc n =>
    unfold intOfLiteral intToDec
    have : ("-" ++ natToDec (n + 1)).toList = '-' :: natDigits (n + 1) := by
      simp [natToDec_toList]
    rw [this]
    simp only [allDigits_natDigits, ↓reduceIte, natDigits_val]
    have e : - Int.ofNat (n + 1) = Int.negSucc n := rfl
    rw [e]
    have : (lo ≤ Int.negSucc n && Int.negSucc n ≤ hi) = true := by
      simp only [Bool.and_eq_true, decide_eq_true_eq]; exact ⟨h1, h2⟩
    simp only [this, ↓reduceIte]

def EnumTableOk (names : List (Int × String)) : Prop :=
  ∀ e ∈ names, names.find? (·.2 == e.2) = some e ∧ e.2.toList.all rawChar = true

theorem protocolIds_ok : EnumTableOk Gen.protocolIds := by unfold EnumTableOk; decide
theorem actionIds_ok : EnumTableOk Gen.actionIds := by unfold EnumTableOk; decide

theorem decEnum_encEnum (names : List (Int × String)) (hn : EnumTableOk names) (n : Int) (h : int32Fits n = true) :
    decEnum names (encEnum names n) = .ok n := by
  unfold encEnum
  cases hf : names.find? (·.1 == n) with
  | none =>
    simp only
    unfold decEnum
    simp only
    unfold int32Fits at h
    simp only [Bool.and_eq_true, decide_eq_true_eq] at h
    exact intOfLiteral_intToDec n _ _ h.1 h.2
  | some e =>
    obtain ⟨m, s⟩ := e
    simp only
    have hmem := List.mem_of_find?_eq_some hf
    have hm : m = n := by
      have := List.find?_some hf
      simpa using this
    subst hm
    unfold decEnum encStr
    have := hn (m, s) hmem
    simp only at this
    simp only [this.2, Bool.not_true, Bool.false_eq_true, ↓reduceIte]
    rw [this.1]


/-! ### messages -/

theorem decValueMsg_uint (n : Nat) (h : n < 2 ^ 32) : decValueMsg decUint32 0 (.obj [("value", encUint n)]) = .ok (some n) := by
  simp [decValueMsg, asObject, takeField, Json.lookupLast, Json.eraseKey, decUint32_encUint n h, noUnknown]

theorem decValueMsg_str (s : String) : decValueMsg decString "" (.obj [("value", encStr s)]) = .ok (some s) := by
  simp [decValueMsg, asObject, takeField, Json.lookupLast, Json.eraseKey, decString_encStr, noUnknown]


theorem decFeeInfo_enc (π : OneofOrder) (f : FeeInfo) (h : f.typed = true) : decFeeInfo π (encFeeInfo f) = .ok f := by
  obtain ⟨r, ft⟩ := f
  cases ft with
  | unset =>
    simp [decFeeInfo, encFeeInfo, asObject, takeField, Json.lookupLast, Json.eraseKey, decString_encStr, noUnknown, decOptMember, pickFeeType]
  | bps v =>
    have hv : v < 2 ^ 32 := by simpa [FeeInfo.typed] using h
    simp [decFeeInfo, encFeeInfo, asObject, takeField, Json.lookupLast, Json.eraseKey, decString_encStr, noUnknown, decOptMember, pickFeeType,
      decValueMsg_uint v hv, Dec.map]
  | amount s =>
    simp [decFeeInfo, encFeeInfo, asObject, takeField, Json.lookupLast, Json.eraseKey, decString_encStr, noUnknown, decOptMember, pickFeeType,
      decValueMsg_str, Dec.map]

theorem decRepeated_enc {α} (dec : Json → Dec α) (enc : α → Json) (l : List α) (hnn : ∀ a, enc a ≠ .null) (h : ∀ a ∈ l, dec (enc a) = .ok a) :
    decRepeated dec (.arr (l.map enc)) = .ok (l.map some) := by
  unfold decRepeated
  simp only
  induction l with
  | nil => rfl
  | cons a t ih =>
    simp only [List.map_cons, List.mapM_cons]
    rw [ih (fun b hb => h b (by simp [hb]))]
    have := hnn a
    split
    · rename_i heq; exact absurd heq this
    · rw [h a (by simp)]; rfl

theorem decFee_enc (π : OneofOrder) (infos : List FeeInfo) (h : infos.all FeeInfo.typed = true) :
    decFee π [("fees_info", .arr (infos.map encFeeInfo))] = .ok (.fee infos) := by
  have hm := decRepeated_enc (decFeeInfo π) encFeeInfo infos (by intro a; simp [encFeeInfo])
    (fun a ha => decFeeInfo_enc π a (by rw [List.all_eq_true] at h; exact h a ha))
  unfold decFee
  simp only [takeField, Json.lookupLast, Json.eraseKey, List.foldl_cons, List.foldl_nil, beq_self_eq_true, ↓reduceIte,
    show ("fees_info" == "feesInfo") = false by decide, Bool.false_eq_true, hm]
  simp [Dec.toRes, noUnknown]

theorem url_ne1 : (hypUrl == cctpUrl) = false := by decide
theorem url_ne2 : (internalUrl == cctpUrl) = false := by decide
theorem url_ne3 : (internalUrl == hypUrl) = false := by decide
theorem url_ne4 : (feeUrl == cctpUrl) = false := by decide
theorem url_ne5 : (feeUrl == hypUrl) = false := by decide
theorem url_ne6 : (feeUrl == internalUrl) = false := by decide

/-- evaluation of field lookups on lists with literal keys -/
macro "fields_simp" : tactic => `(tactic| simp only [takeField, Json.lookupLast, Json.eraseKey, List.foldl_cons, List.foldl_nil, List.filter_cons, List.filter_nil,
    String.reduceBEq, String.reduceBNe, Bool.false_eq_true, ↓reduceIte])

theorem decCoin_enc (d : String) (a : Int) (h : overflows256 a = false) :
    decCoin (.obj [("denom", encStr d), ("amount", encMathInt a)]) = .ok (d, a) := by
  unfold decCoin asObject
  simp only [Dec.bind_ok]
  fields_simp
  simp only [decString_encStr, decMathInt_encMathInt a h, Dec.bind_ok, noUnknown, List.isEmpty_nil, ↓reduceIte, Dec.pure_eq]

theorem decCCTP_enc (domain : Nat) (mint caller : Bytes) (hd : domain < 2 ^ 32) :
    decCCTP [("destination_domain", encUint domain), ("mint_recipient", encBytesAny mint), ("destination_caller", encBytesAny caller)] = .ok (.cctp domain mint caller) := by
  unfold decCCTP
  fields_simp
  simp only [decUint32_encUint domain hd, decBytes_encBytesAny, Dec.bind_ok, noUnknown, List.isEmpty_nil, ↓reduceIte, Dec.pure_eq]


theorem decHyp_enc (tok : Bytes) (domain : Nat) (rec_ hook : Bytes) (hmeta : String) (gas : Int) (fd : String) (fa : Int)
    (hd : domain < 2 ^ 32) (hg : overflows256 gas = false) (hf : overflows256 fa = false) :
    decHyp [("token_id", encBytesAny tok), ("destination_domain", encUint domain),
            ("recipient", encBytesAny rec_), ("custom_hook_id", encBytesAny hook), ("custom_hook_metadata", encStr hmeta),
            ("gas_limit", encMathInt gas), ("max_fee", .obj [("denom", encStr fd), ("amount", encMathInt fa)])]
      = .ok (.hyp tok domain rec_ hook hmeta gas fd fa) := by
  unfold decHyp
  fields_simp
  simp only [decUint32_encUint domain hd, decBytes_encBytesAny, decString_encStr, decMathInt_encMathInt gas hg, decCoin_enc fd fa hf,
    Dec.bind_ok, noUnknown, List.isEmpty_nil, ↓reduceIte, Dec.pure_eq]

theorem decInternal_enc (r : String) : decInternal [("recipient", encStr r)] = .ok (.internal r) := by
  unfold decInternal
  fields_simp
  simp only [decString_encStr, Dec.bind_ok, noUnknown, List.isEmpty_nil, ↓reduceIte, Dec.pure_eq]

theorem decAny_enc (π : OneofOrder) (a : Attrs) (h : a.typed = true) : decAny π (encAttrs a) = .ok (some a) := by
  cases a with
  | cctp domain mint caller =>
    have hd : domain < 2 ^ 32 := by simpa [Attrs.typed] using h
    unfold decAny encAttrs
    simp only [encStr]
    fields_simp
    simp only [beq_self_eq_true, ↓reduceIte, decCCTP_enc domain mint caller hd]
    rfl
  | hyp tok domain rec_ hook hmeta gas fd fa =>
    simp only [Attrs.typed, Bool.and_eq_true, decide_eq_true_eq, Bool.not_eq_true'] at h
    obtain ⟨⟨hd, hg⟩, hf⟩ := h
    unfold decAny encAttrs
    simp only [encStr]
    fields_simp
    simp only [beq_self_eq_true, ↓reduceIte, url_ne1, Bool.false_eq_true]
    have := decHyp_enc tok domain rec_ hook hmeta gas fd fa hd hg hf
    simp only [encStr] at this
    rw [this]
    rfl
  | internal r =>
    unfold decAny encAttrs
    simp only [encStr]
    fields_simp
    simp only [beq_self_eq_true, ↓reduceIte, url_ne2, url_ne3, Bool.false_eq_true]
    have := decInternal_enc r
    simp only [encStr] at this
    rw [this]
    rfl
  | fee infos =>
    have hi : infos.all FeeInfo.typed = true := by simpa [Attrs.typed] using h
    unfold decAny encAttrs
    simp only [encStr]
    fields_simp
    simp only [beq_self_eq_true, ↓reduceIte, url_ne4, url_ne5, url_ne6, Bool.false_eq_true, decFee_enc π infos hi]
    rfl


theorem decAnyOpt_enc (π : OneofOrder) (a : Option Attrs) (h : ∀ x, a = some x → x.typed = true) : decAny π (encAny a) = .ok a := by
  cases a with
  | none => rfl
  | some x => exact decAny_enc π x (h x rfl)

theorem Action.typed_attrs {a : Action} (h : a.typed = true) : int32Fits a.id = true ∧ (∀ x, a.attrs = some x → x.isAction = true ∧ x.typed = true) := by
  unfold Action.typed at h
  simp only [Bool.and_eq_true] at h
  refine ⟨h.1, ?_⟩
  intro x hx
  rw [hx] at h
  simpa using h.2

theorem Forwarding.typed_attrs {f : Forwarding} (h : f.typed = true) : int32Fits f.protocolId = true ∧ (∀ x, f.attrs = some x → x.isForwarding = true ∧ x.typed = true) := by
  unfold Forwarding.typed at h
  simp only [Bool.and_eq_true] at h
  refine ⟨h.1, ?_⟩
  intro x hx
  rw [hx] at h
  simpa using h.2

theorem decAction_enc (π : OneofOrder) (a : Action) (h : a.typed = true) : decAction π (encAction a) = .ok a := by
  obtain ⟨hid, hat⟩ := Action.typed_attrs h
  unfold decAction encAction asObject
  simp only [Dec.toRes, Res.bind_ok]
  fields_simp
  simp only [decEnum_encEnum _ actionIds_ok a.id hid, decAnyOpt_enc π a.attrs (fun x hx => (hat x hx).2), Res.bind_ok, noUnknown,
    List.isEmpty_nil, ↓reduceIte, Res.pure_eq]

theorem decForwarding_enc (π : OneofOrder) (σ : Bool) (f : Forwarding) (h : f.typed = true) : decForwarding π (encForwarding σ f) = .ok f := by
  obtain ⟨hid, hat⟩ := Forwarding.typed_attrs h
  unfold decForwarding encForwarding asObject
  simp only [Dec.toRes, Res.bind_ok]
  fields_simp
  simp only [decEnum_encEnum _ protocolIds_ok f.protocolId hid, decAnyOpt_enc π f.attrs (fun x hx => (hat x hx).2), decBytes_encBytesTop,
    Res.bind_ok, noUnknown, List.isEmpty_nil, ↓reduceIte, Res.pure_eq]

theorem decRepeatedR_enc {α} (dec : Json → Res α) (enc : α → Json) (l : List α) (hnn : ∀ a, enc a ≠ .null) (h : ∀ a ∈ l, dec (enc a) = .ok a) :
    decRepeatedR dec (.arr (l.map enc)) = .ok (l.map some) := by
  unfold decRepeatedR
  simp only
  induction l with
  | nil => rfl
  | cons a t ih =>
    simp only [List.map_cons, List.mapM_cons]
    rw [ih (fun b hb => h b (by simp [hb]))]
    have := hnn a
    split
    · rename_i heq; exact absurd heq this
    · rw [h a (by simp)]; rfl

/-- What the decoder returns for a payload: every action present (no nil element). -/
def Payload.toRaw (p : Payload) : RawPayload := { forwarding := p.forwarding, preActions := p.preActions.map some }

theorem decPayload_enc (π : OneofOrder) (σ : Bool) (p : Payload) (h : p.typed = true) : decPayload π (encPayload σ p) = .ok p.toRaw := by
  unfold Payload.typed at h
  simp only [Bool.and_eq_true, List.all_eq_true] at h
  have hacts := decRepeatedR_enc (decAction π) encAction p.preActions (by intro a; simp [encAction]) (fun a ha => decAction_enc π a (h.1 a ha))
  unfold decPayload encPayload asObject
  simp only [Dec.toRes, Res.bind_ok]
  fields_simp
  simp only [hacts, Res.bind_ok]
  cases hf : p.forwarding with
  | none =>
    simp only [Res.pure_eq, Res.bind_ok, noUnknown, List.isEmpty_nil, ↓reduceIte, Payload.toRaw, hf]
  | some f =>
    have hft : f.typed = true := by rw [hf] at h; exact h.2
    have hne : encForwarding σ f ≠ .null := by simp [encForwarding]
    simp only [Res.pure_eq, Res.bind_ok, noUnknown, List.isEmpty_nil, ↓reduceIte, Payload.toRaw, hf]
    simp only [decForwarding_enc π σ f hft, Res.map, Res.bind_ok]


theorem unpack_toRaw (p : Payload) (h : p.typed = true) : unpackInterfaces p.toRaw = .ok p.toRaw := by
  unfold Payload.typed at h
  simp only [Bool.and_eq_true, List.all_eq_true] at h
  unfold unpackInterfaces
  have h1 : Res.allM checkActionFamily p.toRaw.preActions = .ok () := by
    unfold Payload.toRaw
    simp only
    have : ∀ l : List Action, (∀ a ∈ l, a.typed = true) → Res.allM checkActionFamily (l.map some) = .ok () := by
      intro l
      induction l with
      | nil => intro _; rfl
      | cons a t ih =>
        intro hl
        simp only [List.map_cons, Res.allM]
        have ha := (Action.typed_attrs (hl a (by simp))).2
        have : checkActionFamily (some a) = .ok () := by
          unfold checkActionFamily
          split
          · rename_i i at_ heq
            simp only [Option.some.injEq] at heq
            have := (ha at_ (by rw [heq])).1
            simp [this]
          · rfl
        rw [this]
        exact ih (fun b hb => hl b (by simp [hb]))
    exact this _ h.1
  have h2 : checkForwardingFamily p.toRaw.forwarding = .ok () := by
    unfold Payload.toRaw checkForwardingFamily
    simp only
    split
    · rename_i at_ _ heq
      rw [heq] at h
      have := ((Forwarding.typed_attrs h.2).2 at_ rfl).1
      simp [this]
    · rfl
  rw [h1, Res.bind_ok, h2, Res.bind_ok]
  rfl

theorem decWrapper_enc (π : OneofOrder) (σ : Bool) (p : Payload) (h : p.typed = true) : decWrapper π (encWrapper σ p) = .ok p.toRaw := by
  unfold decWrapper encWrapper asObject
  simp only [Dec.toRes, Res.bind_ok]
  have hk : Gen.orbiterPrefix = "orbiter" := rfl
  simp only [hk]
  fields_simp
  have hne : encPayload σ p ≠ .null := by simp [encPayload]
  have : decOrbiterValue π (some (encPayload σ p)) = .ok p.toRaw := by
    unfold decOrbiterValue
    split
    · rename_i heq; simp only [Option.some.injEq] at heq; exact absurd heq hne
    · rename_i v _ heq
      simp only [Option.some.injEq] at heq
      subst heq
      exact decPayload_enc π σ p h
    · rename_i heq; cases heq
  simp only [this, Res.bind_ok, noUnknown, List.isEmpty_nil, ↓reduceIte, unpack_toRaw p h]


/-! ### the generic pre-checks of the parser on an encoded tree -/

theorem nullInArrayList_map {α} (enc : α → Json) (l : List α) (h : ∀ a ∈ l, (enc a).nullInArray = false) :
    nullInArrayList (l.map enc) = false := by
  induction l with
  | nil => rfl
  | cons a t ih =>
    simp only [List.map_cons, nullInArrayList, h a (by simp), ih (fun b hb => h b (by simp [hb])), Bool.or_self]

theorem anyIsNull_map {α} (enc : α → Json) (l : List α) (h : ∀ a, enc a ≠ .null) : (l.map enc).any Json.isNull = false := by
  rw [List.any_eq_false]
  intro x hx
  obtain ⟨a, _, rfl⟩ := List.mem_map.mp hx
  have := h a
  cases he : enc a <;> simp_all [Json.isNull]

theorem enc_leaf_nia (b : Bytes) (n : Nat) (s : String) (i : Int) (σ : Bool) :
    (encBytesAny b).nullInArray = false ∧ (encUint n).nullInArray = false ∧ (encStr s).nullInArray = false ∧
    (encMathInt i).nullInArray = false ∧ (encBytesTop σ b).nullInArray = false := by
  refine ⟨?_, rfl, rfl, rfl, ?_⟩
  · unfold encBytesAny; split <;> rfl
  · unfold encBytesTop; split <;> rfl

theorem encEnum_nia (names : List (Int × String)) (n : Int) : (encEnum names n).nullInArray = false := by
  unfold encEnum; split <;> rfl

theorem encFeeInfo_nia (f : FeeInfo) : (encFeeInfo f).nullInArray = false := by
  obtain ⟨r, ft⟩ := f
  cases ft <;> simp [encFeeInfo, Json.nullInArray, nullInArrayFields, encStr, encUint]

theorem encAny_nia (a : Option Attrs) : (encAny a).nullInArray = false := by
  cases a with
  | none => rfl
  | some a =>
    cases a with
    | cctp d m c =>
      simp [encAny, encAttrs, Json.nullInArray, nullInArrayFields, (enc_leaf_nia m d "" 0 true).1, (enc_leaf_nia c d "" 0 true).1, encStr, encUint]
    | hyp t d r h hm g fd fa =>
      simp [encAny, encAttrs, Json.nullInArray, nullInArrayFields, (enc_leaf_nia t d "" 0 true).1, (enc_leaf_nia r d "" 0 true).1,
        (enc_leaf_nia h d "" 0 true).1, encStr, encUint, encMathInt]
    | internal r => simp [encAny, encAttrs, Json.nullInArray, nullInArrayFields, encStr]
    | fee infos =>
      simp [encAny, encAttrs, Json.nullInArray, nullInArrayFields, encStr, anyIsNull_map encFeeInfo infos (by intro a; simp [encFeeInfo]),
        nullInArrayList_map encFeeInfo infos (fun a _ => encFeeInfo_nia a)]

theorem encAction_nia (a : Action) : (encAction a).nullInArray = false := by
  simp [encAction, Json.nullInArray, nullInArrayFields, encEnum_nia, encAny_nia]

theorem encForwarding_nia (σ : Bool) (f : Forwarding) : (encForwarding σ f).nullInArray = false := by
  simp [encForwarding, Json.nullInArray, nullInArrayFields, encEnum_nia, encAny_nia, (enc_leaf_nia f.passthrough 0 "" 0 σ).2.2.2.2]

theorem encWrapper_nia (σ : Bool) (p : Payload) : (encWrapper σ p).nullInArray = false := by
  have ha := anyIsNull_map encAction p.preActions (by intro a; simp [encAction])
  have hl := nullInArrayList_map encAction p.preActions (fun a _ => encAction_nia a)
  cases hfw : p.forwarding with
  | none => simp [encWrapper, encPayload, Json.nullInArray, nullInArrayFields, hfw, ha, hl]
  | some f => simp [encWrapper, encPayload, Json.nullInArray, nullInArrayFields, hfw, ha, hl, encForwarding_nia]


theorem takeWhile_all {α} (p : α → Bool) (l : List α) (h : l.all p = true) : l.takeWhile p = l ∧ l.dropWhile p = [] := by
  induction l with
  | nil => exact ⟨rfl, rfl⟩
  | cons a t ih =>
    simp only [List.all_cons, Bool.and_eq_true] at h
    simp [List.takeWhile, List.dropWhile, h.1, ih h.2]

theorem stripMinus_of_head {ds : List Char} (h : ds.head? ≠ some '-') : stripMinus ds = ds := by
  unfold stripMinus
  split
  · rename_i r; simp at h
  · rfl

theorem numOverflowsAbs_digits (ds : List Char) (hall : ds.all isDigit = true) (hlen : (natDigits (decVal ds)).length ≤ 10) :
    numOverflowsAbs ds = false := by
  unfold numOverflowsAbs
  simp only [(takeWhile_all isDigit ds hall).1, (takeWhile_all isDigit ds hall).2, fracOf, expoOf, List.append_nil, List.length_nil]
  by_cases hz : decVal ds = 0
  · simp [hz]
  · simp only [beq_iff_eq, hz, ↓reduceIte, Int.ofNat_eq_natCast]
    have h1 : ¬ ((0 : Int) - ((0 : Nat) : Int) + (((natDigits (decVal ds)).length : Nat) : Int) > 400) := by omega
    have h2 : ((0 : Int) - ((0 : Nat) : Int) + (((natDigits (decVal ds)).length : Nat) : Int) < 300) := by omega
    simp only [h1, h2, ↓reduceIte]

theorem numOverflows_digits (ds : List Char) (hall : ds.all isDigit = true) (hlen : (natDigits (decVal ds)).length ≤ 10) (raw : String)
    (hraw : raw.toList = ds ∨ raw.toList = '-' :: ds) (hnm : ds.head? ≠ some '-') : numOverflowsFloat64 raw = false := by
  unfold numOverflowsFloat64
  rcases hraw with h | h
  · rw [h, stripMinus_of_head hnm]; exact numOverflowsAbs_digits ds hall hlen
  · rw [h]; exact numOverflowsAbs_digits ds hall hlen

theorem natDigits_len10 (n : Nat) (h : n < 2 ^ 32) : (natDigits n).length ≤ 10 :=
  natDigits_length_le n 10 (by omega) (by omega)

theorem numOverflows_natToDec (n : Nat) (h : n < 2 ^ 32) : numOverflowsFloat64 (natToDec n) = false := by
  apply numOverflows_digits (natDigits n) (natDigits_all n) (by rw [natDigits_val]; exact natDigits_len10 n h) _ (Or.inl (natToDec_toList n))
  intro hh
  have := natDigits_head_digit n '-' (by rw [hh]; rfl)
  exact absurd this (by decide)

theorem numOverflows_intToDec (i : Int) (h : int32Fits i = true) : numOverflowsFloat64 (intToDec i) = false := by
  unfold int32Fits at h
  simp only [Bool.and_eq_true, decide_eq_true_eq] at h
  cases i with
  | ofNat n =>
    have : n < 2 ^ 32 := by have := h.2; simp only [Int.ofNat_eq_natCast] at this; omega
    exact numOverflows_natToDec n this
  | negSucc n =>
    have hn : n + 1 < 2 ^ 32 := by have := h.1; omega
    apply numOverflows_digits (natDigits (n + 1)) (natDigits_all _) (by rw [natDigits_val]; exact natDigits_len10 _ hn) _
      (Or.inr (by simp [intToDec, natToDec_toList]))
    intro hh
    have := natDigits_head_digit (n + 1) '-' (by rw [hh]; rfl)
    exact absurd this (by decide)


abbrev nof := numOverflowsFloat64

theorem anyNumList_map {α} (enc : α → Json) (l : List α) (h : ∀ a ∈ l, (enc a).anyNum nof = false) :
    anyNumList nof (l.map enc) = false := by
  induction l with
  | nil => rfl
  | cons a t ih =>
    simp only [List.map_cons, anyNumList, h a (by simp), ih (fun b hb => h b (by simp [hb])), Bool.or_self]

theorem enc_leaf_an (b : Bytes) (s : String) (i : Int) (σ : Bool) :
    (encBytesAny b).anyNum nof = false ∧ (encStr s).anyNum nof = false ∧
    (encMathInt i).anyNum nof = false ∧ (encBytesTop σ b).anyNum nof = false := by
  refine ⟨?_, rfl, rfl, ?_⟩
  · unfold encBytesAny; split <;> rfl
  · unfold encBytesTop; split <;> rfl

theorem encUint_an (n : Nat) (h : n < 2 ^ 32) : (encUint n).anyNum nof = false := by
  simp [encUint, Json.anyNum, numOverflows_natToDec n h]

theorem encEnum_an (names : List (Int × String)) (n : Int) (h : int32Fits n = true) : (encEnum names n).anyNum nof = false := by
  unfold encEnum; split
  · rfl
  · simp [Json.anyNum, numOverflows_intToDec n h]

theorem encFeeInfo_an (f : FeeInfo) (h : f.typed = true) : (encFeeInfo f).anyNum nof = false := by
  obtain ⟨r, ft⟩ := f
  cases ft with
  | unset => simp [encFeeInfo, Json.anyNum, anyNumFields, encStr]
  | bps v =>
    have hv : v < 2 ^ 32 := by simpa [FeeInfo.typed] using h
    simp [encFeeInfo, Json.anyNum, anyNumFields, encStr, encUint_an v hv]
  | amount s => simp [encFeeInfo, Json.anyNum, anyNumFields, encStr]

theorem encAny_an (a : Option Attrs) (h : ∀ x, a = some x → x.typed = true) : (encAny a).anyNum nof = false := by
  cases a with
  | none => rfl
  | some a =>
    have ht := h a rfl
    cases a with
    | cctp d m c =>
      have hd : d < 2 ^ 32 := by simpa [Attrs.typed] using ht
      simp [encAny, encAttrs, Json.anyNum, anyNumFields, (enc_leaf_an m "" 0 true).1, (enc_leaf_an c "" 0 true).1, encStr, encUint_an d hd]
    | hyp t d r hk hm g fd fa =>
      simp only [Attrs.typed, Bool.and_eq_true, decide_eq_true_eq, Bool.not_eq_true'] at ht
      simp [encAny, encAttrs, Json.anyNum, anyNumFields, (enc_leaf_an t "" 0 true).1, (enc_leaf_an r "" 0 true).1,
        (enc_leaf_an hk "" 0 true).1, encStr, encUint_an d ht.1.1, encMathInt]
    | internal r => simp [encAny, encAttrs, Json.anyNum, anyNumFields, encStr]
    | fee infos =>
      have hi : infos.all FeeInfo.typed = true := by simpa [Attrs.typed] using ht
      rw [List.all_eq_true] at hi
      simp [encAny, encAttrs, Json.anyNum, anyNumFields, encStr, anyNumList_map encFeeInfo infos (fun a ha => encFeeInfo_an a (hi a ha))]

theorem encAction_an (a : Action) (h : a.typed = true) : (encAction a).anyNum nof = false := by
  obtain ⟨hid, hat⟩ := Action.typed_attrs h
  simp [encAction, Json.anyNum, anyNumFields, encEnum_an _ a.id hid, encAny_an a.attrs (fun x hx => (hat x hx).2)]

theorem encForwarding_an (σ : Bool) (f : Forwarding) (h : f.typed = true) : (encForwarding σ f).anyNum nof = false := by
  obtain ⟨hid, hat⟩ := Forwarding.typed_attrs h
  simp [encForwarding, Json.anyNum, anyNumFields, encEnum_an _ f.protocolId hid, encAny_an f.attrs (fun x hx => (hat x hx).2),
    (enc_leaf_an f.passthrough "" 0 σ).2.2.2]

theorem encWrapper_an (σ : Bool) (p : Payload) (h : p.typed = true) : (encWrapper σ p).anyNum nof = false := by
  unfold Payload.typed at h
  simp only [Bool.and_eq_true, List.all_eq_true] at h
  have hl := anyNumList_map encAction p.preActions (fun a ha => encAction_an a (h.1 a ha))
  cases hfw : p.forwarding with
  | none => simp [encWrapper, encPayload, Json.anyNum, anyNumFields, hfw, hl]
  | some f =>
    have hft : f.typed = true := by rw [hfw] at h; exact h.2
    simp [encWrapper, encPayload, Json.anyNum, anyNumFields, hfw, hl, encForwarding_an σ f hft]

/-! ambiguity -/

theorem ambiguousList_map {α} (enc : α → Json) (l : List α) (h : ∀ a ∈ l, (enc a).ambiguous = false) :
    ambiguousList (l.map enc) = false := by
  induction l with
  | nil => rfl
  | cons a t ih =>
    simp only [List.map_cons, ambiguousList, h a (by simp), ih (fun b hb => h b (by simp [hb])), Bool.or_self]

theorem enc_leaf_amb (b : Bytes) (n : Nat) (s : String) (i : Int) (σ : Bool) :
    (encBytesAny b).ambiguous = false ∧ (encUint n).ambiguous = false ∧ (encStr s).ambiguous = false ∧
    (encMathInt i).ambiguous = false ∧ (encBytesTop σ b).ambiguous = false := by
  refine ⟨?_, rfl, rfl, rfl, ?_⟩
  · unfold encBytesAny; split <;> rfl
  · unfold encBytesTop; split <;> rfl

theorem encEnum_amb (names : List (Int × String)) (n : Int) : (encEnum names n).ambiguous = false := by
  unfold encEnum; split <;> rfl

theorem encFeeInfo_amb (f : FeeInfo) : (encFeeInfo f).ambiguous = false := by
  obtain ⟨r, ft⟩ := f
  cases ft <;> simp [encFeeInfo, Json.ambiguous, ambiguousFields, fieldsAmbiguous, Json.hasKey, encStr, encUint]

theorem encAny_amb (a : Option Attrs) : (encAny a).ambiguous = false := by
  cases a with
  | none => rfl
  | some a =>
    cases a with
    | cctp d m c =>
      simp [encAny, encAttrs, Json.ambiguous, ambiguousFields, fieldsAmbiguous, Json.hasKey, (enc_leaf_amb m d "" 0 true).1, (enc_leaf_amb c d "" 0 true).1, encStr, encUint]
    | hyp t d r h hm g fd fa =>
      simp [encAny, encAttrs, Json.ambiguous, ambiguousFields, fieldsAmbiguous, Json.hasKey, (enc_leaf_amb t d "" 0 true).1, (enc_leaf_amb r d "" 0 true).1,
        (enc_leaf_amb h d "" 0 true).1, encStr, encUint, encMathInt]
    | internal r => simp [encAny, encAttrs, Json.ambiguous, ambiguousFields, fieldsAmbiguous, Json.hasKey, encStr]
    | fee infos =>
      simp [encAny, encAttrs, Json.ambiguous, ambiguousFields, fieldsAmbiguous, Json.hasKey, encStr,
        ambiguousList_map encFeeInfo infos (fun a _ => encFeeInfo_amb a)]

theorem encAction_amb (a : Action) : (encAction a).ambiguous = false := by
  simp [encAction, Json.ambiguous, ambiguousFields, fieldsAmbiguous, Json.hasKey, encEnum_amb, encAny_amb]

theorem encForwarding_amb (σ : Bool) (f : Forwarding) : (encForwarding σ f).ambiguous = false := by
  simp [encForwarding, Json.ambiguous, ambiguousFields, fieldsAmbiguous, Json.hasKey, encEnum_amb, encAny_amb, (enc_leaf_amb f.passthrough 0 "" 0 σ).2.2.2.2]

theorem encWrapper_amb (σ : Bool) (p : Payload) : (encWrapper σ p).ambiguous = false := by
  have hl := ambiguousList_map encAction p.preActions (fun a _ => encAction_amb a)
  have hk : Gen.orbiterPrefix = "orbiter" := rfl
  cases hfw : p.forwarding with
  | none => simp [encWrapper, encPayload, Json.ambiguous, ambiguousFields, fieldsAmbiguous, Json.hasKey, hfw, hl, hk]
  | some f => simp [encWrapper, encPayload, Json.ambiguous, ambiguousFields, fieldsAmbiguous, Json.hasKey, hfw, hl, hk, encForwarding_amb]


/-! ### validation and the parser on an encoded tree -/

theorem filterMap_id_map_some {α} (l : List α) : (l.map some).filterMap id = l := by
  induction l with
  | nil => rfl
  | cons a t ih => simp [ih]

theorem any_isNone_map_some {α} (l : List α) : (l.map some).any Option.isNone = false := by
  induction l with
  | nil => rfl
  | cons a t ih => simp [ih]

theorem validate_toRaw (p : Payload) (h : p.validate = .ok ()) : p.toRaw.validate = .ok p := by
  unfold Payload.validate at h
  simp only [Res.guard_bind_eq_ok, Res.bind_eq_ok] at h
  obtain ⟨hdup, u, hall, hf⟩ := h
  unfold RawPayload.validate Payload.toRaw
  simp only [any_isNone_map_some, filterMap_id_map_some, Bool.false_eq_true, ↓reduceIte, Res.pure_eq, Res.bind_ok, hdup, hall]
  cases hfw : p.forwarding with
  | none => rw [hfw] at hf; cases hf
  | some f =>
    rw [hfw] at hf
    simp only [hf, Res.bind_ok]
    cases p
    simp_all

/-- Tree level: whatever text parses to the tree `encWrapper σ p`, the memo parser returns `p`. -/
theorem parsePayload_of_tree (π : OneofOrder) (σ : Bool) (memo : Bytes) (p : Payload)
    (hparse : parseJsonWhole memo = some (encWrapper σ p)) (ht : p.typed = true) (hv : p.validate = .ok ()) :
    parsePayload π memo = .ok p := by
  unfold parsePayload
  rw [hparse]
  simp only [encWrapper_an σ p ht, Bool.false_eq_true, ↓reduceIte]
  have hnia := encWrapper_nia σ p
  have hamb := encWrapper_amb σ p
  have hdec := decWrapper_enc π σ p ht
  unfold encWrapper at hnia hamb hdec ⊢
  simp only [hnia, hamb, hdec]
  have hk : Gen.orbiterPrefix = "orbiter" := rfl
  simp only [hk, Json.distinctKeys, List.foldl_cons, List.foldl_nil, List.contains_nil, Bool.false_eq_true, ↓reduceIte, List.nil_append,
    List.length_singleton, bne_self_eq_false, Json.lookupLast, beq_self_eq_true]
  have hne : encPayload σ p ≠ .null := by simp [encPayload]
  split
  · rename_i heq; cases heq
  · rename_i heq; simp only [Option.some.injEq] at heq; exact absurd heq hne
  · simp only [Res.mapErr, Res.bind_ok]
    exact validate_toRaw p hv

end Orbiter
