"""Scenario builders: operation-line lists for the correspondence streams (DESIGN.md §4.2/§4.3)."""
import json
import os

from gen import (ACTION_NAMES, AMOUNTS, BPS, CCTP_DOMAINS, CHANNELS, DENOMS, PROTO_NAMES, SRC_CHANNELS, U, USERS, Rng,
                 hyp_setup_lines, rand_amount, rand_fee_entries, rand_forwarding, rand_transfer, fwd_denom)
from proto import (AUTHORITY, CCTP_URL, DUST, DUST_BYTES, FEE_URL, HYP_URL, IMPL, INT_URL, ORB, ORB_BYTES, VERIF, Proc, addr, b32, b64, cctp_fwd,
                   fee_action, ftpd, hx, hyp_fwd, int_fwd, kv, memo, msg_line, orb_pkt, pkt_line, unhx)

_HYP_CACHE = os.path.join(VERIF, ".cache", "hyp.json")


def hyp_tokens(n=2):
    """Token ids the real warp module assigns to the first collateral tokens (learned once per build)."""
    stamp = os.path.getmtime(IMPL) if os.path.exists(IMPL) else 0
    try:
        c = json.load(open(_HYP_CACHE))
        if c.get("stamp") == stamp and len(c["toks"]) >= n:
            return [(bytes.fromhex(t), d) for t, d in c["toks"][:n]]
    except Exception:
        pass
    p = Proc([IMPL])
    p.ask("setup -")
    toks = []
    for d in DENOMS[:n]:
        out = p.ask("env hyp setup " + hx(d))
        toks.append((kv(out)["tok"], d))
    p.close()
    json.dump({"stamp": stamp, "toks": toks}, open(_HYP_CACHE, "w"))
    return [(bytes.fromhex(t), d) for t, d in toks]


def base_setup(with_hyp=True, routers=((1, 50000), (2, 0))):
    lines = ["setup -"]
    toks = []
    if with_hyp:
        toks = hyp_tokens(2)
        lines += hyp_setup_lines([(t, d, list(routers)) for t, d in toks])
    return lines, toks


# ------------------------------------------------------------------------------------------ pure

def fee_grid(r, n_random=300):
    """C04: boundary grid + random cases for ComputeFeeAmount and the fee action arithmetic."""
    lines = []
    amounts = [0, 1, 2, 9999, 10000, 10001, 2 ** 64 - 1, 2 ** 64 + 1, 2 ** 128, 2 ** 255, 2 ** 256 - 1]
    bps = [0, 1, 9999, 10000, 10001, 2 ** 32 - 1]
    for a in amounts:
        for b in bps:
            lines.append("pure feeamt %d %d" % (a, b))
    for _ in range(n_random):
        lines.append("pure feeamt %d %d" % (r.range(0, 2 ** 256 - 1) if r.chance(1, 3) else r.range(0, 10 ** 12), r.range(0, 10001) if r.chance(4, 5) else r.range(0, 2 ** 32 - 1)))
    return lines


def fee_list_line(amount, denom, entries):
    """entries: (recipient string, kind b|a|n|N, value string)"""
    parts = ["pure fees %d %s %d" % (amount, hx(denom), len(entries))]
    for rec, kind, val in entries:
        parts.append("%s %s %s" % (hx(rec), kind, hx(str(val))))
    return " ".join(parts)


def fee_lists(r, n_random=400):
    lines = []
    A = [1, 2, 100, 9999, 10000, 10001, 10 ** 6, 2 ** 64 + 1, 2 ** 255, 2 ** 256 - 1]
    good = U[0]
    # boundary: total fee in {A-1, A, A+1}, both types, repeated recipients, 0..6 entries
    for a in A:
        for k in (-1, 0, 1):
            t = a + k
            if t > 0:
                lines.append(fee_list_line(a, "uusdc", [(good, "a", t)]))
                if t > 1:
                    lines.append(fee_list_line(a, "uusdc", [(good, "a", t - 1), (U[1], "a", 1)]))
        lines.append(fee_list_line(a, "uusdc", [(good, "b", 10000)]))
        lines.append(fee_list_line(a, "uusdc", [(good, "b", 9999), (good, "b", 1)]))
        lines.append(fee_list_line(a, "uusdc", [(good, "b", 5000), (U[1], "b", 5000)]))
        lines.append(fee_list_line(a, "uusdc", [(good, "b", 1)] * 6))
        lines.append(fee_list_line(a, "uusdc", [(good, "b", 1)] * 5))
        lines.append(fee_list_line(a, "uusdc", []))
    bad_entries = [(good, "b", 0), (good, "b", 10001), (good, "b", 2 ** 32 - 1), (good, "a", 0), (good, "a", -1), (good, "a", "x"),
                   (good, "a", ""), (good, "a", "+5"), (good, "a", "007"), (good, "a", "0x10"), (good, "a", " 5"), (good, "a", "1_0"), (good, "n", 0),
                   ("", "b", 1), ("noble1xyz", "b", 1), (good.upper(), "b", 1), ("cosmos1qyqszqgpqyqszqgpqyqszqgpqyqszqgpjnp7du", "b", 1),
                   (good, "a", 2 ** 256), (good, "a", 2 ** 256 - 1), (good, "a", 2 ** 255)]
    for e in bad_entries:
        lines.append(fee_list_line(10 ** 6, "uusdc", [e]))
        lines.append(fee_list_line(10 ** 6, "uusdc", [(U[2], "b", 100), e]))
    # sum overflow
    lines.append(fee_list_line(2 ** 256 - 1, "uusdc", [(good, "a", 2 ** 255), (U[1], "a", 2 ** 255)]))
    lines.append(fee_list_line(2 ** 256 - 1, "uusdc", [(good, "a", 2 ** 255), (U[1], "a", 2 ** 255 - 1)]))
    lines.append(fee_list_line(2 ** 256 - 1, "uusdc", [(good, "b", 10000), (U[1], "b", 10000)]))
    for _ in range(n_random):
        a = r.choice(A) if r.chance(1, 2) else r.range(1, 10 ** 9)
        n = r.range(0, 6)
        es = []
        for _ in range(n):
            rec = r.choice(U[:4])
            if r.chance(1, 2):
                es.append((rec, "b", r.choice(BPS + [0, 10001]) if r.chance(1, 4) else r.range(1, 10000)))
            else:
                es.append((rec, "a", r.choice([1, a // 2 or 1, a, a + 1, 7]) if r.chance(1, 2) else r.range(1, max(1, a))))
        lines.append(fee_list_line(a, "uusdc", es))
    return lines


CP_GRID = ["0", "1", "10", "01", "+1", "-1", "-0", "00", "4294967295", "4294967296", "99999999999", "9223372036854775807", "9223372036854775808",
           "channel-0", "channel-1", "channel-18446744073709551615", "channel-18446744073709551616", "channel-007", "channel-", "channel-x", "Channel-1",
           "noble", "a:b", "a b", "1 ", " 1", "1e3", "0x1", "1_0", "", "x" * 32, "x" * 33, "1" * 32, "1" * 33, "é" * 16, "é" * 17, "١٢٣"]


def id_grid(r, n_random=400):
    lines = []
    for p in range(-1, 7):
        lines.append("pure pidval %d" % p)
        lines.append("pure aidval %d" % p)
        for c in CP_GRID:
            lines.append("pure cpid %d %s" % (p, hx(c)))
            lines.append("pure ccid %d %s" % (p, hx(c)))
    for s in PROTO_NAMES + ACTION_NAMES + ["PROTOCOL_UNSUPPORTED", "ACTION_UNSUPPORTED", "protocol_cctp", "2", "", "PROTOCOL_CCTP "]:
        lines.append("pure pidstr " + hx(s))
        lines.append("pure aidstr " + hx(s))
    for s in ["1:channel-0", "2:0", "2:01", "3:4294967295", "4:noble", "4:a:b", "4::", ":", "2:", ":1", "02:1", "+2:1", "-2:1", "2147483648:1", "9:1", "0:1",
              "4:" + "x" * 32, "4:" + "x" * 33, "1:channel:1", "abc", "", "2:1:1", " 2:1", "2 :1"]:
        lines.append("pure parseccid " + hx(s))
    alphabet = "0123456789+-: _xchanel"
    for _ in range(n_random):
        n = r.range(0, 12)
        s = "".join(r.choice(alphabet) for _ in range(n))
        p = r.range(0, 5)
        lines.append("pure cpid %d %s" % (p, hx(s)))
        lines.append("pure ccid %d %s" % (p, hx(s)))
        lines.append("pure parseccid " + hx(("%d:" % p if r.chance(2, 3) else "") + s))
    # decimal u32 spot checks
    for _ in range(n_random // 4):
        v = r.choice([0, 1, 9, 10, 2 ** 31, 2 ** 32 - 1, 2 ** 32]) if r.chance(1, 3) else r.range(0, 2 ** 33)
        lines.append("pure cpid 2 " + hx(str(v)))
        lines.append("pure cpid 3 " + hx("0" + str(v)))
    return lines


DENOM_GRID = ["uusdc", "transfer/channel-7/uusdc", "transfer/channel-7/transfer/channel-3/uusdc", "transfer/channel-70/uusdc", "transfer/channel-7uusdc",
              "transfer/channel-7/", "transfer/channel-7//", "transfer/channel-7/a/b", "transfer/channel-7/a/channel-1", "transfer/channel-7/a/channel-1/b",
              "transfer/channel-7/ibc/ABCDEF", "ibc/27394FB092D2ECCD56123C74F36E4C1F926001CEADA9CA97EA622B25F41E5EB2", "/transfer/channel-7/uusdc",
              "transfer//uusdc", "Transfer/channel-7/uusdc", "transfer/channel-7/UUSDC", "transfer/channel-7/x", "transfer/channel-7/ab", "", "/", "//",
              "other/channel-7/uusdc", "transfer/channel-8/uusdc", "transfer/channel-7/transfer/channel-7/uusdc", "transfer/channel-7/uusdc/",
              "transfer/channel-7/1usdc", "transfer/channel-7/uus dc"]


def denom_grid(r, n_random=200):
    lines = []
    for d in DENOM_GRID:
        for (p, c) in [("transfer", "channel-7"), ("transfer", "channel-70"), ("other", "channel-7"), ("transfer", "channel-8")]:
            lines.append("pure denom %s %s %s" % (hx(d), hx(p), hx(c)))
    parts = ["transfer", "channel-7", "channel-1", "uusdc", "a", "ibc", "x", "", "channel-70"]
    for _ in range(n_random):
        n = r.range(1, 6)
        d = "/".join(r.choice(parts) for _ in range(n))
        lines.append("pure denom %s %s %s" % (hx(d), hx("transfer"), hx(r.choice(["channel-7", "channel-1"]))))
    for s in ["1", "01", "010", "0x10", "0b11", "0o17", "1_000", "+5", "-5", "-0", "", " 1", "1 ", "1e3", "1.0", str(2 ** 256 - 1), str(2 ** 256), "_1", "1__0", "0_1", "0x", "0X1F", "08", "0_8"]:
        lines.append("pure bigint " + hx(s))
    for s in ["uusdc", "x", "ab", "abc", "1abc", "a" * 128, "a" * 129, "ibc/ABC", "a b", "a:b.c_d-e", "U"]:
        lines.append("pure validdenom " + hx(s))
    for s in ["channel-0", "channel-007", "channel-18446744073709551615", "channel-18446744073709551616", "channel-", "channel", "channel-1 ", "channel-1\n", "xchannel-1", "channel-123456789012345678901"]:
        lines.append("pure chanid " + hx(s))
    return lines


def bech32_grid(r):
    lines = []
    good = b32(addr(1))
    cases = [good, good.upper(), good[:-1] + ("q" if good[-1] != "q" else "p"), good[:10] + good[10:].upper(), "", " ", ORB, ORB.upper(), DUST,
             "cosmos1qyqszqgpqyqszqgpqyqszqgpqyqszqgpjnp7du", "noble1", "noble1qqqqqq", good + " ", " " + good, "NOBLE1" + good[6:],
             b32(b""), b32(b"\x01"), b32(bytes(range(32))), b32(bytes(255)), b32(bytes(256))]
    for c in cases:
        lines.append("pure bech32 " + hx(c))
    return lines


# ------------------------------------------------------------------------------------------ app histories

def tuned_history(r, n, toks, op="recv", p_admin=15, p_deposit=6, p_query=8, p_reimport=2, fee_heavy=True, pause_sticky=False):
    """Mixed history: transfers, admin messages (pause state relaxes back), deposits, queries, reimport."""
    lines = []
    paused_p, paused_a, paused_cc = set(), set(), set()
    for _ in range(n):
        k = r.below(100)
        if k < p_admin:
            kind = r.below(10)
            if kind < 4:
                # protocol pause / unpause; prefer undoing an existing pause
                if paused_p and r.chance(3, 4):
                    p = r.choice(sorted(paused_p))
                    lines.append(msg_line("UnpauseProtocol", AUTHORITY, hx(p)))
                    paused_p.discard(p)
                else:
                    p = r.choice(PROTO_NAMES)
                    signer = AUTHORITY if r.chance(5, 6) else r.choice([U[0], "", ORB])
                    rpc = r.choice(["PauseProtocol", "PauseProtocol", "UnpauseProtocol"])
                    lines.append(msg_line(rpc, signer, hx(p)))
                    if signer == AUTHORITY and rpc == "PauseProtocol":
                        paused_p.add(p)
            elif kind < 7:
                if paused_a and r.chance(3, 4):
                    a = r.choice(sorted(paused_a))
                    lines.append(msg_line("UnpauseAction", AUTHORITY, hx(a)))
                    paused_a.discard(a)
                else:
                    a = r.choice(ACTION_NAMES)
                    rpc = r.choice(["PauseAction", "PauseAction", "UnpauseAction"])
                    lines.append(msg_line(rpc, AUTHORITY, hx(a)))
                    if rpc == "PauseAction":
                        paused_a.add(a)
            elif kind < 9:
                p = r.choice(PROTO_NAMES[1:])
                pool = {"PROTOCOL_CCTP": ["0", "1", "5", "7", "01"], "PROTOCOL_HYPERLANE": ["1", "2", "9"], "PROTOCOL_INTERNAL": ["noble", "x"]}[p]
                ids = [r.choice(pool) for _ in range(r.range(1, 3))]
                rpc = r.choice(["PauseCrossChains", "UnpauseCrossChains"])
                if paused_cc and r.chance(1, 2):
                    p, c = r.choice(sorted(paused_cc))
                    rpc, ids = "UnpauseCrossChains", [c]
                lines.append(msg_line(rpc, AUTHORITY, hx(p), *[hx(x) for x in ids]))
                if rpc == "PauseCrossChains" and len(set(ids)) == len(ids):
                    for c in ids:
                        paused_cc.add((p, c))
                elif rpc == "UnpauseCrossChains":
                    for c in ids:
                        paused_cc.discard((p, c))
            else:
                lines.append(msg_line("UpdateParams", AUTHORITY, str(r.choice([0, 0, 1, 16, 64, 2 ** 32 - 1]))))
        elif k < p_admin + p_deposit:
            lines.append("deposit %s %s %d" % (hx(ORB_BYTES), hx(r.choice(DENOMS + ["stake"])), r.range(1, 10 ** 6)))
        elif k < p_admin + p_deposit + p_query:
            q = r.below(8)
            if q == 0:
                lines.append("query PausedProtocols")
            elif q == 1:
                lines.append("query PausedActions")
            elif q == 2:
                lines.append("query IsProtocolPaused " + hx(r.choice(PROTO_NAMES)))
            elif q == 3:
                lines.append("query PausedCrossChains %s nopage" % hx(r.choice(PROTO_NAMES)))
            elif q == 4:
                lines.append("query DispatchedAmountsBySrc %s nopage" % hx("PROTOCOL_IBC"))
            elif q == 5:
                lines.append("query DispatchedCountsByDst %s nopage" % hx(r.choice(PROTO_NAMES[1:])))
            elif q == 6:
                lines.append("query DispatchedCounts %s %s %s %s" % (hx("PROTOCOL_IBC"), hx(r.choice(CHANNELS)), hx(r.choice(PROTO_NAMES[1:])), hx(r.choice(["0", "1", "noble", "5"]))))
            else:
                lines.append("query Params")
        elif k < p_admin + p_deposit + p_query + p_reimport:
            lines.append("reimport")
        else:
            lines.append(rand_transfer2(r, op, toks))
    return lines


def small_fee_entries(r, amount):
    n = r.below(4)
    out = []
    for _ in range(n):
        rec = r.choice(U[:5])
        if r.chance(1, 2):
            out.append((rec, "b", r.choice([1, 10, 100, 250, 1000])))
        else:
            out.append((rec, "a", max(1, min(amount // 10 if amount >= 10 else 1, r.range(1, 5000)))))
    return out


def rand_transfer2(r, op, toks, with_pt=False):
    fwd = rand_forwarding(r, toks)
    denom = fwd_denom(fwd, toks) or r.choice(DENOMS)
    amount = rand_amount(r)
    if fwd["protocol_id"] == "PROTOCOL_CCTP" and amount > 10 ** 24:
        amount = r.range(1, 10 ** 20)
    acts = None
    k = r.below(10)
    if k < 5:
        acts = [fee_action(small_fee_entries(r, amount))]
    elif k < 6:
        acts = [fee_action(rand_fee_entries(r, amount))]
    elif k < 7:
        acts = []
    return orb_pkt(op, amount, fwd, acts, denom=denom, src_chan=r.choice(SRC_CHANNELS), dst_chan=r.choice(CHANNELS))
