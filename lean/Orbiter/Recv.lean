/-
  Orbiter.Recv — the receive path: external modules (bank, ICS-20, blockibc, CCTP, Hyperlane warp),
  the fee / forwarding controllers, executor, forwarder, dispatcher, adapter and the IBC middleware
  (entrypoint/ibc_middleware.go), plus the IBC-core wrapper that commits iff the ack is a success.
  One Lean function per Go function that decides something; guard order is the code's.
-/
import Orbiter.Pure
import Orbiter.World
namespace Orbiter

/-- The request that reaches a bridge, field by field (what the recording decorators print). -/
inductive Req where
  | cctp (sender : String) (amount : Int) (domain : Nat) (mint : Bytes) (burnToken : String) (caller : Option Bytes)
  | warp (sender : String) (token : Bytes) (domain : Nat) (recipient : Bytes) (amount : Int) (hook : Option Bytes)
         (gas : Int) (feeDenom : String) (feeAmt : Int) (hookMeta : String)
  | bankSend (sender recipient denom : String) (amount : Int)
  | swap (inDenom : String) (inAmt : Int) (outDenom : String) (outAmt : Int)
  deriving Repr, DecidableEq, Inhabited

structure Packet where
  srcPort : String
  srcChan : String
  dstPort : String
  dstChan : String
  data : Bytes
  deriving Repr, DecidableEq, Inhabited

/-- The cached context of one operation: world so far plus everything observable it produced. -/
structure Ctx where
  bank : Ledger
  ext : ExtState
  moves : List Move := []
  calls : List (String × Nat) := []       -- fallible external calls made, in order, with their index
  reqs : List Req := []
  events : List String := []

namespace Ctx

def count (c : Ctx) (site : String) : Nat := (c.calls.filter (·.1 == site)).length

/-- Register a call of `site`; fails when the fault oracle fires for this (site, index). -/
def call (φ : Faults) (c : Ctx) (site : String) : Res Ctx :=
  let k := c.count site + 1
  let c' := { c with calls := c.calls ++ [(site, k)] }
  if φ site k then .err ("fault:" ++ site) else .ok c'

/-- Bank `SendCoins` with the fiat-tokenfactory send restriction: the minting denom does not move while
the token is paused, nor from or to a blacklisted address. -/
def send (c : Ctx) (src dst : Addr) (d : String) (amt : Nat) (tag : String) : Res Ctx :=
  if d == c.ext.mintingDenom && amt != 0 && (c.ext.ftfPaused || c.ext.blacklisted src || c.ext.blacklisted dst) then
    .err (tag ++ ":ftf-send-restriction")
  else
  match c.bank.send src dst d amt with
  | none => .err tag
  | some b => .ok { c with bank := b, moves := c.moves ++ [.xfer src dst d amt] }

def burn (c : Ctx) (src : Addr) (d : String) (amt : Nat) (tag : String) : Res Ctx :=
  match c.bank.burn src d amt with
  | none => .err tag
  | some b => .ok { c with bank := b, moves := c.moves ++ [.burn src d amt] }

def mint (c : Ctx) (dst : Addr) (d : String) (amt : Nat) : Ctx :=
  { c with bank := c.bank.mint dst d amt, moves := c.moves ++ [.mint dst d amt] }

def emit (φ : Faults) (c : Ctx) (ev : String) : Res Ctx := do
  let c ← c.call φ "event.Emit"
  pure { c with events := c.events ++ [ev] }

end Ctx

/-! ### ICS-20 (ibc-go v8 transfer module), the wrapped application -/

def blank (s : String) : Bool := trimSpaceEmpty s

def isValidIbcID (s : String) (lo hi : Nat) : Bool :=
  !blank s && !s.contains '/' && lo ≤ byteLen s && byteLen s ≤ hi &&
    s.toList.all fun c => isAlpha c || isDigit c || c == '.' || c == '_' || c == '+' || c == '-' || c == '#'
      || c == '[' || c == ']' || c == '<' || c == '>'

def validTracePairs : List String → Bool
  | [] => true
  | [_] => false
  | p :: ch :: rest => isValidIbcID p 2 128 && isValidIbcID ch 8 64 && validTracePairs rest

/-- `ValidatePrefixedDenom`. -/
def validatePrefixedDenom (denom : String) : Bool :=
  let parts := splitOnSlash denom
  if parts.length ≤ 1 then !blank denom
  else if blank (parts.getLast?.getD "") then false
  else
    let (p, _) := extractPath parts parts.length
    if p.isEmpty then true else validTracePairs p

/-- Bank denom of the coin ICS-20 handles for an unprefixed denomination. -/
def ibcDenom (cfg : Cfg) (unprefixed : String) : String :=
  let (path, base) := parseDenomTrace unprefixed
  -- `DenomTrace.GetFullDenomPath` = path + "/" + base: a denomination that is all path gets a trailing slash
  if path == "" then unprefixed else cfg.voucherDenom (path ++ "/" ++ base)

/-- `transferkeeper.OnRecvPacket` behind `IBCModule.OnRecvPacket`. An error is an error ack. -/
def ics20Recv (cfg : Cfg) (c : Ctx) (pkt : Packet) : Res Ctx :=
  match decFTPD pkt.data with
  | none => .err "ics20:decode"
  | some d => do
    -- ValidateBasic
    let amt ← match newIntFromString d.amount with
      | some a => (pure a : Res Int)
      | none => .err "ics20:amount"
    if amt ≤ 0 then (.err "ics20:amount-not-positive" : Res Unit) else pure ()
    if blank d.sender then (.err "ics20:sender-blank" : Res Unit) else pure ()
    if blank d.receiver then (.err "ics20:receiver-blank" : Res Unit) else pure ()
    if !validatePrefixedDenom d.denom then (.err "ics20:denom" : Res Unit) else pure ()
    if !c.ext.recvEnabled then (.err "ics20:receive-disabled" : Res Unit) else pure ()
    let receiver ← match accAddressFromBech32 cfg.hrp d.receiver with
      | some a => (pure a : Res Addr)
      | none => .err "ics20:receiver"
    let pre := denomPrefix pkt.srcPort pkt.srcChan
    if d.denom.startsWith pre then
      -- returning token: unescrow
      let unprefixed := (d.denom.drop pre.length).toString
      let denom := ibcDenom cfg unprefixed
      newCoin denom amt "ics20:NewCoin"
      if c.ext.blocked receiver then (.err "ics20:receiver-blocked" : Res Unit) else pure ()
      let c ← c.send (cfg.escrow pkt.dstPort pkt.dstChan) receiver denom amt.toNat "ics20:unescrow"
      if c.ext.totalEscrow denom < amt.toNat then .panic "ics20:total-escrow-negative"
      else
        let ext := { c.ext with totalEscrow := fun x => if x = denom then c.ext.totalEscrow denom - amt.toNat else c.ext.totalEscrow x }
        pure { c with ext := ext }
    else
      -- token of the sending chain: mint a voucher
      let voucher := ibcDenom cfg (denomPrefix pkt.dstPort pkt.dstChan ++ d.denom)
      let c := c.mint cfg.transferModule voucher amt.toNat
      if c.ext.blocked receiver then .err "ics20:receiver-blocked"
      else c.send cfg.transferModule receiver voucher amt.toNat "ics20:send-voucher"

/-! ### blockibc (fiat-tokenfactory), above the orbiter middleware -/

def blockibcCheck (c : Ctx) (pkt : Packet) : Res Unit :=
  match decFTPD pkt.data with
  | none => .err "blockibc:decode"
  | some d =>
    if (parseDenomTrace d.denom).2 != c.ext.mintingDenom then .ok ()
    else if c.ext.ftfPaused then .err "blockibc:paused"
    else match bech32Decode d.receiver none with
      | none => .err "blockibc:receiver"
      | some (_, rb) =>
        if c.ext.blacklisted rb then .err "blockibc:receiver-blacklisted"
        else match bech32Decode d.sender none with
          | none => .err "blockibc:sender"
          | some (_, sb) => if c.ext.blacklisted sb then .err "blockibc:sender-blacklisted" else .ok ()

/-! ### bridges -/

def toLowerStr (s : String) : String := String.ofList (s.toList.map toLowerAscii)

/-- noble-cctp `depositForBurn` as called by the CCTP controller. -/
def cctpDepositForBurn (cfg : Cfg) (c : Ctx) (amount : Int) (domain : Nat) (mint : Bytes) (burnToken : String)
    (caller : Bytes) : Res Ctx := do
  if amount ≤ 0 then (.err "cctp:amount" : Res Unit) else pure ()
  if mint.isEmpty || mint == zeros 32 then (.err "cctp:mint-recipient-zero" : Res Unit) else pure ()
  if !c.ext.cctpDomain domain then (.err "cctp:no-token-messenger" : Res Unit) else pure ()
  if toLowerStr c.ext.mintingDenom != toLowerStr burnToken then (.err "cctp:denom" : Res Unit) else pure ()
  if c.ext.cctpBurnPaused then (.err "cctp:burn-paused" : Res Unit) else pure ()
  if (match c.ext.cctpBurnLimit with | some l => decide (amount.toNat > l) | none => false) then (.err "cctp:burn-limit" : Res Unit) else pure ()
  let c ← c.send cfg.orbAddr cfg.cctpModule burnToken amount.toNat "cctp:transfer"
  -- fiat-tokenfactory Burn
  if c.ext.blacklisted cfg.cctpModule then (.err "ftf:minter-blacklisted" : Res Unit) else pure ()
  if burnToken != c.ext.mintingDenom then (.err "ftf:denom" : Res Unit) else pure ()
  if c.ext.ftfPaused then (.err "ftf:paused" : Res Unit) else pure ()
  let c ← c.send cfg.cctpModule cfg.ftfModule burnToken amount.toNat "ftf:transfer"
  let c ← c.burn cfg.ftfModule burnToken amount.toNat "ftf:burn"
  if mint.length != 32 then (.err "cctp:mint-recipient-len" : Res Unit) else pure ()
  if c.ext.cctpSendPaused then (.err "cctp:send-paused" : Res Unit) else pure ()
  if !caller.isEmpty && (caller.length != 32 || caller == zeros 32) then (.err "cctp:caller" : Res Unit) else pure ()
  pure c

/-- hyperlane-cosmos `HexAddress.GetInternalId`: the warp keeper keys tokens and routers by the last eight of the 32
bytes only (`HypTokens.Get(ctx, id.GetInternalId())`) — the module and type parts of an identifier are not compared. -/
def internalId (id : Bytes) : Bytes := id.drop 24

def lookupTok (toks : List (Bytes × String)) (id : Bytes) : Option String :=
  (toks.find? (internalId ·.1 == internalId id)).map (·.2)

def lookupRouter (rs : List (Bytes × Nat × Nat)) (id : Bytes) (domain : Nat) : Option Nat :=
  (rs.find? fun r => internalId r.1 == internalId id && r.2.1 == domain).map (·.2.2)

/-- Big-endian number. -/
def beNat (b : Bytes) : Nat := b.foldl (fun a x => a * 256 + x.toNat) 0

/-- The hooks a transfer can end up paying: the mailbox's default hook, or any one ever created. -/
def ExtState.hooks (e : ExtState) : List Hook := e.hypHook :: .noop :: e.hypIgps

/-- A caller-chosen post-dispatch hook as the hyperlane-cosmos router resolves it (`Router.GetModule(id.GetType())`, then
the handler's own table by `id.GetInternalId()`): bytes 20..24 name the hook type — 0 the no-op hooks, of which the
environment has the one of the set-up (internal id 0); 4 the gas paymasters — and the last eight bytes the hook. Nothing
else of the identifier is compared. Merkle-tree hooks (type 3) are never created by the environment. -/
def resolveHook (e : ExtState) (id : Bytes) : Option Hook :=
  let ty := beNat ((id.drop 20).take 4)
  let n := beNat (id.drop 24)
  if ty == 0 then (if n == 0 then some .noop else none)
  else if ty == 4 then (if n == 0 then none else e.hypIgps[n - 1]?)
  else none

/-- The hook that runs after the required one: the caller's when given, the mailbox default otherwise. -/
def hookFor (e : ExtState) (customHook : Bytes) : Res Hook :=
  if customHook.isEmpty then .ok e.hypHook
  else match resolveHook e customHook with
    | some h => .ok h
    | none => .err "warp:unknown-hook"

/-- hyperlane-cosmos warp `RemoteTransfer` (collateral token) + mailbox dispatch + default hook. -/
def warpRemoteTransfer (cfg : Cfg) (c : Ctx) (token : Bytes) (domain : Nat) (amount gas : Int)
    (feeDenom : String) (feeAmt : Int) (customHook : Bytes) : Res Ctx := do
  let origin ← match lookupTok c.ext.hypTokens token with
    | some d => (pure d : Res String)
    | none => .err "warp:no-token"
  let c ← c.send cfg.orbAddr cfg.warpModule origin amount.toNat "warp:collateral"
  let rgas ← match lookupRouter c.ext.hypRouters token domain with
    | some g => (pure g : Res Nat)
    | none => .err "warp:no-router"
  -- sdk.NewCoins(maxFee)
  if feeAmt < 0 || (feeAmt != 0 && !validDenom feeDenom) then (.panic "warp:NewCoins(maxFee)" : Res Unit) else pure ()
  -- a custom post-dispatch hook must exist
  let hook ← hookFor c.ext customHook
  match hook with
  | .noop => pure c
  | .igp idenom idomain rate price overhead =>
    -- `PayForGas`: the maximum fee must name something (`sdk.NewCoins` has dropped a zero coin) …
    if feeAmt == 0 then .err "igp:max-fee-required" else
    if idomain != domain then .err "igp:domain" else
    let g : Int := if gas == 0 then rgas else gas
    -- `QuoteGasPayment`: `math.Int` arithmetic, which panics when a result leaves 256 bits
    if overflows256 (g + overhead) || overflows256 ((g + overhead) * price) || overflows256 ((g + overhead) * price * rate) then
      .panic "igp:integer-overflow" else
    let charge : Int := ((g + overhead) * price * rate) / 10000000000
    if charge < 0 then .err "igp:coin" else
    -- … and bounds the payment only when it is in the paymaster's own denomination (`requiredPayment.IsAllGT(maxFee)`, then
    -- `chargedCoins.IsAnyGT(maxFee)`: coins of another denomination are never "greater")
    if feeDenom == idenom && charge > feeAmt then .err "igp:max-fee"
    else if charge == 0 then .err "igp:zero"
    else c.send cfg.orbAddr cfg.hypModule idenom charge.toNat "igp:payment"

/-! ### controllers -/

/-- An action controller: any function on the cached context and the shared transfer attributes. -/
abbrev ActionCtl := Faults → Ctx → TransferAttrs → Action → Res (Ctx × TransferAttrs)

/-- `FeeController.executeAction`: one bank send per positive entry, in payload order. -/
def payFees (φ : Faults) (orb : Addr) (denom : String) : List (Bytes × Int) → Ctx → Res Ctx
  | [], c => .ok c
  | v :: rest, c => do
    let c ← c.call φ "bank.SendCoins"
    let c ← c.send orb v.1 denom v.2.toNat "feectl:send"
    payFees φ orb denom rest c

/-- `FeeController.HandlePacket`. -/
def feeController (cfg : Cfg) : ActionCtl := fun φ c t a => do
  let infos ← match a.attrs with
    | some (.fee infos) => (pure infos : Res (List FeeInfo))
    | some _ => .err "feectl:wrong-attributes"
    | none => .err "feectl:nil-attributes"
  (validateFeeAttrs cfg.hrp infos).mapErr fun e => "feectl:validate:" ++ e
  let fees ← computeFees cfg.hrp t.dstAmount t.dstDenom infos { values := [], total := 0 }
  if fees.total ≥ t.dstAmount then (.err "feectl:total-exceeds" : Res Unit) else pure ()
  let c ← payFees φ cfg.orbAddr t.dstDenom fees.values c
  let t := t.setDstAmount (t.dstAmount - fees.total)
  let c ← c.emit φ "EventFeeAction"
  pure (c, t)

/-- Router of action controllers wired in the application (from the regenerated facts). -/
def appActionRouter (cfg : Cfg) : Int → Option ActionCtl := fun id =>
  if id == ACTION_FEE && Gen.actionRoutes.contains id then some (feeController cfg) else none

/-- `CCTPController.HandlePacket`. -/
def cctpController (cfg : Cfg) (φ : Faults) (c : Ctx) (t : TransferAttrs) (f : Forwarding) : Res Ctx := do
  let at_ ← match f.attrs with
    | some a => (pure a : Res Attrs)
    | none => .err "cctpctl:nil-attributes"
  match at_ with
  | .cctp domain mint caller => do
    (at_.validate cfg.hrp cfg.orbAddr).mapErr fun e => "cctpctl:" ++ e
    let sender := cfg.hrp   -- placeholder replaced below (kept for the Req)
    let _ := sender
    let site := if caller.isEmpty then "cctp.DepositForBurn" else "cctp.DepositForBurnWithCaller"
    let c := { c with reqs := c.reqs ++ [Req.cctp "orbiter" t.dstAmount domain mint t.dstDenom (if caller.isEmpty then none else some caller)] }
    let c ← c.call φ site
    cctpDepositForBurn cfg c t.dstAmount domain mint t.dstDenom caller
  | _ => .err "cctpctl:wrong-attributes"

/-- `HyperlaneController.HandlePacket`. -/
def hypController (cfg : Cfg) (φ : Faults) (c : Ctx) (t : TransferAttrs) (f : Forwarding) : Res Ctx := do
  let at_ ← match f.attrs with
    | some a => (pure a : Res Attrs)
    | none => .err "hypctl:nil-attributes"
  match at_ with
  | .hyp tok domain rec_ hook hmeta gas feeDenom feeAmt => do
    t.validate
    (at_.validate cfg.hrp cfg.orbAddr).mapErr fun e => "hypctl:" ++ e
    let c ← c.call φ "warp.Token"
    let origin ← match lookupTok c.ext.hypTokens tok with
      | some d => (pure d : Res String)
      | none => .err "hypctl:no-token"
    if origin != t.dstDenom then (.err "hypctl:denom-mismatch" : Res Unit) else pure ()
    let c := { c with reqs := c.reqs ++ [Req.warp "orbiter" tok domain rec_ t.dstAmount (if hook.isEmpty then none else some hook)
                gas feeDenom feeAmt hmeta] }
    let c ← c.call φ "warp.RemoteTransfer"
    warpRemoteTransfer cfg c tok domain t.dstAmount gas feeDenom feeAmt hook
  | _ => .err "hypctl:wrong-attributes"

/-- bank `MsgSend` as reached from the internal controller. -/
def bankMsgSend (cfg : Cfg) (c : Ctx) (to : String) (denom : String) (amt : Int) : Res Ctx :=
  match accAddressFromBech32 cfg.hrp to with
  | none => .err "bank:to-address"
  | some dst =>
    if amt ≤ 0 || !validDenom denom then .err "bank:coins"
    else if c.ext.sendDisabled denom then .err "bank:send-disabled"
    else if c.ext.blocked dst then .err "bank:blocked"
    else c.send cfg.orbAddr dst denom amt.toNat "bank:insufficient"

/-- `InternalController.HandlePacket`. -/
def internalController (cfg : Cfg) (φ : Faults) (c : Ctx) (t : TransferAttrs) (f : Forwarding) : Res Ctx := do
  let at_ ← match f.attrs with
    | some a => (pure a : Res Attrs)
    | none => .err "intctl:nil-attributes"
  match at_ with
  | .internal recipient => do
    t.validate
    (at_.validate cfg.hrp cfg.orbAddr).mapErr fun e => "intctl:" ++ e
    newCoin t.dstDenom t.dstAmount "intctl:NewCoin"
    let c := { c with reqs := c.reqs ++ [Req.bankSend "orbiter" recipient t.dstDenom t.dstAmount] }
    let c ← c.call φ "bank.Send"
    bankMsgSend cfg c recipient t.dstDenom t.dstAmount
  | _ => .err "intctl:wrong-attributes"

abbrev FwdCtl := Faults → Ctx → TransferAttrs → Forwarding → Res Ctx

def appForwardingRouter (cfg : Cfg) : Int → Option FwdCtl := fun id =>
  if !Gen.forwardingRoutes.contains id then none
  else if id == PROTOCOL_CCTP then some (cctpController cfg)
  else if id == PROTOCOL_HYPERLANE then some (hypController cfg)
  else if id == PROTOCOL_INTERNAL then some (internalController cfg)
  else none

/-- Everything that is fixed once the chain is assembled. -/
structure Wiring where
  cfg : Cfg
  actions : Int → Option ActionCtl
  forwardings : Int → Option FwdCtl
  π : OneofOrder := .bpsLast

def appWiring (cfg : Cfg) (π : OneofOrder := .bpsLast) : Wiring :=
  { cfg := cfg, actions := appActionRouter cfg, forwardings := appForwardingRouter cfg, π := π }

/-! ### executor, forwarder, dispatcher -/

/-- `Executor.HandlePacket`. -/
def executorHandle (wr : Wiring) (φ : Faults) (o : OrbState) (c : Ctx) (t : TransferAttrs) (a : Action) : Res (Ctx × TransferAttrs) := do
  -- validatePacket: ActionPacket.Validate, then the pause flag
  (a.validate >>= fun _ => t.validate).mapErr fun e => "executor:validate:" ++ e
  if o.pausedActions.contains a.id then (.err "executor:action-paused" : Res Unit) else pure ()
  match wr.actions a.id with
  | none => .err "executor:no-controller"
  | some ctl => ctl φ c t a

/-- `Forwarder.HandlePacket`. -/
def forwarderHandle (wr : Wiring) (φ : Faults) (o : OrbState) (c : Ctx) (t : TransferAttrs) (f : Forwarding) : Res Ctx := do
  (f.validate >>= fun _ => t.validate).mapErr fun e => "forwarder:validate:" ++ e
  let at_ ← match f.attrs with
    | some a => (pure a : Res Attrs)
    | none => .err "forwarder:nil-attributes"
  let cp := at_.counterpartyID
  if o.pausedProtocols.contains f.protocolId then (.err "forwarder:protocol-paused" : Res Unit) else pure ()
  if !crossChainValid f.protocolId cp then (.err "forwarder:invalid-cross-chain-id" : Res Unit) else pure ()
  if o.pausedCrossChains.contains (f.protocolId, cp) then (.err "forwarder:cross-chain-paused" : Res Unit) else pure ()
  -- validateInitialConditions: exact equality with the module balance
  if (c.bank.bal wr.cfg.orbAddr t.dstDenom : Int) != t.dstAmount then (.err "forwarder:amount-mismatch" : Res Unit) else pure ()
  match wr.forwardings f.protocolId with
  | none => .err "forwarder:no-controller"
  | some ctl => ctl φ c t f

/-- `dispatchActions`: in payload order, threading the one shared attributes value. -/
def dispatchActions (wr : Wiring) (φ : Faults) (o : OrbState) : List Action → Ctx → TransferAttrs → Res (Ctx × TransferAttrs)
  | [], c, t => .ok (c, t)
  | a :: rest, c, t => do
    let (c, t) ← executorHandle wr φ o c t a
    dispatchActions wr φ o rest c t

/-! #### statistics (keeper/component/dispatcher/stats.go) -/

def upsert {κ ν} [DecidableEq κ] (lt : κ → κ → Bool) (m : List (κ × ν)) (k : κ) (v : ν) : List (κ × ν) :=
  if m.any (·.1 == k) then m.map fun e => if e.1 == k then (k, v) else e
  else
    let rec ins : List (κ × ν) → List (κ × ν)
      | [] => [(k, v)]
      | e :: rest => if lt k e.1 then (k, v) :: e :: rest else e :: ins rest
    ins m

def lookupD {κ ν} [DecidableEq κ] (m : List (κ × ν)) (k : κ) (d : ν) : ν :=
  match m.find? (·.1 == k) with
  | some e => e.2
  | none => d

/-- Byte-wise lexicographic order of strings (`bytes.Compare`). -/
def bytesLt : Bytes → Bytes → Bool
  | [], [] => false
  | [], _ :: _ => true
  | _ :: _, [] => false
  | a :: as, b :: bs => if a < b then true else if a > b then false else bytesLt as bs

/-- collections `Int32Key`: big-endian with the sign bit flipped. -/
def encInt32 (i : Int) : Bytes :=
  let u : Nat := ((i + 2147483648) % 4294967296).toNat
  [UInt8.ofNat (u / 16777216), UInt8.ofNat (u / 65536 % 256), UInt8.ofNat (u / 256 % 256), UInt8.ofNat (u % 256)]

/-- collections `StringKey` in non-terminal position: NUL-terminated. -/
def encStrNT (s : String) : Bytes := strBytes s ++ [0]

def AmtKey.enc (k : AmtKey) : Bytes := encInt32 k.srcProto ++ encStrNT k.srcCp ++ encStrNT k.dstId ++ strBytes k.denom
def CntKey.enc (k : CntKey) : Bytes := encInt32 k.srcProto ++ encStrNT k.srcCp ++ encInt32 k.dstProto ++ strBytes k.dstCp

def amtLt (a b : AmtKey) : Bool := bytesLt a.enc b.enc
def cntLt (a b : CntKey) : Bool := bytesLt a.enc b.enc

/-- `BuildDenomDispatchedAmounts`. -/
def buildDispatched (t : TransferAttrs) : List (String × Int × Int) :=
  if t.srcDenom == t.dstDenom then [(t.srcDenom, t.srcAmount, t.dstAmount)]
  else [(t.srcDenom, t.srcAmount, 0), (t.dstDenom, 0, t.dstAmount)]

def maxUint64 : Nat := 2 ^ 64 - 1

/-- `updateDispatchedAmount`: read-modify-write of one (route, denom) entry; `none` = the checked
addition overflowed (error). -/
def addAmount (o : OrbState) (key : AmtKey) (inc out : Int) : Option OrbState :=
  let cur := lookupD o.amounts key (0, 0)
  let i := if inc > 0 then cur.1 + inc else cur.1
  let u := if out > 0 then cur.2 + out else cur.2
  if overflows256 i || overflows256 u then none
  else some { o with amounts := upsert amtLt o.amounts key (i, u) }

/-- The loop over the one or two entries of `BuildDenomDispatchedAmounts`; stops at the first error,
keeping what was already written. -/
def addAmounts (mk : String → AmtKey) : List (String × Int × Int) → OrbState → OrbState × Bool
  | [], o => (o, true)
  | e :: rest, o =>
    match addAmount o (mk e.1) e.2.1 e.2.2 with
    | none => (o, false)
    | some o' => addAmounts mk rest o'

/-- `updateDispatchedCounts`. -/
def addCount (o : OrbState) (ck : CntKey) : OrbState × Bool :=
  let n := lookupD o.counts ck 0
  if n == maxUint64 then (o, false)
  else ({ o with counts := upsert cntLt o.counts ck (n + 1) }, true)

/-- `UpdateStats`. An error leaves the amounts already written in place (the caller swallows it). -/
def updateStats (o : OrbState) (t : TransferAttrs) (f : Forwarding) : OrbState × Bool :=
  match f.attrs with
  | none => (o, false)
  | some at_ =>
    let dcp := at_.counterpartyID
    if !crossChainValid t.srcProtocol t.srcCounterparty || !crossChainValid f.protocolId dcp then (o, false) else
    let dstId := ccidString f.protocolId dcp
    let mk (denom : String) : AmtKey := { srcProto := t.srcProtocol, srcCp := t.srcCounterparty, dstId := dstId, denom := denom }
    let r := addAmounts mk (buildDispatched t) o
    if !r.2 then (r.1, false)
    else addCount r.1 { srcProto := t.srcProtocol, srcCp := t.srcCounterparty, dstProto := f.protocolId, dstCp := dcp }

/-- `Dispatcher.DispatchPayload`: returns the context, the final attributes and the module state with the
statistics updated (the only write the receive path makes to the module's own store). -/
def dispatchPayload (wr : Wiring) (φ : Faults) (o : OrbState) (c : Ctx) (t : TransferAttrs) (p : Payload) :
    Res (Ctx × TransferAttrs × OrbState) := do
  p.validate.mapErr fun e => "dispatcher:validate:" ++ e
  let (c, t) ← dispatchActions wr φ o p.preActions c t
  let f ← match p.forwarding with
    | some f => (pure f : Res Forwarding)
    | none => .err "dispatcher:nil-forwarding"
  let c ← forwarderHandle wr φ o c t f
  pure (c, t, (updateStats o t f).1)

/-! ### adapter and middleware -/

inductive Parsed where
  | notOrbiter
  | orbiter (t : TransferAttrs) (p : Payload)

/-- `IBCAdapter.ParsePacket` + `Adapter.AdaptPacket`: classification first, then everything that can
refuse an orbiter-addressed packet. -/
def adaptPacket (wr : Wiring) (pkt : Packet) : Res Parsed :=
  match decFTPD pkt.data with
  | none => .ok .notOrbiter
  | some d =>
    match accAddressFromBech32 wr.cfg.hrp d.receiver with
    | none => .ok .notOrbiter
    | some r =>
      if r != wr.cfg.orbAddr then .ok .notOrbiter else do
      let p ← parsePayload wr.π (strBytes d.memo)
      let amt ← match newIntFromString d.amount with
        | some a => (pure a : Res Int)
        | none => .err "adapter:amount"
      let denom ← recoverNativeDenom d.denom pkt.srcPort pkt.srcChan
      if !coinValid denom amt then (.err "adapter:coin" : Res Unit) else pure ()
      let t ← (newTransferAttrs PROTOCOL_IBC pkt.dstChan denom amt).mapErr fun e => "adapter:" ++ e
      pure (.orbiter t p)

/-- `BeforeTransferHook`: passthrough size check, then the sweep of the transferred denom. -/
def beforeTransferHook (wr : Wiring) (φ : Faults) (o : OrbState) (c : Ctx) (t : TransferAttrs) (p : Payload) : Res Ctx := do
  let pass := match p.forwarding with | some f => f.passthrough | none => []
  let limit := o.params.getD 0
  if pass.length > limit then (.err "adapter:passthrough-size" : Res Unit) else pure ()
  let bal := c.bank.bal wr.cfg.orbAddr t.dstDenom
  if bal == 0 then pure c
  else do
    let c ← c.call φ "bank.SendCoinsFromModuleToModule"
    c.send wr.cfg.orbAddr wr.cfg.dustAddr t.dstDenom bal "adapter:sweep"

/-- Where an acknowledgement came from. -/
inductive Ack where
  | success
  | appError (tag : String)     -- error ack of the wrapped stack (ICS-20 or blockibc)
  | orbError (tag : String)     -- error ack built by the orbiter middleware
  | panic (site : String)       -- no acknowledgement: the transaction aborts
  deriving Repr, DecidableEq, Inhabited

def Ack.isSuccess : Ack → Bool | .success => true | _ => false

structure RecvOut where
  ack : Ack
  ctx : Ctx
  orb : OrbState

/-- The wrapped application as seen by the middleware: ICS-20, possibly failed by the fault oracle. -/
def wrappedApp (wr : Wiring) (φ : Faults) (c : Ctx) (pkt : Packet) : Res Ctx := do
  let c ← c.call φ "app.OnRecvPacket"
  ics20Recv wr.cfg c pkt

/-- `ProcessPayload`: dispatch, then the processed event. -/
def processPayload (wr : Wiring) (φ : Faults) (o : OrbState) (c : Ctx) (t : TransferAttrs) (p : Payload) : Res (Ctx × OrbState) := do
  let (c, _, o') ← dispatchPayload wr φ o c t p
  let c ← c.emit φ "EventPayloadProcessed"
  pure (c, o')

/-- `IBCMiddleware.OnRecvPacket`. -/
def mwOnRecv (wr : Wiring) (φ : Faults) (o : OrbState) (c0 : Ctx) (pkt : Packet) : RecvOut :=
  if !crossChainValid PROTOCOL_IBC pkt.dstChan then { ack := .orbError "mw:destination-channel", ctx := c0, orb := o }
  else if pkt.srcPort == "" || pkt.srcChan == "" then { ack := .orbError "mw:empty-source", ctx := c0, orb := o }
  else if !Gen.adapterRoutes.contains PROTOCOL_IBC then { ack := .orbError "mw:no-adapter", ctx := c0, orb := o }
  else
  match adaptPacket wr pkt with
  | .err t => { ack := .orbError t, ctx := c0, orb := o }
  | .panic s => { ack := .panic s, ctx := c0, orb := o }
  | .ok .notOrbiter =>
    (match ics20Recv wr.cfg c0 pkt with
     | .ok c => { ack := .success, ctx := c, orb := o }
     | .err t => { ack := .appError t, ctx := c0, orb := o }
     | .panic s => { ack := .panic s, ctx := c0, orb := o })
  | .ok (.orbiter t p) =>
    match beforeTransferHook wr φ o c0 t p with
    | .err e => { ack := .orbError e, ctx := c0, orb := o }
    | .panic s => { ack := .panic s, ctx := c0, orb := o }
    | .ok c1 =>
      match wrappedApp wr φ c1 pkt with
      | .err e => { ack := .appError e, ctx := c0, orb := o }
      | .panic s => { ack := .panic s, ctx := c0, orb := o }
      | .ok c2 =>
        match processPayload wr φ o c2 t p with
        | .ok (c3, o') => { ack := .success, ctx := c3, orb := o' }
        | .err e => { ack := .orbError e, ctx := c0, orb := o }
        | .panic s => { ack := .panic s, ctx := c0, orb := o }

/-- The app's transfer stack: blockibc → orbiter → ICS-20. -/
def stackOnRecv (wr : Wiring) (φ : Faults) (o : OrbState) (c0 : Ctx) (pkt : Packet) : RecvOut :=
  match blockibcCheck c0 pkt with
  | .err t => { ack := .appError t, ctx := c0, orb := o }
  | .panic s => { ack := .panic s, ctx := c0, orb := o }
  | .ok _ => mwOnRecv wr φ o c0 pkt

/-- The stack without the orbiter middleware (the reference of C07). -/
def bareOnRecv (wr : Wiring) (o : OrbState) (c0 : Ctx) (pkt : Packet) : RecvOut :=
  match blockibcCheck c0 pkt with
  | .err t => { ack := .appError t, ctx := c0, orb := o }
  | .panic s => { ack := .panic s, ctx := c0, orb := o }
  | .ok _ =>
    match ics20Recv wr.cfg c0 pkt with
    | .ok c => { ack := .success, ctx := c, orb := o }
    | .err t => { ack := .appError t, ctx := c0, orb := o }
    | .panic s => { ack := .panic s, ctx := c0, orb := o }

def ctxOf (w : World) : Ctx := { bank := w.bank, ext := w.ext }

/-- ibc-go core `RecvPacket`: the cached state is committed iff the acknowledgement is a success. -/
def ibcRecv (wr : Wiring) (φ : Faults) (w : World) (pkt : Packet) : RecvOut :=
  let out := stackOnRecv wr φ w.orb (ctxOf w) pkt
  if out.ack.isSuccess then out else { ack := out.ack, ctx := ctxOf w, orb := w.orb }

/-- The committed world after a receive. -/
def RecvOut.world (r : RecvOut) : World := { orb := r.orb, bank := r.ctx.bank, ext := r.ctx.ext }

end Orbiter
