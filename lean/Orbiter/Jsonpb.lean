/-
  Orbiter.Jsonpb — what gogoproto jsonpb (AllowUnknownFields = false) + the SDK interface registry do
  for exactly the orbiter payload schema, tree → message, followed by the binary normalisation of the
  Any values (DESIGN.md Appendix C).  Where the real decoder's result depends on Go map iteration
  order (two members of a oneof present) the order is the explicit oracle `π`.
-/
import Orbiter.Json
import Orbiter.Codec
import Orbiter.Types
import Orbiter.Gen.Facts
namespace Orbiter

abbrev Fields := List (String × Json)

/-- Which oneof member jsonpb visits last when both are present (Go map order). -/
inductive OneofOrder where
  | bpsLast
  | amountLast
  deriving Repr, DecidableEq, Inhabited

/-- `consumeField`: the camel-case spelling wins when both are present; both are consumed. -/
def takeField (fs : Fields) (orig camel : String) : Option Json × Fields :=
  let vO := Json.lookupLast fs orig
  let vC := Json.lookupLast fs camel
  (match vC with | some v => some v | none => vO, Json.eraseKey (Json.eraseKey fs orig) camel)

/-- `json.Unmarshal(raw, &map[string]RawMessage)` for a nested message value. -/
def asObject (j : Json) : Dec Fields :=
  match j with
  | .obj fs => .ok fs
  | .null => .ok []
  | _ => .err "jsonpb:not-an-object"

def noUnknown (fs : Fields) : Dec Unit :=
  if fs.isEmpty then .ok () else .err "jsonpb:unknown-field"

def decString (j : Json) : Dec String :=
  match j with
  | .str v _ => .ok v
  | .null => .ok ""
  | _ => .err "jsonpb:string"

/-- A JSON number literal as an unsigned integer below `bound` (`strconv.ParseUint` + overflow). -/
def uintOfLiteral (raw : String) (bound : Nat) : Dec Nat :=
  if allDigits raw.toList then
    let n := decVal raw.toList
    if n < bound then .ok n else .err "jsonpb:uint-range"
  else .err "jsonpb:uint-literal"

def intOfLiteral (raw : String) (lo hi : Int) : Dec Int :=
  let go (neg : Bool) (ds : List Char) : Dec Int :=
    if allDigits ds then
      let n : Int := if neg then - Int.ofNat (decVal ds) else Int.ofNat (decVal ds)
      if lo ≤ n && n ≤ hi then .ok n else .err "jsonpb:int-range"
    else .err "jsonpb:int-literal"
  match raw.toList with
  | '-' :: ds => go true ds
  | ds => go false ds

/-- uint32: a number, `null` (no effect), or a quoted number whose raw inner text is re-parsed. -/
def decUint32 (j : Json) : Dec Nat :=
  match j with
  | .num raw => uintOfLiteral raw (2 ^ 32)
  | .null => .ok 0
  | .str v plain =>
      if !plain then .err "jsonpb:quoted-uint" else
      match parseJsonWhole (strBytes v) with
      | some (.num raw) => uintOfLiteral raw (2 ^ 32)
      | some .null => .ok 0
      | _ => .err "jsonpb:quoted-uint"
  | _ => .err "jsonpb:uint"

/-- Enum: quoted ⇒ looked up by name on the raw text; unquoted number ⇒ any int32; null ⇒ 0. -/
def decEnum (names : List (Int × String)) (j : Json) : Dec Int :=
  match j with
  | .str v plain =>
      if !plain then .err "jsonpb:enum-name" else
      match names.find? (·.2 == v) with
      | some (n, _) => .ok n
      | none => .err "jsonpb:enum-name"
  | .num raw => intOfLiteral raw (-(2 ^ 31)) (2 ^ 31 - 1)
  | .null => .ok 0
  | _ => .err "jsonpb:enum"

/-- `[]byte`: base64 string, `null`, or (encoding/json) an array of uint8 literals / nulls. -/
def decBytes (j : Json) : Dec Bytes :=
  match j with
  | .str v _ => match b64Decode (strBytes v) with
      | some b => .ok b
      | none => .err "jsonpb:base64"
  | .null => .ok []
  | .arr items =>
      items.mapM fun it => match it with
        | .num raw => (uintOfLiteral raw 256).map UInt8.ofNat
        | .null => .ok 0
        | _ => .err "jsonpb:bytes-array"
  | _ => .err "jsonpb:bytes"

/-- customtype `math.Int`: `Int.UnmarshalJSON` is called whatever the JSON value is. -/
def decMathInt (j : Json) : Dec Int :=
  let text : Dec String := match j with
    | .str v _ => .ok v
    | .null => .ok ""
    | _ => .err "jsonpb:mathint-not-string"
  text >>= fun t => match parseBigInt0 t with
    | some i => if overflows256 i then .err "jsonpb:mathint-range" else .ok i
    | none => .err "jsonpb:mathint-text"

/-- Non-pointer nested `Coin {denom, amount}`; an absent amount is the nil Int, which the binary
round trip turns into 0. -/
def decCoin (j : Json) : Dec (String × Int) := do
  let fs ← asObject j
  let (d, fs) := takeField fs "denom" "denom"
  let (a, fs) := takeField fs "amount" "amount"
  let denom ← match d with | some v => decString v | none => pure ""
  let amt ← match a with | some v => decMathInt v | none => pure 0
  noUnknown fs
  pure (denom, amt)

/-- Pointer to a message holding one scalar field `value`. `null` leaves the pointer nil. -/
def decValueMsg {α} (dec : Json → Dec α) (dflt : α) (j : Json) : Dec (Option α) :=
  match j with
  | .null => .ok none
  | _ => do
    let fs ← asObject j
    let (v, fs) := takeField fs "value" "value"
    let r ← match v with | some x => dec x | none => pure dflt
    noUnknown fs
    pure (some r)

/-- A oneof member that may be absent: `none` = key absent, `some none` = present with a nil message. -/
def decOptMember {α} (dec : Json → Dec (Option α)) (o : Option Json) : Dec (Option (Option α)) :=
  match o with
  | some v => (dec v).map some
  | none => .ok none

/-- Which member of the oneof stays: when both are present, the one jsonpb visits last (`π`). -/
def pickFeeType (π : OneofOrder) (bv : Option (Option Nat)) (av : Option (Option String)) : FeeType :=
  let asBps : Option Nat → FeeType := fun o => match o with | some n => .bps n | none => .unset
  let asAmt : Option String → FeeType := fun o => match o with | some s => .amount s | none => .unset
  match bv, av with
  | none, none => .unset
  | some x, none => asBps x
  | none, some y => asAmt y
  | some x, some y => match π with
    | .bpsLast => asBps x
    | .amountLast => asAmt y

/-- Both members are decoded (an error in either aborts); the one visited last stays. -/
def decFeeInfo (π : OneofOrder) (j : Json) : Dec FeeInfo :=
  asObject j >>= fun fs =>
  let r := takeField fs "recipient" "recipient"
  let b := takeField r.2 "basis_points" "basisPoints"
  let a := takeField b.2 "amount" "amount"
  (match r.1 with | some v => decString v | none => pure "") >>= fun recipient =>
  decOptMember (decValueMsg decUint32 0) b.1 >>= fun bv =>
  decOptMember (decValueMsg decString "") a.1 >>= fun av =>
  noUnknown a.2 >>= fun _ =>
  pure { recipient := recipient, feeType := pickFeeType π bv av }

/-- Repeated pointer-to-message field. `null` elements stay nil pointers in Go; the caller decides. -/
def decRepeated {α} (dec : Json → Dec α) (j : Json) : Dec (List (Option α)) :=
  match j with
  | .null => .ok []
  | .arr items => items.mapM fun it => match it with
      | .null => .ok none
      | x => (dec x).map some
  | _ => .err "jsonpb:not-an-array"

def cctpUrl : String := "/noble.orbiter.controller.forwarding.v1.CCTPAttributes"
def hypUrl : String := "/noble.orbiter.controller.forwarding.v1.HypAttributes"
def internalUrl : String := "/noble.orbiter.controller.forwarding.v1.InternalAttributes"
def feeUrl : String := "/noble.orbiter.controller.action.v2.FeeAttributes"

def decCCTP (fs : Fields) : Dec Attrs := do
  let (d, fs) := takeField fs "destination_domain" "destinationDomain"
  let (m, fs) := takeField fs "mint_recipient" "mintRecipient"
  let (c, fs) := takeField fs "destination_caller" "destinationCaller"
  let domain ← match d with | some v => decUint32 v | none => pure 0
  let mint ← match m with | some v => decBytes v | none => pure []
  let caller ← match c with | some v => decBytes v | none => pure []
  noUnknown fs
  pure (.cctp domain mint caller)

def decHyp (fs : Fields) : Dec Attrs := do
  let (t, fs) := takeField fs "token_id" "tokenId"
  let (d, fs) := takeField fs "destination_domain" "destinationDomain"
  let (r, fs) := takeField fs "recipient" "recipient"
  let (h, fs) := takeField fs "custom_hook_id" "customHookId"
  let (hm, fs) := takeField fs "custom_hook_metadata" "customHookMetadata"
  let (g, fs) := takeField fs "gas_limit" "gasLimit"
  let (mf, fs) := takeField fs "max_fee" "maxFee"
  let tok ← match t with | some v => decBytes v | none => pure []
  let domain ← match d with | some v => decUint32 v | none => pure 0
  let rec_ ← match r with | some v => decBytes v | none => pure []
  let hook ← match h with | some v => decBytes v | none => pure []
  let hmeta ← match hm with | some v => decString v | none => pure ""
  let gas ← match g with | some v => decMathInt v | none => pure 0
  let fee ← match mf with | some v => decCoin v | none => pure ("", 0)
  noUnknown fs
  pure (.hyp tok domain rec_ hook hmeta gas fee.1 fee.2)

def decInternal (fs : Fields) : Dec Attrs := do
  let (r, fs) := takeField fs "recipient" "recipient"
  let recipient ← match r with | some v => decString v | none => pure ""
  noUnknown fs
  pure (.internal recipient)

/-- FeeAttributes; a `null` element of `fees_info` makes the generated marshaller panic when the
decoded message is packed into `Any.Value`. -/
def decFee (π : OneofOrder) (fs : Fields) : Res Attrs := do
  let (f, fs) := takeField fs "fees_info" "feesInfo"
  let infos ← (match f with | some v => decRepeated (decFeeInfo π) v | none => pure []).toRes
  (noUnknown fs).toRes
  if infos.any Option.isNone then .panic "FeeAttributes.Marshal:nil-element"
  else pure (.fee (infos.filterMap id))

/-- `Any`: pointer; `@type` must be a non-null string naming a registered type. `known` is the set
of type URLs the resolver can resolve. -/
def decAny (π : OneofOrder) (j : Json) : Res (Option Attrs) :=
  match j with
  | .null => .ok none
  | .obj fs =>
    match Json.lookupLast fs "@type" with
    | none => .err "jsonpb:any-no-type"
    | some .null => .err "jsonpb:any-no-type"
    | some (.str url _) =>
      let rest := Json.eraseKey fs "@type"
      if url == cctpUrl then ((decCCTP rest).map some).toRes
      else if url == hypUrl then ((decHyp rest).map some).toRes
      else if url == internalUrl then ((decInternal rest).map some).toRes
      else if url == feeUrl then (decFee π rest).map some
      else .err "jsonpb:any-unresolved"
    | some _ => .err "jsonpb:any-type-not-string"
  | _ => .err "jsonpb:any-not-object"

def decAction (π : OneofOrder) (j : Json) : Res Action := do
  let fs ← (asObject j).toRes
  let (i, fs) := takeField fs "id" "id"
  let (a, fs) := takeField fs "attributes" "attributes"
  let id ← (match i with | some v => decEnum Gen.actionIds v | none => pure 0).toRes
  let attrs ← match a with | some v => decAny π v | none => pure none
  (noUnknown fs).toRes
  pure { id := id, attrs := attrs }

def decForwarding (π : OneofOrder) (j : Json) : Res Forwarding := do
  let fs ← (asObject j).toRes
  let (p, fs) := takeField fs "protocol_id" "protocolId"
  let (a, fs) := takeField fs "attributes" "attributes"
  let (pt, fs) := takeField fs "passthrough_payload" "passthroughPayload"
  let pid ← (match p with | some v => decEnum Gen.protocolIds v | none => pure 0).toRes
  let attrs ← match a with | some v => decAny π v | none => pure none
  let pass ← (match pt with | some v => decBytes v | none => pure []).toRes
  (noUnknown fs).toRes
  pure { protocolId := pid, attrs := attrs, passthrough := pass }

/-- Result of decoding `pre_actions`: nil elements are kept (as `none`) because the code that
follows — `UnpackInterfaces`, `Validate` — treats them differently. -/
structure RawPayload where
  forwarding : Option Forwarding
  preActions : List (Option Action)
  deriving Repr, Inhabited

/-- `decRepeated` for element decoders that may panic (the `Any` packing inside an action). -/
def decRepeatedR {α} (dec : Json → Res α) (j : Json) : Res (List (Option α)) :=
  match j with
  | .null => .ok []
  | .arr items => items.mapM fun it => match it with
      | .null => .ok none
      | x => (dec x).map some
  | _ => .err "jsonpb:not-an-array"

def decPayload (π : OneofOrder) (j : Json) : Res RawPayload := do
  let fs ← (asObject j).toRes
  let (pa, fs) := takeField fs "pre_actions" "preActions"
  let (fw, fs) := takeField fs "forwarding" "forwarding"
  let acts ← match pa with | some v => decRepeatedR (decAction π) v | none => pure []
  let fwd ← match fw with
    | some .null => pure none
    | some v => (decForwarding π v).map some
    | none => pure none
  (noUnknown fs).toRes
  pure { forwarding := fwd, preActions := acts }

/-- The value under the root key: a nil payload pointer is refused when the interfaces are unpacked. -/
def decOrbiterValue (π : OneofOrder) (o : Option Json) : Res RawPayload :=
  match o with
  | some .null => .err "unpack:nil-payload"
  | some v => decPayload π v
  | none => .err "unpack:nil-payload"

def checkActionFamily (a : Option Action) : Res Unit :=
  match a with
  | some { attrs := some at_, .. } => if !at_.isAction then .err "unpack:not-action-attributes" else .ok ()
  | _ => .ok ()

def checkForwardingFamily (f : Option Forwarding) : Res Unit :=
  match f with
  | some { attrs := some at_, .. } => if !at_.isForwarding then .err "unpack:not-forwarding-attributes" else .ok ()
  | _ => .ok ()

/-- `UnpackInterfaces`: the attribute family must match the field's interface. -/
def unpackInterfaces (p : RawPayload) : Res RawPayload :=
  Res.allM checkActionFamily p.preActions >>= fun _ => checkForwardingFamily p.forwarding >>= fun _ => pure p

/-- `PayloadWrapper` + `UnpackInterfaces`. -/
def decWrapper (π : OneofOrder) (j : Json) : Res RawPayload :=
  (asObject j).toRes >>= fun fs =>
  decOrbiterValue π (takeField fs Gen.orbiterPrefix Gen.orbiterPrefix).1 >>= fun p =>
  (noUnknown (takeField fs Gen.orbiterPrefix Gen.orbiterPrefix).2).toRes >>= fun _ =>
  unpackInterfaces p

/-- ICS-20 packet data (`transfertypes.ModuleCdc.UnmarshalJSON`): first JSON value of the stream,
five string fields, unknown fields rejected. -/
def decFTPD (data : Bytes) : Option FTPD :=
  match parseJsonFirst data with
  | some (.obj fs) =>
    let r : Dec FTPD := do
      let (d, fs) := takeField fs "denom" "denom"
      let (a, fs) := takeField fs "amount" "amount"
      let (s, fs) := takeField fs "sender" "sender"
      let (r, fs) := takeField fs "receiver" "receiver"
      let (m, fs) := takeField fs "memo" "memo"
      let denom ← match d with | some v => decString v | none => pure ""
      let amount ← match a with | some v => decString v | none => pure ""
      let sender ← match s with | some v => decString v | none => pure ""
      let receiver ← match r with | some v => decString v | none => pure ""
      let memo ← match m with | some v => decString v | none => pure ""
      noUnknown fs
      pure { denom, amount, sender, receiver, memo }
    match r with | .ok x => some x | _ => none
  | some .null => some { denom := "", amount := "", sender := "", receiver := "", memo := "" }
  | _ => none

end Orbiter
