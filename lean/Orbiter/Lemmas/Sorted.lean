/-
  The stored lists are sorted in the byte order of their key encodings, in every reachable state; hence an
  export/import round trip reproduces the store exactly (C17) and the listings are sorted (C13).
-/
import Orbiter.Lemmas.Order
import Orbiter.Lemmas.Reach
namespace Orbiter

structure OrbState.Srt (o : OrbState) : Prop where
  pp : SortedBy intLt o.pausedProtocols
  pc : SortedBy ccLt o.pausedCrossChains
  pa : SortedBy intLt o.pausedActions
  amt : SortedBy amtLt (o.amounts.map (·.1))
  cnt : SortedBy cntLt (o.counts.map (·.1))

theorem OrbState.Srt_empty : OrbState.Srt {} :=
  ⟨List.Pairwise.nil, List.Pairwise.nil, List.Pairwise.nil, List.Pairwise.nil, List.Pairwise.nil⟩

/-- Invariant and sortedness together. -/
def OrbState.Good (o : OrbState) : Prop := o.Inv ∧ o.Srt

theorem range_of_valid {p : Int} {cp : String} (h : crossChainValid p cp = true) : int32Range p := by
  have := C20.protocolValid_range (by simp only [crossChainValid, Bool.and_eq_true] at h; exact h.1)
  unfold int32Range; omega

theorem amtKeyOk_of_valid {e : AmtKey × (Int × Int)} (h : amtEntryValid e) : amtKeyOk e.1 := by
  obtain ⟨hs, ⟨p, cp, hv, hd⟩, _⟩ := h
  exact ⟨range_of_valid hs, crossChainValid_noNul hs, by rw [hd]; exact ccidString_noNul (crossChainValid_noNul hv)⟩

theorem cntKeyOk_of_valid {e : CntKey × Nat} (h : cntEntryValid e) : cntKeyOk e.1 := by
  obtain ⟨hs, hd, _⟩ := h
  exact ⟨range_of_valid hs, range_of_valid hd, crossChainValid_noNul hs⟩

theorem sorted_erase {α} [BEq α] [LawfulBEq α] (lt : α → α → Bool) (l : List α) (x : α) (h : SortedBy lt l) : SortedBy lt (l.erase x) :=
  List.Pairwise.sublist List.erase_sublist h

/-! ### the setters -/

theorem setPausedProtocol_good {o o' : OrbState} {p : Int} (hg : o.Good) (h : setPausedProtocol o p = .ok o') : o'.Good := by
  refine ⟨setPausedProtocol_inv hg.1 h, ?_⟩
  obtain ⟨hc, rfl⟩ := setPausedProtocol_spec h
  exact ⟨sorted_insertBy intLt_strict p _ trivial (fun _ _ => trivial) (by simpa using hc) hg.2.pp, hg.2.pc, hg.2.pa, hg.2.amt, hg.2.cnt⟩

theorem setUnpausedProtocol_good {o o' : OrbState} {p : Int} (hg : o.Good) (h : setUnpausedProtocol o p = .ok o') : o'.Good := by
  refine ⟨setUnpausedProtocol_inv hg.1 h, ?_⟩
  obtain ⟨_, rfl⟩ := setUnpausedProtocol_spec h
  exact ⟨sorted_erase _ _ _ hg.2.pp, hg.2.pc, hg.2.pa, hg.2.amt, hg.2.cnt⟩

theorem setPausedCrossChain_good {o o' : OrbState} {p : Int} {c : String} (hg : o.Good) (h : setPausedCrossChain o p c = .ok o') : o'.Good := by
  refine ⟨setPausedCrossChain_inv hg.1 h, ?_⟩
  obtain ⟨hc, hv, rfl⟩ := setPausedCrossChain_spec h
  refine ⟨hg.2.pp, ?_, hg.2.pa, hg.2.amt, hg.2.cnt⟩
  exact sorted_insertBy ccLt_strict (p, c) _ (range_of_valid hv) (fun y hy => range_of_valid (hg.1.pc_valid y hy)) (by simpa using hc) hg.2.pc

theorem setUnpausedCrossChain_good {o o' : OrbState} {p : Int} {c : String} (hg : o.Good) (h : setUnpausedCrossChain o p c = .ok o') : o'.Good := by
  refine ⟨setUnpausedCrossChain_inv hg.1 h, ?_⟩
  obtain ⟨_, rfl⟩ := setUnpausedCrossChain_spec h
  exact ⟨hg.2.pp, sorted_erase _ _ _ hg.2.pc, hg.2.pa, hg.2.amt, hg.2.cnt⟩

theorem setPausedAction_good {o o' : OrbState} {a : Int} (hg : o.Good) (h : setPausedAction o a = .ok o') : o'.Good := by
  refine ⟨setPausedAction_inv hg.1 h, ?_⟩
  obtain ⟨hc, _, rfl⟩ := setPausedAction_spec h
  exact ⟨hg.2.pp, hg.2.pc, sorted_insertBy intLt_strict a _ trivial (fun _ _ => trivial) (by simpa using hc) hg.2.pa, hg.2.amt, hg.2.cnt⟩

theorem setUnpausedAction_good {o o' : OrbState} {a : Int} (hg : o.Good) (h : setUnpausedAction o a = .ok o') : o'.Good := by
  refine ⟨setUnpausedAction_inv hg.1 h, ?_⟩
  obtain ⟨_, rfl⟩ := setUnpausedAction_spec h
  exact ⟨hg.2.pp, hg.2.pc, sorted_erase _ _ _ hg.2.pa, hg.2.amt, hg.2.cnt⟩

/-- A predicate preserved by the six setters and by a parameter update is preserved by every message. -/
theorem msgStep_preserves (Q : OrbState → Prop)
    (h1 : ∀ o o' p, Q o → setPausedProtocol o p = .ok o' → Q o') (h2 : ∀ o o' p, Q o → setUnpausedProtocol o p = .ok o' → Q o')
    (h3 : ∀ o o' p c, Q o → setPausedCrossChain o p c = .ok o' → Q o') (h4 : ∀ o o' p c, Q o → setUnpausedCrossChain o p c = .ok o' → Q o')
    (h5 : ∀ o o' a, Q o → setPausedAction o a = .ok o' → Q o') (h6 : ∀ o o' a, Q o → setUnpausedAction o a = .ok o' → Q o')
    (h7 : ∀ o n, Q o → Q { o with params := some n })
    {cfg : Cfg} {φ : Faults} {o o' : OrbState} {m : Msg} {evs : List String} {rq : List Req} (hq : Q o)
    (h : msgStep cfg φ o m = .ok (o', evs, rq)) : Q o' := by
  have hfp : ∀ b (o o' : OrbState) p ids, Q o → forwarderPause b o p ids = .ok o' → Q o' := by
    intro b o o' p ids hq h
    unfold forwarderPause at h
    split at h
    · cases h
    · split at h
      · cases b
        · exact h2 _ _ _ hq h
        · exact h1 _ _ _ hq h
      · split at h
        · cases h
        · refine Res.foldlM_inv _ Q ?_ ids o o' hq h
          intro b1 a b2 hb hs
          cases b
          · simp only [Bool.false_eq_true, ↓reduceIte] at hs; exact h4 _ _ _ _ hb hs
          · simp only [↓reduceIte] at hs; exact h3 _ _ _ _ hb hs
  unfold msgStep at h
  split at h
  · cases h
  · cases m with
    | updateParams s n =>
      simp only [Res.ok.injEq, Prod.mk.injEq] at h
      obtain ⟨rfl, _, _⟩ := h
      exact h7 o n hq
    | replaceDepositForBurn s a b c d => simp only at h; split at h <;> cases h
    | pauseProtocol s pid =>
      simp only at h
      cases hp : protocolIdFromString pid with
      | none => simp [hp] at h
      | some p =>
        simp only [hp] at h
        obtain ⟨o1, hf, h⟩ := Res.bind_eq_ok.mp h
        obtain ⟨_, _, h⟩ := Res.bind_eq_ok.mp h
        cases h
        exact hfp _ _ _ _ _ hq hf
    | unpauseProtocol s pid =>
      simp only at h
      cases hp : protocolIdFromString pid with
      | none => simp [hp] at h
      | some p =>
        simp only [hp] at h
        obtain ⟨o1, hf, h⟩ := Res.bind_eq_ok.mp h
        obtain ⟨_, _, h⟩ := Res.bind_eq_ok.mp h
        cases h
        exact hfp _ _ _ _ _ hq hf
    | pauseCrossChains s pid ids =>
      simp only at h
      cases hp : protocolIdFromString pid with
      | none => simp [hp] at h
      | some p =>
        simp only [hp] at h
        split at h
        · cases h
        · obtain ⟨o1, hf, h⟩ := Res.bind_eq_ok.mp h
          obtain ⟨_, _, h⟩ := Res.bind_eq_ok.mp h
          cases h
          exact hfp _ _ _ _ _ hq hf
    | unpauseCrossChains s pid ids =>
      simp only at h
      cases hp : protocolIdFromString pid with
      | none => simp [hp] at h
      | some p =>
        simp only [hp] at h
        split at h
        · cases h
        · obtain ⟨o1, hf, h⟩ := Res.bind_eq_ok.mp h
          obtain ⟨_, _, h⟩ := Res.bind_eq_ok.mp h
          cases h
          exact hfp _ _ _ _ _ hq hf
    | pauseAction s aid =>
      simp only at h
      cases hp : actionIdFromString aid with
      | none => simp [hp] at h
      | some a =>
        simp only [hp] at h
        obtain ⟨o1, hf, h⟩ := Res.bind_eq_ok.mp h
        obtain ⟨_, _, h⟩ := Res.bind_eq_ok.mp h
        cases h
        exact h5 _ _ _ hq hf
    | unpauseAction s aid =>
      simp only at h
      cases hp : actionIdFromString aid with
      | none => simp [hp] at h
      | some a =>
        simp only [hp] at h
        obtain ⟨o1, hf, h⟩ := Res.bind_eq_ok.mp h
        obtain ⟨_, _, h⟩ := Res.bind_eq_ok.mp h
        cases h
        exact h6 _ _ _ hq hf

theorem msgStep_good {cfg : Cfg} {φ : Faults} {o o' : OrbState} {m : Msg} {evs : List String} {rq : List Req} (hg : o.Good)
    (h : msgStep cfg φ o m = .ok (o', evs, rq)) : o'.Good :=
  msgStep_preserves OrbState.Good (fun _ _ _ => setPausedProtocol_good) (fun _ _ _ => setUnpausedProtocol_good)
    (fun _ _ _ _ => setPausedCrossChain_good) (fun _ _ _ _ => setUnpausedCrossChain_good)
    (fun _ _ _ => setPausedAction_good) (fun _ _ _ => setUnpausedAction_good)
    (fun o n hg => ⟨⟨hg.1.pp_nodup, hg.1.pp_valid, hg.1.pc_nodup, hg.1.pc_valid, hg.1.pa_nodup, hg.1.pa_valid, hg.1.amt_keys, hg.1.amt_valid,
      hg.1.cnt_keys, hg.1.cnt_valid⟩, ⟨hg.2.pp, hg.2.pc, hg.2.pa, hg.2.amt, hg.2.cnt⟩⟩) hg h

/-! ### the statistics update -/

theorem addAmount_srt {o o' : OrbState} {k : AmtKey} {i u : Int} (hg : o.Good) (hk : amtKeyOk k)
    (h : addAmount o k i u = some o') : o'.Srt := by
  unfold addAmount at h
  simp only at h
  generalize hc : (overflows256 _ || overflows256 _) = cnd at h
  cases cnd with
  | true => simp at h
  | false =>
    simp only [Bool.false_eq_true, ↓reduceIte, Option.some.injEq] at h
    subst h
    exact ⟨hg.2.pp, hg.2.pc, hg.2.pa,
      sorted_keys_upsert amtLt_strict o.amounts k _ hk (fun e he => amtKeyOk_of_valid (hg.1.amt_valid e he)) hg.2.amt, hg.2.cnt⟩

theorem addAmounts_good (mk : String → AmtKey) (l : List (String × Int × Int)) (o : OrbState) (hg : o.Good)
    (hl : ∀ e ∈ l, crossChainValid (mk e.1).srcProto (mk e.1).srcCp = true ∧
      (∃ p cp, crossChainValid p cp = true ∧ (mk e.1).dstId = ccidString p cp) ∧ (mk e.1).denom ≠ "" ∧
      e.2.1 ≥ 0 ∧ e.2.2 ≥ 0 ∧ (e.2.1 > 0 ∨ e.2.2 > 0)) :
    (addAmounts mk l o).1.Good := by
  induction l generalizing o with
  | nil => exact hg
  | cons e rest ih =>
    simp only [addAmounts]
    cases h : addAmount o (mk e.1) e.2.1 e.2.2 with
    | none => exact hg
    | some o' =>
      simp only
      obtain ⟨h1, h2, h3, h4, h5, h6⟩ := hl e List.mem_cons_self
      have hk : amtKeyOk (mk e.1) := by
        obtain ⟨p, cp, hv, hd⟩ := h2
        exact ⟨range_of_valid h1, crossChainValid_noNul h1, by rw [hd]; exact ccidString_noNul (crossChainValid_noNul hv)⟩
      exact ih o' ⟨addAmount_inv hg.1 h1 h2 h3 h4 h5 h6 h, addAmount_srt hg hk h⟩ (fun x hx => hl x (List.mem_cons_of_mem _ hx))

theorem addCount_good (o : OrbState) (ck : CntKey) (hg : o.Good)
    (h1 : crossChainValid ck.srcProto ck.srcCp = true) (h2 : crossChainValid ck.dstProto ck.dstCp = true) :
    (addCount o ck).1.Good := by
  refine ⟨addCount_inv o ck hg.1 h1 h2, ?_⟩
  unfold addCount
  simp only
  split
  · exact hg.2
  · exact ⟨hg.2.pp, hg.2.pc, hg.2.pa, hg.2.amt,
      sorted_keys_upsert cntLt_strict o.counts ck _ ⟨range_of_valid h1, range_of_valid h2, crossChainValid_noNul h1⟩
        (fun e he => cntKeyOk_of_valid (hg.1.cnt_valid e he)) hg.2.cnt⟩

theorem updateStats_good (o : OrbState) (t : TransferAttrs) (f : Forwarding) (hg : o.Good)
    (hsa : t.srcAmount > 0) (hda : t.dstAmount > 0) (hsd : t.srcDenom ≠ "") (hdd : t.dstDenom ≠ "") :
    (updateStats o t f).1.Good := by
  unfold updateStats
  cases ha : f.attrs with
  | none => exact hg
  | some a =>
    simp only
    split
    · exact hg
    · rename_i hv
      have hv1 : crossChainValid t.srcProtocol t.srcCounterparty = true := by
        cases h : crossChainValid t.srcProtocol t.srcCounterparty with
        | true => rfl
        | false => simp [h] at hv
      have hv2 : crossChainValid f.protocolId a.counterpartyID = true := by
        cases h : crossChainValid f.protocolId a.counterpartyID with
        | true => rfl
        | false => simp [h] at hv
      have hA : (addAmounts (fun denom => ({ srcProto := t.srcProtocol, srcCp := t.srcCounterparty, dstId := ccidString f.protocolId a.counterpartyID, denom := denom } : AmtKey)) (buildDispatched t) o).1.Good := by
        apply addAmounts_good _ _ _ hg
        intro e he
        refine ⟨hv1, ⟨f.protocolId, a.counterpartyID, hv2, rfl⟩, ?_⟩
        unfold buildDispatched at he
        split at he
        · simp only [List.mem_singleton] at he
          subst he
          exact ⟨hsd, by simp only; omega, by simp only; omega, Or.inl hsa⟩
        · simp only [List.mem_cons, List.mem_nil_iff, or_false] at he
          rcases he with rfl | rfl
          · exact ⟨hsd, by simp only; omega, by simp only; omega, Or.inl hsa⟩
          · exact ⟨hdd, by simp only; omega, by simp only; omega, Or.inr hda⟩
      split
      · exact hA
      · exact addCount_good _ _ hA hv1 hv2

theorem ibcRecv_good (wr : Wiring) (φ : Faults) (w : World) (pkt : Packet) (hg : w.orb.Good) : (ibcRecv wr φ w pkt).orb.Good := by
  cases hs : (ibcRecv wr φ w pkt).ack.isSuccess with
  | false => rw [C12.c12_refused_unchanged wr φ w pkt hs]; exact hg
  | true =>
    have he := ibcRecv_success hs
    have hs' := hs
    rw [he] at hs'
    rcases mwOnRecv_success_cases hs' with ⟨hno, _⟩ | ⟨t, p, ha⟩
    · rw [C12.c12_foreign_unchanged wr φ w pkt hno]; exact hg
    · obtain ⟨c1, c2, c3, t3, _, _, hd, _⟩ := ibcRecv_success_dispatch hs ha
      obtain ⟨c4, f, _, _, _, hfw, ho⟩ := dispatchPayload_ok hd
      rw [ho]
      obtain ⟨_, h2, h3, h4, h5⟩ := transfer_validate_ok (forwarder_ok_transfer_valid hfw)
      simp only [coinValid, Bool.and_eq_true] at h2 h4
      exact updateStats_good w.orb t3 f hg h3 h5 (validDenom_ne_empty h2.1) (validDenom_ne_empty h4.1)

/-! ### the exact round trip -/

theorem asPanic_ok' (o : OrbState) : asPanic (.ok o) = .ok o := rfl

theorem sorted_gt_of_append {α} {lt : α → α → Bool} {acc : List α} {x : α} {xs : List α} (hs : SortedBy lt (acc ++ x :: xs)) :
    ∀ y ∈ acc, lt y x = true := by
  intro y hy
  unfold SortedBy at hs
  rw [List.pairwise_append] at hs
  exact hs.2.2 y hy x List.mem_cons_self

theorem fold_setPausedProtocol_exact (l : List Int) (o : OrbState) (hs : SortedBy intLt (o.pausedProtocols ++ l))
    (hv : ∀ p ∈ l, protocolValid p = true) :
    l.foldlM (fun o p => asPanic (setPausedProtocol o p)) o = .ok { o with pausedProtocols := o.pausedProtocols ++ l } := by
  induction l generalizing o with
  | nil => simp
  | cons x xs ih =>
    have hgt := sorted_gt_of_append hs
    have hnot : x ∉ o.pausedProtocols := by
      intro hm
      have := hgt x hm
      rw [intLt_strict.irrefl] at this; cases this
    have hx : setPausedProtocol o x = .ok { o with pausedProtocols := o.pausedProtocols ++ [x] } := by
      simp [setPausedProtocol, hv x List.mem_cons_self, hnot, insertBy_append intLt_strict x _ hgt]
    simp only [List.foldlM_cons, hx, asPanic_ok', Res.bind_ok]
    rw [ih _ (by simpa using hs) (fun p hp => hv p (List.mem_cons_of_mem _ hp))]
    simp

theorem fold_setPausedCrossChain_exact (l : List (Int × String)) (o : OrbState) (hs : SortedBy ccLt (o.pausedCrossChains ++ l))
    (hv : ∀ pc ∈ l, crossChainValid pc.1 pc.2 = true) :
    (l.map some).foldlM initCcStep o = .ok { o with pausedCrossChains := o.pausedCrossChains ++ l } := by
  induction l generalizing o with
  | nil => simp
  | cons x xs ih =>
    obtain ⟨p, cp⟩ := x
    have hgt := sorted_gt_of_append hs
    have hnot : (p, cp) ∉ o.pausedCrossChains := by
      intro hm
      have := hgt (p, cp) hm
      rw [ccLt_strict.irrefl] at this; cases this
    have hvx := hv (p, cp) List.mem_cons_self
    simp only at hvx
    have hx : setPausedCrossChain o p cp = .ok { o with pausedCrossChains := o.pausedCrossChains ++ [(p, cp)] } := by
      simp [setPausedCrossChain, hvx, hnot, insertBy_append ccLt_strict (p, cp) _ hgt]
    simp only [List.map_cons, List.foldlM_cons, initCcStep, hx, asPanic_ok', Res.bind_ok]
    rw [ih _ (by simpa using hs) (fun q hq => hv q (List.mem_cons_of_mem _ hq))]
    simp

theorem fold_setPausedAction_exact (l : List Int) (o : OrbState) (hs : SortedBy intLt (o.pausedActions ++ l))
    (hv : ∀ a ∈ l, actionValid a = true) :
    l.foldlM (fun o a => asPanic (setPausedAction o a)) o = .ok { o with pausedActions := o.pausedActions ++ l } := by
  induction l generalizing o with
  | nil => simp
  | cons x xs ih =>
    have hgt := sorted_gt_of_append hs
    have hnot : x ∉ o.pausedActions := by
      intro hm
      have := hgt x hm
      rw [intLt_strict.irrefl] at this; cases this
    have hx : setPausedAction o x = .ok { o with pausedActions := o.pausedActions ++ [x] } := by
      simp [setPausedAction, hv x List.mem_cons_self, hnot, insertBy_append intLt_strict x _ hgt]
    simp only [List.foldlM_cons, hx, asPanic_ok', Res.bind_ok]
    rw [ih _ (by simpa using hs) (fun p hp => hv p (List.mem_cons_of_mem _ hp))]
    simp

/-- **Export then import reproduces the store exactly** (for a store whose parameters were ever set — every
store initialised from a genesis). -/
theorem reimport_exact (o : OrbState) (hg : o.Good) (hp : o.params.isSome = true) : initGenesis (exportGenesis o) = .ok o := by
  obtain ⟨hi, hs⟩ := hg
  unfold initGenesis
  rw [export_amounts o hi.amt_valid, export_counts o hi.cnt_valid]
  simp only [init_amounts_fold o.amounts hi.amt_valid, Res.bind_ok, init_counts_fold o.counts hi.cnt_valid]
  rw [foldl_upsert_sorted amtLt_strict o.amounts [] (by simpa using hs.amt),
    foldl_upsert_sorted cntLt_strict o.counts [] (by simpa using hs.cnt)]
  simp only [List.nil_append]
  have hpp : (exportGenesis o).pausedProtocols = o.pausedProtocols := rfl
  have hpc : (exportGenesis o).pausedCrossChains = o.pausedCrossChains.map some := rfl
  have hpa : (exportGenesis o).pausedActions = o.pausedActions := rfl
  rw [hpp, hpc, hpa]
  rw [fold_setPausedProtocol_exact o.pausedProtocols _ (by simpa using hs.pp) hi.pp_valid]
  simp only [Res.bind_ok, List.nil_append]
  rw [fold_setPausedCrossChain_exact o.pausedCrossChains _ (by simpa using hs.pc) hi.pc_valid]
  simp only [Res.bind_ok, List.nil_append]
  rw [fold_setPausedAction_exact o.pausedActions _ (by simpa using hs.pa) hi.pa_valid]
  simp only [List.nil_append, Res.ok.injEq]
  obtain ⟨pp, pc, pa, params, amounts, counts⟩ := o
  cases params with
  | none => simp at hp
  | some n => rfl

/-- Hence `reimportStep` reports `valid`, `init`, `same` and leaves the store as it is. -/
theorem reimportStep_exact (o : OrbState) (hg : o.Good) (hp : o.params.isSome = true) :
    (reimportStep o).2 = o ∧ exportGenesis (reimportStep o).2 = exportGenesis o := by
  have : (reimportStep o).2 = o := by
    unfold reimportStep
    simp only [reimport_exact o hg hp]
  exact ⟨this, by rw [this]⟩

/-- Every operation preserves invariant + sortedness (export/import included, for stores with parameters). -/
theorem step_good (wr : Wiring) (φ : Faults) (w : World) (op : Op) (hg : w.orb.Good) : (step wr φ w op).2.orb.Good := by
  cases op with
  | recv pkt => exact ibcRecv_good wr φ w pkt hg
  | deposit a d n => exact hg
  | env e => exact hg
  | reimport =>
    simp only [step]
    cases hpar : w.orb.params with
    | some n =>
      rw [(reimportStep_exact w.orb hg (by rw [hpar]; rfl)).1]; exact hg
    | none =>
      -- never-set parameters are exported as 0: the round trip of the store with `params := some 0`
      have hg1 : OrbState.Good { w.orb with params := some 0 } :=
        ⟨⟨hg.1.pp_nodup, hg.1.pp_valid, hg.1.pc_nodup, hg.1.pc_valid, hg.1.pa_nodup, hg.1.pa_valid, hg.1.amt_keys, hg.1.amt_valid,
          hg.1.cnt_keys, hg.1.cnt_valid⟩, ⟨hg.2.pp, hg.2.pc, hg.2.pa, hg.2.amt, hg.2.cnt⟩⟩
      have hexp : exportGenesis w.orb = exportGenesis { w.orb with params := some 0 } := by
        simp only [exportGenesis, hpar, Option.getD_none, Option.getD_some]
      have := reimport_exact { w.orb with params := some 0 } hg1 rfl
      rw [← hexp] at this
      unfold reimportStep
      simp only [this]
      exact hg1
  | msg m =>
    simp only [step]
    cases hm : msgStep wr.cfg φ w.orb m with
    | err e => exact hg
    | panic e => exact hg
    | ok r =>
      obtain ⟨o', evs, rq⟩ := r
      exact msgStep_good hg hm

end Orbiter
