package main

import (
	errorsmod "cosmossdk.io/errors"
	"crypto/sha256"
	"encoding/hex"
	"encoding/json"
	"fmt"
	"regexp"
	"runtime/debug"
	"sort"
	"strconv"
	"strings"

	abci "github.com/cometbft/cometbft/abci/types"
	"github.com/cosmos/gogoproto/proto"

	sdkmath "cosmossdk.io/math"
	sdk "github.com/cosmos/cosmos-sdk/types"
	"github.com/cosmos/cosmos-sdk/types/query"
	banktypes "github.com/cosmos/cosmos-sdk/x/bank/types"
	transfertypes "github.com/cosmos/ibc-go/v8/modules/apps/transfer/types"
	clienttypes "github.com/cosmos/ibc-go/v8/modules/core/02-client/types"
	channeltypes "github.com/cosmos/ibc-go/v8/modules/core/04-channel/types"
	porttypes "github.com/cosmos/ibc-go/v8/modules/core/05-port/types"
	ibcexported "github.com/cosmos/ibc-go/v8/modules/core/exported"

	cctptypes "github.com/circlefin/noble-cctp/x/cctp/types"

	warptypes "github.com/bcp-innovations/hyperlane-cosmos/x/warp/types"

	orbiterkeeper "github.com/noble-assets/orbiter/v2/keeper"
	adaptercomp "github.com/noble-assets/orbiter/v2/keeper/component/adapter"
	dispatchercomp "github.com/noble-assets/orbiter/v2/keeper/component/dispatcher"
	executorcomp "github.com/noble-assets/orbiter/v2/keeper/component/executor"
	forwardercomp "github.com/noble-assets/orbiter/v2/keeper/component/forwarder"
	orbtypes "github.com/noble-assets/orbiter/v2/types"
	adaptertypes "github.com/noble-assets/orbiter/v2/types/component/adapter"
	dispatchertypes "github.com/noble-assets/orbiter/v2/types/component/dispatcher"
	executortypes "github.com/noble-assets/orbiter/v2/types/component/executor"
	forwardertypes "github.com/noble-assets/orbiter/v2/types/component/forwarder"
	"github.com/noble-assets/orbiter/v2/types/core"

	"verifharness/app"
)

type appState struct {
	env *app.Env
	seq uint64
	hw  *hwire
	// keccak(denom) hex -> denom, for canonicalising CCTP events
	denomByHash map[string]string
	// escrow address hex -> symbolic address hex ("escrow:<port>/<channel>"): the model has no SHA-256
	escrowSym map[string]string
	// denoms ever seen as "ibc/HASH" are printed through their trace
	// drybegin … dryend: the operations in between run on a branch of the state that is dropped at dryend (a transaction that
	// fails at its end, a simulation)
	savedCtx *sdk.Context
	// env meta: what surrounds a packet without being part of it — the relayer's address, the packet's timeout, the block
	relayer       sdk.AccAddress
	timeoutHeight uint64
	timeoutStamp  uint64
}

func (s *appState) relayerAddr() sdk.AccAddress {
	if s.relayer != nil {
		return s.relayer
	}
	return sdk.AccAddress([]byte("relayer-account-0001"))
}

func (d *driver) setup(f []string) string {
	if d.st != nil {
		d.st.close()
		d.st = nil
	}
	cfg := app.DefaultConfig()
	if len(f) > 0 && f[0] != "-" {
		raw, err := hex.DecodeString(f[0])
		if err != nil {
			return "bad-op"
		}
		if err := json.Unmarshal(raw, &cfg); err != nil {
			return "bad-op"
		}
	}
	env, err := app.Boot(cfg)
	if err != nil {
		return "err:boot:" + hx(err.Error())
	}
	d.st = &appState{env: env, denomByHash: map[string]string{}, escrowSym: map[string]string{}}
	for _, ch := range cfg.Channels {
		d.st.noteEscrow("transfer", ch)
	}
	return "ok"
}

func (s *appState) close() {
	s.env.Close()
}

func (s *appState) noteEscrow(port, channel string) {
	if s.escrowSym == nil {
		s.escrowSym = map[string]string{}
	}
	a := transfertypes.GetEscrowAddress(port, channel)
	s.escrowSym[hex.EncodeToString(a)] = hex.EncodeToString([]byte("escrow:" + port + "/" + channel))
}

func (s *appState) canonAddr(a []byte) string {
	h := hex.EncodeToString(a)
	if sym, ok := s.escrowSym[h]; ok {
		return sym
	}
	return h
}

type snapshot struct {
	bal map[string]sdkmath.Int // addrhex/denomcanon
	sup map[string]sdkmath.Int
}

func (s *appState) canonDenom(ctx sdk.Context, denom string) string {
	if strings.HasPrefix(denom, "ibc/") {
		h, err := transfertypes.ParseHexHash(denom[4:])
		if err == nil {
			if tr, ok := s.env.App.TransferKeeper.GetDenomTrace(ctx, h); ok {
				return "ibc:" + tr.GetFullDenomPath()
			}
		}
	}
	return denom
}

func (s *appState) snap(ctx sdk.Context) snapshot {
	sn := snapshot{bal: map[string]sdkmath.Int{}, sup: map[string]sdkmath.Int{}}
	s.env.App.BankKeeper.IterateAllBalances(ctx, func(addr sdk.AccAddress, c sdk.Coin) bool {
		sn.bal[s.canonAddr(addr)+"/"+hx(s.canonDenom(ctx, c.Denom))] = c.Amount
		return false
	})
	s.env.App.BankKeeper.IterateTotalSupply(ctx, func(c sdk.Coin) bool {
		sn.sup[hx(s.canonDenom(ctx, c.Denom))] = c.Amount
		return false
	})
	return sn
}

func deltaStr(before, after map[string]sdkmath.Int) string {
	keys := map[string]bool{}
	for k := range before {
		keys[k] = true
	}
	for k := range after {
		keys[k] = true
	}
	sorted := make([]string, 0, len(keys))
	for k := range keys {
		sorted = append(sorted, k)
	}
	sort.Strings(sorted)
	var parts []string
	for _, k := range sorted {
		b, ok := before[k]
		if !ok {
			b = sdkmath.ZeroInt()
		}
		a, ok := after[k]
		if !ok {
			a = sdkmath.ZeroInt()
		}
		d := a.Sub(b)
		if !d.IsZero() {
			sign := "+"
			if d.IsNegative() {
				sign = ""
			}
			parts = append(parts, k+":"+sign+d.String())
		}
	}
	if len(parts) == 0 {
		return "-"
	}
	return strings.Join(parts, ",")
}

func (s *appState) stateStr(ctx sdk.Context) (out string) {
	defer func() {
		if r := recover(); r != nil {
			out = "exportpanic"
		}
	}()
	g := s.env.App.OrbiterKeeper.ExportGenesis(ctx)
	return canonGenesis(g)
}

func canonCCID(id *core.CrossChainID) string {
	if id == nil {
		return "nil"
	}
	return fmt.Sprintf("%d|%s", int32(id.ProtocolId), hx(id.CounterpartyId))
}

func canonGenesis(g *orbtypes.GenesisState) string {
	var sb strings.Builder
	sb.WriteString("pp=[")
	if g.ForwarderGenesis != nil {
		for i, p := range g.ForwarderGenesis.PausedProtocolIds {
			if i > 0 {
				sb.WriteString(",")
			}
			fmt.Fprintf(&sb, "%d", int32(p))
		}
	}
	sb.WriteString("];pcc=[")
	if g.ForwarderGenesis != nil {
		for i, c := range g.ForwarderGenesis.PausedCrossChainIds {
			if i > 0 {
				sb.WriteString(",")
			}
			sb.WriteString(canonCCID(c))
		}
	}
	sb.WriteString("];pa=[")
	if g.ExecutorGenesis != nil {
		for i, a := range g.ExecutorGenesis.PausedActionIds {
			if i > 0 {
				sb.WriteString(",")
			}
			fmt.Fprintf(&sb, "%d", int32(a))
		}
	}
	sb.WriteString("];params=")
	if g.AdapterGenesis != nil {
		fmt.Fprintf(&sb, "%d", g.AdapterGenesis.Params.MaxPassthroughPayloadSize)
	} else {
		sb.WriteString("nil")
	}
	sb.WriteString(";amts=[")
	if g.DispatcherGenesis != nil {
		for i, a := range g.DispatcherGenesis.DispatchedAmounts {
			if i > 0 {
				sb.WriteString(",")
			}
			fmt.Fprintf(&sb, "%s|%s|%s|%s|%s", canonCCID(a.SourceId), canonCCID(a.DestinationId), hx(a.Denom),
				canonInt(a.AmountDispatched.Incoming), canonInt(a.AmountDispatched.Outgoing))
		}
	}
	sb.WriteString("];cnts=[")
	if g.DispatcherGenesis != nil {
		for i, c := range g.DispatcherGenesis.DispatchedCounts {
			if i > 0 {
				sb.WriteString(",")
			}
			fmt.Fprintf(&sb, "%s|%s|%d", canonCCID(c.SourceId), canonCCID(c.DestinationId), c.Count)
		}
	}
	sb.WriteString("]")
	return sb.String()
}

var appAckRe = regexp.MustCompile(`^ABCI code: \d+: error handling packet: see events for details$`)

// panicAttribution applies the attribution rule of DESIGN.md (C14): walking the stack from the panic
// outwards, the first frame that belongs either to the orbiter module (other than the middleware's
// own OnRecvPacket, which is on every stack) or to the wrapped ICS-20 application decides.
func panicAttribution(stack string) string {
	for _, line := range strings.Split(stack, "\n") {
		if strings.HasPrefix(line, "\t") {
			continue
		}
		if strings.Contains(line, "ibc-go/v8/modules/apps/transfer") {
			return "app"
		}
		if strings.Contains(line, "noble-assets/orbiter/v2/") && !strings.Contains(line, "IBCMiddleware.OnRecvPacket") &&
			!strings.Contains(line, "orbiter/v2/simapp") {
			return "orb"
		}
		if strings.Contains(line, "noble-fiattokenfactory/x/blockibc") {
			return "app"
		}
	}
	return "ext"
}

type recvObs struct {
	ack      string // ok | err | panic | nil
	src      string // orb | app | -
	ackBytes []byte
	events   sdk.Events
	panicMsg string
}

func classifyAck(ack ibcexported.Acknowledgement) (cls, src string, bz []byte) {
	if ack == nil {
		return "nil", "-", nil
	}
	bz = ack.Acknowledgement()
	if ack.Success() {
		return "ok", "-", bz
	}
	src = "orb"
	if a, ok := ack.(channeltypes.Acknowledgement); ok {
		if e, ok := a.Response.(*channeltypes.Acknowledgement_Error); ok && appAckRe.MatchString(e.Error) {
			src = "app"
		}
	}
	return "err", src, bz
}

// runRecv emulates ibc-go core's RecvPacket around the given stack: cached context, write iff success.
func (s *appState) runRecv(d *driver, stack porttypes.IBCModule, pkt channeltypes.Packet, commit bool) (obs recvObs, bal, sup string) {
	ctx := s.env.Ctx
	before := s.snap(ctx)
	cacheCtx, write := ctx.CacheContext()
	cacheCtx = cacheCtx.WithEventManager(sdk.NewEventManager())
	func() {
		defer func() {
			if r := recover(); r != nil {
				obs.ack = "panic"
				obs.src = "-"
				obs.panicMsg = fmt.Sprintf("%v\n%s", r, debug.Stack())
				d.lastPanic = obs.panicMsg
			}
		}()
		ack := stack.OnRecvPacket(cacheCtx, pkt, s.relayerAddr())
		obs.ack, obs.src, obs.ackBytes = classifyAck(ack)
		obs.events = cacheCtx.EventManager().Events()
	}()
	var after snapshot
	if obs.ack == "ok" {
		if commit {
			write()
			after = s.snap(ctx)
		} else {
			after = s.snap(cacheCtx)
		}
	} else {
		after = s.snap(ctx)
	}
	return obs, deltaStr(before.bal, after.bal), deltaStr(before.sup, after.sup)
}

func (s *appState) mkPacket(f []string) (channeltypes.Packet, bool) {
	if len(f) < 5 {
		return channeltypes.Packet{}, false
	}
	s.seq++
	s.noteEscrow(mustUnhx(f[2]), mustUnhx(f[3]))
	th := s.timeoutHeight
	if th == 0 && s.timeoutStamp == 0 {
		th = 1000000
	}
	return channeltypes.NewPacket([]byte(mustUnhx(f[4])), s.seq, mustUnhx(f[0]), mustUnhx(f[1]), mustUnhx(f[2]), mustUnhx(f[3]),
		clienttypes.NewHeight(1, th), s.timeoutStamp), true
}

func keccakDenomName(s *appState, hashHex string) string {
	if d, ok := s.denomByHash[hashHex]; ok {
		return d
	}
	return "hash:" + hashHex
}

// reqFromEvents canonicalises the typed bridge events of the real cctp / warp modules.
func (s *appState) reqFromEvents(evs sdk.Events) string {
	var parts []string
	for _, e := range evs {
		switch e.Type {
		case proto.MessageName(&cctptypes.DepositForBurn{}):
			m, err := sdk.ParseTypedEvent(abci.Event(e))
			if err != nil {
				parts = append(parts, "cctp:unparsable")
				continue
			}
			ev := m.(*cctptypes.DepositForBurn)
			from := "?"
			if a, err := sdk.AccAddressFromBech32(ev.Depositor); err == nil {
				from = hex.EncodeToString(a)
			}
			parts = append(parts, fmt.Sprintf("cctp:%d:%s:%s:%s:%s:%s", ev.DestinationDomain, hxb(ev.MintRecipient),
				hxb(ev.DestinationCaller), ev.Amount.String(), hx(s.denomOfKeccak(ev.BurnToken)), from))
		case proto.MessageName(&warptypes.EventSendRemoteTransfer{}):
			m, err := sdk.ParseTypedEvent(abci.Event(e))
			if err != nil {
				parts = append(parts, "hyp:unparsable")
				continue
			}
			ev := m.(*warptypes.EventSendRemoteTransfer)
			from := "?"
			if a, err := sdk.AccAddressFromBech32(ev.Sender); err == nil {
				from = hex.EncodeToString(a)
			}
			parts = append(parts, fmt.Sprintf("hyp:%s:%d:%s:%s:%s", hex.EncodeToString(ev.TokenId.Bytes()), ev.DestinationDomain,
				hex.EncodeToString(ev.Recipient.Bytes()), hx(ev.Amount), from))
		}
	}
	if len(parts) == 0 {
		return "-"
	}
	return strings.Join(parts, ";")
}

func (s *appState) denomOfKeccak(h string) string {
	if len(s.denomByHash) == 0 {
		for _, d := range append([]string{app.USDC, "uother", "stake"}, s.env.Cfg.EscrowDenoms...) {
			s.denomByHash[hex.EncodeToString(keccak256([]byte(d)))] = d
		}
	}
	if d, ok := s.denomByHash[h]; ok {
		return d
	}
	return "hash:" + h
}

func orbiterEventNames(evs sdk.Events) string {
	var names []string
	for _, e := range evs {
		if strings.HasPrefix(e.Type, "noble.orbiter.") {
			names = append(names, e.Type[strings.LastIndex(e.Type, ".")+1:])
		}
	}
	if len(names) == 0 {
		return "-"
	}
	return strings.Join(names, ",")
}

// bankMoves lists, in order, the coin movements the bank module reported: x = transfer, b = burn, m = mint (coinbase).
func (s *appState) bankMoves(evs sdk.Events) string {
	var parts []string
	attr := func(e sdk.Event, k string) string {
		for _, a := range e.Attributes {
			if a.Key == k {
				return a.Value
			}
		}
		return ""
	}
	addrHex := func(b32 string) string {
		a, err := sdk.AccAddressFromBech32(b32)
		if err != nil {
			return "bad:" + hx(b32)
		}
		return s.canonAddr(a)
	}
	for _, e := range evs {
		var pre string
		switch e.Type {
		case "transfer":
			pre = "x:" + addrHex(attr(e, "sender")) + ":" + addrHex(attr(e, "recipient"))
		case "burn":
			pre = "b:" + addrHex(attr(e, "burner"))
		case "coinbase":
			pre = "m:" + addrHex(attr(e, "minter"))
		default:
			continue
		}
		coins, err := sdk.ParseCoinsNormalized(attr(e, "amount"))
		if err != nil {
			parts = append(parts, pre+":bad:"+hx(attr(e, "amount")))
			continue
		}
		for _, c := range coins {
			if c.Amount.IsZero() {
				continue
			}
			parts = append(parts, pre+":"+hx(s.canonDenom(s.env.Ctx, c.Denom))+":"+c.Amount.String())
		}
	}
	if len(parts) == 0 {
		return "-"
	}
	return strings.Join(parts, ",")
}

var addrLikeRe = regexp.MustCompile(`\{\d{9,}\}|0x[cC]0[0-9a-fA-F]{8}|\(0x[0-9a-fA-F]{6,}\)`)

// orbiterEventsAddrLike reports whether a value of one of the orbiter's own events looks like the address of an object.
func orbiterEventsAddrLike(evs sdk.Events) string {
	for _, e := range evs {
		if !strings.HasPrefix(e.Type, "noble.orbiter.") {
			continue
		}
		for _, a := range e.Attributes {
			if addrLikeRe.MatchString(a.Value) {
				return "1"
			}
		}
	}
	return "0"
}

func eventsHash(evs sdk.Events) string {
	h := sha256.New()
	for _, e := range evs {
		h.Write([]byte(e.Type))
		h.Write([]byte{0})
		for _, a := range e.Attributes {
			h.Write([]byte(a.Key))
			h.Write([]byte{1})
			v := a.Value
			if !strings.HasPrefix(e.Type, "noble.orbiter.") {
				// text of other modules (ibc-go prints a pointer in one of its own errors) is masked; the orbiter's own events are not
				v = maskPtr(v)
			}
			h.Write([]byte(v))
			h.Write([]byte{2})
		}
	}
	return hex.EncodeToString(h.Sum(nil))[:16]
}

func (s *appState) recvLine(d *driver, stack porttypes.IBCModule, f []string, withReq bool) string {
	pkt, ok := s.mkPacket(f)
	if !ok {
		return "bad-op"
	}
	obs, bal, sup := s.runRecv(d, stack, pkt, true)
	req := "-"
	ev := "-"
	mv := "-"
	if obs.ack == "ok" {
		req = s.reqFromEvents(obs.events)
		ev = orbiterEventNames(obs.events)
		mv = s.bankMoves(obs.events)
	}
	ackh := sha256.Sum256(obs.ackBytes)
	pattr := "-"
	if obs.ack == "panic" {
		pattr = panicAttribution(obs.panicMsg)
	}
	return fmt.Sprintf("ack=%s src=%s bal=%s sup=%s req=%s ev=%s mv=%s st=%s ackh=%s evh=%s evaddr=%s pattr=%s acktxt=%s", obs.ack, obs.src, bal, sup, req, ev, mv,
		s.stateStr(s.env.Ctx), hex.EncodeToString(ackh[:8]), eventsHash(obs.events), orbiterEventsAddrLike(obs.events), pattr, hxb(obs.ackBytes))
}

func (s *appState) op(d *driver, f []string) string {
	switch f[0] {
	case "recv":
		return s.recvLine(d, s.env.Stack, f[1:], true)
	case "recvh":
		if err := s.ensureHW(); err != nil {
			return "err:hw:" + hx(err.Error())
		}
		return s.hw.recvLine(d, s, f[1:])
	case "acth":
		if err := s.ensureHW(); err != nil {
			return "err:hw:" + hx(err.Error())
		}
		return s.hw.actLine(d, s, f[1:])
	case "msgh":
		if err := s.ensureHW(); err != nil {
			return "err:hw:" + hx(err.Error())
		}
		return s.hw.msgLine(d, s, f[1:])
	case "dispatchh":
		if err := s.ensureHW(); err != nil {
			return "err:hw:" + hx(err.Error())
		}
		return s.hw.dispatchLine(d, s, f[1:])
	case "fault", "swapctl":
		if err := s.ensureHW(); err != nil {
			return "err:hw:" + hx(err.Error())
		}
		return s.hw.control(f)
	case "withoutmw":
		return s.withoutMW(d, f[1:], false)
	case "withoutmwc":
		return s.withoutMW(d, f[1:], true)
	case "cmpstacks":
		return s.cmpStacks(d, f[1:])
	case "cb":
		return s.callbacks(d, f[1:])
	case "deposit":
		return s.deposit(f[1:])
	case "msg":
		return s.msg(d, f[1:])
	case "msgdry":
		return s.msgdry(d, f[1:])
	case "escrowfund":
		// escrowfund <channelHex> <denomHex> <amount>: coins of a further native denomination escrowed on a channel (as if sent out
		// earlier), with ICS-20's total-escrow bookkeeping
		if len(f) < 4 {
			return "bad-op"
		}
		amt, ok := sdkmath.NewIntFromString(f[3])
		if !ok || !amt.IsPositive() {
			return "bad-op"
		}
		coin := sdk.NewCoin(mustUnhx(f[2]), amt)
		esc := transfertypes.GetEscrowAddress(transfertypes.PortID, mustUnhx(f[1]))
		s.noteEscrow(transfertypes.PortID, mustUnhx(f[1]))
		if err := s.env.App.BankKeeper.MintCoins(s.env.Ctx, transfertypes.ModuleName, sdk.NewCoins(coin)); err != nil {
			return "err"
		}
		if err := s.env.App.BankKeeper.SendCoins(s.env.Ctx, s.env.App.AccountKeeper.GetModuleAddress(transfertypes.ModuleName), esc, sdk.NewCoins(coin)); err != nil {
			return "err"
		}
		cur := s.env.App.TransferKeeper.GetTotalEscrowForDenom(s.env.Ctx, coin.Denom)
		s.env.App.TransferKeeper.SetTotalEscrowForDenom(s.env.Ctx, cur.Add(coin))
		return "ok"
	case "drybegin":
		if s.savedCtx != nil {
			return "bad-op"
		}
		saved := s.env.Ctx
		s.savedCtx = &saved
		branch, _ := s.env.Ctx.CacheContext()
		s.env.Ctx = branch
		return "ok"
	case "dryend":
		if s.savedCtx == nil {
			return "bad-op"
		}
		s.env.Ctx = *s.savedCtx
		s.savedCtx = nil
		return "ok"
	case "msgany":
		return s.msgAny(d, f[1:])
	case "listrpcs":
		return s.listRPCs()
	case "query":
		return s.query(d, f[1:])
	case "export":
		return "st=" + s.stateStr(s.env.Ctx)
	case "env":
		return s.envOp(d, f[1:])
	case "genvalidate", "geninit", "genload", "reimport":
		return s.genesisOp(d, f)
	}
	return "bad-op"
}

// deposit <addrHex(bytes)> <denomHex> <amount>: mint through the transfer module account (a minter) and send.
func (s *appState) deposit(f []string) string {
	addr, err := hex.DecodeString(f[0])
	if err != nil {
		return "bad-op"
	}
	amt, ok := sdkmath.NewIntFromString(f[2])
	if !ok || !amt.IsPositive() {
		return "bad-op"
	}
	denom := mustUnhx(f[1])
	coins := sdk.NewCoins(sdk.NewCoin(denom, amt))
	ctx := s.env.Ctx
	if err := s.env.App.BankKeeper.MintCoins(ctx, transfertypes.ModuleName, coins); err != nil {
		return "err"
	}
	// SendCoins (not FromModuleToAccount) so that blocked module accounts can be funded too
	if err := s.env.App.BankKeeper.SendCoins(ctx, s.env.App.AccountKeeper.GetModuleAddress(transfertypes.ModuleName), addr, coins); err != nil {
		return "err"
	}
	return "ok"
}

func (s *appState) buildMsg(rpc string, signer string, a []string) (sdk.Msg, bool) {
	switch rpc {
	case "PauseProtocol":
		return &forwardertypes.MsgPauseProtocol{Signer: signer, ProtocolId: mustUnhx(a[0])}, true
	case "UnpauseProtocol":
		return &forwardertypes.MsgUnpauseProtocol{Signer: signer, ProtocolId: mustUnhx(a[0])}, true
	case "PauseCrossChains", "UnpauseCrossChains":
		var ids []string
		for _, x := range a[1:] {
			ids = append(ids, mustUnhx(x))
		}
		if rpc == "PauseCrossChains" {
			return &forwardertypes.MsgPauseCrossChains{Signer: signer, ProtocolId: mustUnhx(a[0]), CounterpartyIds: ids}, true
		}
		return &forwardertypes.MsgUnpauseCrossChains{Signer: signer, ProtocolId: mustUnhx(a[0]), CounterpartyIds: ids}, true
	case "ReplaceDepositForBurn":
		return &forwardertypes.MsgReplaceDepositForBurn{Signer: signer, OriginalMessage: []byte(mustUnhx(a[0])),
			OriginalAttestation: []byte(mustUnhx(a[1])), NewDestinationCaller: []byte(mustUnhx(a[2])), NewMintRecipient: []byte(mustUnhx(a[3]))}, true
	case "PauseAction":
		return &executortypes.MsgPauseAction{Signer: signer, ActionId: mustUnhx(a[0])}, true
	case "UnpauseAction":
		return &executortypes.MsgUnpauseAction{Signer: signer, ActionId: mustUnhx(a[0])}, true
	case "UpdateParams":
		v, err := strconv.ParseUint(a[0], 10, 32)
		if err != nil {
			return nil, false
		}
		return &adaptertypes.MsgUpdateParams{Signer: signer, Params: adaptertypes.Params{MaxPassthroughPayloadSize: uint32(v)}}, true
	}
	return nil, false
}

// runMsg executes through the app's MsgServiceRouter with message-level rollback (cached ctx, write on success).
func (s *appState) runMsg(d *driver, m sdk.Msg) (res string, evs sdk.Events, errTxt string) {
	return s.runMsgOn(d, m, true)
}

// runMsgOn with commit=false runs the handler on a branch that is then dropped, as baseapp does for a
// simulation or for a transaction whose later message fails.
func (s *appState) runMsgOn(d *driver, m sdk.Msg, commit bool) (res string, evs sdk.Events, errTxt string) {
	h := s.env.App.MsgServiceRouter().Handler(m)
	if h == nil {
		return "noroute", nil, ""
	}
	cacheCtx, write := s.env.Ctx.CacheContext()
	cacheCtx = cacheCtx.WithEventManager(sdk.NewEventManager())
	func() {
		defer func() {
			if r := recover(); r != nil {
				res = "panic"
				d.lastPanic = fmt.Sprintf("%v\n%s", r, debug.Stack())
			}
		}()
		r, err := h(cacheCtx, m)
		if err != nil {
			res = "err"
			cs, _, _ := errorsmod.ABCIInfo(err, false)
			errTxt = "codespace=" + cs + "; " + err.Error()
			return
		}
		res = "ok"
		// the router runs the handler under its own event manager and returns the events in the result
		for _, e := range r.GetEvents() {
			evs = append(evs, sdk.Event(e))
		}
		if commit {
			write()
		}
	}()
	return res, evs, errTxt
}

// msg <rpc> <signerStringHex> args...
func (s *appState) msg(d *driver, f []string) string {
	if len(f) < 2 {
		return "bad-op"
	}
	m, ok := s.buildMsg(f[0], mustUnhx(f[1]), f[2:])
	if !ok {
		return "bad-op"
	}
	res, evs, errTxt := s.runMsg(d, m)
	ecs := ""
	if res == "err" {
		// whose refusal: an error registered under the module's own codespace, or another module's handed through
		ecs = " ecs=" + strings.TrimPrefix(strings.SplitN(errTxt, ";", 2)[0], "codespace=")
	}
	return fmt.Sprintf("res=%s ev=%s st=%s req=%s%s errtxt=%s", res, orbiterEventNames(evs), s.stateStr(s.env.Ctx), s.reqFromEvents(evs), ecs, hx(errTxt))
}

// msgdry <rpc> <signerStringHex> args...: the message executed on a discarded branch.
func (s *appState) msgdry(d *driver, f []string) string {
	if len(f) < 2 {
		return "bad-op"
	}
	m, ok := s.buildMsg(f[0], mustUnhx(f[1]), f[2:])
	if !ok {
		return "bad-op"
	}
	res, _, _ := s.runMsgOn(d, m, false)
	return fmt.Sprintf("res=%s st=%s", res, s.stateStr(s.env.Ctx))
}

func pageReq(f []string) *query.PageRequest {
	// page: <keyHex> <offset> <limit> <countTotal 0|1> <reverse 0|1> ; "nopage" alone = nil
	if len(f) == 0 || f[0] == "nopage" {
		return nil
	}
	off, _ := strconv.ParseUint(f[1], 10, 64)
	lim, _ := strconv.ParseUint(f[2], 10, 64)
	return &query.PageRequest{Key: []byte(mustUnhx(f[0])), Offset: off, Limit: lim, CountTotal: f[3] == "1", Reverse: f[4] == "1"}
}

func pageRes(p *query.PageResponse) string {
	if p == nil {
		return "next=nil total=nil"
	}
	return fmt.Sprintf("next=%s total=%d", hxb(p.NextKey), p.Total)
}

func canonAmountEntries(es []*dispatchertypes.DispatchedAmountEntry) string {
	parts := make([]string, 0, len(es))
	for _, a := range es {
		parts = append(parts, fmt.Sprintf("%s|%s|%s|%s|%s", canonCCID(a.SourceId), canonCCID(a.DestinationId), hx(a.Denom),
			canonInt(a.AmountDispatched.Incoming), canonInt(a.AmountDispatched.Outgoing)))
	}
	return "[" + strings.Join(parts, ",") + "]"
}

func canonCountEntries(es []*dispatchertypes.DispatchCountEntry) string {
	parts := make([]string, 0, len(es))
	for _, c := range es {
		parts = append(parts, fmt.Sprintf("%s|%s|%d", canonCCID(c.SourceId), canonCCID(c.DestinationId), c.Count))
	}
	return "[" + strings.Join(parts, ",") + "]"
}

// query <name> args...
func (s *appState) query(d *driver, f []string) (out string) {
	defer func() {
		if r := recover(); r != nil {
			out = "res=panic"
			d.lastPanic = fmt.Sprintf("%v\n%s", r, debug.Stack())
		}
	}()
	k := s.env.App.OrbiterKeeper
	ctx := s.env.Ctx
	fq := forwardercomp.NewQueryServer(k.Forwarder())
	eq := executorcomp.NewQueryServer(k.Executor())
	aq := adaptercomp.NewQueryServer(k.Adapter())
	dq := dispatchercomp.NewQueryServer(k.Dispatcher())
	e := func(err error) string { return "res=err" }
	switch f[0] {
	case "IsProtocolPaused":
		r, err := fq.IsProtocolPaused(ctx, &forwardertypes.QueryIsProtocolPausedRequest{ProtocolId: mustUnhx(f[1])})
		if err != nil {
			return e(err)
		}
		return fmt.Sprintf("res=ok out=%v", r.IsPaused)
	case "PausedProtocols":
		r, err := fq.PausedProtocols(ctx, &forwardertypes.QueryPausedProtocolsRequest{})
		if err != nil {
			return e(err)
		}
		parts := []string{}
		for _, p := range r.ProtocolIds {
			parts = append(parts, strconv.Itoa(int(p)))
		}
		return "res=ok out=[" + strings.Join(parts, ",") + "]"
	case "IsCrossChainPaused":
		r, err := fq.IsCrossChainPaused(ctx, &forwardertypes.QueryIsCrossChainPausedRequest{ProtocolId: mustUnhx(f[1]), CounterpartyId: mustUnhx(f[2])})
		if err != nil {
			return e(err)
		}
		return fmt.Sprintf("res=ok out=%v", r.IsPaused)
	case "PausedCrossChains":
		r, err := fq.PausedCrossChains(ctx, &forwardertypes.QueryPausedCrossChainsRequest{ProtocolId: mustUnhx(f[1]), Pagination: pageReq(f[2:])})
		if err != nil {
			return e(err)
		}
		parts := []string{}
		for _, c := range r.CounterpartyIds {
			parts = append(parts, hx(c))
		}
		return "res=ok out=[" + strings.Join(parts, ",") + "] " + pageRes(r.Pagination)
	case "IsActionPaused":
		r, err := eq.IsActionPaused(ctx, &executortypes.QueryIsActionPausedRequest{ActionId: mustUnhx(f[1])})
		if err != nil {
			return e(err)
		}
		return fmt.Sprintf("res=ok out=%v", r.IsPaused)
	case "PausedActions":
		r, err := eq.PausedActions(ctx, &executortypes.QueryPausedActionsRequest{})
		if err != nil {
			return e(err)
		}
		parts := []string{}
		for _, p := range r.ActionIds {
			parts = append(parts, strconv.Itoa(int(p)))
		}
		return "res=ok out=[" + strings.Join(parts, ",") + "]"
	case "ActionIDs", "ProtocolIDs":
		mq := orbiterkeeper.NewQueryServer(k)
		m := map[int32]string{}
		if f[0] == "ActionIDs" {
			r, err := mq.ActionIDs(ctx, &orbtypes.QueryActionIDsRequest{})
			if err != nil {
				return e(err)
			}
			m = r.ActionIds
		} else {
			r, err := mq.ProtocolIDs(ctx, &orbtypes.QueryProtocolIDsRequest{})
			if err != nil {
				return e(err)
			}
			m = r.ProtocolIds
		}
		ids := make([]int, 0, len(m))
		for id := range m {
			ids = append(ids, int(id))
		}
		sort.Ints(ids)
		parts := make([]string, 0, len(ids))
		for _, id := range ids {
			parts = append(parts, fmt.Sprintf("%d:%s", id, m[int32(id)]))
		}
		return "res=ok out=[" + strings.Join(parts, ",") + "]"
	case "Params":
		r, err := aq.Params(ctx, &adaptertypes.QueryParamsRequest{})
		if err != nil {
			return e(err)
		}
		return fmt.Sprintf("res=ok out=%d", r.Params.MaxPassthroughPayloadSize)
	case "DispatchedCounts":
		r, err := dq.DispatchedCounts(ctx, &dispatchertypes.QueryDispatchedCountsRequest{SourceProtocolId: mustUnhx(f[1]),
			SourceCounterpartyId: mustUnhx(f[2]), DestinationProtocolId: mustUnhx(f[3]), DestinationCounterpartyId: mustUnhx(f[4])})
		if err != nil {
			return e(err)
		}
		return "res=ok out=" + canonCountEntries(r.Counts)
	case "DispatchedCountsBySrc", "DispatchedCountsByDst":
		req := &dispatchertypes.QueryDispatchedCountsByProtocolIDRequest{ProtocolId: mustUnhx(f[1]), Pagination: pageReq(f[2:])}
		var r *dispatchertypes.QueryDispatchedCountsResponse
		var err error
		if f[0] == "DispatchedCountsBySrc" {
			r, err = dq.DispatchedCountsBySourceProtocolID(ctx, req)
		} else {
			r, err = dq.DispatchedCountsByDestinationProtocolID(ctx, req)
		}
		if err != nil {
			return e(err)
		}
		return "res=ok out=" + canonCountEntries(r.Counts) + " " + pageRes(r.Pagination)
	case "DispatchedAmounts":
		r, err := dq.DispatchedAmounts(ctx, &dispatchertypes.QueryDispatchedAmountsRequest{SourceProtocolId: mustUnhx(f[1]),
			SourceCounterpartyId: mustUnhx(f[2]), DestinationProtocolId: mustUnhx(f[3]), DestinationCounterpartyId: mustUnhx(f[4]), Denom: mustUnhx(f[5])})
		if err != nil {
			return e(err)
		}
		return "res=ok out=" + canonAmountEntries(r.Amounts)
	case "DispatchedAmountsBySrc", "DispatchedAmountsByDst":
		req := &dispatchertypes.QueryDispatchedAmountsByProtocolIDRequest{ProtocolId: mustUnhx(f[1]), Pagination: pageReq(f[2:])}
		var r *dispatchertypes.QueryDispatchedAmountsResponse
		var err error
		if f[0] == "DispatchedAmountsBySrc" {
			r, err = dq.DispatchedAmountsBySourceProtocolID(ctx, req)
		} else {
			r, err = dq.DispatchedAmountsByDestinationProtocolID(ctx, req)
		}
		if err != nil {
			return e(err)
		}
		return "res=ok out=" + canonAmountEntries(r.Amounts) + " " + pageRes(r.Pagination)
	case "Balance":
		addr, err := hex.DecodeString(f[1])
		if err != nil {
			return "bad-op"
		}
		c := s.env.App.BankKeeper.GetBalance(ctx, addr, mustUnhx(f[2]))
		return "res=ok out=" + c.Amount.String()
	}
	return "bad-op"
}

var _ = banktypes.ModuleName
