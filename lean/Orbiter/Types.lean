/-
  Orbiter.Types — the payload data model (types/core/orbiter.go and the attribute messages), in
  the form the code acts on: the value cached in each `Any` after the SDK codec has resolved it
  (i.e. after the JSON → message → binary → message normalisation of ProtoCodec.UnmarshalJSON).
-/
import Orbiter.Prims
namespace Orbiter

/-- `FeeInfo.fee_type` oneof. `unset` covers an absent member and a member whose inner message is
null (the binary round trip drops it). -/
inductive FeeType where
  | unset
  | bps (v : Nat)          -- uint32
  | amount (v : String)
  deriving Repr, DecidableEq, Inhabited

structure FeeInfo where
  recipient : String
  feeType : FeeType
  deriving Repr, DecidableEq, Inhabited

/-- Attribute messages registered in the interface registry. -/
inductive Attrs where
  | cctp (domain : Nat) (mintRecipient destCaller : Bytes)
  | hyp (tokenId : Bytes) (domain : Nat) (recipient hookId : Bytes) (hookMeta : String)
        (gasLimit : Int) (feeDenom : String) (feeAmount : Int)
  | internal (recipient : String)
  | fee (infos : List FeeInfo)
  deriving Repr, DecidableEq, Inhabited

def Attrs.isForwarding : Attrs → Bool
  | .cctp .. => true | .hyp .. => true | .internal .. => true | .fee .. => false

def Attrs.isAction : Attrs → Bool
  | .fee .. => true | _ => false

structure Action where
  id : Int                      -- ActionID (int32), any number can arrive
  attrs : Option Attrs          -- none: `attributes` absent or null
  deriving Repr, DecidableEq, Inhabited

structure Forwarding where
  protocolId : Int
  attrs : Option Attrs
  passthrough : Bytes
  deriving Repr, DecidableEq, Inhabited

structure Payload where
  forwarding : Option Forwarding
  preActions : List Action
  deriving Repr, DecidableEq, Inhabited

/-- ICS-20 `FungibleTokenPacketData`. -/
structure FTPD where
  denom : String
  amount : String
  sender : String
  receiver : String
  memo : String
  deriving Repr, DecidableEq, Inhabited

/-- `core.TransferAttributes`: immutable source, mutable destination coin. -/
structure TransferAttrs where
  srcProtocol : Int
  srcCounterparty : String
  srcDenom : String
  srcAmount : Int
  dstDenom : String
  dstAmount : Int
  deriving Repr, DecidableEq, Inhabited

end Orbiter
