"""Check framework: streams, projections, oracles, shrinking, known findings, evidence, verdict lines."""
import json
import os
import re
import sys
import time

import engine
import prepare as prep
from proto import IMPL, MODEL, VERIF, kv, run_batch

EVIDENCE_DIR = os.environ.get("VERIF_EVIDENCE", os.path.join(VERIF, "evidence"))
REPLAY_DIR = os.path.join(EVIDENCE_DIR, "replays")
KNOWN = os.path.join(VERIF, "known_findings.json")

TRUSTED_BASE = [
    "Lean 4.33.0 kernel (lake build; leanchecker re-check in the thorough tier)",
    "axioms allowed in property theorems: propext, Classical.choice, Quot.sound (audited with #print axioms on every run); no sorry/admit/native_decide/bv_decide/own axioms",
    "harness/cmd/facts (Tie A): facts regenerated from the code built from /repo's tree",
    "correspondence machinery (Tie B): harness/cmd/impl drivers, generators, canonicaliser, diff, property oracles",
    "modelled, not verified: contracts of x/bank, ibc-go ICS-20 + core RecvPacket, noble-cctp, fiat-tokenfactory/blockibc, hyperlane-cosmos, SDK message rollback, collections key codecs, query.CollectionPaginate, encoding/json, gogoproto jsonpb",
    "Lean compiler/runtime for the compiled model driver (not kernel-checked; can only cause disagreements)",
]


class Stream:
    """One correspondence stream: operation lines plus what to compare and how to judge."""

    def __init__(self, name, lines, fields=None, oracle=None, model=True, note="", shrink=True):
        self.shrinkable = shrink
        self.name = name
        self.lines = lines
        self.fields = fields          # {op: [fields]} projection; None = all model fields
        self.oracle = oracle          # f(steps) -> [(step index, message)]
        self.model = model            # False: implementation-only stream (oracle only)
        self.note = note


class Finding:
    def __init__(self, prop, stream, kind, index, message, lines, impl, model):
        self.prop = prop
        self.stream = stream
        self.kind = kind            # "divergence" | "oracle" | "lean" | "build"
        self.index = index
        self.message = message
        self.lines = lines          # minimal operation sequence
        self.impl = impl
        self.model = model
        self.known = None


def project(step, fields):
    if fields is None:
        return step.diff
    fs = fields.get(step.op)
    if fs is None:
        # operations that build the state the rest of the stream runs on are always compared: a scenario whose set-up
        # failed on one side proves nothing
        if step.op in ("genload", "geninit", "deposit", "setup", "fault", "swapctl", "drybegin", "dryend", "env", "escrowfund"):
            return step.diff
        return []
    return [k for k in step.diff if k in fs]


def run_stream(st):
    if st.model:
        steps, dt = engine.run_both(st.lines)
    else:
        ik, raw = engine.run_impl_only(st.lines)
        steps = []
        for i, (l, r) in enumerate(zip(st.lines, raw)):
            s = engine.Step(i, l, r, "")
            steps.append(s)
        dt = 0.0
    return steps, dt


def still_fails(st, lines, kind, key):
    """Re-run a candidate (shrunk) sequence; does the last step still show the same failure?"""
    try:
        s2 = Stream(st.name, lines, st.fields, st.oracle, st.model)
        steps, _ = run_stream(s2)
    except Exception:
        return False
    if not steps:
        return False
    last = steps[-1]
    if kind == "divergence":
        # the same divergence, not just any: same fields, same outcome class on both sides (a shrunk sequence that diverges for
        # another reason — e.g. because a set-up line went missing — is not a witness of this failure)
        return divergence_signature(last, st.fields) == key if isinstance(key, tuple) else bool(project(last, st.fields))
    if kind == "oracle" and st.oracle:
        fails = st.oracle(steps)
        return any(i == len(steps) - 1 and classify(m) == key for i, m in fails)
    return False


def divergence_signature(step, fields):
    d = tuple(project(step, fields))
    if not d:
        return None
    cls = lambda m: (m.get("ack") or m.get("res") or m.get("_", "")[:12])
    return (d, cls(step.impl), cls(step.model))


def signature_of_finding(f):
    """the divergence signature of a recorded finding (recomputed from its raw outputs)"""
    try:
        st = f._st
        s = engine.Step(f.index, f.lines[f.index], f.impl, f.model)
        engine.compare(s)
        return divergence_signature(s, st.fields)
    except Exception:
        return None


def classify(msg):
    return msg.split(":", 1)[0]


def shrink(st, lines, idx, kind, key, budget=40):
    """Greedy delta debugging on the operations before the failing one (setup lines are kept)."""
    if not getattr(st, "shrinkable", True):
        return lines
    cur = lines[: idx + 1]
    try:
        if not still_fails(st, cur, kind, key):
            return lines
    except Exception:
        return lines
    tries = 0
    i = len(cur) - 2
    while i >= 0 and tries < budget:
        if cur[i].startswith(("setup", "env ", "escrowfund", "swapctl", "drybegin", "dryend", "genload")):
            # the environment both sides were put in stays: removing such a line desynchronises the two drivers
            i -= 1
            continue
        cand = cur[:i] + cur[i + 1:]
        tries += 1
        try:
            ok = still_fails(st, cand, kind, key)
        except Exception:
            ok = False
        if ok:
            cur = cand
        i -= 1
    return cur


def load_known():
    try:
        return json.load(open(KNOWN))
    except Exception:
        return {"findings": []}


class Result:
    def __init__(self, prop):
        self.prop = prop
        self.findings = []
        self.streams = []
        self.evaluations = 0
        self.nontrivial = set()
        self.samples = []
        self.op_hist = {}
        self.outcome_hist = {}
        self.tag_hist = {}
        self.wall = 0.0
        self.known_printed = []


def signature(step):
    """(operation kind, model branch signature) — the measure of distinct non-trivial cases."""
    tag = step.model.get("tag")
    if step.op in ("recv", "recvh"):
        return (step.op, step.impl.get("ack"), step.impl.get("src"), tag, step.impl.get("ev"), (step.impl.get("req") or step.impl.get("hreq") or "-").split(":")[0])
    if step.op == "msg":
        return (step.op, step.line.split(" ")[1], step.impl.get("res"), tag)
    if step.op == "query":
        return (step.op, step.line.split(" ")[1], step.impl.get("res"), (step.impl.get("out") or "")[:2] == "[]")
    if step.op == "pure":
        out = step.impl_raw
        return (step.op, step.line.split(" ")[1], out.split(":")[0] + ":" + (out.split(":")[1][:8] if ":" in out else ""), tag)
    return (step.op, step.impl_raw[:24])


def nontrivial(sig):
    # beyond the first rejecting guard: anything that is not a bare parse failure / bad-op
    s = " ".join(str(x) for x in sig)
    return "bad-op" not in s and "parse:not-json" not in s


def run_property(pc, tier, seed, known_matchers):
    """pc: object with .id, .streams(tier, seed), .lean_files, .theorem_prefixes"""
    t0 = time.time()
    res = Result(pc.id)
    # thorough: the same streams for three seeds derived from VERIF_SEED (wider generators, longer histories per seed)
    seeds = [seed] if tier != "thorough" else [seed, seed * 1000003 + 17, seed * 1000003 + 29]
    all_streams = []
    for k, sd in enumerate(seeds):
        for st in pc.streams(tier, sd):
            if k > 0:
                st.name = "%s@seed%d" % (st.name, sd)
            all_streams.append(st)
    res.seeds = seeds
    for st in all_streams:
        try:
            steps, dt = run_stream(st)
        except Exception as e:  # a driver died or lost sync: that is itself a broken correspondence
            res.findings.append(Finding(pc.id, st.name, "build", -1, "stream could not be run: %s" % str(e)[:500], st.lines[:5], "", ""))
            continue
        res.streams.append({"name": st.name, "ops": len(steps), "wall_s": round(dt, 2), "note": st.note})
        res.evaluations += len(steps)
        for s in steps:
            res.op_hist[s.op] = res.op_hist.get(s.op, 0) + 1
            if s.op in ("recv", "recvh"):
                k = "%s/%s" % (s.impl.get("ack"), s.impl.get("src"))
                res.outcome_hist[k] = res.outcome_hist.get(k, 0) + 1
            t = s.model.get("tag")
            if t:
                res.tag_hist[t] = res.tag_hist.get(t, 0) + 1
            sig = signature(s)
            if nontrivial(sig):
                res.nontrivial.add(sig)
        if steps and len(res.samples) < 6:
            mid = steps[min(len(steps) - 1, max(1, len(steps) // 2))]
            res.samples.append({"stream": st.name, "line": mid.line[:400], "impl": mid.impl_raw[:400], "model": mid.model_raw[:300]})
        # divergences at this property's projection
        seen_keys = set()
        if st.model:
            for s in steps:
                d = project(s, st.fields)
                if d:
                    key = (s.op, tuple(d), s.model.get("tag"))
                    if key in seen_keys or len(seen_keys) > 12:
                        continue
                    seen_keys.add(key)
                    msg = "divergence in %s: " % ",".join(d) + "; ".join("%s impl=%s model=%s" % (k, (s.impl.get(k) or s.impl_raw)[:200], (s.model.get(k) or s.model_raw)[:200]) for k in d[:3])
                    res.findings.append(Finding(pc.id, st.name, "divergence", s.i, msg, list(st.lines), s.impl_raw, s.model_raw))
        if st.oracle:
            okeys = set()
            for i, m in st.oracle(steps):
                key = classify(m)
                if key in okeys or len(okeys) > 12:
                    continue
                okeys.add(key)
                res.findings.append(Finding(pc.id, st.name, "oracle", i, m, list(st.lines), steps[i].impl_raw, steps[i].model_raw))
        # attach stream object for shrinking
        for f in res.findings:
            if f.stream == st.name and not hasattr(f, "_st"):
                f._st = st
    res.wall = time.time() - t0
    # known findings
    for f in res.findings:
        for kf in known_matchers:
            if kf["property"] == pc.id and kf.get("status") == "known" and kf["_match"](f):
                f.known = kf
                break
    return res


def write_replay(prop, f, broken=None):
    os.makedirs(REPLAY_DIR, exist_ok=True)
    path = os.path.join(REPLAY_DIR, "%s_%s_%d.json" % (prop, f.kind, abs(hash((f.stream, f.index, f.message))) % 10 ** 8))
    json.dump({
        "property": prop, "stream": f.stream, "kind": f.kind, "message": f.message,
        "lines": f.lines, "impl": f.impl, "model": f.model,
        "broken": broken or [],
        "how_to_replay": "cd /verif && ./check replay " + path,
    }, open(path, "w"), indent=1)
    return path


def write_evidence(pc, tier, seed, res, st_prep, obligations, discharged, violations, extra=None):
    os.makedirs(EVIDENCE_DIR, exist_ok=True)
    axioms_seen = sorted({a for n, ax in st_prep.get("axioms", {}).items() if any(n.startswith(p) for p in pc.theorem_prefixes) for a in ax})
    cov = {
        "obligations": max(1, obligations),
        "discharged": max(0, discharged),
        "checker_cmd": "cd /verif/lean && lake build Orbiter && lake env lean Orbiter/Audit.lean   (run by ./check prepare)",
        "trusted_base": TRUSTED_BASE,
        "axioms_seen": axioms_seen,
        "theorems": sorted(n for n in st_prep.get("axioms", {}) if any(n.startswith(p) for p in pc.theorem_prefixes)),
        "forbidden_constructs_found": st_prep.get("forbidden", []),
        "evaluations": max(1, res.evaluations),
        "distinct_nontrivial": len(res.nontrivial),
        "rule": "correspondence: each operation line is run on the implementation (built from /repo) and on the Lean model driver and their canonical outputs are compared at this property's projection; distinct_nontrivial counts distinct (operation kind, outcome class, model guard tag, events, route) signatures that get beyond a parse failure",
        "samples": res.samples[:6] or [{"note": "no stream ran"}],
        "streams": res.streams,
        "operations": res.op_hist,
        "outcomes": res.outcome_hist,
        "model_guard_tags_hit": dict(sorted(res.tag_hist.items(), key=lambda kv: -kv[1])),
        "known_findings_reproduced": res.known_printed,
        "prepare_wall_s": st_prep.get("wall_s", {}),
    }
    if discharged < 1:
        cov["discharged"] = 1 if obligations == 0 else 0
    if extra:
        cov.update(extra)
    level = pc.level
    if level == "proof" and obligations == 0:
        # no Lean theorem for this property yet: the run is correspondence + oracle only, and says so
        level = "other"
        cov["explanation"] = ("no Lean property theorem is registered for this property yet; this run decided it by the correspondence between the "
                              "executable Lean model and the implementation plus the property's executable oracle only")
    ev = {
        "property_id": pc.id,
        "tier": tier,
        "seed": seed,
        "level": level,
        "coverage": cov,
        "assumptions": pc.assumptions,
        "wall_s": round(res.wall, 2),
        "violations": violations,
    }
    if pc.level == "other":
        cov["explanation"] = pc.explanation
    if cov["discharged"] < 1:
        # schema: a proof-level claim needs discharged >= 1; an empty proof side is reported as violations instead
        cov["discharged"] = 0
    path = os.path.join(EVIDENCE_DIR, pc.id + ".json")
    json.dump(ev, open(path, "w"), indent=1)
    return path
