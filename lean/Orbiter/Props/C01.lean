/-
  C01 — Received funds never stay on the orbiter account.
  On the chain's own wiring (`appWiring`), for addresses as the application assigns them
  (`Distinct`: the module accounts are pairwise different accounts, and no escrow account is the orbiter
  account — escrow addresses are hashes; that they do not collide is part of the trusted base):
  whenever the acknowledgement is a success, no balance of the orbiter account is larger than before, and
  for an orbiter transfer the balance in the forwarded denomination is exactly zero. Otherwise the
  acknowledgement is an error and (C03) nothing is committed, so IBC refunds the sender.
-/
import Orbiter.Lemmas.Ledger
import Orbiter.Props.C12
import Orbiter.Props.C06
import Orbiter.Props.C07
import Orbiter.Props.C16
namespace Orbiter.C01
open Orbiter

/-- The accounts involved are different accounts. -/
structure Distinct (cfg : Cfg) : Prop where
  cctp : cfg.cctpModule ≠ cfg.orbAddr
  ftf : cfg.ftfModule ≠ cfg.orbAddr
  warp : cfg.warpModule ≠ cfg.orbAddr
  transfer : cfg.transferModule ≠ cfg.orbAddr

/-- Coverage obligation: the module addresses of the built application are pairwise different. -/
theorem pin_distinct_module_accounts :
    Gen.cctpModuleAddress ≠ Gen.moduleAddress ∧ Gen.ftfModuleAddress ≠ Gen.moduleAddress ∧
    Gen.warpModuleAddress ≠ Gen.moduleAddress ∧ Gen.transferModuleAddress ≠ Gen.moduleAddress ∧
    Gen.dustCollectorAddress ≠ Gen.moduleAddress ∧ Gen.hyperlaneModuleAddress ≠ Gen.moduleAddress := by decide

/-! ### stage by stage -/

theorem hook_le {wr : Wiring} {φ : Faults} {o : OrbState} {c c1 : Ctx} {t : TransferAttrs} {p : Payload}
    (h : beforeTransferHook wr φ o c t p = .ok c1) : Ctx.LeAt wr.cfg.orbAddr c c1 := by
  unfold beforeTransferHook at h
  simp only [Res.guard_bind_eq_ok] at h
  obtain ⟨_, h⟩ := h
  split at h
  · simp only [Res.pure_eq, Res.ok.injEq] at h; subst h; exact Ctx.LeAt_refl _ _
  · obtain ⟨c0, hc0, h⟩ := Res.bind_eq_ok.mp h
    have := Ctx.send_le (x := wr.cfg.orbAddr) h (Or.inr rfl)
    intro d
    have hb := Ctx.call_bank hc0
    rw [← hb]
    exact this d

theorem payFees_le {φ : Faults} {orb : Addr} {denom : String} (l : List (Bytes × Int)) (c c' : Ctx)
    (h : payFees φ orb denom l c = .ok c') : Ctx.LeAt orb c c' := by
  induction l generalizing c with
  | nil => simp only [payFees, Res.ok.injEq] at h; subst h; exact Ctx.LeAt_refl _ _
  | cons v rest ih =>
    simp only [payFees] at h
    obtain ⟨c1, h1, h⟩ := Res.bind_eq_ok.mp h
    obtain ⟨c2, h2, h⟩ := Res.bind_eq_ok.mp h
    have s1 : Ctx.LeAt orb c c1 := Ctx.LeAt_of_bank_eq (Ctx.call_bank h1)
    have s2 : Ctx.LeAt orb c1 c2 := Ctx.send_le h2 (Or.inr rfl)
    exact Ctx.LeAt_trans (Ctx.LeAt_trans s1 s2) (ih c2 h)

theorem feeController_le {cfg : Cfg} {φ : Faults} {c c' : Ctx} {t t' : TransferAttrs} {a : Action}
    (h : feeController cfg φ c t a = .ok (c', t')) : Ctx.LeAt cfg.orbAddr c c' ∧ t'.dstDenom = t.dstDenom := by
  unfold feeController at h
  simp only at h
  split at h
  case h_2 => simp at h
  case h_3 => simp at h
  simp only [Res.pure_eq, Res.bind_ok] at h
  obtain ⟨_, _, h⟩ := Res.bind_eq_ok.mp h
  obtain ⟨fees, _, h⟩ := Res.bind_eq_ok.mp h
  simp only [Res.guard_bind_eq_ok] at h
  obtain ⟨_, h⟩ := h
  obtain ⟨c1, h1, h⟩ := Res.bind_eq_ok.mp h
  obtain ⟨c2, h2, h⟩ := Res.bind_eq_ok.mp h
  simp only [Res.ok.injEq, Prod.mk.injEq] at h
  obtain ⟨rfl, rfl⟩ := h
  exact ⟨Ctx.LeAt_trans (payFees_le _ _ _ h1) (Ctx.LeAt_of_bank_eq (Ctx.emit_bank h2)), rfl⟩

theorem dispatchActions_le {cfg : Cfg} {π : OneofOrder} {φ : Faults} {o : OrbState} (acts : List Action) (c c' : Ctx) (t t' : TransferAttrs)
    (h : dispatchActions (appWiring cfg π) φ o acts c t = .ok (c', t')) : Ctx.LeAt cfg.orbAddr c c' ∧ t'.dstDenom = t.dstDenom := by
  induction acts generalizing c t with
  | nil => simp only [dispatchActions, Res.ok.injEq, Prod.mk.injEq] at h; obtain ⟨rfl, rfl⟩ := h; exact ⟨Ctx.LeAt_refl _ _, rfl⟩
  | cons x rest ih =>
    simp only [dispatchActions] at h
    obtain ⟨r1, hx, h⟩ := Res.bind_eq_ok.mp h
    obtain ⟨c1, t1⟩ := r1
    obtain ⟨i1, i2⟩ := ih c1 t1 h
    unfold executorHandle at hx
    obtain ⟨_, _, hx⟩ := Res.bind_eq_ok.mp hx
    simp only [Res.guard_bind_eq_ok] at hx
    obtain ⟨_, hx⟩ := hx
    simp only [appWiring, appActionRouter] at hx
    split at hx
    · cases hx
    · rename_i hctl
      split at hctl
      · simp only [Option.some.injEq] at hctl; subst hctl
        obtain ⟨j1, j2⟩ := feeController_le hx
        exact ⟨Ctx.LeAt_trans j1 i1, i2.trans j2⟩
      · cases hctl

theorem cctpDepositForBurn_orb {cfg : Cfg} (hd : Distinct cfg) {c c' : Ctx} {amount : Int} {domain : Nat} {mint caller : Bytes} {tok : String}
    (h : cctpDepositForBurn cfg c amount domain mint tok caller = .ok c') :
    Ctx.LeAt cfg.orbAddr c c' ∧ c'.bank.bal cfg.orbAddr tok ≤ c.bank.bal cfg.orbAddr tok - amount.toNat := by
  unfold cctpDepositForBurn at h
  simp only [Res.guard_bind_eq_ok, Res.bind_eq_ok, Res.pure_eq, Res.ok.injEq] at h
  obtain ⟨_, _, _, _, _, _, c1, h1, _, _, _, c2, h2, c3, h3, _, _, _, rfl⟩ := h
  have s1 : Ctx.LeAt cfg.orbAddr c c1 := Ctx.send_le h1 (Or.inr rfl)
  have s2 : Ctx.LeAt cfg.orbAddr c1 c2 := Ctx.send_le h2 (Or.inl hd.ftf)
  have s3 : Ctx.LeAt cfg.orbAddr c2 c3 := Ctx.burn_le h3
  refine ⟨Ctx.LeAt_trans (Ctx.LeAt_trans s1 s2) s3, ?_⟩
  have e1 := Ctx.send_from_exact h1 hd.cctp
  have := Nat.le_trans (s3 tok) (s2 tok)
  omega

theorem warpRemoteTransfer_orb {cfg : Cfg} (hd : Distinct cfg) {c c' : Ctx} {token hook : Bytes} {domain : Nat} {amount gas feeAmt : Int} {feeDenom : String}
    (h : warpRemoteTransfer cfg c token domain amount gas feeDenom feeAmt hook = .ok c') :
    Ctx.LeAt cfg.orbAddr c c' ∧ ∃ origin, lookupTok c.ext.hypTokens token = some origin ∧
      c'.bank.bal cfg.orbAddr origin ≤ c.bank.bal cfg.orbAddr origin - amount.toNat := by
  unfold warpRemoteTransfer at h
  simp only at h
  cases ht : lookupTok c.ext.hypTokens token with
  | none => simp [ht] at h
  | some origin =>
    simp only [ht, Res.pure_eq, Res.bind_ok] at h
    obtain ⟨c1, h1, h⟩ := Res.bind_eq_ok.mp h
    have s1 : Ctx.LeAt cfg.orbAddr c c1 := Ctx.send_le h1 (Or.inr rfl)
    have e1 := Ctx.send_from_exact h1 hd.warp
    cases hr : lookupRouter c1.ext.hypRouters token domain with
    | none => simp [hr] at h
    | some rgas =>
      simp only [hr, Res.bind_ok, Res.guard_bind_eq_ok, Res.guard_panic_bind_eq_ok] at h
      obtain ⟨_, h⟩ := h
      obtain ⟨hk, _, h⟩ := Res.bind_eq_ok.mp h
      split at h
      · simp only [Res.ok.injEq] at h
        subst h
        exact ⟨s1, origin, rfl, by omega⟩
      · have s2 : Ctx.LeAt cfg.orbAddr c1 c' := by
          repeat' (first | (cases h; done) | split at h)
          all_goals exact Ctx.send_le h (Or.inr rfl)
        refine ⟨Ctx.LeAt_trans s1 s2, origin, rfl, ?_⟩
        have := s2 origin
        omega

theorem bankMsgSend_orb {cfg : Cfg} {c c' : Ctx} {to denom : String} {amt : Int} (dst : Addr)
    (hto : accAddressFromBech32 cfg.hrp to = some dst) (hne : dst ≠ cfg.orbAddr)
    (h : bankMsgSend cfg c to denom amt = .ok c') :
    Ctx.LeAt cfg.orbAddr c c' ∧ c'.bank.bal cfg.orbAddr denom = c.bank.bal cfg.orbAddr denom - amt.toNat := by
  unfold bankMsgSend at h
  simp only [hto] at h
  repeat' (first | (cases h; done) | split at h)
  exact ⟨Ctx.send_le h (Or.inr rfl), Ctx.send_from_exact h hne⟩

/-- The forwarder on the chain's wiring: nothing grows on the orbiter account, and the balance in the
forwarded denomination — which the precondition fixed at exactly the forwarded amount — is zero afterwards. -/
theorem forwarder_empties {cfg : Cfg} (hd : Distinct cfg) {π : OneofOrder} {φ : Faults} {o : OrbState} {c c' : Ctx} {t : TransferAttrs} {f : Forwarding}
    (h : forwarderHandle (appWiring cfg π) φ o c t f = .ok c') :
    Ctx.LeAt cfg.orbAddr c c' ∧ c'.bank.bal cfg.orbAddr t.dstDenom = 0 := by
  have hpre : (c.bank.bal cfg.orbAddr t.dstDenom : Int) = t.dstAmount :=
    C06.c06_forward_exact_balance (appWiring cfg π) φ o c c' t f h
  have hzero : ∀ x : Nat, x ≤ c.bank.bal cfg.orbAddr t.dstDenom - t.dstAmount.toNat → x = 0 := by
    intro x hx; omega
  unfold forwarderHandle at h
  obtain ⟨_, _, h⟩ := Res.bind_eq_ok.mp h
  cases ha : f.attrs with
  | none => simp [ha] at h
  | some a =>
    simp only [ha, Res.pure_eq, Res.bind_ok, Res.guard_bind_eq_ok] at h
    obtain ⟨_, _, _, _, h⟩ := h
    simp only [appWiring, appForwardingRouter] at h
    split at h
    · cases h
    · rename_i hctl
      split at hctl
      · cases hctl
      · split at hctl
        · -- CCTP
          simp only [Option.some.injEq] at hctl; subst hctl
          unfold cctpController at h
          simp only [ha, Res.pure_eq, Res.bind_ok] at h
          cases a with
          | cctp domain mint caller =>
            simp only at h
            obtain ⟨_, _, h⟩ := Res.bind_eq_ok.mp h
            obtain ⟨c1, h1, h⟩ := Res.bind_eq_ok.mp h
            obtain ⟨s1, s2⟩ := cctpDepositForBurn_orb hd h
            have hb : c1.bank = c.bank := by have := Ctx.call_bank h1; exact this
            rw [hb] at s2
            refine ⟨?_, hzero _ s2⟩
            intro d; have := s1 d; rw [hb] at this; exact this
          | hyp => simp at h
          | internal => simp at h
          | fee => simp at h
        · split at hctl
          · -- Hyperlane
            simp only [Option.some.injEq] at hctl; subst hctl
            unfold hypController at h
            simp only [ha, Res.pure_eq, Res.bind_ok] at h
            cases a with
            | hyp tok domain rec_ hook hmeta gas feeDenom feeAmt =>
              simp only at h
              obtain ⟨_, _, h⟩ := Res.bind_eq_ok.mp h
              obtain ⟨_, _, h⟩ := Res.bind_eq_ok.mp h
              obtain ⟨c1, h1, h⟩ := Res.bind_eq_ok.mp h
              cases ht : lookupTok c1.ext.hypTokens tok with
              | none => simp [ht] at h
              | some origin =>
                simp only [ht, Res.bind_ok, Res.guard_bind_eq_ok] at h
                obtain ⟨ho, h⟩ := h
                obtain ⟨c2, h2, h⟩ := Res.bind_eq_ok.mp h
                obtain ⟨s1, origin', ht', s2⟩ := warpRemoteTransfer_orb hd h
                have hb1 : c1.bank = c.bank := by have := Ctx.call_bank h1; exact this
                have hb2 : c2.bank = c.bank := by have := Ctx.call_bank h2; exact this.trans hb1
                have he2 : c2.ext = c1.ext := by rw [(Ctx.call_ok h2).1]
                rw [he2, ht] at ht'
                simp only [Option.some.injEq] at ht'
                subst ht'
                have horig : origin = t.dstDenom := by simpa using ho
                subst horig
                rw [hb2] at s2
                refine ⟨?_, hzero _ s2⟩
                intro d; have := s1 d; rw [hb2] at this; exact this
            | cctp => simp at h
            | internal => simp at h
            | fee => simp at h
          · split at hctl
            · -- internal
              simp only [Option.some.injEq] at hctl; subst hctl
              unfold internalController at h
              simp only [ha, Res.pure_eq, Res.bind_ok] at h
              cases a with
              | internal recipient =>
                simp only at h
                obtain ⟨_, _, h⟩ := Res.bind_eq_ok.mp h
                obtain ⟨_, hval, h⟩ := Res.bind_eq_ok.mp h
                obtain ⟨_, _, h⟩ := Res.bind_eq_ok.mp h
                obtain ⟨c1, h1, h⟩ := Res.bind_eq_ok.mp h
                -- validation: the recipient decodes and is not the orbiter account
                have hrec : ∃ dst, accAddressFromBech32 cfg.hrp recipient = some dst ∧ dst ≠ cfg.orbAddr := by
                  cases hv : (Attrs.internal recipient).validate cfg.hrp cfg.orbAddr with
                  | err e => simp [hv, Res.mapErr] at hval
                  | panic e => simp [hv, Res.mapErr] at hval
                  | ok u =>
                    unfold Attrs.validate at hv
                    simp only at hv
                    split at hv
                    · cases hv
                    · split at hv
                      · cases hv
                      · rename_i dst hdst
                        split at hv
                        · cases hv
                        · rename_i hne
                          exact ⟨dst, hdst, by simpa using hne⟩
                obtain ⟨dst, hdst, hne⟩ := hrec
                obtain ⟨s1, s2⟩ := bankMsgSend_orb dst hdst hne h
                have hb : c1.bank = c.bank := by have := Ctx.call_bank h1; exact this
                rw [hb] at s2
                refine ⟨?_, hzero _ (Nat.le_of_eq s2)⟩
                intro d; have := s1 d; rw [hb] at this; exact this
              | cctp => simp at h
              | hyp => simp at h
              | fee => simp at h
            · cases hctl

/-- ICS-20 alone, for a receiver that is not the orbiter account: nothing grows on the orbiter account. -/
theorem ics20_foreign_le {cfg : Cfg} (hd : Distinct cfg) {c c' : Ctx} {pkt : Packet}
    (hno : ∀ d, decFTPD pkt.data = some d → accAddressFromBech32 cfg.hrp d.receiver ≠ some cfg.orbAddr)
    (h : ics20Recv cfg c pkt = .ok c') : Ctx.LeAt cfg.orbAddr c c' := by
  unfold ics20Recv at h
  cases hdd : decFTPD pkt.data with
  | none => simp [hdd] at h
  | some d =>
    simp only [hdd] at h
    cases hamt : newIntFromString d.amount with
    | none => simp [hamt] at h
    | some amt =>
      simp only [hamt, Res.pure_eq, Res.bind_ok, Res.guard_bind_eq_ok] at h
      obtain ⟨_, _, _, _, _, h⟩ := h
      cases hr : accAddressFromBech32 cfg.hrp d.receiver with
      | none => simp [hr] at h
      | some r =>
        have hne : r ≠ cfg.orbAddr := by
          intro e; subst e; exact hno d hdd hr
        simp only [hr, Res.bind_ok] at h
        split at h
        · obtain ⟨_, _, h⟩ := Res.bind_eq_ok.mp h
          simp only [Res.guard_bind_eq_ok] at h
          obtain ⟨_, h⟩ := h
          obtain ⟨c1, h1, h⟩ := Res.bind_eq_ok.mp h
          split at h
          · cases h
          · simp only [Res.pure_eq, Res.ok.injEq] at h
            subst h
            intro dn
            exact (Ctx.send_le (x := cfg.orbAddr) h1 (Or.inl hne)) dn
        · split at h
          · cases h
          · have s2 := Ctx.send_le (x := cfg.orbAddr) h (Or.inl hne)
            intro dn
            have := s2 dn
            simp only [Ctx.mint, Ledger.mint_bal] at this
            have hnm : ¬ (cfg.orbAddr = cfg.transferModule ∧ dn = ibcDenom cfg (denomPrefix pkt.dstPort pkt.dstChan ++ d.denom)) :=
              fun e => hd.transfer e.1.symm
            simpa [hnm] using this

/-- **C01.** On the chain's wiring, for every packet and every prior state: if the acknowledgement is a
success then no balance of the orbiter account is larger than before; and for an orbiter transfer the
balance in the forwarded denomination (the packet's denomination: the chain's only action controller does
not change it) is exactly zero — the whole delivered coin has left the account. -/
theorem c01_nothing_stays (cfg : Cfg) (hd : Distinct cfg) (π : OneofOrder) (φ : Faults) (w : World) (pkt : Packet)
    (hs : (ibcRecv (appWiring cfg π) φ w pkt).ack.isSuccess = true) :
    (∀ d, (ibcRecv (appWiring cfg π) φ w pkt).ctx.bank.bal cfg.orbAddr d ≤ w.bank.bal cfg.orbAddr d) ∧
    (∀ t p, adaptPacket (appWiring cfg π) pkt = .ok (.orbiter t p) →
      (ibcRecv (appWiring cfg π) φ w pkt).ctx.bank.bal cfg.orbAddr t.srcDenom = 0) := by
  have he := ibcRecv_success hs
  have hs' := hs
  rw [he] at hs'
  rcases mwOnRecv_success_cases hs' with ⟨hno, c, hi, hm⟩ | ⟨t, p, ha⟩
  · refine ⟨?_, ?_⟩
    · rw [he, hm]
      apply ics20_foreign_le hd ?_ hi
      intro d hdd hr
      exact (C07.c07_classification (appWiring cfg π) pkt).mp hno ⟨d, hdd, hr⟩
    · intro t p ha; rw [hno] at ha; cases ha
  · obtain ⟨c1, c2, c3, t3, h1, h2, hdp, hem⟩ := ibcRecv_success_dispatch hs ha
    obtain ⟨c4, f, _, hda, _, hfw, _⟩ := dispatchPayload_ok hdp
    obtain ⟨_, _, hdd, _⟩ := C12.c12_source_from_packet _ pkt t p ha
    have s1 := hook_le h1
    have s3 := dispatchActions_le _ _ _ _ _ hda
    obtain ⟨s4, z4⟩ := forwarder_empties hd hfw
    have hb5 : (ibcRecv (appWiring cfg π) φ w pkt).ctx.bank = c3.bank := Ctx.emit_bank hem
    have hden : t3.dstDenom = t.srcDenom := s3.2.trans hdd
    have hzero : (ibcRecv (appWiring cfg π) φ w pkt).ctx.bank.bal cfg.orbAddr t.srcDenom = 0 := by
      rw [hb5, ← hden]; exact z4
    refine ⟨?_, ?_⟩
    · intro d
      by_cases hdn : d = t.srcDenom
      · subst hdn; rw [hzero]; exact Nat.zero_le _
      · -- other denominations: the hook and ICS-20 leave them alone, everything after only takes
        rw [hb5]
        have k4 := s4 d
        have k3 := s3.1 d
        have k1 : c1.bank.bal cfg.orbAddr d ≤ w.bank.bal cfg.orbAddr d := s1 d
        -- ICS-20 on this packet moves only the packet's denomination
        have k2 : c2.bank.bal cfg.orbAddr d = c1.bank.bal cfg.orbAddr d := by
          unfold wrappedApp at h2
          obtain ⟨c0, hc0, h2⟩ := Res.bind_eq_ok.mp h2
          have hb0 : c0.bank = c1.bank := Ctx.call_bank hc0
          obtain ⟨_, _, _, hbk⟩ := C16.c16_same_coin (appWiring cfg π) c0 c2 pkt t p ha h2
          rw [Ledger.send_bal hbk cfg.orbAddr d, hb0]
          simp [hdn]
        omega
    · intro t' p' ha'
      rw [ha] at ha'
      simp only [Res.ok.injEq, Parsed.orbiter.injEq] at ha'
      obtain ⟨rfl, rfl⟩ := ha'
      exact hzero

/-- The dichotomy: either the acknowledgement is a success (and `c01_nothing_stays` applies), or it is not
and the committed world is untouched — the ICS-20 credit included — so the sender is refunded by IBC. -/
theorem c01_dichotomy (wr : Wiring) (φ : Faults) (w : World) (pkt : Packet) :
    (ibcRecv wr φ w pkt).ack.isSuccess = true ∨
    ((ibcRecv wr φ w pkt).ack.isSuccess = false ∧ (ibcRecv wr φ w pkt).world = w) := by
  cases hs : (ibcRecv wr φ w pkt).ack.isSuccess with
  | true => exact Or.inl rfl
  | false => exact Or.inr ⟨rfl, ibcRecv_error_commits_nothing wr φ w pkt hs⟩


/-! ### C16, third clause — acts on, forwards and records the credited coin (here because it needs the stage lemmas above) -/

/-- **The coin recorded is the coin credited.** On the chain's wiring, when an orbiter packet is acknowledged with success the one
statistics update is made with attributes whose source side is the packet's channel and exactly the coin ICS-20 released
(`c16_balance_is_credit`: that release is the one movement of the wrapped application), and whose destination denomination is
still that denomination: the incoming total of the route grows by the credited amount under the credited denomination, the
outgoing total — under the same denomination — by the amount the forwarding request carried (`c06_sends_final_coin`). -/
theorem c16_records_credited_coin (cfg : Cfg) (π : OneofOrder) (φ : Faults) (w : World) (pkt : Packet) (t : TransferAttrs) (p : Payload)
    (hs : (ibcRecv (appWiring cfg π) φ w pkt).ack.isSuccess = true) (ha : adaptPacket (appWiring cfg π) pkt = .ok (.orbiter t p)) :
    ∃ t' f a, p.forwarding = some f ∧ f.attrs = some a ∧
      (ibcRecv (appWiring cfg π) φ w pkt).orb = (updateStats w.orb t' f).1 ∧
      t'.srcProtocol = PROTOCOL_IBC ∧ t'.srcCounterparty = pkt.dstChan ∧
      t'.srcDenom = t.srcDenom ∧ t'.srcAmount = t.srcAmount ∧ t'.dstDenom = t.srcDenom ∧ 0 < t'.dstAmount ∧
      ((updateStats w.orb t' f).2 = true → ∀ k,
        C12.amtOf (ibcRecv (appWiring cfg π) φ w pkt).orb k =
          ((C12.amtOf w.orb k).1 + (if k = ({ srcProto := PROTOCOL_IBC, srcCp := pkt.dstChan, dstId := ccidString f.protocolId a.counterpartyID, denom := t.srcDenom } : AmtKey) then C12.incr t.srcAmount else 0),
           (C12.amtOf w.orb k).2 + (if k = ({ srcProto := PROTOCOL_IBC, srcCp := pkt.dstChan, dstId := ccidString f.protocolId a.counterpartyID, denom := t.srcDenom } : AmtKey) then C12.incr t'.dstAmount else 0))) := by
  obtain ⟨c2, c3, t', f, a, hda, hf, hfa, _, _, _, hpos, ho⟩ := C12.c12_success (appWiring cfg π) φ w pkt t p hs ha
  obtain ⟨s1, s2, s3, s4⟩ := C12.dispatchActions_src (C12.appWiring_srcStable cfg π) φ w.orb p.preActions c2 c3 t t' hda
  obtain ⟨h1, h2, hdd, _⟩ := C12.c12_source_from_packet _ pkt t p ha
  have hden : t'.dstDenom = t.srcDenom := (dispatchActions_le _ _ _ _ _ hda).2.trans hdd
  refine ⟨t', f, a, hf, hfa, ho, s1.trans h1, s2.trans h2, s3, s4, hden, hpos, ?_⟩
  intro hok k
  rw [ho]
  have := (C12.c12_update_spec w.orb t' f a hfa hok).1 k
  rw [this, s1, s2, s3, s4, hden, h1, h2]

/-! ### histories -/

/-- What was sent directly to an account along a history (anyone may send coins to the orbiter account). -/
def depositedTo (a : Addr) (d : String) : List Op → Nat
  | [] => 0
  | .deposit to d' amt :: rest => (if to = a ∧ d' = d then amt else 0) + depositedTo a d rest
  | _ :: rest => depositedTo a d rest

theorem c01_step_le (cfg : Cfg) (hd : Distinct cfg) (π : OneofOrder) (φ : Faults) (w : World) (op : Op) (d : String) :
    (step (appWiring cfg π) φ w op).2.bank.bal cfg.orbAddr d ≤ w.bank.bal cfg.orbAddr d + depositedTo cfg.orbAddr d [op] := by
  cases op with
  | recv pkt =>
    simp only [step, depositedTo, Nat.add_zero]
    rcases c01_dichotomy (appWiring cfg π) φ w pkt with hs | ⟨_, hw⟩
    · exact (c01_nothing_stays cfg hd π φ w pkt hs).1 d
    · rw [hw]; exact Nat.le_refl _
  | msg m =>
    simp only [step, depositedTo, Nat.add_zero]
    cases msgStep (appWiring cfg π).cfg φ w.orb m with
    | ok r => obtain ⟨o, evs, rq⟩ := r; exact Nat.le_refl _
    | err e => exact Nat.le_refl _
    | panic e => exact Nat.le_refl _
  | deposit to d' amt =>
    simp only [step, depositedTo, Nat.add_zero, Ledger.mint_bal]
    split <;> split <;> simp_all
  | reimport =>
    simp only [step, depositedTo, Nat.add_zero]
    exact Nat.le_refl _
  | env e => simp only [step, depositedTo, Nat.add_zero]; exact Nat.le_refl _

/-- **C01 over histories.** After any history of received packets (orbiter transfers and foreign traffic, accepted or refused),
governance messages, environment changes, genesis round trips and deposits, every balance of the orbiter account is at most
what it was at the start plus what was sent to the account directly: nothing a packet delivered ever accumulates there. -/
theorem c01_history (cfg : Cfg) (hd : Distinct cfg) (π : OneofOrder) (ops : List Op) (w : World) (d : String) :
    (run (appWiring cfg π) w ops).bank.bal cfg.orbAddr d ≤ w.bank.bal cfg.orbAddr d + depositedTo cfg.orbAddr d ops := by
  unfold run
  induction ops generalizing w with
  | nil => simp [depositedTo]
  | cons op ops ih =>
    simp only [List.foldl_cons]
    have h1 := c01_step_le cfg hd π noFaults w op d
    have h2 := ih (step (appWiring cfg π) noFaults w op).2
    have h3 : depositedTo cfg.orbAddr d (op :: ops) = depositedTo cfg.orbAddr d [op] + depositedTo cfg.orbAddr d ops := by
      cases op <;> simp [depositedTo]
    omega

/-- …in particular, without direct deposits a history that starts with an empty orbiter account ends with an empty one. -/
theorem c01_history_empty (cfg : Cfg) (hd : Distinct cfg) (π : OneofOrder) (ops : List Op) (w : World)
    (h0 : ∀ d, w.bank.bal cfg.orbAddr d = 0) (hnd : ∀ d, depositedTo cfg.orbAddr d ops = 0) (d : String) :
    (run (appWiring cfg π) w ops).bank.bal cfg.orbAddr d = 0 := by
  have := c01_history cfg hd π ops w d
  rw [h0 d, hnd d] at this
  omega

end Orbiter.C01
