/-
  Perturbing the ledger where the receive path never looks (C11): adding coins `δ` to accounts and
  denominations the path never debits, and prefixing the records of calls and moves, commutes with every
  primitive operation of the context under the empty fault oracle.
-/
import Orbiter.Lemmas.Ledger
namespace Orbiter

structure Pert where
  δ : Addr → String → Nat
  calls : List (String × Nat)
  moves : List Move

/-- `c` with `δ` added to the balances and the two records prefixed. -/
def Pert.ap (P : Pert) (c : Ctx) : Ctx :=
  { c with bank := { c.bank with bal := fun a d => c.bank.bal a d + P.δ a d }, calls := P.calls ++ c.calls, moves := P.moves ++ c.moves }

@[simp] theorem Pert.ap_ext (P : Pert) (c : Ctx) : (P.ap c).ext = c.ext := rfl
@[simp] theorem Pert.ap_reqs (P : Pert) (c : Ctx) : (P.ap c).reqs = c.reqs := rfl
@[simp] theorem Pert.ap_events (P : Pert) (c : Ctx) : (P.ap c).events = c.events := rfl
@[simp] theorem Pert.ap_bal (P : Pert) (c : Ctx) (a : Addr) (d : String) : (P.ap c).bank.bal a d = c.bank.bal a d + P.δ a d := rfl
@[simp] theorem Pert.ap_supply (P : Pert) (c : Ctx) : (P.ap c).bank.supply = c.bank.supply := rfl

/-- Setting requests commutes. -/
theorem Pert.ap_with_reqs (P : Pert) (c : Ctx) (r : List Req) : P.ap { c with reqs := r } = { P.ap c with reqs := r } := rfl

theorem Pert.ap_with_ext (P : Pert) (c : Ctx) (e : ExtState) : P.ap { c with ext := e } = { P.ap c with ext := e } := rfl

/-- A site that the prefix does not mention. -/
def Pert.fresh (P : Pert) (site : String) : Prop := ∀ x ∈ P.calls, x.1 ≠ site

theorem Pert.count_ap (P : Pert) (c : Ctx) (site : String) (h : P.fresh site) : (P.ap c).count site = c.count site := by
  unfold Ctx.count Pert.ap
  simp only [List.filter_append, List.length_append]
  have : (P.calls.filter (·.1 == site)) = [] := by
    rw [List.filter_eq_nil_iff]
    intro x hx
    simpa using h x hx
  rw [this]; simp

theorem Pert.call (P : Pert) (c : Ctx) (site : String) (h : P.fresh site) :
    Ctx.call noFaults (P.ap c) site = (Ctx.call noFaults c site).map P.ap := by
  unfold Ctx.call
  simp only [P.count_ap c site h, noFaults, Bool.false_eq_true, ↓reduceIte, Res.map]
  simp only [Pert.ap, List.append_assoc]

theorem Ledger.send_pert (l : Ledger) (δ : Addr → String → Nat) (src dst : Addr) (d : String) (amt : Nat) (h : δ src d = 0) :
    ({ l with bal := fun a x => l.bal a x + δ a x } : Ledger).send src dst d amt =
      (l.send src dst d amt).map fun l' => { l' with bal := fun a x => l'.bal a x + δ a x } := by
  unfold Ledger.send
  simp only [h, Nat.add_zero]
  split
  · rfl
  · simp only [Option.map_some, Option.some.injEq, Ledger.setBal, Ledger.mk.injEq, and_true]
    funext a x
    by_cases h1 : a = dst ∧ x = d
    · obtain ⟨rfl, rfl⟩ := h1
      by_cases h2 : a = src
      · subst h2; simp [h]
      · simp [h2]; omega
    · by_cases h2 : a = src ∧ x = d
      · obtain ⟨rfl, rfl⟩ := h2
        have hne : ¬ a = dst := fun e => h1 ⟨e, rfl⟩
        simp [hne, h]
      · simp [h1, h2]

theorem Pert.send (P : Pert) (c : Ctx) (src dst : Addr) (d tag : String) (amt : Nat) (h : P.δ src d = 0) :
    (P.ap c).send src dst d amt tag = (c.send src dst d amt tag).map P.ap := by
  unfold Ctx.send
  simp only [Pert.ap_ext]
  by_cases hc : (d == c.ext.mintingDenom && amt != 0 && (c.ext.ftfPaused || c.ext.blacklisted src || c.ext.blacklisted dst)) = true
  · simp only [hc, ↓reduceIte, Res.map]
  · simp only [hc, Bool.false_eq_true, ↓reduceIte]
    have := Ledger.send_pert c.bank P.δ src dst d amt h
    simp only [Pert.ap] at this ⊢
    rw [this]
    cases c.bank.send src dst d amt with
    | none => rfl
    | some b => simp only [Option.map_some, Res.map, List.append_assoc]; rfl

theorem Ledger.burn_pert (l : Ledger) (δ : Addr → String → Nat) (src : Addr) (d : String) (amt : Nat) (h : δ src d = 0) :
    ({ l with bal := fun a x => l.bal a x + δ a x } : Ledger).burn src d amt =
      (l.burn src d amt).map fun l' => { l' with bal := fun a x => l'.bal a x + δ a x } := by
  unfold Ledger.burn
  simp only [h, Nat.add_zero]
  split
  · rfl
  · simp only [Option.map_some, Option.some.injEq, Ledger.setBal, Ledger.mk.injEq, and_true]
    funext a x
    by_cases h2 : a = src ∧ x = d
    · obtain ⟨rfl, rfl⟩ := h2
      simp [h]
    · simp [h2]

theorem Pert.burn (P : Pert) (c : Ctx) (src : Addr) (d tag : String) (amt : Nat) (h : P.δ src d = 0) :
    (P.ap c).burn src d amt tag = (c.burn src d amt tag).map P.ap := by
  unfold Ctx.burn
  have := Ledger.burn_pert c.bank P.δ src d amt h
  simp only [Pert.ap] at this ⊢
  rw [this]
  cases c.bank.burn src d amt with
  | none => rfl
  | some b => simp only [Option.map_some, Res.map, List.append_assoc]; rfl

theorem Pert.emit (P : Pert) (c : Ctx) (ev : String) (h : P.fresh "event.Emit") :
    (P.ap c).emit noFaults ev = (c.emit noFaults ev).map P.ap := by
  unfold Ctx.emit
  rw [P.call c _ h]
  cases Ctx.call noFaults c "event.Emit" with
  | ok c1 => rfl
  | err e => rfl
  | panic e => rfl

/-! ### algebra of `map` and `bind` used to push the perturbation through `do` blocks -/

theorem Res.map_bind' {α β γ} (x : Res α) (g : α → β) (k : β → Res γ) : (x.map g >>= k) = (x >>= fun a => k (g a)) := by
  cases x <;> rfl

theorem Res.bind_map' {α β γ} (x : Res α) (k : α → Res β) (g : β → γ) : (x >>= k).map g = (x >>= fun a => (k a).map g) := by
  cases x <;> rfl

theorem Res.map_ok' {α β} (a : α) (g : α → β) : (Res.ok a).map g = .ok (g a) := rfl
theorem Res.map_err' {α β} (e : String) (g : α → β) : (Res.err e : Res α).map g = .err e := rfl
theorem Res.map_panic' {α β} (e : String) (g : α → β) : (Res.panic e : Res α).map g = .panic e := rfl
theorem Res.map_pure' {α β} (a : α) (g : α → β) : (Pure.pure a : Res α).map g = .ok (g a) := rfl

theorem Res.map_ite' {α β} (c : Prop) [Decidable c] (a b : Res α) (g : α → β) : (if c then a else b).map g = if c then a.map g else b.map g := by
  split <;> rfl

end Orbiter
