#!/usr/bin/env python3
"""Self-validation (DESIGN.md §9): apply each seeded change of /verif/seeded/<id>/ to a scratch worktree of /repo,
confirm it (builds, existing tests pass, demonstration fails with it and passes without), run the quick checks
against the worktree and record which checks catch it. Nothing here touches /repo itself.

  selftest/run_seeded.py [ids…] [--checks all|own] [--no-confirm] [-j N]
"""
import concurrent.futures
import json
import os
import re
import shutil
import subprocess
import sys
import time

VERIF = os.path.dirname(os.path.dirname(os.path.abspath(__file__)))
SEEDED = os.path.join(VERIF, "seeded")
ALL_PROPS = ["C%02d" % i for i in range(1, 21)]


def sh(cmd, cwd=None, env=None, timeout=3600):
    p = subprocess.run(cmd, shell=True, cwd=cwd, env=env, capture_output=True, text=True, timeout=timeout)
    return p.returncode, p.stdout + p.stderr


def goenv():
    e = dict(os.environ)
    e["GOPROXY"] = "off"
    e.setdefault("DBUS_SESSION_BUS_ADDRESS", "disabled:")
    e.pop("GOFLAGS", None)
    e.pop("GOWORK", None)
    return e


def run_one(mid, checks, confirm):
    d = os.path.join(SEEDED, mid)
    meta = json.load(open(os.path.join(d, "meta.json")))
    own = meta.get("property") or mid[:3]
    wt = "/tmp/mut-wt-" + mid
    cache = "/tmp/mut-cache-" + mid
    evd = "/tmp/mut-ev-" + mid
    res = {"id": mid, "property": own, "applies": False, "confirmed": None, "detected_by": [], "missed_by": [], "outputs": {}}
    sh("git -C /repo worktree remove --force %s" % wt)
    shutil.rmtree(wt, ignore_errors=True)
    rc, out = sh("git -C /repo worktree add --detach %s HEAD" % wt)
    if rc != 0:
        res["error"] = out[-500:]
        return res
    try:
        patch = os.path.join(d, "rebased.diff") if os.path.exists(os.path.join(d, "rebased.diff")) else os.path.join(d, "patch.diff")
        rc, out = sh("git apply %s" % patch, cwd=wt)
        if rc != 0:
            res["error"] = "patch does not apply: " + out[-300:]
            return res
        res["applies"] = True
        if confirm:
            conf = {}
            rc, out = sh("go build ./... && (cd simapp && go build ./...)", cwd=wt, env=goenv())
            conf["builds"] = rc == 0
            rc, out = sh("go test -count=1 -vet=off ./... 2>&1 | grep -v 'no test files' | grep -v '^ok' | head -5", cwd=wt, env=goenv())
            conf["existing_tests_pass"] = out.strip() == ""
            if not conf["existing_tests_pass"]:
                conf["test_output"] = out[-400:]
            dp = open(os.path.join(d, "DEMO_PATH.txt")).read()
            m = re.search(r"([\w./-]+_test\.go)", dp)
            cmdm = re.search(r"(go test [^\n`]+)", dp)
            if m and cmdm:
                rel = m.group(1)
                os.makedirs(os.path.dirname(os.path.join(wt, rel)), exist_ok=True)
                shutil.copy(os.path.join(d, "demo_test.go"), os.path.join(wt, rel))
                cmd = cmdm.group(1).replace("GOPROXY=off ", "").strip().rstrip("`.")
                cwd_demo = os.path.join(wt, "simapp") if rel.startswith("simapp/") and re.search(r"cd \S*simapp", dp) else wt
                rc1, o1 = sh(cmd, cwd=cwd_demo, env=goenv())
                conf["demo_fails_with_patch"] = rc1 != 0
                sh("git apply -R %s" % patch, cwd=wt)
                rc2, o2 = sh(cmd, cwd=cwd_demo, env=goenv())
                conf["demo_passes_without_patch"] = rc2 == 0
                if rc2 != 0:
                    conf["demo_out_without"] = o2[-400:]
                sh("git apply %s" % patch, cwd=wt)
                os.remove(os.path.join(wt, rel))
            res["confirmed"] = conf
        env = dict(os.environ)
        env.setdefault("DBUS_SESSION_BUS_ADDRESS", "disabled:")
        env.update({"VERIF_REPO": wt, "VERIF_CACHE": cache, "VERIF_EVIDENCE": evd})
        for c in checks(own):
            rc, out = sh("./check %s --tier quick" % c, cwd=VERIF, env=env, timeout=3600)
            lines = [l for l in out.splitlines() if l.startswith("VIOLATION") or l.startswith("  ")]
            res["outputs"][c] = lines[:3]
            (res["detected_by"] if rc != 0 and any(l.startswith("VIOLATION") for l in lines) else res["missed_by"]).append(c)
    finally:
        # mutant builds fill the Go build cache quickly (it reached 130 GB once): drop entries not used for three hours
        sh("find ${GOCACHE:-$HOME/.cache/go-build} -type f -mmin +180 -delete 2>/dev/null")
        sh("git -C /repo worktree remove --force %s" % wt)
        shutil.rmtree(wt, ignore_errors=True)
        shutil.rmtree(cache, ignore_errors=True)
        shutil.rmtree(evd, ignore_errors=True)
    return res


def main():
    args = sys.argv[1:]
    jobs = 4
    if "-j" in args:
        i = args.index("-j")
        jobs = int(args[i + 1])
        del args[i:i + 2]
    mode = "own"
    if "--checks" in args:
        i = args.index("--checks")
        mode = args[i + 1]
        del args[i:i + 2]
    confirm = "--no-confirm" not in args
    args = [a for a in args if not a.startswith("--")]
    ids = args or sorted(os.listdir(SEEDED))
    checks = (lambda own: ALL_PROPS) if mode == "all" else (lambda own: [own])
    results = []
    with concurrent.futures.ThreadPoolExecutor(max_workers=jobs) as ex:
        for r in ex.map(lambda m: run_one(m, checks, confirm), ids):
            results.append(r)
            own_hit = r["property"] in r["detected_by"]
            print("%-6s applies=%s confirmed=%s own-check=%s detected_by=%s %s" % (
                r["id"], r["applies"], None if r["confirmed"] is None else all(v for k, v in r["confirmed"].items() if isinstance(v, bool)),
                "CAUGHT" if own_hit else "missed", ",".join(r["detected_by"]), r.get("error", "")), flush=True)
    out = os.path.join(VERIF, "selftest", "seeded_results.json")
    old = {}
    try:
        old = {r["id"]: r for r in json.load(open(out))}
    except Exception:
        pass
    for r in results:
        if r.get("confirmed") is None and old.get(r["id"], {}).get("confirmed"):
            r["confirmed"] = old[r["id"]]["confirmed"]          # a --no-confirm re-run keeps the earlier confirmation
        old[r["id"]] = r
        # the confirmation is recorded with the seeded change itself
        mp = os.path.join(SEEDED, r["id"], "meta.json")
        try:
            m = json.load(open(mp))
            if r.get("confirmed") and m.get("confirmed_here") != r["confirmed"]:
                m["confirmed_here"] = r["confirmed"]
            m["detected_by"] = r.get("detected_by")
            json.dump(m, open(mp, "w"), indent=1)
        except Exception:
            pass
    json.dump([old[k] for k in sorted(old)], open(out, "w"), indent=1)


if __name__ == "__main__":
    main()
