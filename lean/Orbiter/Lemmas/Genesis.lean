/-
  Lemmas about `initGenesis ∘ exportGenesis` shared by C08/C09 (histories with export/import round trips)
  and C17.
-/
import Orbiter.Lemmas.State
import Orbiter.Step
namespace Orbiter

theorem asPanic_ok {r : Res OrbState} {o : OrbState} (h : asPanic r = .ok o) : r = .ok o := by
  unfold asPanic at h
  split at h
  · cases h
  · exact h

/-- Fields other than the three pause sets. -/
def OrbState.sameRest (a b : OrbState) : Prop := a.params = b.params ∧ a.amounts = b.amounts ∧ a.counts = b.counts

theorem fold_setPausedProtocol (l : List Int) (o o' : OrbState) (hn : o.pausedProtocols.Nodup)
    (h : l.foldlM (fun o p => asPanic (setPausedProtocol o p)) o = .ok o') :
    o'.pausedProtocols.Nodup ∧ (∀ q, o'.pausedProtocols.contains q = (l.contains q || o.pausedProtocols.contains q)) ∧
    o'.pausedCrossChains = o.pausedCrossChains ∧ o'.pausedActions = o.pausedActions ∧ o'.sameRest o := by
  induction l generalizing o with
  | nil =>
    simp only [List.foldlM_nil, Res.pure_eq, Res.ok.injEq] at h
    subst h
    exact ⟨hn, by simp, rfl, rfl, rfl, rfl, rfl⟩
  | cons x rest ih =>
    simp only [List.foldlM_cons] at h
    obtain ⟨o1, h1, h⟩ := Res.bind_eq_ok.mp h
    obtain ⟨hc, rfl⟩ := setPausedProtocol_spec (asPanic_ok h1)
    have hn1 : (insertBy intLt x o.pausedProtocols).Nodup := nodup_insertBy intLt _ _ (by simpa using hc) hn
    obtain ⟨i1, i2, i3, i4, i5⟩ := ih _ hn1 h
    refine ⟨i1, ?_, i3, i4, i5⟩
    intro q
    rw [i2 q]
    simp only
    rw [contains_insertBy]
    simp only [List.contains_cons]
    cases (q == x) <;> cases (rest.contains q) <;> simp

theorem fold_setPausedCrossChain (l : List (Option (Int × String))) (o o' : OrbState) (hn : o.pausedCrossChains.Nodup)
    (h : l.foldlM initCcStep o = .ok o') :
    o'.pausedCrossChains.Nodup ∧ (∀ q, o'.pausedCrossChains.contains q = (l.contains (some q) || o.pausedCrossChains.contains q)) ∧
    o'.pausedProtocols = o.pausedProtocols ∧ o'.pausedActions = o.pausedActions ∧ o'.sameRest o := by
  induction l generalizing o with
  | nil =>
    simp only [List.foldlM_nil, Res.pure_eq, Res.ok.injEq] at h
    subst h
    exact ⟨hn, by simp, rfl, rfl, rfl, rfl, rfl⟩
  | cons x rest ih =>
    simp only [List.foldlM_cons] at h
    obtain ⟨o1, h1, h⟩ := Res.bind_eq_ok.mp h
    cases x with
    | none => cases h1
    | some pc =>
      obtain ⟨p, cp⟩ := pc
      simp only [initCcStep] at h1
      obtain ⟨hc, _, rfl⟩ := setPausedCrossChain_spec (asPanic_ok h1)
      have hn1 : (insertBy ccLt (p, cp) o.pausedCrossChains).Nodup := nodup_insertBy ccLt _ _ (by simpa using hc) hn
      obtain ⟨i1, i2, i3, i4, i5⟩ := ih _ hn1 h
      refine ⟨i1, ?_, i3, i4, i5⟩
      intro q
      rw [i2 q]
      simp only
      rw [contains_insertBy]
      simp only [List.contains_cons]
      have : (some q == some (p, cp)) = (q == (p, cp)) := by
        rw [Bool.eq_iff_iff]; simp
      rw [this]
      cases (q == (p, cp)) <;> cases (rest.contains (some q)) <;> simp

theorem fold_setPausedAction (l : List Int) (o o' : OrbState) (hn : o.pausedActions.Nodup)
    (h : l.foldlM (fun o a => asPanic (setPausedAction o a)) o = .ok o') :
    o'.pausedActions.Nodup ∧ (∀ q, o'.pausedActions.contains q = (l.contains q || o.pausedActions.contains q)) ∧
    o'.pausedProtocols = o.pausedProtocols ∧ o'.pausedCrossChains = o.pausedCrossChains ∧ o'.sameRest o := by
  induction l generalizing o with
  | nil =>
    simp only [List.foldlM_nil, Res.pure_eq, Res.ok.injEq] at h
    subst h
    exact ⟨hn, by simp, rfl, rfl, rfl, rfl, rfl⟩
  | cons x rest ih =>
    simp only [List.foldlM_cons] at h
    obtain ⟨o1, h1, h⟩ := Res.bind_eq_ok.mp h
    obtain ⟨hc, _, rfl⟩ := setPausedAction_spec (asPanic_ok h1)
    have hn1 : (insertBy intLt x o.pausedActions).Nodup := nodup_insertBy intLt _ _ (by simpa using hc) hn
    obtain ⟨i1, i2, i3, i4, i5⟩ := ih _ hn1 h
    refine ⟨i1, ?_, i3, i4, i5⟩
    intro q
    rw [i2 q]
    simp only
    rw [contains_insertBy]
    simp only [List.contains_cons]
    cases (q == x) <;> cases (rest.contains q) <;> simp

/-- The statistics stages of `initGenesis` do not touch the pause sets. -/
def OrbState.samePause (a b : OrbState) : Prop :=
  a.pausedProtocols = b.pausedProtocols ∧ a.pausedCrossChains = b.pausedCrossChains ∧ a.pausedActions = b.pausedActions ∧ a.params = b.params

/-- What `initGenesis` yields for the pause sets: exactly the listed elements, without duplicates. -/
theorem initGenesis_pause (g : Genesis) (o : OrbState) (h : initGenesis g = .ok o) :
    (o.pausedProtocols.Nodup ∧ o.pausedCrossChains.Nodup ∧ o.pausedActions.Nodup) ∧
    (∀ q, o.pausedProtocols.contains q = g.pausedProtocols.contains q) ∧
    (∀ q, o.pausedCrossChains.contains q = g.pausedCrossChains.contains (some q)) ∧
    (∀ q, o.pausedActions.contains q = g.pausedActions.contains q) ∧ o.params = some g.params := by
  unfold initGenesis at h
  simp only at h
  obtain ⟨o1, h1, h⟩ := Res.bind_eq_ok.mp h
  obtain ⟨o2, h2, h⟩ := Res.bind_eq_ok.mp h
  obtain ⟨o3, h3, h⟩ := Res.bind_eq_ok.mp h
  obtain ⟨o4, h4, h⟩ := Res.bind_eq_ok.mp h
  have p1 : o1.samePause { params := some g.params } := by
    refine Res.foldlM_inv _ (fun x => x.samePause { params := some g.params }) ?_ _ _ _ ⟨rfl, rfl, rfl, rfl⟩ h1
    intro b a b' hb hs
    unfold initAmtStep at hs
    split at hs
    · simp only at hs
      split at hs
      · cases hs
      · split at hs
        · cases hs
        · cases hs; exact hb
    · cases hs
  have p2 : o2.samePause { params := some g.params } := by
    refine Res.foldlM_inv _ (fun x => x.samePause { params := some g.params }) ?_ _ _ _ p1 h2
    intro b a b' hb hs
    unfold initCntStep at hs
    split at hs
    · split at hs
      · cases hs
      · cases hs; exact hb
    · cases hs
  obtain ⟨q1, q2, q3, q4⟩ := p2
  simp only at q1 q2 q3 q4
  obtain ⟨a1, a2, a3, a4, a5, _, _⟩ := fold_setPausedProtocol _ o2 o3 (by rw [q1]; exact List.nodup_nil) h3
  obtain ⟨b1, b2, b3, b4, b5, _, _⟩ := fold_setPausedCrossChain _ o3 o4 (by rw [a3, q2]; exact List.nodup_nil) h4
  obtain ⟨c1, c2, c3, c4, c5, _, _⟩ := fold_setPausedAction _ o4 o (by rw [b4, a4, q3]; exact List.nodup_nil) h
  refine ⟨⟨by rw [c3, b3]; exact a1, by rw [c4]; exact b1, c1⟩, ?_, ?_, ?_, ?_⟩
  · intro q; rw [c3, b3, a2 q, q1]; simp
  · intro q; rw [c4, b2 q, a3, q2]; simp
  · intro q; rw [c2 q, b4, a4, q3]; simp
  · rw [c5, b5, a5, q4]

end Orbiter
