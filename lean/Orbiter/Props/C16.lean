/-
  C16 — Only returning Noble-native tokens are processed, under the coin ICS-20 credits.
-/
import Orbiter.Lemmas.Ctx
import Orbiter.Lemmas.Ledger
import Orbiter.Props.C12
namespace Orbiter.C16
open Orbiter

/-- The decision: a denomination is accepted exactly when it is the packet's own (source port, source
channel) prefix followed by a denomination without any further trace. -/
theorem c16_accept_iff (denom port chan native : String) :
    recoverNativeDenom denom port chan = .ok native ↔
      (denom.startsWith (denomPrefix port chan) = true ∧
       native = (denom.drop (denomPrefix port chan).length).toString ∧ (parseDenomTrace native).1 = "") := by
  unfold recoverNativeDenom
  simp only
  constructor
  · intro h
    split at h
    · cases h
    · rename_i h1
      split at h
      · cases h
      · rename_i h2
        simp only [Res.ok.injEq] at h
        subst h
        exact ⟨by simpa using h1, rfl, by simpa using h2⟩
  · rintro ⟨h1, rfl, h2⟩
    simp only [h1, Bool.not_true, Bool.false_eq_true, ↓reduceIte, h2, bne_self_eq_false]

/-- Tokens native to the sending chain (no such prefix) and tokens with a longer trace are refused: the
adapter returns an error, so the middleware answers with an error acknowledgement before anything moves. -/
theorem c16_refused (wr : Wiring) (pkt : Packet) (t : TransferAttrs) (p : Payload)
    (ha : adaptPacket wr pkt = .ok (.orbiter t p)) :
    ∃ d, decFTPD pkt.data = some d ∧ d.denom.startsWith (denomPrefix pkt.srcPort pkt.srcChan) = true ∧
      t.srcDenom = (d.denom.drop (denomPrefix pkt.srcPort pkt.srcChan).length).toString ∧ (parseDenomTrace t.srcDenom).1 = "" := by
  obtain ⟨_, _, _, _, d, hd, _, hr⟩ := C12.c12_source_from_packet wr pkt t p ha
  obtain ⟨h1, h2, h3⟩ := (c16_accept_iff _ _ _ _).mp hr
  exact ⟨d, hd, h1, h2, h3⟩

/-- The coin the orbiter acts on is the coin ICS-20 credits: when the adapter accepted the packet and the
wrapped ICS-20 application succeeded, the one movement ICS-20 made is the release of exactly
`t.srcAmount` of `t.srcDenom` from the channel's escrow account to the receiver, and the attributes start
with that same coin as destination coin. -/
theorem c16_same_coin (wr : Wiring) (c c' : Ctx) (pkt : Packet) (t : TransferAttrs) (p : Payload)
    (ha : adaptPacket wr pkt = .ok (.orbiter t p)) (hi : ics20Recv wr.cfg c pkt = .ok c') :
    c'.moves = c.moves ++ [.xfer (wr.cfg.escrow pkt.dstPort pkt.dstChan) wr.cfg.orbAddr t.srcDenom t.srcAmount.toNat] ∧
    t.dstDenom = t.srcDenom ∧ t.dstAmount = t.srcAmount ∧
    c.bank.send (wr.cfg.escrow pkt.dstPort pkt.dstChan) wr.cfg.orbAddr t.srcDenom t.srcAmount.toNat = some c'.bank := by
  obtain ⟨_, _, hdd, hda, d, hd, hamt, hr⟩ := C12.c12_source_from_packet wr pkt t p ha
  obtain ⟨h1, h2, h3⟩ := (c16_accept_iff _ _ _ _).mp hr
  suffices key : c'.moves = c.moves ++ [.xfer (wr.cfg.escrow pkt.dstPort pkt.dstChan) wr.cfg.orbAddr t.srcDenom t.srcAmount.toNat] ∧
      c.bank.send (wr.cfg.escrow pkt.dstPort pkt.dstChan) wr.cfg.orbAddr t.srcDenom t.srcAmount.toNat = some c'.bank from
    ⟨key.1, hdd, hda, key.2⟩
  -- the receiver is the orbiter account
  have hrecv : accAddressFromBech32 wr.cfg.hrp d.receiver = some wr.cfg.orbAddr := by
    unfold adaptPacket at ha
    simp only [hd] at ha
    cases hr : accAddressFromBech32 wr.cfg.hrp d.receiver with
    | none => simp [hr] at ha
    | some r =>
      simp only [hr] at ha
      split at ha
      · cases ha
      · rename_i hne
        have : r = wr.cfg.orbAddr := by simpa using hne
        rw [this]
  unfold ics20Recv at hi
  simp only [hd, hamt, Res.pure_eq, Res.bind_ok, Res.guard_bind_eq_ok, hrecv] at hi
  obtain ⟨_, _, _, _, _, hi⟩ := hi
  simp only [h1, ↓reduceIte] at hi
  obtain ⟨_, _, hi⟩ := Res.bind_eq_ok.mp hi
  simp only [Res.guard_bind_eq_ok] at hi
  obtain ⟨_, hi⟩ := hi
  obtain ⟨c1, hs, hi⟩ := Res.bind_eq_ok.mp hi
  have hden : ibcDenom wr.cfg (d.denom.drop (denomPrefix pkt.srcPort pkt.srcChan).length).toString = t.srcDenom := by
    unfold ibcDenom
    rw [← h2]
    simp [h3]
  rw [hden] at hs
  obtain ⟨b, hb, rfl⟩ := Ctx.send_ok hs
  split at hi
  · cases hi
  · simp only [Res.ok.injEq] at hi
    subst hi
    exact ⟨rfl, hb⟩

/-- **End to end.** When an orbiter packet is acknowledged with success — on any wiring, with any faults
injected — the stages were: the sweep, then the wrapped ICS-20 application whose one movement is the
release of exactly `t.srcAmount` of `t.srcDenom` from the channel's escrow account to the orbiter account,
then the dispatch of the payload with attributes `t`. At the moment the dispatch begins, the orbiter's whole
balance in that denomination is exactly that credit: the coin the orbiter acts on is the coin — and all the
coin — ICS-20 credited. -/
theorem c16_balance_is_credit (wr : Wiring) (φ : Faults) (w : World) (pkt : Packet) (t : TransferAttrs) (p : Payload)
    (hesc : wr.cfg.escrow pkt.dstPort pkt.dstChan ≠ wr.cfg.orbAddr) (hdust : wr.cfg.dustAddr ≠ wr.cfg.orbAddr)
    (hs : (ibcRecv wr φ w pkt).ack.isSuccess = true) (ha : adaptPacket wr pkt = .ok (.orbiter t p)) :
    ∃ c1 c2 c3 t3, beforeTransferHook wr φ w.orb (ctxOf w) t p = .ok c1 ∧ wrappedApp wr φ c1 pkt = .ok c2 ∧
      dispatchPayload wr φ w.orb c2 t p = .ok (c3, t3, (ibcRecv wr φ w pkt).orb) ∧
      c2.moves = c1.moves ++ [.xfer (wr.cfg.escrow pkt.dstPort pkt.dstChan) wr.cfg.orbAddr t.srcDenom t.srcAmount.toNat] ∧
      c2.bank.bal wr.cfg.orbAddr t.srcDenom = t.srcAmount.toNat ∧
      t.dstDenom = t.srcDenom ∧ t.dstAmount = t.srcAmount := by
  obtain ⟨c1, c2, c3, t3, h1, h2, h3, _⟩ := ibcRecv_success_dispatch hs ha
  refine ⟨c1, c2, c3, t3, h1, h2, h3, ?_⟩
  obtain ⟨_, _, hdd, hda, _⟩ := C12.c12_source_from_packet wr pkt t p ha
  -- the sweep leaves nothing of the denomination on the orbiter account
  have hzero : c1.bank.bal wr.cfg.orbAddr t.srcDenom = 0 := by
    unfold beforeTransferHook at h1
    simp only [Res.guard_bind_eq_ok] at h1
    obtain ⟨_, h1⟩ := h1
    rw [hdd] at h1
    split at h1
    · rename_i hb
      simp only [Res.pure_eq, Res.ok.injEq] at h1
      subst h1
      simpa using hb
    · obtain ⟨c0, hc0, h1⟩ := Res.bind_eq_ok.mp h1
      have := Ctx.send_from_exact h1 hdust
      rw [this, Ctx.call_bank hc0]
      simp [ctxOf]
  unfold wrappedApp at h2
  obtain ⟨c1', hc, h2⟩ := Res.bind_eq_ok.mp h2
  obtain ⟨hm, _, _, hb⟩ := c16_same_coin wr c1' c2 pkt t p ha h2
  have hmv : c1'.moves = c1.moves := by simpa using (Ctx.call_steps hc).1
  refine ⟨by rw [hm, hmv], ?_, hdd, hda⟩
  rw [Ledger.send_bal hb wr.cfg.orbAddr t.srcDenom, Ctx.call_bank hc, hzero]
  have hne : ¬ (wr.cfg.orbAddr = wr.cfg.escrow pkt.dstPort pkt.dstChan) := fun e => hesc e.symm
  simp [hne]

/-! ### non-vacuity
`String.startsWith` / `String.drop` do not reduce in the kernel, so the satisfiability of the hypotheses is
exhibited by the correspondence stream instead (evidence: accepted one-hop vouchers, refused native and
multi-hop denominations, on the implementation and on this model alike). -/

end Orbiter.C16
