/-
  The invariant of the module's own store in every reachable state, and what an export/import round trip
  does to a state satisfying it (shared by C17 and by the history theorems of C08, C12, C18).
-/
import Orbiter.Lemmas.Genesis
import Orbiter.Lemmas.Recv
import Orbiter.Props.C20
namespace Orbiter

/-! ### ordered maps: membership and key uniqueness under `upsert` -/

theorem keys_map_replace {κ ν} [DecidableEq κ] (k : κ) (v : ν) (l : List (κ × ν)) :
    (l.map fun e => if (e.1 == k) = true then (k, v) else e).map (·.1) = l.map (·.1) := by
  induction l with
  | nil => rfl
  | cons a as ih =>
    simp only [List.map_cons, ih]
    by_cases ha : a.1 = k
    · simp [ha]
    · have : (a.1 == k) = false := by simp [ha]
      simp [this]

theorem keys_ins {κ ν} (lt : κ → κ → Bool) (k : κ) (v : ν) (l : List (κ × ν)) :
    ∀ x, x ∈ (upsert.ins lt k v l).map (·.1) ↔ x = k ∨ x ∈ l.map (·.1) := by
  induction l with
  | nil => intro x; simp [upsert.ins]
  | cons a as ih =>
    intro x
    simp only [upsert.ins]
    split
    · simp
    · simp only [List.map_cons, List.mem_cons, ih x]
      constructor
      · rintro (h | h | h)
        · exact Or.inr (Or.inl h)
        · exact Or.inl h
        · exact Or.inr (Or.inr h)
      · rintro (h | h | h)
        · exact Or.inr (Or.inl h)
        · exact Or.inl h
        · exact Or.inr (Or.inr h)

theorem nodup_keys_ins {κ ν} (lt : κ → κ → Bool) (k : κ) (v : ν) (l : List (κ × ν))
    (hk : k ∉ l.map (·.1)) (hn : (l.map (·.1)).Nodup) : ((upsert.ins lt k v l).map (·.1)).Nodup := by
  induction l with
  | nil => simp [upsert.ins]
  | cons a as ih =>
    simp only [upsert.ins]
    simp only [List.map_cons, List.mem_cons, not_or] at hk
    simp only [List.map_cons, List.nodup_cons] at hn
    split
    · simp only [List.map_cons, List.nodup_cons, List.mem_cons, not_or]
      exact ⟨⟨hk.1, hk.2⟩, hn.1, hn.2⟩
    · simp only [List.map_cons, List.nodup_cons]
      refine ⟨?_, ih hk.2 hn.2⟩
      intro hm
      rcases (keys_ins lt k v as a.1).mp hm with h | h
      · exact hk.1 h.symm
      · exact hn.1 h

theorem nodup_keys_upsert {κ ν} [DecidableEq κ] (lt : κ → κ → Bool) (m : List (κ × ν)) (k : κ) (v : ν)
    (hn : (m.map (·.1)).Nodup) : ((upsert lt m k v).map (·.1)).Nodup := by
  unfold upsert
  split
  · rw [keys_map_replace]; exact hn
  · rename_i hex
    apply nodup_keys_ins _ _ _ _ _ hn
    intro hm
    apply hex
    simp only [List.mem_map] at hm
    obtain ⟨e, he, hek⟩ := hm
    simp only [List.any_eq_true, beq_iff_eq]
    exact ⟨e, he, hek⟩

theorem mem_ins {κ ν} (lt : κ → κ → Bool) (k : κ) (v : ν) (l : List (κ × ν)) (e : κ × ν) :
    e ∈ upsert.ins lt k v l ↔ e = (k, v) ∨ e ∈ l := by
  induction l with
  | nil => simp [upsert.ins]
  | cons a as ih =>
    simp only [upsert.ins]
    split
    · simp
    · simp only [List.mem_cons, ih]
      constructor
      · rintro (h | h | h)
        · exact Or.inr (Or.inl h)
        · exact Or.inl h
        · exact Or.inr (Or.inr h)
      · rintro (h | h | h)
        · exact Or.inr (Or.inl h)
        · exact Or.inl h
        · exact Or.inr (Or.inr h)

/-- Every entry of the updated map is the new one or an old one. -/
theorem mem_upsert_cases {κ ν} [DecidableEq κ] (lt : κ → κ → Bool) (m : List (κ × ν)) (k : κ) (v : ν) (e : κ × ν)
    (h : e ∈ upsert lt m k v) : e = (k, v) ∨ e ∈ m := by
  unfold upsert at h
  split at h
  · simp only [List.mem_map] at h
    obtain ⟨a, ha, hae⟩ := h
    split at hae
    · exact Or.inl hae.symm
    · exact Or.inr (hae ▸ ha)
  · exact (mem_ins lt k v m e).mp h

/-- With unique keys, an entry is in the map iff looking its key up returns its value. -/
theorem lookupD_of_mem {κ ν} [DecidableEq κ] (m : List (κ × ν)) (hn : (m.map (·.1)).Nodup) (e : κ × ν) (he : e ∈ m) (d : ν) :
    lookupD m e.1 d = e.2 := by
  unfold lookupD
  induction m with
  | nil => cases he
  | cons a as ih =>
    simp only [List.map_cons, List.nodup_cons] at hn
    simp only [List.find?_cons]
    rcases List.mem_cons.mp he with rfl | hm
    · simp
    · have hne : a.1 ≠ e.1 := by
        intro h
        apply hn.1
        rw [h]
        exact List.mem_map_of_mem hm
      have : (a.1 == e.1) = false := by simp [hne]
      simp only [this]
      exact ih hn.2 hm

theorem lookupD_of_not_mem {κ ν} [DecidableEq κ] (m : List (κ × ν)) (k : κ) (hk : k ∉ m.map (·.1)) (d : ν) :
    lookupD m k d = d := by
  unfold lookupD
  have : m.find? (fun x => x.1 == k) = none := by
    rw [List.find?_eq_none]
    intro x hx
    simp only [beq_iff_eq]
    intro h
    exact hk (h ▸ List.mem_map_of_mem hx)
  rw [this]

/-- Rebuilding a map with unique keys by upserting its entries one by one gives the same lookups. -/
theorem lookupD_foldl_upsert {κ ν} [DecidableEq κ] (lt : κ → κ → Bool) (l : List (κ × ν)) (hn : (l.map (·.1)).Nodup)
    (acc : List (κ × ν)) (k : κ) (d : ν) :
    lookupD (l.foldl (fun acc e => upsert lt acc e.1 e.2) acc) k d =
      if k ∈ l.map (·.1) then lookupD l k d else lookupD acc k d := by
  induction l generalizing acc with
  | nil => simp
  | cons e rest ih =>
    simp only [List.map_cons, List.nodup_cons] at hn
    simp only [List.foldl_cons, List.map_cons, List.mem_cons]
    rw [ih hn.2, lookupD_upsert]
    by_cases hk : k = e.1
    · subst hk
      simp only [hn.1, ↓reduceIte, true_or]
      simp [lookupD, List.find?_cons]
    · have hne : (e.1 == k) = false := by simp [Ne.symm hk]
      by_cases hr : k ∈ rest.map (·.1)
      · simp only [hr, ↓reduceIte, or_true]
        simp [lookupD, List.find?_cons, hne]
      · simp only [hr, ↓reduceIte, hk, false_or]

theorem nodup_keys_foldl_upsert {κ ν} [DecidableEq κ] (lt : κ → κ → Bool) (l : List (κ × ν)) (acc : List (κ × ν))
    (hn : (acc.map (·.1)).Nodup) : ((l.foldl (fun acc e => upsert lt acc e.1 e.2) acc).map (·.1)).Nodup := by
  induction l generalizing acc with
  | nil => exact hn
  | cons e rest ih => exact ih _ (nodup_keys_upsert lt acc e.1 e.2 hn)

theorem mem_foldl_upsert {κ ν} [DecidableEq κ] (lt : κ → κ → Bool) (l : List (κ × ν)) (acc : List (κ × ν)) (x : κ × ν)
    (h : x ∈ l.foldl (fun acc e => upsert lt acc e.1 e.2) acc) : x ∈ l ∨ x ∈ acc := by
  induction l generalizing acc with
  | nil => exact Or.inr h
  | cons e rest ih =>
    rcases ih _ h with h1 | h1
    · exact Or.inl (List.mem_cons_of_mem _ h1)
    · rcases mem_upsert_cases lt acc e.1 e.2 x h1 with h2 | h2
      · exact Or.inl (by rw [h2]; exact List.mem_cons_self)
      · exact Or.inr h2

theorem Option.mapM_some {α β} (f : α → Option β) (g : α → β) (l : List α) (h : ∀ a ∈ l, f a = some (g a)) :
    l.mapM f = some (l.map g) := by
  induction l with
  | nil => rfl
  | cons a rest ih =>
    rw [List.mapM_cons, h a List.mem_cons_self, ih (fun x hx => h x (List.mem_cons_of_mem _ hx))]
    rfl

/-! ### identifiers without NUL -/

theorem crossChainValid_noNul {p : Int} {cp : String} (h : crossChainValid p cp = true) : hasNul cp = false := by
  simp only [crossChainValid, validateCounterpartyID, Bool.and_eq_true, Bool.not_eq_true'] at h
  exact h.2.1.1.1.2

theorem natDigits_noNul (n : Nat) : ∀ c ∈ natDigits n, c ≠ Char.ofNat 0 := by
  intro c hc h
  have := natDigits_all n
  rw [List.all_eq_true] at this
  have hd := this c hc
  rw [h] at hd
  revert hd
  decide

theorem ccidString_noNul {p : Int} {cp : String} (h : hasNul cp = false) : hasNul (ccidString p cp) = false := by
  unfold hasNul at h ⊢
  unfold ccidString natToDec
  rw [String.toList_append, String.toList_append, String.toList_ofList, C20.separator_is_colon]
  simp only [List.any_append, Bool.or_eq_false_iff]
  refine ⟨⟨?_, by decide⟩, h⟩
  rw [List.any_eq_false]
  intro c hc
  simpa using natDigits_noNul _ c hc


/-! ### the invariant -/

def amtEntryValid (e : AmtKey × (Int × Int)) : Prop :=
  crossChainValid e.1.srcProto e.1.srcCp = true ∧
  (∃ p cp, crossChainValid p cp = true ∧ e.1.dstId = ccidString p cp) ∧
  e.1.denom ≠ "" ∧ e.2.1 ≥ 0 ∧ e.2.2 ≥ 0 ∧ (e.2.1 > 0 ∨ e.2.2 > 0)

def cntEntryValid (e : CntKey × Nat) : Prop :=
  crossChainValid e.1.srcProto e.1.srcCp = true ∧ crossChainValid e.1.dstProto e.1.dstCp = true ∧ e.2 ≠ 0

structure OrbState.Inv (o : OrbState) : Prop where
  pp_nodup : o.pausedProtocols.Nodup
  pp_valid : ∀ p ∈ o.pausedProtocols, protocolValid p = true
  pc_nodup : o.pausedCrossChains.Nodup
  pc_valid : ∀ pc ∈ o.pausedCrossChains, crossChainValid pc.1 pc.2 = true
  pa_nodup : o.pausedActions.Nodup
  pa_valid : ∀ a ∈ o.pausedActions, actionValid a = true
  amt_keys : (o.amounts.map (·.1)).Nodup
  amt_valid : ∀ e ∈ o.amounts, amtEntryValid e
  cnt_keys : (o.counts.map (·.1)).Nodup
  cnt_valid : ∀ e ∈ o.counts, cntEntryValid e

theorem OrbState.Inv_empty : OrbState.Inv {} :=
  ⟨List.nodup_nil, (fun p h => by cases h), List.nodup_nil, (fun p h => by cases h), List.nodup_nil, (fun p h => by cases h),
   List.nodup_nil, (fun p h => by cases h), List.nodup_nil, (fun p h => by cases h)⟩

/-! ### export under the invariant -/

/-- The exported form of an amounts entry. -/
def amtTuple (e : AmtKey × (Int × Int)) : Option (Int × String) × Option (Int × String) × String × Int × Int :=
  (some (e.1.srcProto, e.1.srcCp), parseCrossChainID e.1.dstId, e.1.denom, e.2.1, e.2.2)

def cntTuple (e : CntKey × Nat) : Option (Int × String) × Option (Int × String) × Nat :=
  (some (e.1.srcProto, e.1.srcCp), some (e.1.dstProto, e.1.dstCp), e.2)

theorem amtEntry_parse {e : AmtKey × (Int × Int)} (h : amtEntryValid e) :
    ∃ p cp, crossChainValid p cp = true ∧ e.1.dstId = ccidString p cp ∧ parseCrossChainID e.1.dstId = some (p, cp) := by
  obtain ⟨_, ⟨p, cp, hv, hd⟩, _⟩ := h
  exact ⟨p, cp, hv, hd, by rw [hd]; exact C20.c20_roundtrip p cp hv⟩

theorem export_amounts (o : OrbState) (h : ∀ e ∈ o.amounts, amtEntryValid e) :
    (exportGenesis o).amounts = o.amounts.map amtTuple := by
  simp only [exportGenesis]
  have : o.amounts.mapM (fun e => amtEntryOfKey e.1 e.2) =
      some (o.amounts.map fun e => ({ src := (e.1.srcProto, e.1.srcCp), dst := (parseCrossChainID e.1.dstId).getD (0, ""),
                                       denom := e.1.denom, incoming := e.2.1, outgoing := e.2.2 } : AmtEntry)) := by
    apply Option.mapM_some
    intro e he
    obtain ⟨p, cp, _, _, hp⟩ := amtEntry_parse (h e he)
    have hs := (h e he).1
    simp [amtEntryOfKey, hs, hp]
  rw [this]
  simp only [List.map_map]
  apply List.map_congr_left
  intro e he
  obtain ⟨p, cp, _, _, hp⟩ := amtEntry_parse (h e he)
  simp [amtTuple, hp]

theorem export_counts (o : OrbState) (h : ∀ e ∈ o.counts, cntEntryValid e) :
    (exportGenesis o).counts = o.counts.map cntTuple := by
  simp only [exportGenesis]
  have : o.counts.mapM (fun e => cntEntryOfKey e.1 e.2) =
      some (o.counts.map fun e => ({ src := (e.1.srcProto, e.1.srcCp), dst := (e.1.dstProto, e.1.dstCp), count := e.2 } : CntEntry)) := by
    apply Option.mapM_some
    intro e he
    obtain ⟨h1, h2, _⟩ := h e he
    simp [cntEntryOfKey, h1, h2]
  rw [this]
  simp only [List.map_map]
  apply List.map_congr_left
  intro e he
  simp [cntTuple]

/-! ### import of the exported statistics -/

theorem init_amounts_fold (L : List (AmtKey × (Int × Int))) (hL : ∀ e ∈ L, amtEntryValid e) (acc : OrbState) :
    (L.map amtTuple).foldlM initAmtStep acc =
      .ok { acc with amounts := L.foldl (fun a e => upsert amtLt a e.1 e.2) acc.amounts } := by
  induction L generalizing acc with
  | nil => rfl
  | cons e rest ih =>
    simp only [List.map_cons, List.foldlM_cons, List.foldl_cons]
    obtain ⟨p, cp, hv, hd, hp⟩ := amtEntry_parse (hL e List.mem_cons_self)
    have hs := (hL e List.mem_cons_self).1
    have hn1 : hasNul e.1.srcCp = false := crossChainValid_noNul hs
    have hn2 : hasNul e.1.dstId = false := by rw [hd]; exact ccidString_noNul (crossChainValid_noNul hv)
    have hstep : initAmtStep acc (amtTuple e) = .ok { acc with amounts := upsert amtLt acc.amounts e.1 e.2 } := by
      simp only [initAmtStep, amtTuple, hp, hn1, hn2, Bool.or_self, Bool.false_eq_true, ↓reduceIte, ← hd,
        Option.isNone_some, Res.pure_eq]
    rw [hstep]
    simp only [Res.bind_ok]
    rw [ih (fun x hx => hL x (List.mem_cons_of_mem _ hx))]

theorem init_counts_fold (L : List (CntKey × Nat)) (hL : ∀ e ∈ L, cntEntryValid e) (acc : OrbState) :
    (L.map cntTuple).foldlM initCntStep acc =
      .ok { acc with counts := L.foldl (fun a e => upsert cntLt a e.1 e.2) acc.counts } := by
  induction L generalizing acc with
  | nil => rfl
  | cons e rest ih =>
    simp only [List.map_cons, List.foldlM_cons, List.foldl_cons]
    have hs := (hL e List.mem_cons_self).1
    have hn1 : hasNul e.1.srcCp = false := crossChainValid_noNul hs
    have hstep : initCntStep acc (cntTuple e) = .ok { acc with counts := upsert cntLt acc.counts e.1 e.2 } := by
      simp only [initCntStep, cntTuple, hn1, Bool.false_eq_true, ↓reduceIte, Res.pure_eq]
    rw [hstep]
    simp only [Res.bind_ok]
    rw [ih (fun x hx => hL x (List.mem_cons_of_mem _ hx))]


/-! ### validation of an exported genesis -/

theorem Res.allM_of_forall {α} {f : α → Res Unit} {l : List α} (h : ∀ a ∈ l, f a = .ok ()) : Res.allM f l = .ok () := by
  induction l with
  | nil => rfl
  | cons x xs ih =>
    simp only [Res.allM, h x List.mem_cons_self, Res.bind_ok]
    exact ih (fun a ha => h a (List.mem_cons_of_mem _ ha))

theorem hasDup_false_of_nodup {α} [DecidableEq α] (l : List α) (h : l.Nodup) : hasDup l = false := by
  induction l with
  | nil => rfl
  | cons x xs ih =>
    rw [List.nodup_cons] at h
    simp only [hasDup, Bool.or_eq_false_iff]
    exact ⟨by simpa using h.1, ih h.2⟩

theorem validate_export (o : OrbState) (hi : o.Inv) : validateGenesis (exportGenesis o) = .ok () := by
  unfold validateGenesis
  rw [export_amounts o hi.amt_valid, export_counts o hi.cnt_valid]
  have h1 : Res.allM validateAmtEntry (o.amounts.map amtTuple) = .ok () := by
    apply Res.allM_of_forall
    intro a ha
    simp only [List.mem_map] at ha
    obtain ⟨e, he, rfl⟩ := ha
    obtain ⟨p, cp, hv, _, hp⟩ := amtEntry_parse (hi.amt_valid e he)
    obtain ⟨hs, _, hden, h1, h2, h3⟩ := hi.amt_valid e he
    have hden' : (e.1.denom == "") = false := by simpa using hden
    have hneg : (decide (e.2.1 < 0) || decide (e.2.2 < 0)) = false := by
      simp only [Bool.or_eq_false_iff, decide_eq_false_iff_not]; omega
    have hzero : (decide (e.2.1 ≤ 0) && decide (e.2.2 ≤ 0)) = false := by
      simp only [Bool.and_eq_false_iff, decide_eq_false_iff_not]; omega
    simp [validateAmtEntry, amtTuple, hp, validId, hs, hv, hden', hneg, hzero]
  have h2 : Res.allM validateCntEntry (o.counts.map cntTuple) = .ok () := by
    apply Res.allM_of_forall
    intro a ha
    simp only [List.mem_map] at ha
    obtain ⟨e, he, rfl⟩ := ha
    obtain ⟨hs, hd, hn⟩ := hi.cnt_valid e he
    have hn' : (e.2 == 0) = false := by simpa using hn
    simp [validateCntEntry, cntTuple, validId, hs, hd, hn']
  have h3 : (exportGenesis o).pausedProtocols.any (fun p => !protocolValid p) = false := by
    rw [List.any_eq_false]
    intro p hp
    simp [hi.pp_valid p hp]
  have h4 : (exportGenesis o).pausedCrossChains.any (fun c => !validId c) = false := by
    rw [List.any_eq_false]
    intro c hc
    simp only [exportGenesis, List.mem_map] at hc
    obtain ⟨pc, hpc, rfl⟩ := hc
    simp [validId, hi.pc_valid pc hpc]
  have h5 : hasDup (exportGenesis o).pausedProtocols = false := hasDup_false_of_nodup _ hi.pp_nodup
  have h6 : hasDup (exportGenesis o).pausedCrossChains = false := by
    apply hasDup_false_of_nodup
    simp only [exportGenesis]
    exact List.Pairwise.map some (fun a b (h : a ≠ b) => fun e => h (Option.some.inj e)) hi.pc_nodup
  have h7 : (exportGenesis o).pausedActions.any (fun a => !actionValid a) = false := by
    rw [List.any_eq_false]
    intro a ha
    simp [hi.pa_valid a ha]
  have h8 : hasDup (exportGenesis o).pausedActions = false := hasDup_false_of_nodup _ hi.pa_nodup
  simp [h1, h2, h3, h4, h5, h6, h7, h8]

/-! ### the pause stages of `initGenesis` succeed on valid, duplicate-free lists -/

theorem fold_setPausedProtocol_ok (l : List Int) (hn : l.Nodup) (hv : ∀ p ∈ l, protocolValid p = true) (o : OrbState)
    (hd : ∀ p ∈ l, p ∉ o.pausedProtocols) : ∃ o', l.foldlM (fun o p => asPanic (setPausedProtocol o p)) o = .ok o' := by
  induction l generalizing o with
  | nil => exact ⟨o, rfl⟩
  | cons x rest ih =>
    rw [List.nodup_cons] at hn
    have hx : setPausedProtocol o x = .ok { o with pausedProtocols := insertBy intLt x o.pausedProtocols } := by
      have h1 := hv x List.mem_cons_self
      have h2 : x ∉ o.pausedProtocols := hd x List.mem_cons_self
      simp [setPausedProtocol, h1, h2]
    simp only [List.foldlM_cons, hx, asPanic, Res.bind_ok]
    apply ih hn.2 (fun p hp => hv p (List.mem_cons_of_mem _ hp))
    intro p hp hm
    rcases (mem_insertBy intLt x p o.pausedProtocols).mp hm with h | h
    · exact hn.1 (h ▸ hp)
    · exact hd p (List.mem_cons_of_mem _ hp) h

theorem fold_setPausedCrossChain_ok (l : List (Int × String)) (hn : l.Nodup) (hv : ∀ pc ∈ l, crossChainValid pc.1 pc.2 = true) (o : OrbState)
    (hd : ∀ pc ∈ l, pc ∉ o.pausedCrossChains) : ∃ o', (l.map some).foldlM initCcStep o = .ok o' := by
  induction l generalizing o with
  | nil => exact ⟨o, rfl⟩
  | cons x rest ih =>
    rw [List.nodup_cons] at hn
    obtain ⟨p, cp⟩ := x
    have hx : setPausedCrossChain o p cp = .ok { o with pausedCrossChains := insertBy ccLt (p, cp) o.pausedCrossChains } := by
      have h1 := hv (p, cp) List.mem_cons_self
      have h2 : (p, cp) ∉ o.pausedCrossChains := hd (p, cp) List.mem_cons_self
      simp only at h1
      simp [setPausedCrossChain, h1, h2]
    simp only [List.map_cons, List.foldlM_cons, initCcStep, hx, asPanic, Res.bind_ok]
    apply ih hn.2 (fun q hq => hv q (List.mem_cons_of_mem _ hq))
    intro q hq hm
    rcases (mem_insertBy ccLt (p, cp) q o.pausedCrossChains).mp hm with h | h
    · exact hn.1 (h ▸ hq)
    · exact hd q (List.mem_cons_of_mem _ hq) h

theorem fold_setPausedAction_ok (l : List Int) (hn : l.Nodup) (hv : ∀ a ∈ l, actionValid a = true) (o : OrbState)
    (hd : ∀ a ∈ l, a ∉ o.pausedActions) : ∃ o', l.foldlM (fun o a => asPanic (setPausedAction o a)) o = .ok o' := by
  induction l generalizing o with
  | nil => exact ⟨o, rfl⟩
  | cons x rest ih =>
    rw [List.nodup_cons] at hn
    have hx : setPausedAction o x = .ok { o with pausedActions := insertBy intLt x o.pausedActions } := by
      have h1 := hv x List.mem_cons_self
      have h2 : x ∉ o.pausedActions := hd x List.mem_cons_self
      simp [setPausedAction, h1, h2]
    simp only [List.foldlM_cons, hx, asPanic, Res.bind_ok]
    apply ih hn.2 (fun p hp => hv p (List.mem_cons_of_mem _ hp))
    intro p hp hm
    rcases (mem_insertBy intLt x p o.pausedActions).mp hm with h | h
    · exact hn.1 (h ▸ hp)
    · exact hd p (List.mem_cons_of_mem _ hp) h


/-! ### an export/import round trip of a state satisfying the invariant -/

/-- Observational equivalence of two module states: same pause sets, same limit, same statistics. -/
structure OrbState.Equiv (a b : OrbState) : Prop where
  pp : ∀ q, a.pausedProtocols.contains q = b.pausedProtocols.contains q
  pc : ∀ q, a.pausedCrossChains.contains q = b.pausedCrossChains.contains q
  pa : ∀ q, a.pausedActions.contains q = b.pausedActions.contains q
  params : a.params.getD 0 = b.params.getD 0
  amounts : ∀ k d, lookupD a.amounts k d = lookupD b.amounts k d
  counts : ∀ k d, lookupD a.counts k d = lookupD b.counts k d

theorem reimport_pause_stages (o : OrbState) (hi : o.Inv) (o2 : OrbState)
    (e1 : o2.pausedProtocols = []) (e2 : o2.pausedCrossChains = []) (e3 : o2.pausedActions = [])
    (e4 : o2.params = some (o.params.getD 0))
    (e5 : o2.amounts = o.amounts.foldl (fun a e => upsert amtLt a e.1 e.2) [])
    (e6 : o2.counts = o.counts.foldl (fun a e => upsert cntLt a e.1 e.2) []) :
    ∃ o', (do
        let x1 ← o.pausedProtocols.foldlM (fun o p => asPanic (setPausedProtocol o p)) o2
        let x2 ← (o.pausedCrossChains.map some).foldlM initCcStep x1
        o.pausedActions.foldlM (fun o a => asPanic (setPausedAction o a)) x2) = .ok o' ∧ o'.Inv ∧ o'.Equiv o := by
  obtain ⟨o3, h3⟩ := fold_setPausedProtocol_ok o.pausedProtocols hi.pp_nodup hi.pp_valid o2 (by intro p _; rw [e1]; simp)
  obtain ⟨a1, a2, a3, a4, a5, a6, a7⟩ := fold_setPausedProtocol _ o2 o3 (by rw [e1]; exact List.nodup_nil) h3
  obtain ⟨o4, h4⟩ := fold_setPausedCrossChain_ok o.pausedCrossChains hi.pc_nodup hi.pc_valid o3 (by intro p _; rw [a3, e2]; simp)
  obtain ⟨b1, b2, b3, b4, b5, b6, b7⟩ := fold_setPausedCrossChain _ o3 o4 (by rw [a3, e2]; exact List.nodup_nil) h4
  obtain ⟨o5, h5⟩ := fold_setPausedAction_ok o.pausedActions hi.pa_nodup hi.pa_valid o4 (by intro p _; rw [b4, a4, e3]; simp)
  obtain ⟨c1, c2, c3, c4, c5, c6, c7⟩ := fold_setPausedAction _ o4 o5 (by rw [b4, a4, e3]; exact List.nodup_nil) h5
  refine ⟨o5, ?_, ?_, ?_⟩
  · simp only [h3, Res.bind_ok, h4, h5]
  · have kpp : ∀ q, o5.pausedProtocols.contains q = o.pausedProtocols.contains q := by
      intro q; rw [c3, b3, a2 q, e1]; simp
    have kpc : ∀ q, o5.pausedCrossChains.contains q = o.pausedCrossChains.contains q := by
      intro q; rw [c4, b2 q, a3, e2]
      rw [Bool.eq_iff_iff]; simp
    have kpa : ∀ q, o5.pausedActions.contains q = o.pausedActions.contains q := by
      intro q; rw [c2 q, b4, a4, e3]; simp
    have kam : o5.amounts = o.amounts.foldl (fun a e => upsert amtLt a e.1 e.2) [] := by rw [c6, b6, a6, e5]
    have kcn : o5.counts = o.counts.foldl (fun a e => upsert cntLt a e.1 e.2) [] := by rw [c7, b7, a7, e6]
    refine ⟨by rw [c3, b3]; exact a1, ?_, by rw [c4]; exact b1, ?_, c1, ?_, ?_, ?_, ?_, ?_⟩
    · intro p hp
      have : o5.pausedProtocols.contains p = true := by simpa using hp
      rw [kpp p] at this
      exact hi.pp_valid p (by simpa using this)
    · intro p hp
      have : o5.pausedCrossChains.contains p = true := by simpa using hp
      rw [kpc p] at this
      exact hi.pc_valid p (by simpa using this)
    · intro p hp
      have : o5.pausedActions.contains p = true := by simpa using hp
      rw [kpa p] at this
      exact hi.pa_valid p (by simpa using this)
    · rw [kam]; exact nodup_keys_foldl_upsert amtLt o.amounts [] List.nodup_nil
    · intro e he
      rw [kam] at he
      rcases mem_foldl_upsert amtLt o.amounts [] e he with h | h
      · exact hi.amt_valid e h
      · cases h
    · rw [kcn]; exact nodup_keys_foldl_upsert cntLt o.counts [] List.nodup_nil
    · intro e he
      rw [kcn] at he
      rcases mem_foldl_upsert cntLt o.counts [] e he with h | h
      · exact hi.cnt_valid e h
      · cases h
  · refine ⟨?_, ?_, ?_, ?_, ?_, ?_⟩
    · intro q; rw [c3, b3, a2 q, e1]; simp
    · intro q; rw [c4, b2 q, a3, e2]
      rw [Bool.eq_iff_iff]; simp
    · intro q; rw [c2 q, b4, a4, e3]; simp
    · rw [c5, b5, a5, e4]; rfl
    · intro k d
      rw [c6, b6, a6, e5, lookupD_foldl_upsert amtLt o.amounts hi.amt_keys [] k d]
      split
      · rfl
      · rename_i hk
        rw [lookupD_of_not_mem o.amounts k hk d]
        rfl
    · intro k d
      rw [c7, b7, a7, e6, lookupD_foldl_upsert cntLt o.counts hi.cnt_keys [] k d]
      split
      · rfl
      · rename_i hk
        rw [lookupD_of_not_mem o.counts k hk d]
        rfl

theorem reimport_equiv (o : OrbState) (hi : o.Inv) :
    ∃ o', initGenesis (exportGenesis o) = .ok o' ∧ o'.Inv ∧ o'.Equiv o := by
  unfold initGenesis
  rw [export_amounts o hi.amt_valid, export_counts o hi.cnt_valid]
  simp only [init_amounts_fold o.amounts hi.amt_valid, Res.bind_ok, init_counts_fold o.counts hi.cnt_valid]
  exact reimport_pause_stages o hi
    (OrbState.mk [] [] [] (some (o.params.getD 0)) (o.amounts.foldl (fun a e => upsert amtLt a e.1 e.2) [])
      (o.counts.foldl (fun a e => upsert cntLt a e.1 e.2) [])) rfl rfl rfl rfl rfl rfl

/-- `reimportStep` on a state satisfying the invariant: the result satisfies it and is equivalent. -/
theorem reimportStep_equiv (o : OrbState) (hi : o.Inv) : (reimportStep o).2.Inv ∧ (reimportStep o).2.Equiv o := by
  obtain ⟨o', h, hi', he⟩ := reimport_equiv o hi
  unfold reimportStep
  simp only [h]
  exact ⟨hi', he⟩


/-! ### the statistics update preserves the invariant -/

theorem lookupD_mem_or_default {κ ν} [DecidableEq κ] (m : List (κ × ν)) (k : κ) (d : ν) :
    lookupD m k d = d ∨ ∃ e ∈ m, e.1 = k ∧ e.2 = lookupD m k d := by
  unfold lookupD
  cases h : m.find? (fun x => x.1 == k) with
  | none => exact Or.inl rfl
  | some e =>
    right
    have hm := List.mem_of_find?_eq_some h
    have hk := List.find?_some h
    exact ⟨e, hm, by simpa using hk, rfl⟩

theorem addAmount_inv {o o' : OrbState} {k : AmtKey} {i u : Int} (hi : o.Inv)
    (hs : crossChainValid k.srcProto k.srcCp = true) (hd : ∃ p cp, crossChainValid p cp = true ∧ k.dstId = ccidString p cp)
    (hden : k.denom ≠ "") (_hi0 : i ≥ 0) (_hu0 : u ≥ 0) (hpos : i > 0 ∨ u > 0)
    (h : addAmount o k i u = some o') : o'.Inv := by
  unfold addAmount at h
  simp only at h
  generalize hc : (overflows256 _ || overflows256 _) = cnd at h
  cases cnd with
  | true => simp at h
  | false =>
    simp only [Bool.false_eq_true, ↓reduceIte, Option.some.injEq] at h
    subst h
    have hcur : (lookupD o.amounts k (0, 0)).1 ≥ 0 ∧ (lookupD o.amounts k (0, 0)).2 ≥ 0 := by
      rcases lookupD_mem_or_default o.amounts k (0, 0) with h | ⟨e, he, _, hv⟩
      · rw [h]; exact ⟨Int.le_refl _, Int.le_refl _⟩
      · obtain ⟨_, _, _, h1, h2, _⟩ := hi.amt_valid e he
        rw [← hv]; exact ⟨h1, h2⟩
    refine ⟨hi.pp_nodup, hi.pp_valid, hi.pc_nodup, hi.pc_valid, hi.pa_nodup, hi.pa_valid, ?_, ?_, hi.cnt_keys, hi.cnt_valid⟩
    · exact nodup_keys_upsert amtLt o.amounts k _ hi.amt_keys
    · intro e he
      rcases mem_upsert_cases amtLt o.amounts k _ e he with h | h
      · rw [h]
        refine ⟨hs, hd, hden, ?_, ?_, ?_⟩
        · simp only; split <;> omega
        · simp only; split <;> omega
        · simp only
          rcases hpos with hp | hp
          · left; simp only [hp, ↓reduceIte]; omega
          · right; simp only [hp, ↓reduceIte]; omega
      · exact hi.amt_valid e h

theorem addAmounts_inv (mk : String → AmtKey) (l : List (String × Int × Int)) (o : OrbState) (hi : o.Inv)
    (hl : ∀ e ∈ l, crossChainValid (mk e.1).srcProto (mk e.1).srcCp = true ∧
      (∃ p cp, crossChainValid p cp = true ∧ (mk e.1).dstId = ccidString p cp) ∧ (mk e.1).denom ≠ "" ∧
      e.2.1 ≥ 0 ∧ e.2.2 ≥ 0 ∧ (e.2.1 > 0 ∨ e.2.2 > 0)) :
    (addAmounts mk l o).1.Inv := by
  induction l generalizing o with
  | nil => exact hi
  | cons e rest ih =>
    simp only [addAmounts]
    cases h : addAmount o (mk e.1) e.2.1 e.2.2 with
    | none => exact hi
    | some o' =>
      simp only
      obtain ⟨h1, h2, h3, h4, h5, h6⟩ := hl e List.mem_cons_self
      exact ih o' (addAmount_inv hi h1 h2 h3 h4 h5 h6 h) (fun x hx => hl x (List.mem_cons_of_mem _ hx))

theorem addCount_inv (o : OrbState) (ck : CntKey) (hi : o.Inv)
    (h1 : crossChainValid ck.srcProto ck.srcCp = true) (h2 : crossChainValid ck.dstProto ck.dstCp = true) :
    (addCount o ck).1.Inv := by
  unfold addCount
  simp only
  split
  · exact hi
  · refine ⟨hi.pp_nodup, hi.pp_valid, hi.pc_nodup, hi.pc_valid, hi.pa_nodup, hi.pa_valid, hi.amt_keys, hi.amt_valid, ?_, ?_⟩
    · exact nodup_keys_upsert cntLt o.counts ck _ hi.cnt_keys
    · intro e he
      rcases mem_upsert_cases cntLt o.counts ck _ e he with h | h
      · rw [h]; exact ⟨h1, h2, by simp⟩
      · exact hi.cnt_valid e h

theorem validDenom_ne_empty {d : String} (h : validDenom d = true) : d ≠ "" := by
  intro e
  subst e
  revert h
  decide

theorem updateStats_inv (o : OrbState) (t : TransferAttrs) (f : Forwarding) (hi : o.Inv)
    (hsa : t.srcAmount > 0) (hda : t.dstAmount > 0) (hsd : t.srcDenom ≠ "") (hdd : t.dstDenom ≠ "") :
    (updateStats o t f).1.Inv := by
  unfold updateStats
  cases ha : f.attrs with
  | none => exact hi
  | some a =>
    simp only
    split
    · exact hi
    · rename_i hv
      have hv1 : crossChainValid t.srcProtocol t.srcCounterparty = true := by
        cases h : crossChainValid t.srcProtocol t.srcCounterparty with
        | true => rfl
        | false => simp [h] at hv
      have hv2 : crossChainValid f.protocolId a.counterpartyID = true := by
        cases h : crossChainValid f.protocolId a.counterpartyID with
        | true => rfl
        | false => simp [h] at hv
      have hA : (addAmounts (fun denom => ({ srcProto := t.srcProtocol, srcCp := t.srcCounterparty, dstId := ccidString f.protocolId a.counterpartyID, denom := denom } : AmtKey)) (buildDispatched t) o).1.Inv := by
        apply addAmounts_inv _ _ _ hi
        intro e he
        refine ⟨hv1, ⟨f.protocolId, a.counterpartyID, hv2, rfl⟩, ?_⟩
        unfold buildDispatched at he
        split at he
        · simp only [List.mem_singleton] at he
          subst he
          exact ⟨hsd, by simp only; omega, by simp only; omega, Or.inl hsa⟩
        · simp only [List.mem_cons, List.mem_nil_iff, or_false] at he
          rcases he with rfl | rfl
          · exact ⟨hsd, by simp only; omega, by simp only; omega, Or.inl hsa⟩
          · exact ⟨hdd, by simp only; omega, by simp only; omega, Or.inr hda⟩
      split
      · exact hA
      · exact addCount_inv _ _ hA hv1 hv2


end Orbiter
