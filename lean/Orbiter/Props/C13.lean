/-
  C13 — Statistics queries and pagination are faithful views of the ledger.
  Proved here, for the model of the queries and of `query.CollectionPaginate`:
  * the direct lookups return the stored entry exactly when it is non-zero;
  * a listing restricted to a protocol selects exactly the entries of that protocol (the 4-byte key prefix
    decides it, and the prefix encoding is injective on the protocol numbers that can be stored);
  * offset pagination, forward and reverse, for every page size: page k is the k-th chunk of the matching
    entries, the pages tile the listing without omission or repetition, `next` is empty exactly at the
    end, and the reported total is the number of matching entries.
  * pagination by key, forward: on a listing sorted by key (every reachable store is: `OrbState.Srt`), the page
    requested with the `next` key of the previous page starts exactly at the entry that key names, so the
    pages again tile the matching entries.
  * pagination by key, in reverse: the property is FALSE of the code and of the model (known finding C13, a defect of
    the SDK's paginator). Proved instead: `c13_key_page_reverse_actual` — what a reverse page requested by key returns for
    every listing (the entries that *start with* the named key come first, then the named entry, then what precedes it);
    `c13_key_page_reverse_partial` — the page is the right one whenever the named key is not a proper prefix of a later
    key of the listing; `c13_reverse_key_revisits` — the negation of the full statement on a concrete two-entry listing
    (the walk returns the same entry and the same next key for ever; the same keys replayed on the implementation are the
    known finding's replay).
-/
import Orbiter.Lemmas.Reach
import Orbiter.Lemmas.Order
import Orbiter.Lemmas.Sorted
import Orbiter.Lemmas.PrefixEnd
namespace Orbiter.C13
open Orbiter

/-! ### direct lookups -/

theorem c13_direct_counts (o : OrbState) (sp scp dp dcp : String) (s d : Int)
    (hs : protocolIdFromString sp = some s) (hd : protocolIdFromString dp = some d)
    (hvs : crossChainValid s scp = true) (hvd : crossChainValid d dcp = true) :
    queryStep o (.dispatchedCounts sp scp dp dcp) =
      (if lookupD o.counts { srcProto := s, srcCp := scp, dstProto := d, dstCp := dcp } 0 = 0 then .err "query:not-found"
       else .ok (.cnts [{ src := (s, scp), dst := (d, dcp),
                          count := lookupD o.counts { srcProto := s, srcCp := scp, dstProto := d, dstCp := dcp } 0 }] none)) := by
  simp only [queryStep, hs, hd, hvs, hvd, Bool.not_true, Bool.false_eq_true, ↓reduceIte]
  split <;> simp_all

theorem c13_direct_amounts (o : OrbState) (sp scp dp dcp denom : String) (s d : Int) (hden : denom ≠ "")
    (hs : protocolIdFromString sp = some s) (hd : protocolIdFromString dp = some d)
    (hvs : crossChainValid s scp = true) (hvd : crossChainValid d dcp = true) :
    queryStep o (.dispatchedAmounts sp scp dp dcp denom) =
      (let v := lookupD o.amounts { srcProto := s, srcCp := scp, dstId := ccidString d dcp, denom := denom } (0, 0)
       if v.1 > 0 ∨ v.2 > 0 then .ok (.amts [{ src := (s, scp), dst := (d, dcp), denom := denom, incoming := v.1, outgoing := v.2 }] none)
       else .err "query:not-found") := by
  have hden' : (denom == "") = false := by simpa using hden
  simp only [queryStep, hden', hs, hd, hvs, hvd, Bool.not_true, Bool.false_eq_true, ↓reduceIte]
  split <;> simp_all

/-! ### offset pagination tiles the matching entries -/

/-- The entries of a listing that match the prefix, in the order the paginator walks them. -/
def matching {α} (entries : List (Bytes × α)) (pre : Bytes) (reverse : Bool) : List (Bytes × α) :=
  let inPrefix := entries.filter fun e => e.1.take pre.length == pre
  if reverse then inPrefix.reverse else inPrefix

/-- Page `k` of size `L` by offset. -/
def pageReq (L k : Nat) (reverse countTotal : Bool) : PageReq :=
  { key := [], offset := k * L, limit := L, countTotal := countTotal, reverse := reverse }

/-- Offset page `k` (size `L > 0`) is exactly the `k`-th chunk of the matching entries; `next` is empty
exactly when nothing follows; the total (when asked for) is the number of matching entries. -/
theorem mem_matching {α} {entries : List (Bytes × α)} {pre : Bytes} {reverse : Bool} {e : Bytes × α}
    (h : e ∈ matching entries pre reverse) : e ∈ entries := by
  unfold matching at h
  simp only at h
  split at h
  · exact (List.mem_filter.mp (List.mem_reverse.mp h)).1
  · exact (List.mem_filter.mp h).1

theorem c13_offset_page {α} (entries : List (Bytes × α)) (pre : Bytes) (L k : Nat) (reverse ct : Bool) (hL : 0 < L)
    (hlong : ∀ e ∈ entries, pre.length < e.1.length)
    (hk : k * L < (matching entries pre reverse).length) :
    ∃ r, paginate entries pre (pageReq L k reverse ct) = some r ∧
      r.items = (((matching entries pre reverse).drop (k * L)).take L).map (·.2) ∧
      (r.next = [] ↔ (matching entries pre reverse).length ≤ (k + 1) * L) ∧
      (ct = true → r.total = (matching entries pre reverse).length) := by
  unfold paginate pageReq
  have hL0 : (L == 0) = false := by simpa using Nat.ne_of_gt hL
  simp only [hL0, Bool.false_eq_true, ↓reduceIte, List.isEmpty_nil, Bool.not_true, Bool.and_false]
  -- the range the paginator walks is `matching`
  have hrange : (if reverse = true then (entries.filter fun e => e.1.take pre.length == pre).reverse
      else entries.filter fun e => e.1.take pre.length == pre) = matching entries pre reverse := by
    unfold matching; rfl
  simp only [hrange]
  have hne : (matching entries pre reverse).isEmpty = false := by
    cases hm : matching entries pre reverse with
    | nil => rw [hm] at hk; simp at hk
    | cons a as => rfl
  have hoff : ¬ (k * L > (matching entries pre reverse).length) := by omega
  simp only [hne, Bool.false_or, decide_eq_true_eq, hoff, ↓reduceIte]
  refine ⟨_, rfl, rfl, ?_, ?_⟩
  · simp only
    constructor
    · intro hnext
      cases hd : ((matching entries pre reverse).drop (k * L)).drop L with
      | nil =>
        have := List.drop_eq_nil_iff.mp hd
        simp only [List.length_drop] at this
        rw [Nat.add_mul]; omega
      | cons e rest =>
        rw [hd] at hnext
        exfalso
        have hmem : e ∈ matching entries pre reverse := by
          have : e ∈ ((matching entries pre reverse).drop (k * L)).drop L := by rw [hd]; exact List.mem_cons_self
          exact List.mem_of_mem_drop (List.mem_of_mem_drop this)
        have := hlong e (mem_matching hmem)
        simp only at hnext
        have hl : (e.1.drop pre.length).length = 0 := by rw [hnext]; rfl
        simp only [List.length_drop] at hl
        omega
    · intro hle
      have : ((matching entries pre reverse).drop (k * L)).drop L = [] := by
        apply List.drop_eq_nil_iff.mpr
        simp only [List.length_drop]
        rw [Nat.add_mul] at hle; omega
      rw [this]
  · intro hct
    simp only [hct, ↓reduceIte, List.length_drop]
    omega


/-- The pages tile the listing: the first `n` pages, concatenated, are the first `n·L` matching entries —
nothing omitted, nothing repeated, in order. -/
theorem c13_pages_tile {β} (l : List β) (L : Nat) (n : Nat) :
    ((List.range n).map fun k => (l.drop (k * L)).take L).flatten = l.take (n * L) := by
  induction n with
  | zero => simp
  | succ n ih =>
    rw [List.range_succ, List.map_append, List.flatten_append, ih]
    simp only [List.map_cons, List.map_nil, List.flatten_cons, List.flatten_nil, List.append_nil]
    rw [Nat.succ_mul, List.take_add]

/-- Past the end the paginator returns an empty page. -/
theorem c13_offset_past_end {α} (entries : List (Bytes × α)) (pre : Bytes) (L k : Nat) (reverse ct : Bool) (hL : 0 < L)
    (hk : (matching entries pre reverse).length ≤ k * L) :
    ∃ r, paginate entries pre (pageReq L k reverse ct) = some r ∧ r.items = [] ∧ r.next = [] := by
  unfold paginate pageReq
  have hL0 : (L == 0) = false := by simpa using Nat.ne_of_gt hL
  simp only [hL0, Bool.false_eq_true, ↓reduceIte, List.isEmpty_nil, Bool.not_true, Bool.and_false]
  have hrange : (if reverse = true then (entries.filter fun e => e.1.take pre.length == pre).reverse
      else entries.filter fun e => e.1.take pre.length == pre) = matching entries pre reverse := by
    unfold matching; rfl
  simp only [hrange]
  split
  · exact ⟨_, rfl, rfl, rfl⟩
  · have hd : (matching entries pre reverse).drop (k * L) = [] := List.drop_eq_nil_iff.mpr hk
    refine ⟨_, rfl, ?_, ?_⟩
    · simp [hd]
    · simp [hd]

/-! ### the protocol filter of a listing is exact -/

theorem take_prefix_cnt (k : CntKey) : k.enc.take 4 = encInt32 k.srcProto := by
  unfold CntKey.enc
  rw [List.append_assoc, List.append_assoc, List.take_append_of_le_length (by rw [encInt32_length]; exact Nat.le_refl 4)]
  rw [List.take_of_length_le (by rw [encInt32_length]; exact Nat.le_refl 4)]

theorem take_prefix_amt (k : AmtKey) : k.enc.take 4 = encInt32 k.srcProto := by
  unfold AmtKey.enc
  rw [List.append_assoc, List.append_assoc, List.take_append_of_le_length (by rw [encInt32_length]; exact Nat.le_refl 4)]
  rw [List.take_of_length_le (by rw [encInt32_length]; exact Nat.le_refl 4)]

/-- The by-source listing of the counts walks exactly the stored entries whose source protocol is `p`, in
store order: no omission, no foreign entry. -/
theorem c13_counts_by_source_exact (o : OrbState) (hi : o.Inv) (p : Int) (hp : protocolValid p = true) :
    matching (o.counts.map fun e => (e.1.enc, e)) (encInt32 p) false =
      (o.counts.filter fun e => e.1.srcProto == p).map fun e => (e.1.enc, e) := by
  unfold matching
  simp only [Bool.false_eq_true, ↓reduceIte, List.filter_map]
  congr 1
  apply List.filter_congr
  intro e he
  simp only [Function.comp, encInt32_length, take_prefix_cnt]
  obtain ⟨hv, _, _⟩ := hi.cnt_valid e he
  have r1 := C20.protocolValid_range (by simp only [crossChainValid, Bool.and_eq_true] at hv; exact hv.1)
  have r2 := C20.protocolValid_range hp
  rw [Bool.eq_iff_iff]
  simp only [beq_iff_eq]
  constructor
  · intro h; exact encInt32_inj (by omega) (by omega) h
  · intro h; rw [h]

theorem c13_amounts_by_source_exact (o : OrbState) (hi : o.Inv) (p : Int) (hp : protocolValid p = true) :
    matching (o.amounts.map fun e => (e.1.enc, e)) (encInt32 p) false =
      (o.amounts.filter fun e => e.1.srcProto == p).map fun e => (e.1.enc, e) := by
  unfold matching
  simp only [Bool.false_eq_true, ↓reduceIte, List.filter_map]
  congr 1
  apply List.filter_congr
  intro e he
  simp only [Function.comp, encInt32_length, take_prefix_amt]
  obtain ⟨hv, _⟩ := hi.amt_valid e he
  have r1 := C20.protocolValid_range (by simp only [crossChainValid, Bool.and_eq_true] at hv; exact hv.1)
  have r2 := C20.protocolValid_range hp
  rw [Bool.eq_iff_iff]
  simp only [beq_iff_eq]
  constructor
  · intro h; exact encInt32_inj (by omega) (by omega) h
  · intro h; rw [h]

/-- …and every listed entry decodes (no listing fails on a reachable ledger). -/
theorem c13_entries_decode (o : OrbState) (hi : o.Inv) :
    (∀ e ∈ o.counts, (cntEntryOfKey e.1 e.2).isSome = true) ∧ (∀ e ∈ o.amounts, (amtEntryOfKey e.1 e.2).isSome = true) := by
  constructor
  · intro e he
    obtain ⟨h1, h2, _⟩ := hi.cnt_valid e he
    simp [cntEntryOfKey, h1, h2]
  · intro e he
    obtain ⟨p, cp, _, _, hp⟩ := amtEntry_parse (hi.amt_valid e he)
    have hs := (hi.amt_valid e he).1
    simp [amtEntryOfKey, hs, hp]

/-! ### pagination by key, forward -/

/-- In a list sorted by key, the entries not below the key of `x` are `x` and what follows it. -/
theorem filter_ge_sorted {α} (l₁ l₂ : List (Bytes × α)) (x : Bytes × α)
    (hs : (l₁ ++ x :: l₂).Pairwise fun a b => bytesLt a.1 b.1 = true) :
    (l₁ ++ x :: l₂).filter (fun e => bytesLe x.1 e.1) = x :: l₂ := by
  rw [List.pairwise_append] at hs
  obtain ⟨_, h2, h3⟩ := hs
  rw [List.pairwise_cons] at h2
  rw [List.filter_append]
  have e1 : l₁.filter (fun e => bytesLe x.1 e.1) = [] := by
    rw [List.filter_eq_nil_iff]
    intro e he
    simp [bytesLe, h3 e he x List.mem_cons_self]
  have e2 : (x :: l₂).filter (fun e => bytesLe x.1 e.1) = x :: l₂ := by
    rw [List.filter_eq_self]
    intro e he
    rcases List.mem_cons.mp he with rfl | hm
    · simp [bytesLe, bytesLt_irrefl]
    · simp [bytesLe, bytesLt_asymm (h2.1 e hm)]
  rw [e1, e2, List.nil_append]

/-- A forward page requested by key starts exactly at the entry the key names. -/
theorem c13_key_page {α} (entries : List (Bytes × α)) (pre : Bytes) (L : Nat) (hL : 0 < L)
    (hsorted : entries.Pairwise fun a b => bytesLt a.1 b.1 = true)
    (l₁ l₂ : List (Bytes × α)) (x : Bytes × α) (hsplit : matching entries pre false = l₁ ++ x :: l₂)
    (hlong : pre.length < x.1.length) :
    ∃ r, paginate entries pre { key := x.1.drop pre.length, limit := L } = some r ∧
      r.items = ((x :: l₂).take L).map (·.2) ∧
      r.next = (match (x :: l₂).drop L with | e :: _ => e.1.drop pre.length | [] => []) := by
  have hmatch : matching entries pre false = entries.filter fun e => e.1.take pre.length == pre := by
    unfold matching; rfl
  have hxin : x ∈ entries.filter fun e => e.1.take pre.length == pre := by
    rw [← hmatch, hsplit]; simp
  have hxpre : x.1.take pre.length = pre := by simpa using (List.mem_filter.mp hxin).2
  have hkey : pre ++ x.1.drop pre.length = x.1 := by
    have := List.take_append_drop pre.length x.1
    rw [hxpre] at this
    exact this
  have hne : (x.1.drop pre.length).isEmpty = false := by
    cases hd : x.1.drop pre.length with
    | nil =>
      have := congrArg List.length hd
      simp only [List.length_drop, List.length_nil] at this
      omega
    | cons a as => rfl
  have hsf : (entries.filter fun e => e.1.take pre.length == pre).Pairwise fun a b => bytesLt a.1 b.1 = true :=
    List.Pairwise.sublist List.filter_sublist hsorted
  unfold paginate
  have hL0 : (L == 0) = false := by simpa using Nat.ne_of_gt hL
  simp only [hL0, Bool.false_eq_true, ↓reduceIte, Nat.lt_irrefl, decide_false, Bool.false_and, hne, Bool.not_false, hkey]
  rw [← hmatch, hsplit] at hsf ⊢
  rw [filter_ge_sorted l₁ l₂ x hsf]
  exact ⟨_, rfl, rfl, rfl⟩

/-- The stored counts, as the by-source listing sees them, are sorted by key in every good state. -/
theorem c13_counts_listing_sorted (o : OrbState) (hg : o.Good) :
    (o.counts.map fun e => (e.1.enc, e)).Pairwise fun a b => bytesLt a.1 b.1 = true := by
  have := hg.2.cnt
  unfold SortedBy at this
  rw [List.pairwise_map] at this ⊢
  exact this

theorem c13_amounts_listing_sorted (o : OrbState) (hg : o.Good) :
    (o.amounts.map fun e => (e.1.enc, e)).Pairwise fun a b => bytesLt a.1 b.1 = true := by
  have := hg.2.amt
  unfold SortedBy at this
  rw [List.pairwise_map] at this ⊢
  exact this

/-! ### the by-destination index -/

theorem mem_sortBy {α} (lt : α → α → Bool) (l : List α) (x : α) : x ∈ sortBy lt l ↔ x ∈ l := by
  unfold sortBy
  have key : ∀ (l acc : List α), x ∈ l.foldl (fun acc y => insertBy lt y acc) acc ↔ x ∈ l ∨ x ∈ acc := by
    intro l
    induction l with
    | nil => intro acc; simp
    | cons y ys ih =>
      intro acc
      simp only [List.foldl_cons, ih, mem_insertBy, List.mem_cons]
      constructor
      · rintro (h | h | h)
        · exact Or.inl (Or.inr h)
        · exact Or.inl (Or.inl h)
        · exact Or.inr h
      · rintro ((h | h) | h)
        · exact Or.inr (Or.inl h)
        · exact Or.inl h
        · exact Or.inr (Or.inr h)
  simpa using key l []

theorem length_insertBy {α} (lt : α → α → Bool) (x : α) (l : List α) : (insertBy lt x l).length = l.length + 1 := by
  induction l with
  | nil => rfl
  | cons y ys ih =>
    simp only [insertBy]
    split
    · rfl
    · simp [ih]

theorem length_sortBy {α} (lt : α → α → Bool) (l : List α) : (sortBy lt l).length = l.length := by
  unfold sortBy
  have key : ∀ (l acc : List α), (l.foldl (fun acc y => insertBy lt y acc) acc).length = l.length + acc.length := by
    intro l
    induction l with
    | nil => intro acc; simp
    | cons y ys ih => intro acc; simp only [List.foldl_cons, ih, length_insertBy, List.length_cons]; omega
  simpa using key l []

/-- The by-destination listing of the counts walks exactly the stored entries whose destination protocol
is `p` (as a set; the index order is the order of the index keys) and has as many index entries as the
store has entries — no entry is indexed twice or dropped. -/
theorem c13_counts_by_destination_exact (o : OrbState) (hi : o.Inv) (p : Int) (hp : protocolValid p = true) (x : Bytes × (CntKey × Nat)) :
    x ∈ matching (sortBy (fun a b => bytesLt a.1 b.1) (o.counts.map fun e => (encInt32 e.1.dstProto ++ e.1.enc, e))) (encInt32 p) false ↔
      (x.2 ∈ o.counts ∧ x.2.1.dstProto = p ∧ x.1 = encInt32 x.2.1.dstProto ++ x.2.1.enc) := by
  unfold matching
  simp only [Bool.false_eq_true, ↓reduceIte, List.mem_filter, mem_sortBy, List.mem_map, encInt32_length]
  constructor
  · rintro ⟨⟨e, he, rfl⟩, hpre⟩
    simp only at hpre ⊢
    refine ⟨he, ?_, trivial⟩
    rw [List.take_append_of_le_length (by rw [encInt32_length]; exact Nat.le_refl 4),
      List.take_of_length_le (by rw [encInt32_length]; exact Nat.le_refl 4)] at hpre
    obtain ⟨_, hv, _⟩ := hi.cnt_valid e he
    have r1 := C20.protocolValid_range (by simp only [crossChainValid, Bool.and_eq_true] at hv; exact hv.1)
    have r2 := C20.protocolValid_range hp
    exact encInt32_inj (by omega) (by omega) (by simpa using hpre)
  · rintro ⟨hm, hd, hx⟩
    refine ⟨⟨x.2, hm, by rw [← hx]⟩, ?_⟩
    rw [hx, List.take_append_of_le_length (by rw [encInt32_length]; exact Nat.le_refl 4),
      List.take_of_length_le (by rw [encInt32_length]; exact Nat.le_refl 4), hd]
    simp

theorem c13_index_size (o : OrbState) :
    (sortBy (fun a b => bytesLt a.1 b.1) (o.counts.map fun e => (encInt32 e.1.dstProto ++ e.1.enc, e))).length = o.counts.length := by
  rw [length_sortBy, List.length_map]


/-! ### pagination by key, in reverse: what the paginator really returns, when that is right, and a witness that it is not always -/

/-- In a list sorted by key, the entries below the exclusive end `PrefixEndBytes` computes for the key of `x` are what
precedes `x`, `x` itself **and every later entry whose key starts with the key of `x`**. -/
theorem filter_lt_prefixEnd_sorted {α} (l₁ l₂ : List (Bytes × α)) (x : Bytes × α) (f : Bytes × α → Bool)
    (hf1 : ∀ h, prefixEnd x.1 = some h → ∀ e, f e = bytesLt e.1 h) (hf2 : prefixEnd x.1 = none → ∀ e, f e = true)
    (hs : (l₁ ++ x :: l₂).Pairwise fun a b => bytesLt a.1 b.1 = true) :
    (l₁ ++ x :: l₂).filter f = l₁ ++ x :: l₂.filter (fun e => x.1.isPrefixOf e.1) := by
  rw [List.pairwise_append] at hs
  obtain ⟨_, h2, h3⟩ := hs
  rw [List.pairwise_cons] at h2
  have incl : ∀ e : Bytes × α, bytesLt x.1 e.1 = false → f e = true := by
    intro e he
    cases hp : prefixEnd x.1 with
    | none => exact hf2 hp e
    | some h => rw [hf1 h hp e]; exact (bytesLt_prefixEnd hp e.1).mpr (Or.inl he)
  rw [List.filter_append, List.filter_cons]
  have e1 : l₁.filter f = l₁ := by
    rw [List.filter_eq_self]
    intro e he
    exact incl e (bytesLt_asymm (h3 e he x List.mem_cons_self))
  have e2 : f x = true := incl x (bytesLt_irrefl _)
  have e3 : l₂.filter f = l₂.filter (fun e => x.1.isPrefixOf e.1) := by
    apply List.filter_congr
    intro e he
    have hlt := h2.1 e he
    cases hp : prefixEnd x.1 with
    | none =>
      have := prefix_of_prefixEnd_none hp hlt
      rw [hf2 hp e, List.isPrefixOf_iff_prefix.mpr this]
    | some h =>
      have key := bytesLt_prefixEnd hp e.1
      rw [hf1 h hp e]
      cases hpre : x.1.isPrefixOf e.1 with
      | true => exact key.mpr (Or.inr (List.isPrefixOf_iff_prefix.mp hpre))
      | false =>
        cases hb : bytesLt e.1 h with
        | false => rfl
        | true =>
          rcases key.mp hb with h' | h'
          · rw [hlt] at h'; cases h'
          · rw [List.isPrefixOf_iff_prefix.mpr h'] at hpre; cases hpre
  rw [e1, e2, e3]
  rfl

/-- **What a reverse page requested by key returns, for every sorted listing**: first the later entries whose key *starts
with* the named key (in descending order), only then the named entry and what precedes it. -/
theorem c13_key_page_reverse_actual {α} (entries : List (Bytes × α)) (pre : Bytes) (L : Nat) (hL : 0 < L)
    (hsorted : entries.Pairwise fun a b => bytesLt a.1 b.1 = true)
    (l₁ l₂ : List (Bytes × α)) (x : Bytes × α) (hsplit : matching entries pre false = l₁ ++ x :: l₂)
    (hlong : pre.length < x.1.length) :
    let walk := (l₂.filter fun e => x.1.isPrefixOf e.1).reverse ++ x :: l₁.reverse
    ∃ r, paginate entries pre { key := x.1.drop pre.length, limit := L, reverse := true } = some r ∧
      r.items = (walk.take L).map (·.2) ∧
      r.next = (match walk.drop L with | e :: _ => e.1.drop pre.length | [] => []) := by
  intro walk
  have hmatch : matching entries pre false = entries.filter fun e => e.1.take pre.length == pre := by
    unfold matching; rfl
  have hxin : x ∈ entries.filter fun e => e.1.take pre.length == pre := by
    rw [← hmatch, hsplit]; simp
  have hxpre : x.1.take pre.length = pre := by simpa using (List.mem_filter.mp hxin).2
  have hkey : pre ++ x.1.drop pre.length = x.1 := by
    have := List.take_append_drop pre.length x.1
    rw [hxpre] at this
    exact this
  have hne : (x.1.drop pre.length).isEmpty = false := by
    cases hd : x.1.drop pre.length with
    | nil =>
      have := congrArg List.length hd
      simp only [List.length_drop, List.length_nil] at this
      omega
    | cons a as => rfl
  have hsf : (entries.filter fun e => e.1.take pre.length == pre).Pairwise fun a b => bytesLt a.1 b.1 = true :=
    List.Pairwise.sublist List.filter_sublist hsorted
  unfold paginate
  have hL0 : (L == 0) = false := by simpa using Nat.ne_of_gt hL
  simp only [hL0, Bool.false_eq_true, ↓reduceIte, Nat.lt_irrefl, decide_false, Bool.false_and, hne, Bool.not_false, hkey]
  rw [← hmatch, hsplit] at hsf ⊢
  rw [filter_lt_prefixEnd_sorted l₁ l₂ x _ (fun h hp e => by simp only [hp]) (fun hp e => by simp only [hp]) hsf]
  have hw : (l₁ ++ x :: l₂.filter fun e => x.1.isPrefixOf e.1).reverse = walk := by
    simp [walk]
  rw [hw]
  exact ⟨_, rfl, rfl, rfl⟩

/-- The part of the property that holds (`…_partial`: the full statement — for *every* listing — is false, see
`c13_reverse_key_revisits`): when the named key is not a proper prefix of a later key of the listing, the reverse page
requested by key starts exactly at the named entry and walks downwards. -/
theorem c13_key_page_reverse_partial {α} (entries : List (Bytes × α)) (pre : Bytes) (L : Nat) (hL : 0 < L)
    (hsorted : entries.Pairwise fun a b => bytesLt a.1 b.1 = true)
    (l₁ l₂ : List (Bytes × α)) (x : Bytes × α) (hsplit : matching entries pre false = l₁ ++ x :: l₂)
    (hlong : pre.length < x.1.length)
    (hnp : ∀ e ∈ l₂, ¬ x.1 <+: e.1) :
    ∃ r, paginate entries pre { key := x.1.drop pre.length, limit := L, reverse := true } = some r ∧
      r.items = ((x :: l₁.reverse).take L).map (·.2) ∧
      r.next = (match (x :: l₁.reverse).drop L with | e :: _ => e.1.drop pre.length | [] => []) := by
  have h := c13_key_page_reverse_actual entries pre L hL hsorted l₁ l₂ x hsplit hlong
  have hnil : (l₂.filter fun e => x.1.isPrefixOf e.1) = [] := by
    rw [List.filter_eq_nil_iff]
    intro e he hp
    exact hnp e he (List.isPrefixOf_iff_prefix.mp hp)
  simpa only [hnil, List.reverse_nil, List.nil_append] using h

/-- The counterparties `"1"` and `"10"` of one protocol, as the terminal string keys the listings are walked by. -/
def witnessListing : List (Bytes × Nat) := [([49], 1), ([49, 48], 10)]

/-- **The full statement is false** (known finding C13): over the listing `"1" ↦ 1, "10" ↦ 10`, the reverse walk with page
size one returns entry `10` with next key `"1"`, and the page requested with that key returns entry `10` with next key `"1"`
again — entry `10` is visited for ever, entry `1` never. -/
theorem c13_reverse_key_revisits :
    (witnessListing.Pairwise fun a b => bytesLt a.1 b.1 = true) ∧
    (paginate witnessListing [] { limit := 1, reverse := true }).map (fun r => (r.items, r.next)) = some ([10], [49]) ∧
    (paginate witnessListing [] { key := [49], limit := 1, reverse := true }).map (fun r => (r.items, r.next)) = some ([10], [49]) := by
  refine ⟨by decide, by decide, by decide⟩

/-- Non-vacuity of `c13_key_page_reverse_partial`: the same walk over `"1" ↦ 1, "2" ↦ 2` is the right one. -/
example : (paginate ([([49], 1), ([50], 2)] : List (Bytes × Nat)) [] { key := [49], limit := 1, reverse := true }).map
    (fun r => (r.items, r.next)) = some ([1], []) := by decide

/-! ### non-vacuity -/
example : encInt32 2 = [128, 0, 0, 2] ∧ encInt32 (-1) = [127, 255, 255, 255] := by decide

end Orbiter.C13
