/-
  C04 — Fees are exact, computed on the incoming amount, and bounded.
  Theorems about controller/action/fee.go and types/controller/action/fee.go for all amounts, all bps,
  all fixed amounts and fee lists of any length.
-/
import Orbiter.Recv
namespace Orbiter.C04
open Orbiter

/-! ### pinning obligations: the literals of the property statement -/

theorem pin_bps_normalizer : Gen.bpsNormalizer = 10000 := by decide
theorem pin_max_fee_recipients : Gen.maxFeeRecipients = 5 := by decide

/-! ### one basis-point entry -/

theorem not_overflows_of_range {x : Int} (h0 : 0 ≤ x) (h1 : x < 2 ^ 256) : overflows256 x = false := by
  unfold overflows256 pow2_256
  exact decide_eq_false (by omega)

theorem overflows_of_ge {x : Int} (h : (2 : Int) ^ 256 ≤ x) : overflows256 x = true := by
  unfold overflows256 pow2_256
  exact decide_eq_true (by omega)

/-- Each basis-point entry is exactly `floor(A * bps / 10000)`. -/
theorem c04_bps_exact (A : Int) (b : Nat) (hA : 0 ≤ A) (h : A * (b : Int) < 2 ^ 256) :
    computeFeeAmount A b = .ok (A * (b : Int) / 10000) := by
  have h0 : 0 ≤ A * (b : Int) := Int.mul_nonneg hA (Int.natCast_nonneg b)
  unfold computeFeeAmount
  simp only [not_overflows_of_range h0 h, Bool.false_eq_true, ↓reduceIte, pin_bps_normalizer]
  split
  · rename_i hle
    have : A * (b : Int) = 0 := by omega
    rw [this]; rfl
  · rfl

/-- `/` here is the floor: the quotient `q` satisfies `q * 10000 ≤ x < (q + 1) * 10000`. -/
theorem floor_div (x : Int) (h : 0 ≤ x) : x / 10000 * 10000 ≤ x ∧ x < (x / 10000 + 1) * 10000 := by omega

/-- The multiplication overflow is refused, not wrapped. -/
theorem c04_overflow_refused (A : Int) (b : Nat) (h : (2 : Int) ^ 256 ≤ A * (b : Int)) :
    ∃ t, computeFeeAmount A b = .err t := by
  unfold computeFeeAmount
  simp only [overflows_of_ge h, ↓reduceIte]
  exact ⟨_, rfl⟩

theorem computeFeeAmount_ok {A : Int} {b : Nat} {x : Int} (hA : 0 ≤ A) (h : computeFeeAmount A b = .ok x) :
    x = A * (b : Int) / 10000 ∧ A * (b : Int) < 2 ^ 256 := by
  have h0 : 0 ≤ A * (b : Int) := Int.mul_nonneg hA (Int.natCast_nonneg b)
  by_cases hlt : A * (b : Int) < 2 ^ 256
  · rw [c04_bps_exact A b hA hlt] at h
    cases h; exact ⟨rfl, hlt⟩
  · obtain ⟨t, ht⟩ := c04_overflow_refused A b (by omega)
    rw [ht] at h; cases h

/-! ### the whole list: what is credited -/

/-- The amount an entry credits, computed on the amount `A` entering the action. -/
def entrySpec (A : Int) (f : FeeInfo) : Int :=
  match f.feeType with
  | .bps v => A * (v : Int) / 10000
  | .amount s => (newIntFromString s).getD 0
  | .unset => 0

def recipientOf (hrp : String) (f : FeeInfo) : Bytes := (accAddressFromBech32 hrp f.recipient).getD []

/-- Credits in payload order; entries that round to zero credit nothing. -/
def creditsSpec (hrp : String) (A : Int) (infos : List FeeInfo) : List (Bytes × Int) :=
  infos.filterMap fun f => if entrySpec A f > 0 then some (recipientOf hrp f, entrySpec A f) else none

def total (l : List (Bytes × Int)) : Int := (l.map (·.2)).sum

theorem total_append (a b : List (Bytes × Int)) : total (a ++ b) = total a + total b := by
  simp [total, List.sum_append]

theorem feeEntryAmount_of_valid {hrp : String} {A : Int} {f : FeeInfo} {a : Int} (hA : 0 ≤ A)
    (hv : FeeInfo.validate hrp f = .ok ()) (h : feeEntryAmount A f = .ok a) : a = entrySpec A f := by
  unfold feeEntryAmount at h
  unfold entrySpec
  cases hft : f.feeType with
  | unset => simp [FeeInfo.validate, FeeInfo.checkType, hft] at hv
  | bps v =>
    rw [hft] at h
    exact (computeFeeAmount_ok hA h).1
  | amount s =>
    rw [hft] at h
    simp only at h ⊢
    cases hs : newIntFromString s with
    | none => rw [hs] at h; cases h
    | some i => rw [hs] at h; cases h; rfl

theorem newCoin_ok {d : String} {a : Int} {site : String} (hd : validDenom d = true) (ha : 0 ≤ a) :
    newCoin d a site = .ok () := by
  simp [newCoin, coinValid, hd, ha]

/-- `ComputeFeesToDistribute` returns exactly the specified credits and their sum. Every entry is
computed on `A` (the amount entering the action): the fold never feeds a running remainder back. -/
theorem computeFees_spec (hrp : String) (A : Int) (d : String) (hA : 0 ≤ A) (hd : validDenom d = true)
    (infos : List FeeInfo) (acc r : FeesToDistribute)
    (hv : ∀ f ∈ infos, FeeInfo.validate hrp f = .ok ())
    (h : computeFees hrp A d infos acc = .ok r) :
    r.values = acc.values ++ creditsSpec hrp A infos ∧ r.total = acc.total + total (creditsSpec hrp A infos) := by
  induction infos generalizing acc with
  | nil =>
    simp only [computeFees] at h
    cases h
    simp [creditsSpec, total]
  | cons f rest ih =>
    have hvf := hv f (List.mem_cons_self)
    have hvr : ∀ g ∈ rest, FeeInfo.validate hrp g = .ok () := fun g hg => hv g (List.mem_cons_of_mem _ hg)
    simp only [computeFees] at h
    cases he : feeEntryAmount A f with
    | err t => rw [he] at h; cases h
    | panic s => rw [he] at h; cases h
    | ok a =>
      rw [he] at h
      have ha := feeEntryAmount_of_valid hA hvf he
      simp only [Res.bind_ok] at h
      by_cases hpos : a > 0
      · simp only [hpos, ↓reduceIte, newCoin_ok hd (Int.le_of_lt hpos), Res.bind_ok] at h
        split at h
        · cases h
        · obtain ⟨h1, h2⟩ := ih _ hvr h
          have hcs : creditsSpec hrp A (f :: rest) = (recipientOf hrp f, a) :: creditsSpec hrp A rest := by
            simp only [creditsSpec, List.filterMap_cons, ← ha, hpos, ↓reduceIte]
          rw [hcs]
          constructor
          · rw [h1]; simp [recipientOf]
          · rw [h2]; simp only [total, List.map_cons, List.sum_cons]; omega
      · simp only [hpos, ↓reduceIte] at h
        obtain ⟨h1, h2⟩ := ih _ hvr h
        have hcs : creditsSpec hrp A (f :: rest) = creditsSpec hrp A rest := by
          simp only [creditsSpec, List.filterMap_cons, ← ha, hpos, ↓reduceIte]
        rw [hcs]; exact ⟨h1, h2⟩

/-- Headline: for a validated fee list on a positive amount, what is computed is the specified credit
list, the forwarded amount is `A` minus their sum, and that sum is strictly below `A`. -/
theorem c04_distribution (hrp : String) (A : Int) (d : String) (infos : List FeeInfo) (r : FeesToDistribute)
    (hA : 0 ≤ A) (hd : validDenom d = true)
    (hv : validateFeeAttrs hrp infos = .ok ())
    (h : computeFees hrp A d infos { values := [], total := 0 } = .ok r) :
    r.values = creditsSpec hrp A infos ∧ r.total = total (creditsSpec hrp A infos) := by
  have hall : ∀ f ∈ infos, FeeInfo.validate hrp f = .ok () := by
    simp only [validateFeeAttrs] at hv
    split at hv
    · cases hv
    · exact Res.allM_ok hv
  have := computeFees_spec hrp A d hA hd infos _ r hall h
  simpa using this

/-! ### refusals -/

theorem c04_refused_too_many (hrp : String) (infos : List FeeInfo) (h : infos.length > 5) :
    ∃ t, validateFeeAttrs hrp infos = .err t := by
  simp only [validateFeeAttrs, pin_max_fee_recipients, h, ↓reduceIte]
  exact ⟨_, rfl⟩

theorem allM_err_of_mem {α} (g : α → Res Unit) (l : List α) (a : α) (ha : a ∈ l) (he : ∃ t, g a = .err t)
    (hnp : ∀ b ∈ l, ∀ s, g b ≠ .panic s) : ∃ t, Res.allM g l = .err t := by
  induction l with
  | nil => cases ha
  | cons x xs ih =>
    simp only [Res.allM]
    cases hx : g x with
    | err t => exact ⟨t, rfl⟩
    | panic s => exact absurd hx (hnp x List.mem_cons_self s)
    | ok u =>
      simp only [Res.bind_ok]
      cases ha with
      | head => obtain ⟨t, ht⟩ := he; rw [ht] at hx; cases hx
      | tail _ hm => exact ih hm (fun b hb s => hnp b (List.mem_cons_of_mem _ hb) s)

theorem validate_entry_err_propagates (hrp : String) (infos : List FeeInfo) (f : FeeInfo) (hf : f ∈ infos)
    (he : ∃ t, FeeInfo.validate hrp f = .err t)
    (hnp : ∀ g ∈ infos, ∀ s, FeeInfo.validate hrp g ≠ .panic s) :
    ∃ t, validateFeeAttrs hrp infos = .err t := by
  simp only [validateFeeAttrs]
  split
  · exact ⟨_, rfl⟩
  · exact allM_err_of_mem _ infos f hf he hnp

theorem FeeInfo.checkType_no_panic (f : FeeInfo) (s : String) : f.checkType ≠ .panic s := by
  unfold FeeInfo.checkType
  cases f.feeType with
  | unset => simp
  | bps v => simp only; split <;> simp
  | amount v =>
    simp only
    cases newIntFromString v with
    | none => simp
    | some i => simp only; split <;> simp

theorem FeeInfo.validate_no_panic (hrp : String) (f : FeeInfo) (s : String) : FeeInfo.validate hrp f ≠ .panic s := by
  unfold FeeInfo.validate
  cases hc : f.checkType with
  | panic s' => exact absurd hc (FeeInfo.checkType_no_panic f s')
  | err t => simp
  | ok u =>
    simp only [Res.bind_ok, FeeInfo.checkRecipient]
    cases accAddressFromBech32 hrp f.recipient <;> simp

theorem validate_err_of_checkType_err (hrp : String) (f : FeeInfo) (t : String) (h : f.checkType = .err t) :
    FeeInfo.validate hrp f = .err t := by
  simp [FeeInfo.validate, h]

/-- A bps value of 0 or above 10000 anywhere in the list refuses the action. -/
theorem c04_refused_bad_bps (hrp : String) (infos : List FeeInfo) (f : FeeInfo) (hf : f ∈ infos) (v : Nat)
    (hft : f.feeType = .bps v) (hv : v = 0 ∨ v > 10000) : ∃ t, validateFeeAttrs hrp infos = .err t := by
  apply validate_entry_err_propagates hrp infos f hf _ (fun g _ s => FeeInfo.validate_no_panic hrp g s)
  refine ⟨"fee:bps-range", validate_err_of_checkType_err hrp f _ ?_⟩
  unfold FeeInfo.checkType
  rw [hft]
  have : (v == 0 || decide (v > Gen.bpsNormalizer)) = true := by
    rw [pin_bps_normalizer]; rcases hv with h | h <;> simp [h]
  simp only [this, ↓reduceIte]

/-- A fixed amount that is not a positive integer refuses the action. -/
theorem c04_refused_bad_amount (hrp : String) (infos : List FeeInfo) (f : FeeInfo) (hf : f ∈ infos) (s : String)
    (hft : f.feeType = .amount s) (hv : ∀ i, newIntFromString s = some i → i ≤ 0) :
    ∃ t, validateFeeAttrs hrp infos = .err t := by
  apply validate_entry_err_propagates hrp infos f hf _ (fun g _ s => FeeInfo.validate_no_panic hrp g s)
  cases hs : newIntFromString s with
  | none =>
    refine ⟨"fee:amount-nan", validate_err_of_checkType_err hrp f _ ?_⟩
    unfold FeeInfo.checkType; rw [hft]; simp only [hs]
  | some i =>
    have := hv i hs
    refine ⟨"fee:amount-not-positive", validate_err_of_checkType_err hrp f _ ?_⟩
    unfold FeeInfo.checkType; rw [hft]; simp only [hs, this, ↓reduceIte]

/-- A recipient that is not a valid address refuses the action. -/
theorem c04_refused_bad_recipient (hrp : String) (infos : List FeeInfo) (f : FeeInfo) (hf : f ∈ infos)
    (hr : accAddressFromBech32 hrp f.recipient = none) : ∃ t, validateFeeAttrs hrp infos = .err t := by
  apply validate_entry_err_propagates hrp infos f hf _ (fun g _ s => FeeInfo.validate_no_panic hrp g s)
  unfold FeeInfo.validate
  cases hc : f.checkType with
  | panic s' => exact absurd hc (FeeInfo.checkType_no_panic f s')
  | err t => exact ⟨t, rfl⟩
  | ok u => exact ⟨"fee:recipient", by simp [FeeInfo.checkRecipient, hr]⟩

/-! ### the controller: guards precede every send -/

/-- If the fee action succeeds, the attributes validated, the credits are the specified ones, their
sum is strictly below the amount entering the action, and the amount left is `A` minus that sum. -/
theorem c04_controller_ok (cfg : Cfg) (φ : Faults) (c c' : Ctx) (t t' : TransferAttrs) (a : Action)
    (hA : 0 ≤ t.dstAmount) (hd : validDenom t.dstDenom = true)
    (h : feeController cfg φ c t a = .ok (c', t')) :
    ∃ infos, a.attrs = some (.fee infos) ∧ validateFeeAttrs cfg.hrp infos = .ok () ∧
      total (creditsSpec cfg.hrp t.dstAmount infos) < t.dstAmount ∧
      t'.dstAmount = t.dstAmount - total (creditsSpec cfg.hrp t.dstAmount infos) ∧
      t'.dstDenom = t.dstDenom := by
  unfold feeController at h
  cases hat : a.attrs with
  | none => rw [hat] at h; cases h
  | some at_ =>
    rw [hat] at h
    cases at_ with
    | cctp _ _ _ => cases h
    | hyp _ _ _ _ _ _ _ _ => cases h
    | internal _ => cases h
    | fee infos =>
      simp only [Res.pure_eq, Res.bind_ok] at h
      cases hv : validateFeeAttrs cfg.hrp infos with
      | err e => rw [hv] at h; cases h
      | panic s => rw [hv] at h; cases h
      | ok u =>
        rw [hv] at h
        simp only [Res.mapErr, Res.bind_ok] at h
        cases hcf : computeFees cfg.hrp t.dstAmount t.dstDenom infos { values := [], total := 0 } with
        | err e => rw [hcf] at h; cases h
        | panic s => rw [hcf] at h; cases h
        | ok fees =>
          rw [hcf] at h
          simp only [Res.bind_ok] at h
          obtain ⟨_, htot⟩ := c04_distribution cfg.hrp t.dstAmount t.dstDenom infos fees hA hd (by cases u; exact hv) hcf
          by_cases hge : fees.total ≥ t.dstAmount
          · simp only [hge, ↓reduceIte] at h; cases h
          · simp only [hge, ↓reduceIte, Res.pure_eq, Res.bind_ok] at h
            cases hp : payFees φ cfg.orbAddr t.dstDenom fees.values c with
            | err e => rw [hp] at h; cases h
            | panic s => rw [hp] at h; cases h
            | ok c1 =>
              rw [hp] at h
              simp only [Res.bind_ok] at h
              cases hem : c1.emit φ "EventFeeAction" with
              | err e => rw [hem] at h; cases h
              | panic s => rw [hem] at h; cases h
              | ok c2 =>
                rw [hem] at h
                simp only [Res.bind_ok, Res.ok.injEq, Prod.mk.injEq] at h
                refine ⟨infos, rfl, by cases u; exact hv, ?_, ?_, ?_⟩
                · rw [← htot]; omega
                · rw [← h.2, ← htot]
                  simp only [TransferAttrs.setDstAmount]
                  have : ¬ (t.dstAmount - fees.total < 0) := by omega
                  simp [this]
                · rw [← h.2]; rfl

/-- The action is refused when the total is not strictly below the amount. -/
theorem c04_refused_total (cfg : Cfg) (φ : Faults) (c : Ctx) (t : TransferAttrs) (a : Action) (infos : List FeeInfo)
    (fees : FeesToDistribute) (hat : a.attrs = some (.fee infos)) (hv : validateFeeAttrs cfg.hrp infos = .ok ())
    (hcf : computeFees cfg.hrp t.dstAmount t.dstDenom infos { values := [], total := 0 } = .ok fees)
    (hge : fees.total ≥ t.dstAmount) : ∃ e, feeController cfg φ c t a = .err e := by
  unfold feeController
  simp only [hat, Res.pure_eq, Res.bind_ok, hv, Res.mapErr, hcf, hge, ↓reduceIte]
  exact ⟨_, rfl⟩

/-! ### non-vacuity -/

example : computeFeeAmount 1000000 100 = .ok 10000 := by decide
example : computeFeeAmount 9999 1 = .ok 0 := by decide
example : (computeFeeAmount (2 ^ 255) 10000).isErr = true := by decide

end Orbiter.C04
