"""Line protocol helpers: build operation lines, run the implementation driver and the Lean model
driver on them, parse and compare their canonical outputs (DESIGN.md Appendix B)."""
import base64
import binascii
import json
import os
# the SDK keyring library launches a dbus-daemon per process when no session bus is configured; thousands accumulate
os.environ.setdefault("DBUS_SESSION_BUS_ADDRESS", "disabled:")
import subprocess
import sys

sys.path.insert(0, os.path.dirname(__file__))
import bech32  # noqa: E402

VERIF = os.path.dirname(os.path.dirname(os.path.abspath(__file__)))
_CACHE = os.environ.get("VERIF_CACHE", os.path.join(VERIF, ".cache"))
IMPL = os.path.join(_CACHE, "bin", "impl")
MODEL = os.path.join(VERIF if "VERIF_CACHE" not in os.environ else _CACHE, "lean", ".lake", "build", "bin", "driver")

HRP = "noble"
ORB_BYTES = bech32.module_address("orbiter")
ORB = bech32.encode(HRP, ORB_BYTES)
DUST_BYTES = bech32.module_address("orbiter/dust_collector")
DUST = bech32.encode(HRP, DUST_BYTES)
AUTHORITY = "noble1zw7vatnx0vla7gzxucgypz0kfr6965akpvzw69"

CCTP_URL = "/noble.orbiter.controller.forwarding.v1.CCTPAttributes"
HYP_URL = "/noble.orbiter.controller.forwarding.v1.HypAttributes"
INT_URL = "/noble.orbiter.controller.forwarding.v1.InternalAttributes"
FEE_URL = "/noble.orbiter.controller.action.v2.FeeAttributes"


def hx(s):
    if isinstance(s, str):
        s = s.encode()
    return binascii.hexlify(s).decode() if s else "-"


def unhx(s):
    return b"" if s == "-" else binascii.unhexlify(s)


def addr(i):
    """i-th user account (20 bytes)."""
    return bytes([i]) * 20


def b32(a: bytes) -> str:
    return bech32.encode(HRP, a)


def b64(b: bytes) -> str:
    return base64.b64encode(b).decode()


# ---------------------------------------------------------------- payload builders (python dicts)

def cctp_fwd(domain=0, mint=None, caller=None, passthrough=None):
    attrs = {"@type": CCTP_URL, "destination_domain": domain, "mint_recipient": b64(mint if mint is not None else b"\x00" * 12 + b"\x07" * 20)}
    if caller is not None:
        attrs["destination_caller"] = b64(caller)
    f = {"protocol_id": "PROTOCOL_CCTP", "attributes": attrs}
    if passthrough is not None:
        f["passthrough_payload"] = b64(passthrough)
    return f


def hyp_fwd(token, domain=1, recipient=None, hook=None, meta=None, gas=None, fee=None, passthrough=None):
    attrs = {"@type": HYP_URL, "token_id": b64(token), "destination_domain": domain,
             "recipient": b64(recipient if recipient is not None else b"\x09" * 32)}
    if hook is not None:
        attrs["custom_hook_id"] = b64(hook)
    if meta is not None:
        attrs["custom_hook_metadata"] = meta
    if gas is not None:
        attrs["gas_limit"] = str(gas)
    if fee is not None:
        attrs["max_fee"] = {"denom": fee[0], "amount": str(fee[1])}
    f = {"protocol_id": "PROTOCOL_HYPERLANE", "attributes": attrs}
    if passthrough is not None:
        f["passthrough_payload"] = b64(passthrough)
    return f


def int_fwd(recipient):
    return {"protocol_id": "PROTOCOL_INTERNAL", "attributes": {"@type": INT_URL, "recipient": recipient}}


def fee_action(entries, action_id="ACTION_FEE"):
    """entries: list of (recipient string, 'b', bps int) | (recipient, 'a', amount string)."""
    infos = []
    for (r, kind, v) in entries:
        if kind == "b":
            infos.append({"recipient": r, "basis_points": {"value": v}})
        else:
            infos.append({"recipient": r, "amount": {"value": str(v)}})
    return {"id": action_id, "attributes": {"@type": FEE_URL, "fees_info": infos}}


def memo(fwd, actions=None):
    p = {"forwarding": fwd}
    if actions is not None:
        p["pre_actions"] = actions
    return json.dumps({"orbiter": p}, separators=(",", ":"))


def ftpd(denom, amount, receiver, memo_str="", sender=None):
    return json.dumps({"denom": denom, "amount": str(amount), "sender": sender or b32(addr(200)), "receiver": receiver, "memo": memo_str},
                      separators=(",", ":"))


def pkt_line(op, data, src_port="transfer", src_chan="channel-7", dst_port="transfer", dst_chan="channel-0"):
    if isinstance(data, str):
        data = data.encode()
    return "%s %s %s %s %s %s" % (op, hx(src_port), hx(src_chan), hx(dst_port), hx(dst_chan), hx(data))


def orb_pkt(op, amount, fwd, actions=None, denom="uusdc", src_chan="channel-7", dst_chan="channel-0", receiver=None):
    return pkt_line(op, ftpd("transfer/%s/%s" % (src_chan, denom), amount, receiver or ORB, memo(fwd, actions)),
                    src_chan=src_chan, dst_chan=dst_chan)


def msg_line(rpc, signer, *args):
    return "msg %s %s %s" % (rpc, hx(signer), " ".join(args))


# ---------------------------------------------------------------- running

class Proc:
    """Interactive line-in/line-out process."""

    def __init__(self, argv, env=None):
        e = dict(os.environ)
        e["GOMEMLIMIT"] = "6GiB"
        if env:
            e.update(env)
        self.p = subprocess.Popen(argv, stdin=subprocess.PIPE, stdout=subprocess.PIPE, stderr=subprocess.DEVNULL, text=True, env=e, bufsize=1)

    def ask(self, line):
        self.p.stdin.write(line + "\n")
        self.p.stdin.flush()
        out = self.p.stdout.readline()
        if out == "":
            raise RuntimeError("driver died on: " + line[:200])
        return out.rstrip("\n")

    def close(self):
        try:
            self.p.stdin.close()
            self.p.wait(timeout=30)
        except Exception:
            self.p.kill()


def run_batch(argv, lines, timeout=900, env=None):
    e = None
    if env:
        e = dict(os.environ)
        e.update(env)
    p = subprocess.run(argv, input="\n".join(lines) + "\n", capture_output=True, text=True, timeout=timeout, env=e)
    outs = p.stdout.splitlines()
    return outs, p.returncode, p.stderr


def kv(line):
    """'a=b c=d' -> dict; a bare token maps to {'_': token}."""
    d = {}
    for tok in line.split(" "):
        if "=" in tok:
            k, v = tok.split("=", 1)
            d[k] = v
        elif tok:
            d.setdefault("_", tok)
    return d
