package main

import (
	"encoding/hex"
	"fmt"
	"strconv"

	hyputil "github.com/bcp-innovations/hyperlane-cosmos/util"
	ismtypes "github.com/bcp-innovations/hyperlane-cosmos/x/core/01_interchain_security/types"
	pdtypes "github.com/bcp-innovations/hyperlane-cosmos/x/core/02_post_dispatch/types"
	hypcoretypes "github.com/bcp-innovations/hyperlane-cosmos/x/core/types"
	warptypes "github.com/bcp-innovations/hyperlane-cosmos/x/warp/types"

	sdkmath "cosmossdk.io/math"
	sdk "github.com/cosmos/cosmos-sdk/types"
	"github.com/cosmos/gogoproto/proto"
)

const hypLocalDomain = 1313817164

type hypEnv struct {
	owner   string
	mailbox hyputil.HexAddress
	noop    hyputil.HexAddress
	ready   bool
}

var hypState = map[*appState]*hypEnv{}

func (s *appState) hypRun(m sdk.Msg) (proto.Message, error) {
	h := s.env.App.MsgServiceRouter().Handler(m)
	if h == nil {
		return nil, fmt.Errorf("no handler for %T", m)
	}
	cacheCtx, write := s.env.Ctx.CacheContext()
	cacheCtx = cacheCtx.WithEventManager(sdk.NewEventManager())
	res, err := h(cacheCtx, m)
	if err != nil {
		return nil, err
	}
	write()
	if len(res.MsgResponses) == 0 {
		return nil, nil
	}
	cached := res.MsgResponses[0].GetCachedValue()
	if pm, ok := cached.(proto.Message); ok {
		return pm, nil
	}
	return nil, nil
}

func (s *appState) hypBase() (*hypEnv, error) {
	he := hypState[s]
	if he != nil && he.ready {
		return he, nil
	}
	he = &hypEnv{owner: sdk.AccAddress([]byte("hyperlane-owner-0001")).String()}
	r, err := s.hypRun(&ismtypes.MsgCreateNoopIsm{Creator: he.owner})
	if err != nil {
		return nil, err
	}
	ism := r.(*ismtypes.MsgCreateNoopIsmResponse).Id
	r, err = s.hypRun(&pdtypes.MsgCreateNoopHook{Owner: he.owner})
	if err != nil {
		return nil, err
	}
	he.noop = r.(*pdtypes.MsgCreateNoopHookResponse).Id
	r, err = s.hypRun(&hypcoretypes.MsgCreateMailbox{Owner: he.owner, LocalDomain: hypLocalDomain, DefaultIsm: ism, DefaultHook: &he.noop, RequiredHook: &he.noop})
	if err != nil {
		return nil, err
	}
	he.mailbox = r.(*hypcoretypes.MsgCreateMailboxResponse).Id
	he.ready = true
	hypState[s] = he
	return he, nil
}

// env hyp setup <denomHex>            -> ok tok=<hex>
// env hyp token <tokHex> <denomHex>   -> ok (asserts the token exists with that origin denom)
// env hyp enroll <tokHex> <domain> <gas> | env hyp unroll <tokHex> <domain>
// env hyp igp <denomHex> <domain> <rate> <price> <overhead>  (new IGP becomes the mailbox default hook) -> ok
// env hyp noop (mailbox default hook back to the no-op hook)
func (s *appState) hypOp(d *driver, f []string) string {
	he, err := s.hypBase()
	if err != nil {
		return "err:" + hx(err.Error())
	}
	tokOf := func(x string) (hyputil.HexAddress, bool) {
		b, err := hex.DecodeString(x)
		if err != nil || len(b) != 32 {
			return hyputil.HexAddress{}, false
		}
		return hyputil.HexAddress(b), true
	}
	switch f[0] {
	case "setup":
		r, err := s.hypRun(&warptypes.MsgCreateCollateralToken{Owner: he.owner, OriginMailbox: he.mailbox, OriginDenom: mustUnhx(f[1])})
		if err != nil {
			return "err:" + hx(err.Error())
		}
		id := r.(*warptypes.MsgCreateCollateralTokenResponse).Id
		return "ok tok=" + hex.EncodeToString(id.Bytes())
	case "token":
		tok, ok := tokOf(f[1])
		if !ok {
			return "bad-op"
		}
		t, err := s.env.App.WarpKeeper.HypTokens.Get(s.env.Ctx, tok.GetInternalId())
		if err != nil || t.OriginDenom != mustUnhx(f[2]) {
			return "err"
		}
		return "ok"
	case "enroll":
		tok, ok := tokOf(f[1])
		if !ok {
			return "bad-op"
		}
		dom, _ := strconv.ParseUint(f[2], 10, 32)
		gas, ok := sdkmath.NewIntFromString(f[3])
		if !ok {
			return "bad-op"
		}
		contract := make([]byte, 32)
		contract[31] = 0x42
		_, err := s.hypRun(&warptypes.MsgEnrollRemoteRouter{Owner: he.owner, TokenId: tok, RemoteRouter: &warptypes.RemoteRouter{
			ReceiverDomain: uint32(dom), ReceiverContract: hyputil.HexAddress(contract).String(), Gas: gas}})
		if err != nil {
			return "err:" + hx(err.Error())
		}
		return "ok"
	case "unroll":
		tok, ok := tokOf(f[1])
		if !ok {
			return "bad-op"
		}
		dom, _ := strconv.ParseUint(f[2], 10, 32)
		if _, err := s.hypRun(&warptypes.MsgUnrollRemoteRouter{Owner: he.owner, TokenId: tok, ReceiverDomain: uint32(dom)}); err != nil {
			return "err:" + hx(err.Error())
		}
		return "ok"
	case "igp":
		dom, _ := strconv.ParseUint(f[2], 10, 32)
		rate, ok1 := sdkmath.NewIntFromString(f[3])
		price, ok2 := sdkmath.NewIntFromString(f[4])
		over, ok3 := sdkmath.NewIntFromString(f[5])
		if !ok1 || !ok2 || !ok3 {
			return "bad-op"
		}
		r, err := s.hypRun(&pdtypes.MsgCreateIgp{Owner: he.owner, Denom: mustUnhx(f[1])})
		if err != nil {
			return "err:" + hx(err.Error())
		}
		igp := r.(*pdtypes.MsgCreateIgpResponse).Id
		if _, err := s.hypRun(&pdtypes.MsgSetDestinationGasConfig{Owner: he.owner, IgpId: igp, DestinationGasConfig: &pdtypes.DestinationGasConfig{
			RemoteDomain: uint32(dom), GasOracle: &pdtypes.GasOracle{TokenExchangeRate: rate, GasPrice: price}, GasOverhead: over}}); err != nil {
			return "err:" + hx(err.Error())
		}
		if _, err := s.hypRun(&hypcoretypes.MsgSetMailbox{Owner: he.owner, MailboxId: he.mailbox, DefaultHook: &igp}); err != nil {
			return "err:" + hx(err.Error())
		}
		return "ok"
	case "noop":
		if _, err := s.hypRun(&hypcoretypes.MsgSetMailbox{Owner: he.owner, MailboxId: he.mailbox, DefaultHook: &he.noop}); err != nil {
			return "err:" + hx(err.Error())
		}
		return "ok"
	}
	return "bad-op"
}
