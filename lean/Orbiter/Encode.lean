/-
  Orbiter.Encode — what `types.MarshalJSON` (the SDK codec's `ProtoMarshalJSON`: gogoproto jsonpb with
  `OrigName`, `EmitDefaults` and the interface registry as `AnyResolver`) writes for a `PayloadWrapper`:
  payload → tree (`encWrapper`) → bytes (`Json.render`).  The inverse direction is `parsePayload`; the
  round trip is proved in `Props/C15.lean`.  The bytes are compared with the real marshaller's output by
  stream S1 (`pure marshal`), byte for byte.

  Attribute messages live in an `Any`: what is printed is the message re-read from its binary form, so an
  empty `bytes` field is always the nil slice (`null`).  `passthrough_payload` is a direct field: a nil
  slice prints `null`, an empty non-nil one `""` — the caller's choice, `nilPass` here.
-/
import Orbiter.Pure
namespace Orbiter

/-- The string whose UTF-8 bytes are the (ASCII) bytes `bs`. -/
def asciiString (bs : Bytes) : String := String.ofList (bs.map fun b => Char.ofNat b.toNat)

/-- Does `appendString` (HTML escaping on) write the character as it is? -/
def rawChar (c : Char) : Bool :=
  let n := c.toNat
  if n < 0x80 then !(c == '"' || c == '\\' || n < 0x20 || c == '<' || c == '>' || c == '&')
  else n != 0x2028 && n != 0x2029

/-- A string value; the flag says whether the text between the quotes is the value itself (no escapes), which is
what the syntax layer reports for it when it reads the rendered text back. -/
def encStr (s : String) : Json := .str s (s.toList.all rawChar)

def encB64 (b : Bytes) : Json := encStr (asciiString (b64Encode b))

/-- A `bytes` field of a message held in an `Any`. -/
def encBytesAny (b : Bytes) : Json := if b.isEmpty then .null else encB64 b

/-- A `bytes` field held directly. -/
def encBytesTop (nilEmpty : Bool) (b : Bytes) : Json := if b.isEmpty && nilEmpty then .null else encB64 b

def encUint (n : Nat) : Json := .num (natToDec n)

/-- customtype `math.Int`: `"<decimal>"`. -/
def encMathInt (i : Int) : Json := encStr (intToDec i)

/-- Enum: the name when the number has one, the bare number otherwise. -/
def encEnum (names : List (Int × String)) (n : Int) : Json :=
  match names.find? (·.1 == n) with
  | some (_, s) => encStr s
  | none => .num (intToDec n)

def encFeeInfo (f : FeeInfo) : Json :=
  .obj (("recipient", encStr f.recipient) ::
    (match f.feeType with
     | .unset => []
     | .bps v => [("basis_points", .obj [("value", encUint v)])]
     | .amount s => [("amount", .obj [("value", encStr s)])]))

def encAttrs : Attrs → Json
  | .cctp domain mint caller =>
      .obj [("@type", encStr cctpUrl), ("destination_domain", encUint domain), ("mint_recipient", encBytesAny mint),
            ("destination_caller", encBytesAny caller)]
  | .hyp tok domain rec_ hook hmeta gas feeDenom feeAmt =>
      .obj [("@type", encStr hypUrl), ("token_id", encBytesAny tok), ("destination_domain", encUint domain),
            ("recipient", encBytesAny rec_), ("custom_hook_id", encBytesAny hook), ("custom_hook_metadata", encStr hmeta),
            ("gas_limit", encMathInt gas), ("max_fee", .obj [("denom", encStr feeDenom), ("amount", encMathInt feeAmt)])]
  | .internal recipient => .obj [("@type", encStr internalUrl), ("recipient", encStr recipient)]
  | .fee infos => .obj [("@type", encStr feeUrl), ("fees_info", .arr (infos.map encFeeInfo))]

def encAny : Option Attrs → Json
  | none => .null
  | some a => encAttrs a

def encAction (a : Action) : Json :=
  .obj [("id", encEnum Gen.actionIds a.id), ("attributes", encAny a.attrs)]

def encForwarding (nilPass : Bool) (f : Forwarding) : Json :=
  .obj [("protocol_id", encEnum Gen.protocolIds f.protocolId), ("attributes", encAny f.attrs),
        ("passthrough_payload", encBytesTop nilPass f.passthrough)]

def encPayload (nilPass : Bool) (p : Payload) : Json :=
  .obj [("pre_actions", .arr (p.preActions.map encAction)),
        ("forwarding", match p.forwarding with | some f => encForwarding nilPass f | none => .null)]

/-- `PayloadWrapper{Orbiter: p}`. -/
def encWrapper (nilPass : Bool) (p : Payload) : Json := .obj [(Gen.orbiterPrefix, encPayload nilPass p)]

/-! ### tree → bytes, as `encoding/json` writes strings (HTML escaping on) and jsonpb joins the rest -/

def hexLower (n : Nat) : UInt8 := if n < 10 then UInt8.ofNat (48 + n) else UInt8.ofNat (87 + n)

/-- One character of a string literal (`appendString`, `escapeHTML = true`). -/
def renderChar (c : Char) : Bytes :=
  let n := c.toNat
  if n < 0x80 then
    if c == '"' then [92, 34]
    else if c == '\\' then [92, 92]
    else if n == 8 then [92, 98]
    else if n == 12 then [92, 102]
    else if n == 10 then [92, 110]
    else if n == 13 then [92, 114]
    else if n == 9 then [92, 116]
    else if n < 0x20 || c == '<' || c == '>' || c == '&' then [92, 117, 48, 48, hexLower (n / 16), hexLower (n % 16)]
    else [UInt8.ofNat n]
  else if n == 0x2028 then [92, 117, 50, 48, 50, 56]
  else if n == 0x2029 then [92, 117, 50, 48, 50, 57]
  else String.utf8EncodeChar c

def renderString (s : String) : Bytes := 34 :: (s.toList.flatMap renderChar) ++ [34]

mutual
def Json.render : Json → Bytes
  | .null => [110, 117, 108, 108]
  | .bool true => [116, 114, 117, 101]
  | .bool false => [102, 97, 108, 115, 101]
  | .num raw => strBytes raw
  | .str v _ => renderString v
  | .arr items => 91 :: renderItems items ++ [93]
  | .obj fs => 123 :: renderFields fs ++ [125]
def renderItems : List Json → Bytes
  | [] => []
  | [x] => x.render
  | x :: xs => x.render ++ 44 :: renderItems xs
def renderFields : List (String × Json) → Bytes
  | [] => []
  | [(k, v)] => renderString k ++ 58 :: v.render
  | (k, v) :: fs => renderString k ++ 58 :: v.render ++ 44 :: renderFields fs
end

/-- `types.MarshalJSON(cdc, &PayloadWrapper{Orbiter: p})`. -/
def marshalPayload (nilPass : Bool) (p : Payload) : Bytes := (encWrapper nilPass p).render

/-! ### the public constructors (types/core/orbiter.go, types/controller/{forwarding,action}/*.go) -/

/-- `core.NewForwarding`. -/
def newForwarding (pid : Int) (a : Attrs) (pass : Bytes) : Res Forwarding :=
  let f : Forwarding := { protocolId := pid, attrs := some a, passthrough := pass }
  f.validate >>= fun _ => pure f

/-- `NewCCTPForwarding`, `NewHyperlaneForwarding`, `NewInternalForwarding`: validated attributes, then `NewForwarding`. -/
def newAttrsForwarding (hrp : String) (orbAddr : Bytes) (pid : Int) (a : Attrs) (pass : Bytes) : Res Forwarding :=
  a.validate hrp orbAddr >>= fun _ => newForwarding pid a pass

/-- `core.NewAction`. -/
def newAction (id : Int) (a : Attrs) : Res Action :=
  let x : Action := { id := id, attrs := some a }
  x.validate >>= fun _ => pure x

/-- `NewFeeBasisPoints` / `NewFeeAmount`, then `NewFeeInfo`. -/
def newFeeInfo (hrp : String) (recipient : String) (ft : FeeType) : Res FeeInfo :=
  let f : FeeInfo := { recipient := recipient, feeType := ft }
  f.checkType >>= fun _ => f.validate hrp >>= fun _ => pure f

/-- `NewFeeAction`. -/
def newFeeAction (hrp : String) (infos : List FeeInfo) : Res Action :=
  validateFeeAttrs hrp infos >>= fun _ => newAction ACTION_FEE (.fee infos)

/-- `core.NewPayload` / `NewPayloadWrapper`. -/
def newPayload (f : Forwarding) (acts : List Action) : Res Payload :=
  let p : Payload := { forwarding := some f, preActions := acts }
  p.validate >>= fun _ => pure p

/-! ### text -/

/-- Printable ASCII. -/
def asciiPrintable (c : Char) : Bool := decide (0x20 ≤ c.toNat) && decide (c.toNat < 0x7F)

def strOk (v : String) : Bool := v.toList.all asciiPrintable

/-- The free-text fields of the attributes are printable ASCII (what every address, denomination, amount and hook
metadata accepted by validation is — `Lemmas/JsonText.lean`). -/
def FeeInfo.textOk (f : FeeInfo) : Bool := strOk f.recipient && (match f.feeType with | .amount s => strOk s | _ => true)

def Attrs.textOk : Attrs → Bool
  | .cctp .. => true
  | .hyp _ _ _ _ hmeta _ feeDenom _ => strOk hmeta && strOk feeDenom
  | .internal recipient => strOk recipient
  | .fee infos => infos.all FeeInfo.textOk

def Payload.textOk (p : Payload) : Bool :=
  p.preActions.all (fun a => match a.attrs with | some at_ => at_.textOk | none => true) &&
  (match p.forwarding with | some f => (match f.attrs with | some at_ => at_.textOk | none => true) | none => true)

/-! ### values the Go types can hold -/

def int32Fits (i : Int) : Bool := decide (-(2 ^ 31) ≤ i) && decide (i ≤ 2 ^ 31 - 1)

def FeeInfo.typed (f : FeeInfo) : Bool := match f.feeType with | .bps v => decide (v < 2 ^ 32) | _ => true

/-- The attribute values are within their Go types: `uint32` numbers, `math.Int`s of at most 256 bits. -/
def Attrs.typed : Attrs → Bool
  | .cctp domain _ _ => decide (domain < 2 ^ 32)
  | .hyp _ domain _ _ _ gas _ feeAmt => decide (domain < 2 ^ 32) && !overflows256 gas && !overflows256 feeAmt
  | .internal _ => true
  | .fee infos => infos.all FeeInfo.typed

def Action.typed (a : Action) : Bool :=
  int32Fits a.id && (match a.attrs with | some at_ => at_.isAction && at_.typed | none => true)

def Forwarding.typed (f : Forwarding) : Bool :=
  int32Fits f.protocolId && (match f.attrs with | some at_ => at_.isForwarding && at_.typed | none => true)

/-- A payload as the Go types can hold it (`*Payload` with its `Any`s resolved against the registry). -/
def Payload.typed (p : Payload) : Bool :=
  p.preActions.all Action.typed && (match p.forwarding with | some f => f.typed | none => true)

end Orbiter
