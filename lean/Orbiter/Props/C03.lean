/-
  C03 — A failure at any step yields an error acknowledgement, never partial success.
  (a) all-or-nothing: an acknowledgement that is not a success commits nothing;
  (b) a success means every stage succeeded, in order, and the committed context is the one after the
      last fund movement;
  (c) on the chain's wiring, no external call that the fault oracle fails is survived: on success every
      registered call (bank sends, module-to-module sweep, wrapped application, bridge servers, token
      query, event manager) was answered without error.
-/
import Orbiter.Lemmas.Ctx
namespace Orbiter.C03
open Orbiter

/-- (a) Whatever failed and wherever: an error acknowledgement (or an abort) leaves the committed world —
ledger, external state, module state — exactly as it was. No fee is kept, nothing is swept, no
statistics are written. -/
theorem c03_all_or_nothing (wr : Wiring) (φ : Faults) (w : World) (pkt : Packet)
    (h : (ibcRecv wr φ w pkt).ack.isSuccess = false) : (ibcRecv wr φ w pkt).world = w :=
  ibcRecv_error_commits_nothing wr φ w pkt h

/-- (b) A success acknowledgement for an orbiter packet is returned only after every stage has succeeded:
hook, wrapped application, every action in order, the forwarder (balance precondition and bridge call),
the final event; the committed context is the one the last of them returned. -/
theorem c03_success_means_every_stage (wr : Wiring) (φ : Faults) (w : World) (pkt : Packet) (t : TransferAttrs) (p : Payload)
    (hs : (ibcRecv wr φ w pkt).ack.isSuccess = true) (ha : adaptPacket wr pkt = .ok (.orbiter t p)) :
    ∃ c1 c2 c3 c4 t' f,
      beforeTransferHook wr φ w.orb (ctxOf w) t p = .ok c1 ∧
      wrappedApp wr φ c1 pkt = .ok c2 ∧
      dispatchActions wr φ w.orb p.preActions c2 t = .ok (c3, t') ∧
      p.forwarding = some f ∧ forwarderHandle wr φ w.orb c3 t' f = .ok c4 ∧
      c4.emit φ "EventPayloadProcessed" = .ok (ibcRecv wr φ w pkt).ctx := by
  obtain ⟨c1, c2, c3, t3, h1, h2, hd, he⟩ := ibcRecv_success_dispatch hs ha
  obtain ⟨c4, f, _, hda, hf, hfw, _⟩ := dispatchPayload_ok hd
  exact ⟨c1, c2, c4, c3, t3, f, h1, h2, hda, hf, hfw, he⟩

/-- Contrapositive, stage by stage: if any stage fails the acknowledgement is not a success. -/
theorem c03_stage_failure_is_error (wr : Wiring) (φ : Faults) (w : World) (pkt : Packet) (t : TransferAttrs) (p : Payload)
    (ha : adaptPacket wr pkt = .ok (.orbiter t p))
    (hfail : (∀ c1, beforeTransferHook wr φ w.orb (ctxOf w) t p ≠ .ok c1) ∨
             (∀ c1 c2, beforeTransferHook wr φ w.orb (ctxOf w) t p = .ok c1 → wrappedApp wr φ c1 pkt ≠ .ok c2) ∨
             (∀ c2 r, dispatchPayload wr φ w.orb c2 t p ≠ .ok r)) :
    (ibcRecv wr φ w pkt).ack.isSuccess = false := by
  cases hs : (ibcRecv wr φ w pkt).ack.isSuccess with
  | false => rfl
  | true =>
    exfalso
    obtain ⟨c1, c2, c3, t3, h1, h2, hd, _⟩ := ibcRecv_success_dispatch hs ha
    rcases hfail with h | h | h
    · exact h c1 h1
    · exact h c1 c2 h1 h2
    · exact h c2 _ hd

/-! ### (c) every external call is checked -/

theorem ics20Recv_calls {cfg : Cfg} {c c' : Ctx} {pkt : Packet} (h : ics20Recv cfg c pkt = .ok c') : c'.calls = c.calls := by
  unfold ics20Recv at h
  cases hd : decFTPD pkt.data with
  | none => simp [hd] at h
  | some d =>
    simp only [hd] at h
    cases hamt : newIntFromString d.amount with
    | none => simp [hamt] at h
    | some amt =>
      simp only [hamt, Res.pure_eq, Res.bind_ok, Res.guard_bind_eq_ok] at h
      obtain ⟨_, _, _, _, _, h⟩ := h
      cases hr : accAddressFromBech32 cfg.hrp d.receiver with
      | none => simp [hr] at h
      | some r =>
        simp only [hr, Res.bind_ok] at h
        split at h
        · obtain ⟨_, _, h⟩ := Res.bind_eq_ok.mp h
          simp only [Res.guard_bind_eq_ok] at h
          obtain ⟨_, h⟩ := h
          obtain ⟨c1, h1, h⟩ := Res.bind_eq_ok.mp h
          split at h
          · cases h
          · simp only [Res.pure_eq, Res.ok.injEq] at h
            subst h
            exact (Ctx.send_calls h1 : c1.calls = c.calls)
        · split at h
          · cases h
          · rw [Ctx.send_calls h]; rfl

theorem payFees_clean {φ : Faults} {orb : Addr} {denom : String} (l : List (Bytes × Int)) (c c' : Ctx) (hc : c.Clean φ)
    (h : payFees φ orb denom l c = .ok c') : c'.Clean φ := by
  induction l generalizing c with
  | nil => simp only [payFees, Res.ok.injEq] at h; exact h ▸ hc
  | cons v rest ih =>
    simp only [payFees] at h
    obtain ⟨c1, h1, h⟩ := Res.bind_eq_ok.mp h
    obtain ⟨c2, h2, h⟩ := Res.bind_eq_ok.mp h
    exact ih c2 (Ctx.clean_of_calls_eq (Ctx.call_clean hc h1) (Ctx.send_calls h2)) h

theorem feeController_clean {cfg : Cfg} {φ : Faults} {c c' : Ctx} {t t' : TransferAttrs} {a : Action} (hc : c.Clean φ)
    (h : feeController cfg φ c t a = .ok (c', t')) : c'.Clean φ := by
  unfold feeController at h
  simp only at h
  split at h
  case h_2 => simp at h
  case h_3 => simp at h
  simp only [Res.pure_eq, Res.bind_ok] at h
  obtain ⟨_, _, h⟩ := Res.bind_eq_ok.mp h
  obtain ⟨fees, _, h⟩ := Res.bind_eq_ok.mp h
  simp only [Res.guard_bind_eq_ok] at h
  obtain ⟨_, h⟩ := h
  obtain ⟨c1, h1, h⟩ := Res.bind_eq_ok.mp h
  obtain ⟨c2, h2, h⟩ := Res.bind_eq_ok.mp h
  simp only [Res.ok.injEq, Prod.mk.injEq] at h
  obtain ⟨rfl, _⟩ := h
  exact Ctx.emit_clean (payFees_clean _ _ _ hc h1) h2

theorem cctpController_clean {cfg : Cfg} {φ : Faults} {c c' : Ctx} {t : TransferAttrs} {f : Forwarding} (hc : c.Clean φ)
    (h : cctpController cfg φ c t f = .ok c') : c'.Clean φ := by
  unfold cctpController at h
  simp only at h
  cases ha : f.attrs with
  | none => simp [ha] at h
  | some a =>
    simp only [ha, Res.pure_eq, Res.bind_ok] at h
    cases a with
    | cctp domain mint caller =>
      simp only at h
      obtain ⟨_, _, h⟩ := Res.bind_eq_ok.mp h
      obtain ⟨c1, h1, h⟩ := Res.bind_eq_ok.mp h
      refine Ctx.clean_of_calls_eq (Ctx.call_clean (c := { c with reqs := _ }) ?_ h1) (cctpDepositForBurn_calls h)
      exact hc
    | hyp => simp at h
    | internal => simp at h
    | fee => simp at h

theorem hypController_clean {cfg : Cfg} {φ : Faults} {c c' : Ctx} {t : TransferAttrs} {f : Forwarding} (hc : c.Clean φ)
    (h : hypController cfg φ c t f = .ok c') : c'.Clean φ := by
  unfold hypController at h
  simp only at h
  cases ha : f.attrs with
  | none => simp [ha] at h
  | some a =>
    simp only [ha, Res.pure_eq, Res.bind_ok] at h
    cases a with
    | hyp tok domain rec_ hook hmeta gas feeDenom feeAmt =>
      simp only at h
      obtain ⟨_, _, h⟩ := Res.bind_eq_ok.mp h
      obtain ⟨_, _, h⟩ := Res.bind_eq_ok.mp h
      obtain ⟨c1, h1, h⟩ := Res.bind_eq_ok.mp h
      cases ht : lookupTok c1.ext.hypTokens tok with
      | none => simp [ht] at h
      | some origin =>
        simp only [ht, Res.bind_ok, Res.guard_bind_eq_ok] at h
        obtain ⟨_, h⟩ := h
        obtain ⟨c2, h2, h⟩ := Res.bind_eq_ok.mp h
        have hc1 := Ctx.call_clean hc h1
        refine Ctx.clean_of_calls_eq (Ctx.call_clean (c := { c1 with reqs := _ }) ?_ h2) (warpRemoteTransfer_calls h)
        exact hc1
    | cctp => simp at h
    | internal => simp at h
    | fee => simp at h

theorem internalController_clean {cfg : Cfg} {φ : Faults} {c c' : Ctx} {t : TransferAttrs} {f : Forwarding} (hc : c.Clean φ)
    (h : internalController cfg φ c t f = .ok c') : c'.Clean φ := by
  unfold internalController at h
  simp only at h
  cases ha : f.attrs with
  | none => simp [ha] at h
  | some a =>
    simp only [ha, Res.pure_eq, Res.bind_ok] at h
    cases a with
    | internal recipient =>
      simp only at h
      obtain ⟨_, _, h⟩ := Res.bind_eq_ok.mp h
      obtain ⟨_, _, h⟩ := Res.bind_eq_ok.mp h
      obtain ⟨_, _, h⟩ := Res.bind_eq_ok.mp h
      obtain ⟨c1, h1, h⟩ := Res.bind_eq_ok.mp h
      refine Ctx.clean_of_calls_eq (Ctx.call_clean (c := { c with reqs := _ }) ?_ h1) (bankMsgSend_calls h)
      exact hc
    | cctp => simp at h
    | hyp => simp at h
    | fee => simp at h

theorem dispatchActions_clean {cfg : Cfg} {π : OneofOrder} {φ : Faults} {o : OrbState} (acts : List Action) (c c' : Ctx) (t t' : TransferAttrs)
    (hc : c.Clean φ) (h : dispatchActions (appWiring cfg π) φ o acts c t = .ok (c', t')) : c'.Clean φ := by
  induction acts generalizing c t with
  | nil => simp only [dispatchActions, Res.ok.injEq, Prod.mk.injEq] at h; exact h.1 ▸ hc
  | cons x rest ih =>
    simp only [dispatchActions] at h
    obtain ⟨r1, hx, h⟩ := Res.bind_eq_ok.mp h
    obtain ⟨c1, t1⟩ := r1
    refine ih c1 t1 ?_ h
    unfold executorHandle at hx
    obtain ⟨_, _, hx⟩ := Res.bind_eq_ok.mp hx
    simp only [Res.guard_bind_eq_ok] at hx
    obtain ⟨_, hx⟩ := hx
    simp only [appWiring, appActionRouter] at hx
    split at hx
    · cases hx
    · rename_i hctl
      split at hctl
      · simp only [Option.some.injEq] at hctl; subst hctl
        exact feeController_clean hc hx
      · cases hctl

theorem forwarderHandle_clean {cfg : Cfg} {π : OneofOrder} {φ : Faults} {o : OrbState} {c c' : Ctx} {t : TransferAttrs} {f : Forwarding}
    (hc : c.Clean φ) (h : forwarderHandle (appWiring cfg π) φ o c t f = .ok c') : c'.Clean φ := by
  unfold forwarderHandle at h
  obtain ⟨_, _, h⟩ := Res.bind_eq_ok.mp h
  cases ha : f.attrs with
  | none => simp [ha] at h
  | some a =>
    simp only [ha, Res.pure_eq, Res.bind_ok, Res.guard_bind_eq_ok] at h
    obtain ⟨_, _, _, _, h⟩ := h
    simp only [appWiring, appForwardingRouter] at h
    split at h
    · cases h
    · rename_i hctl
      split at hctl
      · cases hctl
      · split at hctl
        · simp only [Option.some.injEq] at hctl; subst hctl; exact cctpController_clean hc h
        · split at hctl
          · simp only [Option.some.injEq] at hctl; subst hctl; exact hypController_clean hc h
          · split at hctl
            · simp only [Option.some.injEq] at hctl; subst hctl; exact internalController_clean hc h
            · cases hctl

/-- (c) On the chain's wiring a successful orbiter transfer survived no failed call: every external call
registered during the transfer was answered without error. Equivalently: if the oracle fails the k-th
call of any site the transfer reaches, the acknowledgement is an error (and by (a) nothing is kept). -/
theorem c03_no_failed_call_survives (cfg : Cfg) (π : OneofOrder) (φ : Faults) (w : World) (pkt : Packet) (t : TransferAttrs) (p : Payload)
    (hs : (ibcRecv (appWiring cfg π) φ w pkt).ack.isSuccess = true) (ha : adaptPacket (appWiring cfg π) pkt = .ok (.orbiter t p)) :
    (ibcRecv (appWiring cfg π) φ w pkt).ctx.Clean φ := by
  obtain ⟨c1, c2, c3, c4, t', f, h1, h2, h3, _, h5, h6⟩ := c03_success_means_every_stage _ φ w pkt t p hs ha
  have k0 : (ctxOf w).Clean φ := by intro s k hm; simp [ctxOf] at hm
  have k1 : c1.Clean φ := by
    unfold beforeTransferHook at h1
    simp only [Res.guard_bind_eq_ok] at h1
    obtain ⟨_, h1⟩ := h1
    split at h1
    · simp only [Res.pure_eq, Res.ok.injEq] at h1; exact h1 ▸ k0
    · obtain ⟨c0, hc0, h1⟩ := Res.bind_eq_ok.mp h1
      exact Ctx.clean_of_calls_eq (Ctx.call_clean k0 hc0) (Ctx.send_calls h1)
  have k2 : c2.Clean φ := by
    unfold wrappedApp at h2
    obtain ⟨c0, hc0, h2⟩ := Res.bind_eq_ok.mp h2
    exact Ctx.clean_of_calls_eq (Ctx.call_clean k1 hc0) (ics20Recv_calls h2)
  have k3 := dispatchActions_clean _ _ _ _ _ k2 h3
  have k4 := forwarderHandle_clean k3 h5
  exact Ctx.emit_clean k4 h6

/-! ### non-vacuity: a fault oracle that fails the first bank send -/
example : (fun s k => s == "bank.SendCoins" && k == 1 : Faults) "bank.SendCoins" 1 = true := by decide

end Orbiter.C03
