"""Minimal bech32 (BIP-173) encoder/decoder used by the generators (stdlib only)."""
CHARSET = "qpzry9x8gf2tvdw0s3jn54khce6mua7l"

def polymod(values):
    gen = [0x3b6a57b2, 0x26508e6d, 0x1ea119fa, 0x3d4233dd, 0x2a1462b3]
    chk = 1
    for v in values:
        b = chk >> 25
        chk = (chk & 0x1ffffff) << 5 ^ v
        for i in range(5):
            chk ^= gen[i] if ((b >> i) & 1) else 0
    return chk

def hrp_expand(hrp):
    return [ord(x) >> 5 for x in hrp] + [0] + [ord(x) & 31 for x in hrp]

def create_checksum(hrp, data):
    values = hrp_expand(hrp) + data
    pm = polymod(values + [0, 0, 0, 0, 0, 0]) ^ 1
    return [(pm >> 5 * (5 - i)) & 31 for i in range(6)]

def convertbits(data, frombits, tobits, pad=True):
    acc = 0; bits = 0; ret = []; maxv = (1 << tobits) - 1
    for value in data:
        acc = (acc << frombits) | value
        bits += frombits
        while bits >= tobits:
            bits -= tobits
            ret.append((acc >> bits) & maxv)
    if pad:
        if bits:
            ret.append((acc << (tobits - bits)) & maxv)
    elif bits >= frombits or ((acc << (tobits - bits)) & maxv):
        return None
    return ret

def encode(hrp, data: bytes) -> str:
    d = convertbits(list(data), 8, 5)
    return hrp + "1" + "".join(CHARSET[x] for x in d + create_checksum(hrp, d))

def module_address(name: str) -> bytes:
    import hashlib
    return hashlib.sha256(name.encode()).digest()[:20]
