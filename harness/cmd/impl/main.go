// impl is the implementation side of the correspondence check (DESIGN.md §4.2, Appendix B): it reads
// one operation per line on stdin, runs it against the real code built from /repo's working tree and
// prints one canonical line per operation. Panics are outcomes, not crashes.
package main

import (
	"bufio"
	"encoding/hex"
	"fmt"
	"os"
	"runtime/debug"
	"strings"
)

func hx(s string) string {
	if len(s) == 0 {
		return "-"
	}
	return hex.EncodeToString([]byte(s))
}

func hxb(b []byte) string {
	if len(b) == 0 {
		return "-"
	}
	return hex.EncodeToString(b)
}

func unhx(s string) (string, error) {
	if s == "-" {
		return "", nil
	}
	b, err := hex.DecodeString(s)
	return string(b), err
}

func mustUnhx(s string) string {
	r, err := unhx(s)
	if err != nil {
		panic("bad hex in protocol line: " + s)
	}
	return r
}

type driver struct {
	st        *appState
	lastPanic string
}

func (d *driver) handle(line string) (out string) {
	defer func() {
		if r := recover(); r != nil {
			d.lastPanic = fmt.Sprintf("%v\n%s", r, debug.Stack())
			out = "panic=harness:" + hx(firstLine(fmt.Sprint(r)))
		}
	}()
	f := strings.Fields(line)
	if len(f) == 0 {
		return "bad-op"
	}
	switch f[0] {
	case "pure":
		return pureOp(f[1:])
	case "panicinfo":
		return "info=" + hx(d.lastPanic)
	case "setup":
		return d.setup(f[1:])
	case "recv", "recvh", "recvraw", "recvbare", "deposit", "msg", "query", "export", "env", "fault",
		"genvalidate", "geninit", "genload", "reimport", "cmpstacks", "withoutmw", "withoutmwc", "cb", "msgany", "listrpcs", "swapctl", "msgh", "acth", "msgdry", "dispatchh", "drybegin", "dryend", "escrowfund":
		if d.st == nil {
			if r := d.setup(nil); r != "ok" {
				return r
			}
		}
		return d.st.op(d, f)
	}
	return "bad-op"
}

func firstLine(s string) string {
	if i := strings.IndexByte(s, '\n'); i >= 0 {
		return s[:i]
	}
	return s
}

func main() {
	d := &driver{}
	in := bufio.NewReaderSize(os.Stdin, 1<<20)
	out := bufio.NewWriterSize(os.Stdout, 1<<16)
	defer out.Flush()
	for {
		line, err := in.ReadString('\n')
		if len(line) > 0 {
			line = strings.TrimRight(line, "\r\n")
			if line != "" && !strings.HasPrefix(line, "#") {
				fmt.Fprintln(out, d.handle(line))
				out.Flush()
			}
		}
		if err != nil {
			break
		}
	}
	if d.st != nil {
		d.st.close()
	}
}
