"""Matchers for the known findings listed in /verif/known_findings.json (DESIGN.md §4.5).
A matcher is specific: it recognises one defect by the failing operation, never a whole property."""
import re

from proto import unhx


def _line(f):
    return f.lines[f.index] if 0 <= f.index < len(f.lines) else (f.lines[-1] if f.lines else "")


MATCHERS = {}


def matcher(fid):
    def deco(fn):
        MATCHERS[fid] = fn
        return fn
    return deco


def bind(known):
    out = []
    for k in known.get("findings", []):
        fn = MATCHERS.get(k.get("id"))
        if fn is None:
            continue
        k2 = dict(k)
        k2["_match"] = fn
        out.append(k2)
    return out


@matcher("C11-igp-hook-other-denom")
def _igp(f):
    """Hyperlane transfer through a mailbox whose default hook is an IGP charging in a denomination that
    differs from the transferred one, while the orbiter account holds that denomination."""
    if f.kind != "oracle" or not f.message.startswith("other-denom-touched"):
        return False
    l = _line(f)
    if "PROTOCOL_HYPERLANE" not in unhx(l.split(" ")[5]).decode("utf-8", "replace"):
        return False
    return any(x.startswith("env hyp igp ") for x in f.lines[: f.index if f.index >= 0 else None])


@matcher("C13-reverse-key-pagination")
def _revkey(f):
    """query.CollectionPaginate with reverse=true and a non-empty key: the SDK seeks to PrefixEndBytes(prefix+key),
    so every stored key that extends the given key is visited again; with limit 1 the walk never progresses."""
    return f.kind == "oracle" and f.message.startswith("walk-reverse-key")




@matcher("C20-non-ascii-counterparty")
def _nonascii(f):
    """a ledger loaded from a genesis that names a counterparty with a character outside ASCII: collections' non-terminal string
    key encoding keeps only the first byte of each character, so the entry is stored under another key."""
    if f.kind != "divergence" or not getattr(f, "stream", "").startswith("S3-non-ascii-counterparty"):
        return False
    upto = f.lines[: (f.index + 1) if f.index >= 0 else None]
    for l in upto:
        if l.startswith("genload "):
            for part in re.findall(r"[|]([0-9a-f]*)(?=[|])", l):
                try:
                    if any(b >= 0x80 for b in bytes.fromhex(part)):
                        return True
                except ValueError:
                    pass
    return False
