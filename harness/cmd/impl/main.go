package main

import (
	"fmt"

	"verifharness/app"
)

func main() {
	env, err := app.Boot(app.DefaultConfig())
	if err != nil {
		panic(err)
	}
	defer env.Close()
	fmt.Println("booted", env.Ctx.BlockHeight())
}
