/-
  Lemmas about the module's own collections: ordered key sets (`insertBy` / `erase`), ordered maps
  (`upsert` / `lookupD`), and what the receive path may write (`updateStats` touches only the two
  statistics maps).
-/
import Orbiter.Admin
namespace Orbiter

/-! ### key sets -/

theorem mem_insertBy {α} (lt : α → α → Bool) (x y : α) (l : List α) : y ∈ insertBy lt x l ↔ y = x ∨ y ∈ l := by
  induction l with
  | nil => simp [insertBy]
  | cons z zs ih =>
    simp only [insertBy]
    split
    · simp
    · simp only [List.mem_cons, ih]
      constructor
      · rintro (h | h | h)
        · right; left; exact h
        · left; exact h
        · right; right; exact h
      · rintro (h | h | h)
        · right; left; exact h
        · left; exact h
        · right; right; exact h

theorem contains_insertBy {α} [BEq α] [LawfulBEq α] (lt : α → α → Bool) (x y : α) (l : List α) :
    (insertBy lt x l).contains y = (y == x || l.contains y) := by
  rw [Bool.eq_iff_iff]; simp [mem_insertBy]

theorem contains_erase_of_nodup {α} [BEq α] [LawfulBEq α] (x y : α) (l : List α) (hl : l.Nodup) :
    (l.erase x).contains y = (l.contains y && !(y == x)) := by
  rw [Bool.eq_iff_iff]
  simp only [List.contains_iff_mem, Bool.and_eq_true, Bool.not_eq_true', beq_eq_false_iff_ne, ne_eq]
  constructor
  · intro h
    refine ⟨List.mem_of_mem_erase h, ?_⟩
    intro e; subst e
    exact (List.Nodup.not_mem_erase hl) h
  · rintro ⟨h1, h2⟩
    exact (List.mem_erase_of_ne h2).mpr h1

theorem nodup_insertBy {α} (lt : α → α → Bool) (x : α) (l : List α) (hx : x ∉ l) (hl : l.Nodup) :
    (insertBy lt x l).Nodup := by
  induction l with
  | nil => simp [insertBy]
  | cons z zs ih =>
    simp only [insertBy]
    have hz : x ≠ z := fun e => hx (by simp [e])
    have hzs : x ∉ zs := fun e => hx (List.mem_cons_of_mem _ e)
    rw [List.nodup_cons] at hl
    split
    · rw [List.nodup_cons]
      exact ⟨hx, List.nodup_cons.mpr hl⟩
    · rw [List.nodup_cons]
      refine ⟨?_, ih hzs hl.2⟩
      intro hm
      rcases (mem_insertBy lt x z zs).mp hm with h | h
      · exact hz h.symm
      · exact hl.1 h


/-! ### ordered maps -/


theorem find_map_replace_ne {κ ν} [DecidableEq κ] (k k' : κ) (v : ν) (hk : k' ≠ k) (l : List (κ × ν)) :
    List.find? (fun x => x.1 == k') (l.map fun e => if (e.1 == k) = true then (k, v) else e) =
    List.find? (fun x => x.1 == k') l := by
  induction l with
  | nil => rfl
  | cons a as ih =>
    simp only [List.map_cons, List.find?_cons]
    by_cases ha : a.1 = k
    · have h0 : (a.1 == k) = true := by simp [ha]
      have h1 : (a.1 == k') = false := by simp [ha, Ne.symm hk]
      have h2 : (k == k') = false := by simp [Ne.symm hk]
      simp only [h0, ↓reduceIte, h1, h2, ih]
    · have h0 : (a.1 == k) = false := by simp [ha]
      simp only [h0, Bool.false_eq_true, ↓reduceIte, ih]

theorem find_map_replace_eq {κ ν} [DecidableEq κ] (k : κ) (v : ν) (l : List (κ × ν))
    (h : l.any (fun x => x.1 == k) = true) :
    List.find? (fun x => x.1 == k) (l.map fun e => if (e.1 == k) = true then (k, v) else e) = some (k, v) := by
  induction l with
  | nil => simp at h
  | cons a as ih =>
    simp only [List.map_cons, List.find?_cons]
    by_cases ha : a.1 = k
    · have h0 : (a.1 == k) = true := by simp [ha]
      simp [h0]
    · have h0 : (a.1 == k) = false := by simp [ha]
      simp only [List.any_cons, h0, Bool.false_or] at h
      simp only [h0, Bool.false_eq_true, ↓reduceIte, ih h]

theorem find_ins_ne {κ ν} [DecidableEq κ] (lt : κ → κ → Bool) (k k' : κ) (v : ν) (hk : k' ≠ k) (l : List (κ × ν)) :
    List.find? (fun x => x.1 == k') (upsert.ins lt k v l) = List.find? (fun x => x.1 == k') l := by
  have h2 : (k == k') = false := by simp [Ne.symm hk]
  induction l with
  | nil => simp [upsert.ins, h2]
  | cons a as ih =>
    simp only [upsert.ins]
    split
    · simp [List.find?_cons, h2]
    · simp only [List.find?_cons, ih]

theorem find_ins_eq {κ ν} [DecidableEq κ] (lt : κ → κ → Bool) (k : κ) (v : ν) (l : List (κ × ν))
    (h : ∀ e ∈ l, e.1 ≠ k) :
    List.find? (fun x => x.1 == k) (upsert.ins lt k v l) = some (k, v) := by
  induction l with
  | nil => simp [upsert.ins]
  | cons a as ih =>
    simp only [upsert.ins]
    have ha : (a.1 == k) = false := by simp [h a List.mem_cons_self]
    split
    · simp [List.find?_cons]
    · simp only [List.find?_cons, ha]
      exact ih (fun e he => h e (List.mem_cons_of_mem _ he))

theorem lookupD_upsert {κ ν} [DecidableEq κ] (lt : κ → κ → Bool) (m : List (κ × ν)) (k k' : κ) (v d : ν) :
    lookupD (upsert lt m k v) k' d = if k' = k then v else lookupD m k' d := by
  unfold upsert lookupD
  by_cases hex : m.any (fun x => x.1 == k) = true
  · simp only [hex, ↓reduceIte]
    by_cases hk : k' = k
    · subst hk
      simp only [↓reduceIte]
      rw [find_map_replace_eq _ _ _ hex]
    · simp only [hk, ↓reduceIte]
      rw [find_map_replace_ne _ _ _ hk]
  · have hnot : ∀ e ∈ m, e.1 ≠ k := by
      intro e he hk
      apply hex
      simp only [List.any_eq_true, beq_iff_eq]
      exact ⟨e, he, hk⟩
    simp only [hex, Bool.false_eq_true, ↓reduceIte]
    by_cases hk : k' = k
    · subst hk
      simp only [↓reduceIte]
      rw [find_ins_eq _ _ _ _ hnot]
    · simp only [hk, ↓reduceIte]
      rw [find_ins_ne _ _ _ _ hk]

/-! ### what `updateStats` may touch -/

/-- The four fields the receive path never writes. -/
def OrbState.sameAdmin (a b : OrbState) : Prop :=
  a.pausedProtocols = b.pausedProtocols ∧ a.pausedCrossChains = b.pausedCrossChains ∧
  a.pausedActions = b.pausedActions ∧ a.params = b.params

theorem OrbState.sameAdmin_refl (a : OrbState) : a.sameAdmin a := ⟨rfl, rfl, rfl, rfl⟩

theorem OrbState.sameAdmin_trans {a b c : OrbState} (h1 : a.sameAdmin b) (h2 : b.sameAdmin c) : a.sameAdmin c :=
  ⟨h1.1.trans h2.1, h1.2.1.trans h2.2.1, h1.2.2.1.trans h2.2.2.1, h1.2.2.2.trans h2.2.2.2⟩

theorem addAmount_frame {o o' : OrbState} {k : AmtKey} {i u : Int} (h : addAmount o k i u = some o') :
    o'.sameAdmin o ∧ o'.counts = o.counts := by
  unfold addAmount at h
  simp only at h
  generalize hc : (overflows256 _ || overflows256 _) = cnd at h
  cases cnd with
  | true => simp at h
  | false =>
    simp only [Bool.false_eq_true, ↓reduceIte, Option.some.injEq] at h
    subst h
    exact ⟨⟨rfl, rfl, rfl, rfl⟩, rfl⟩

theorem addAmounts_frame (mk : String → AmtKey) (l : List (String × Int × Int)) (o : OrbState) :
    (addAmounts mk l o).1.sameAdmin o ∧ (addAmounts mk l o).1.counts = o.counts := by
  induction l generalizing o with
  | nil => exact ⟨OrbState.sameAdmin_refl o, rfl⟩
  | cons e rest ih =>
    simp only [addAmounts]
    cases h : addAmount o (mk e.1) e.2.1 e.2.2 with
    | none => exact ⟨OrbState.sameAdmin_refl o, rfl⟩
    | some o' =>
      simp only
      obtain ⟨h1, h2⟩ := addAmount_frame h
      obtain ⟨i1, i2⟩ := ih o'
      exact ⟨OrbState.sameAdmin_trans i1 h1, i2.trans h2⟩

theorem addCount_frame (o : OrbState) (ck : CntKey) :
    (addCount o ck).1.sameAdmin o ∧ (addCount o ck).1.amounts = o.amounts := by
  unfold addCount
  simp only
  split
  · exact ⟨OrbState.sameAdmin_refl o, rfl⟩
  · exact ⟨⟨rfl, rfl, rfl, rfl⟩, rfl⟩

theorem updateStats_frame (o : OrbState) (t : TransferAttrs) (f : Forwarding) : (updateStats o t f).1.sameAdmin o := by
  unfold updateStats
  cases f.attrs with
  | none => exact OrbState.sameAdmin_refl o
  | some at_ =>
    simp only
    split
    · exact OrbState.sameAdmin_refl o
    · split
      · exact (addAmounts_frame _ _ o).1
      · exact OrbState.sameAdmin_trans (addCount_frame _ _).1 (addAmounts_frame _ _ o).1

/-! ### folds in the result monad -/

/-- A guard statement of a `do` block (`if c then .err e else pure ()`, compiled to a join point). -/
theorem Res.guard_bind_eq_ok {α} {c : Prop} [Decidable c] {e : String} {k : Unit → Res α} {r : α} :
    (if c then ((Res.err e : Res Unit) >>= k) else k ()) = .ok r ↔ ¬ c ∧ k () = .ok r := by
  by_cases h : c <;> simp [h]

theorem Res.guard_panic_bind_eq_ok {α} {c : Prop} [Decidable c] {e : String} {k : Unit → Res α} {r : α} :
    (if c then ((Res.panic e : Res Unit) >>= k) else k ()) = .ok r ↔ ¬ c ∧ k () = .ok r := by
  by_cases h : c <;> simp [h]

theorem Dec.bind_congr {α β} {x : Dec α} {f g : α → Dec β} (h : ∀ a, x = .ok a → f a = g a) : (x >>= f) = (x >>= g) := by
  cases x with
  | ok a => simp only [Dec.bind_ok]; exact h a rfl
  | err e => rfl

theorem Res.bind_congr {α β} {x : Res α} {f g : α → Res β} (h : ∀ a, x = .ok a → f a = g a) : (x >>= f) = (x >>= g) := by
  cases x with
  | ok a => simp only [Res.bind_ok]; exact h a rfl
  | err e => rfl
  | panic e => rfl


theorem Res.foldlM_inv {α β} (f : β → α → Res β) (P : β → Prop)
    (hf : ∀ b a b', P b → f b a = .ok b' → P b') (l : List α) (b b' : β) (hb : P b)
    (h : l.foldlM f b = .ok b') : P b' := by
  induction l generalizing b with
  | nil => simp only [List.foldlM_nil, Res.pure_eq, Res.ok.injEq] at h; exact h ▸ hb
  | cons a rest ih =>
    simp only [List.foldlM_cons] at h
    cases hs : f b a with
    | err e => simp [hs] at h
    | panic e => simp [hs] at h
    | ok b1 =>
      simp only [hs, Res.bind_ok] at h
      exact ih b1 (hf b a b1 hb hs) h

/-! ### what the six state setters do when they succeed -/

theorem setPausedProtocol_spec {o o' : OrbState} {p : Int} (h : setPausedProtocol o p = .ok o') :
    o.pausedProtocols.contains p = false ∧ o' = { o with pausedProtocols := insertBy intLt p o.pausedProtocols } := by
  unfold setPausedProtocol at h
  split at h
  · cases h
  · split at h
    · cases h
    · rename_i hc
      cases h
      exact ⟨by simpa using hc, rfl⟩

theorem setUnpausedProtocol_spec {o o' : OrbState} {p : Int} (h : setUnpausedProtocol o p = .ok o') :
    o.pausedProtocols.contains p = true ∧ o' = { o with pausedProtocols := o.pausedProtocols.erase p } := by
  unfold setUnpausedProtocol at h
  split at h
  · cases h
  · split at h
    · cases h
    · rename_i hc
      cases h
      exact ⟨by simpa using hc, rfl⟩

theorem setPausedCrossChain_spec {o o' : OrbState} {p : Int} {c : String} (h : setPausedCrossChain o p c = .ok o') :
    o.pausedCrossChains.contains (p, c) = false ∧ crossChainValid p c = true ∧
    o' = { o with pausedCrossChains := insertBy ccLt (p, c) o.pausedCrossChains } := by
  unfold setPausedCrossChain at h
  split at h
  · cases h
  · rename_i hv
    split at h
    · cases h
    · rename_i hc
      cases h
      exact ⟨by simpa using hc, by simpa using hv, rfl⟩

theorem setUnpausedCrossChain_spec {o o' : OrbState} {p : Int} {c : String} (h : setUnpausedCrossChain o p c = .ok o') :
    o.pausedCrossChains.contains (p, c) = true ∧
    o' = { o with pausedCrossChains := o.pausedCrossChains.erase (p, c) } := by
  unfold setUnpausedCrossChain at h
  split at h
  · cases h
  · split at h
    · cases h
    · rename_i hc
      cases h
      exact ⟨by simpa using hc, rfl⟩

theorem setPausedAction_spec {o o' : OrbState} {a : Int} (h : setPausedAction o a = .ok o') :
    o.pausedActions.contains a = false ∧ actionValid a = true ∧ o' = { o with pausedActions := insertBy intLt a o.pausedActions } := by
  unfold setPausedAction at h
  split at h
  · cases h
  · rename_i hv
    split at h
    · cases h
    · rename_i hc
      cases h
      exact ⟨by simpa using hc, by simpa using hv, rfl⟩

theorem setUnpausedAction_spec {o o' : OrbState} {a : Int} (h : setUnpausedAction o a = .ok o') :
    o.pausedActions.contains a = true ∧ o' = { o with pausedActions := o.pausedActions.erase a } := by
  unfold setUnpausedAction at h
  split at h
  · cases h
  · split at h
    · cases h
    · rename_i hc
      cases h
      exact ⟨by simpa using hc, rfl⟩

end Orbiter
