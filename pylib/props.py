"""Per-property checks: streams (operation lines), projection, oracle."""
import scen
from checklib import Stream
from gen import Rng
from proto import hx, kv, unhx

PROPS = {}


def prop(cls):
    PROPS[cls.id] = cls
    return cls


class Base:
    level = "proof"
    assumptions = []
    explanation = ""

    @property
    def lean_files(self):
        return ["Props/%s.lean" % self.id]

    @property
    def theorem_prefixes(self):
        return ["Orbiter.%s." % self.id]

    def divergence_is_failure(self, f):
        """Is a model/implementation divergence at this property's projection a concrete failing input?"""
        return True

    def n(self, tier, quick, thorough):
        return thorough if tier == "thorough" else quick


def pure_oracle_no_panic(steps):
    return [(s.i, "panic: pure function panicked on " + s.line[:120]) for s in steps if s.op == "pure" and s.impl_raw.startswith("panic")]


@prop
class C04(Base):
    id = "C04"
    assumptions = ["amounts are math.Int values (|x| < 2^256); the bank sends of the fee action follow the bank contract of DESIGN.md §3.6"]

    def streams(self, tier, seed):
        r = Rng(seed * 1000 + 4)
        k = self.n(tier, 1, 10)
        lines = scen.fee_grid(r.fork(1), 300 * k) + scen.fee_lists(r.fork(2), 400 * k)
        return [Stream("S1-fee-arithmetic", lines, fields={"pure": ["_"]}, oracle=c04_oracle)]


def c04_expected(line):
    """Independent re-computation of the fee rule from the property statement."""
    import bech32 as _b
    f = line.split(" ")
    if f[1] == "feeamt":
        a, b = int(f[2]), int(f[3])
        if a * b >= 2 ** 256:
            return "err"
        return "ok:%d" % (a * b // 10000)
    if f[1] != "fees":
        return None
    A = int(f[2])
    n = int(f[4])
    rest = f[5:]
    credits = []
    total = 0
    if n > 5:
        return "err:validate"
    entries = []
    for i in range(n):
        rec, kind, val = unhx(rest[3 * i]).decode(), rest[3 * i + 1], unhx(rest[3 * i + 2]).decode()
        entries.append((rec, kind, val))
    import proto
    for rec, kind, val in entries:
        if kind in ("n", "N"):
            return "err:validate"
        if kind == "b":
            v = int(val)
            if v == 0 or v > 10000:
                return "err:validate"
        else:
            iv = parse_go_int(val)
            if iv is None or iv <= 0 or abs(iv) >= 2 ** 256:
                return "err:validate"
        if decode_addr(rec) is None:
            return "err:validate"
    for rec, kind, val in entries:
        if kind == "b":
            if A * int(val) >= 2 ** 256:
                return "err:compute"
            amt = A * int(val) // 10000
        else:
            amt = parse_go_int(val)
        if amt > 0:
            total += amt
            if total >= 2 ** 256:
                return "err:compute"
            credits.append((decode_addr(rec), amt))
    if total >= A:
        return "err:total"
    return "ok:total=%d;%s" % (total, ",".join("%s=%d" % (a.hex() if a else "-", m) for a, m in credits))


def parse_go_int(s):
    """big.Int.SetString(s, 0)"""
    import re
    m = re.fullmatch(r"([+-]?)(0[xX][0-9a-fA-F]+(?:_[0-9a-fA-F]+)*|0[bB][01]+(?:_[01]+)*|0[oO][0-7]+(?:_[0-7]+)*|0(?:_?[0-7]+)*|[1-9][0-9]*(?:_[0-9]+)*|0)", s)
    if not m:
        # Go also accepts "0x_1" style separators after the prefix
        m2 = re.fullmatch(r"([+-]?)(0[xX](?:_?[0-9a-fA-F]+)+|0[bB](?:_?[01]+)+|0[oO](?:_?[0-7]+)+)", s)
        if not m2:
            return None
        m = m2
    sign, body = m.group(1), m.group(2).replace("_", "")
    try:
        if body[:2].lower() == "0x":
            v = int(body[2:], 16)
        elif body[:2].lower() == "0b":
            v = int(body[2:], 2)
        elif body[:2].lower() == "0o":
            v = int(body[2:], 8)
        elif len(body) > 1 and body[0] == "0":
            v = int(body[1:], 8)
        else:
            v = int(body, 10)
    except ValueError:
        return None
    return -v if sign == "-" else v


def decode_addr(s):
    """sdk.AccAddressFromBech32 with prefix noble (independent python implementation)."""
    import bech32 as _b
    if s.strip() == "" or len(s) < 8 or len(s) > 1023:
        return None
    if any(ord(c) < 33 or ord(c) > 126 for c in s):
        return None
    if s.lower() != s and s.upper() != s:
        return None
    s = s.lower()
    pos = s.rfind("1")
    if pos < 1 or pos + 7 > len(s):
        return None
    hrp, data = s[:pos], s[pos + 1:]
    try:
        vals = [_b.CHARSET.index(c) for c in data]
    except ValueError:
        return None
    if _b.polymod(_b.hrp_expand(hrp) + vals) != 1:
        return None
    dec = _b.convertbits(vals[:-6], 5, 8, False)
    if dec is None or hrp != "noble" or len(dec) == 0 or len(dec) > 255:
        return None
    return bytes(dec)


def c04_oracle(steps):
    out = []
    for s in steps:
        if s.op != "pure":
            continue
        if s.impl_raw.startswith("panic"):
            out.append((s.i, "panic: fee computation panicked instead of refusing: " + s.line[:160]))
            continue
        exp = c04_expected(s.line)
        if exp is not None and exp != s.impl_raw:
            out.append((s.i, "fee-rule: expected %s got %s" % (exp[:160], s.impl_raw[:160])))
    return out


@prop
class C20(Base):
    id = "C20"
    assumptions = ["strconv / fmt decimal formatting of uint32 and int32 values is the usual decimal notation (tied by stream S1)"]

    def streams(self, tier, seed):
        r = Rng(seed * 1000 + 20)
        k = self.n(tier, 1, 10)
        lines = scen.id_grid(r.fork(1), 400 * k)
        return [Stream("S1-identifiers", lines, fields={"pure": ["_"]}, oracle=c20_oracle)]


def c20_oracle(steps):
    """canonicity: for CCTP/Hyperlane an accepted counterparty is the decimal form of a uint32;
    the textual form parses back; pure functions never panic."""
    import re
    out = []
    for s in steps:
        if s.op != "pure":
            continue
        f = s.line.split(" ")
        if s.impl_raw.startswith("panic"):
            out.append((s.i, "panic: " + s.line[:120]))
            continue
        if f[1] == "cpid" and f[2] in ("2", "3"):
            c = unhx(f[3]).decode("utf-8", "replace")
            canonical = bool(re.fullmatch(r"0|[1-9][0-9]*", c)) and int(c) < 2 ** 32
            if (s.impl_raw == "ok") != canonical:
                out.append((s.i, "non-canonical: counterparty %r for protocol %s is %s but canonical=%s" % (c, f[2], s.impl_raw, canonical)))
    # round trip ccid -> parseccid is checked through dedicated paired lines (the id text is fed back)
    return out


# =====================================================================================================
# helpers shared by the application-level properties
import json as _json

from proto import ORB, ORB_BYTES, DUST_BYTES, AUTHORITY, b32, addr, cctp_fwd, int_fwd, hyp_fwd, fee_action, orb_pkt, pkt_line, ftpd, memo, msg_line, b64
from gen import U, USERS, DENOMS, CHANNELS, SRC_CHANNELS, PROTO_NAMES, ACTION_NAMES, CCTP_DOMAINS

ORBHEX = ORB_BYTES.hex()
DUSTHEX = DUST_BYTES.hex()


def parse_delta(s):
    """'addr/denomhex:+5,…' -> {(addr, denom str): int}"""
    d = {}
    if not s or s == "-":
        return d
    for e in s.split(","):
        k, v = e.rsplit(":", 1)
        a, dn = k.split("/", 1)
        d[(a, unhx(dn).decode("utf-8", "replace"))] = int(v)
    return d


def parse_sup(s):
    d = {}
    if not s or s == "-":
        return d
    for e in s.split(","):
        k, v = e.rsplit(":", 1)
        d[unhx(k).decode("utf-8", "replace")] = int(v)
    return d


def packet_of(line):
    """decode a recv-like line -> dict(src_port, src_chan, dst_port, dst_chan, data(bytes), ftpd(dict|None), payload(dict|None))"""
    f = line.split(" ")
    p = {"src_port": unhx(f[1]).decode("utf-8", "replace"), "src_chan": unhx(f[2]).decode("utf-8", "replace"),
         "dst_port": unhx(f[3]).decode("utf-8", "replace"), "dst_chan": unhx(f[4]).decode("utf-8", "replace"), "data": unhx(f[5])}
    p["ftpd"] = None
    p["payload"] = None
    try:
        d = _json.loads(p["data"].decode("utf-8"))
        if isinstance(d, dict):
            p["ftpd"] = d
            try:
                m = _json.loads(d.get("memo", ""))
                if isinstance(m, dict) and isinstance(m.get("orbiter"), dict):
                    p["payload"] = m["orbiter"]
            except Exception:
                pass
    except Exception:
        pass
    return p


def receiver_is_orbiter(p):
    if not p["ftpd"] or not isinstance(p["ftpd"].get("receiver"), str):
        return False
    a = decode_addr(p["ftpd"]["receiver"])
    return a == ORB_BYTES


RECV_OPS = ("recv", "recvh")


class Ledger:
    """Python-side running view of balances, built only from implementation observations."""

    def __init__(self):
        self.orb = {}

    def apply(self, step):
        if step.op == "deposit" and step.impl_raw == "ok":
            f = step.line.split(" ")
            if f[1] == ORBHEX:
                d = unhx(f[2]).decode()
                self.orb[d] = self.orb.get(d, 0) + int(f[3])
        if step.op in RECV_OPS:
            for (a, dn), v in parse_delta(step.impl.get("bal")).items():
                if a == ORBHEX:
                    self.orb[dn] = self.orb.get(dn, 0) + v


def c01_oracle(steps):
    out = []
    led = Ledger()
    for s in steps:
        before = dict(led.orb)
        led.apply(s)
        if s.op not in RECV_OPS:
            continue
        ack = s.impl.get("ack")
        if ack != "ok":
            continue
        delta = parse_delta(s.impl.get("bal"))
        for (a, dn), v in delta.items():
            if a == ORBHEX and v > 0:
                out.append((s.i, "stranded: success acknowledgement and the orbiter balance of %s grew by %d" % (dn, v)))
        p = packet_of(s.line)
        if receiver_is_orbiter(p):
            # the whole delivered coin has left: nothing of the delivered denom stays
            dn = p["ftpd"].get("denom", "")
            pre = p["src_port"] + "/" + p["src_chan"] + "/"
            if dn.startswith(pre):
                dn = dn[len(pre):]
            if led.orb.get(dn, 0) != 0:
                out.append((s.i, "stranded: success acknowledgement but %d %s remain on the orbiter account" % (led.orb.get(dn, 0), dn)))
    return out


def c14_oracle(steps):
    out = []
    for s in steps:
        if s.op in RECV_OPS and s.impl.get("ack") == "panic":
            # attribution rule (DESIGN.md C14): a panic raised inside the wrapped ICS-20 application for a packet the
            # middleware passed on unchanged is inherited from ibc-go
            if s.impl.get("pattr") == "app" and not receiver_is_orbiter(packet_of(s.line)):
                continue
            out.append((s.i, "panic: receive path panicked (attributed to %s)" % s.impl.get("pattr")))
        if s.op in ("msg", "query") and s.impl.get("res") == "panic":
            out.append((s.i, "panic: %s panicked" % s.op))
        if s.op == "pure" and s.impl_raw.startswith("panic"):
            out.append((s.i, "panic: parser entry point panicked"))
    return out


def rollback_oracle(steps):
    """an error acknowledgement commits nothing (C03)"""
    out = []
    prev_st = None
    for s in steps:
        if s.op in RECV_OPS:
            if s.impl.get("ack") in ("err", "panic"):
                if s.impl.get("bal") != "-" or s.impl.get("sup") != "-":
                    out.append((s.i, "partial: error acknowledgement but balances changed: %s" % s.impl.get("bal", "")[:200]))
                if prev_st is not None and s.impl.get("st") != prev_st:
                    out.append((s.i, "partial: error acknowledgement but orbiter state changed"))
        if "st" in s.impl:
            prev_st = s.impl["st"]
    return out


def history_stream(name, seed_tag, tier, seed, n_quick, n_thorough, fields, oracle, n_hist_quick=3, n_hist_thorough=12, **kw):
    out = []
    nh = n_hist_thorough if tier == "thorough" else n_hist_quick
    n = n_thorough if tier == "thorough" else n_quick
    for h in range(nh):
        r = Rng(seed * 100000 + seed_tag * 100 + h)
        lines, toks = scen.base_setup()
        lines += scen.tuned_history(r, n, toks, **kw)
        out.append(Stream("%s-%d" % (name, h), lines, fields=fields, oracle=oracle))
    return out


# ----------------------------------------------------------------------------------------------- C01

def c01_targeted(r):
    """receiver grid x routes x prior deposits x pause states."""
    lines, toks = scen.base_setup()
    recvs = [ORB, ORB.upper(), ORB[:8] + ORB[8:].upper(), "cosmos" + ORB[5:], b32(DUST_BYTES), U[0], b32(bytes(20)), ORB + " ", "", "garbage"]
    tok = toks[0][0]
    routes = [cctp_fwd(domain=0), int_fwd(U[1]), int_fwd(ORB), int_fwd(ORB.upper()), hyp_fwd(tok, domain=1), int_fwd(b32(DUST_BYTES)),
              cctp_fwd(domain=0, mint=b"\x00" * 32), cctp_fwd(domain=9)]
    feesets = [None, [fee_action([(U[2], "b", 100)])], [fee_action([(ORB, "b", 100)])], [fee_action([(ORB, "a", 5), (U[3], "a", 5)])], [fee_action([])]]
    for rc in recvs:
        for rt in routes:
            for fs in (feesets if rc == ORB else feesets[:2]):
                if r.chance(1, 3):
                    lines.append("deposit %s %s %d" % (hx(ORB_BYTES), hx("uusdc"), r.range(1, 999)))
                lines.append(orb_pkt("recv", r.choice([1000, 10 ** 6, 7]), rt, fs, receiver=rc))
    # plain transfers to the orbiter account with every kind of memo
    for m in ["", "{}", "null", "{\"orbiter\":null}", "{\"orbiter\":{}}", "[]", "x", "{\"forward\":{}}", "{\"orbiter\":{\"forwarding\":null}}"]:
        lines.append(pkt_line("recv", ftpd("transfer/channel-7/uusdc", 1000, ORB, m)))
        lines.append(pkt_line("recv", ftpd("uatom", 1000, ORB, m)))
        lines.append(pkt_line("recv", ftpd("transfer/channel-7/uusdc", 1000, ORB.upper(), m)))
    return lines


@prop
class C01(Base):
    id = "C01"
    assumptions = ["IBC core commits the cached state iff the acknowledgement is a success (emulated by the harness as ibc-go's RecvPacket does)",
                   "bank / ICS-20 / bridge contracts of DESIGN.md §3.6"]

    def streams(self, tier, seed):
        f = {"recv": ["ack", "bal"], "recvh": ["ack", "bal"]}
        sts = [Stream("S3-receiver-grid", c01_targeted(Rng(seed * 1000 + 1)), fields=f, oracle=c01_oracle)]
        sts += history_stream("S3-history", 1, tier, seed, 150, 600, f, c01_oracle)
        return sts


# ----------------------------------------------------------------------------------------------- C14 / C15

def c14_packets(r, toks, per_shape):
    """mutated payloads through the whole stack (to the orbiter address), extreme attribute values, raw bytes"""
    lines = []
    shapes = scen.payload_shapes(toks)
    for doc in shapes:
        ms = scen.mutations(doc, r, per_shape)
        for m in ms:
            denom = "uusdc"
            lines.append(pkt_line("recv", ftpd("transfer/channel-7/" + denom, r.choice([1000, 10 ** 6]), ORB, m)))
    for m in scen.EXTRA_MEMOS:
        lines.append(pkt_line("recv", ftpd("transfer/channel-7/uusdc", 1000, ORB, m)))
    # extreme packet fields
    good = memo(int_fwd(U[1]))
    for amt in ["0", "-1", "+5", "007", "0x10", "1_0", "", "x", str(2 ** 256 - 1), str(2 ** 256), "1e3", " 1", "1.0"]:
        lines.append(pkt_line("recv", ftpd("transfer/channel-7/uusdc", amt, ORB, good)))
    for dn in ["transfer/channel-7/x", "transfer/channel-7/ab", "transfer/channel-7/1abc", "transfer/channel-7/", "transfer/channel-7/a b c", "transfer/channel-7/" + "a" * 129,
               "transfer/channel-7/transfer/channel-3/uusdc", "uusdc", "", "/", "transfer/channel-7/uusdc/", "transfer/channel-7/ibc/ABC"]:
        lines.append(pkt_line("recv", ftpd(dn, 1000, ORB, good)))
        lines.append(pkt_line("recv", ftpd(dn, 1000, U[0], "")))
    for sp, sc, dp, dc in [("", "channel-7", "transfer", "channel-0"), ("transfer", "", "transfer", "channel-0"), ("transfer", "channel-7", "transfer", "chan"),
                           ("transfer", "channel-7", "transfer", ""), ("transfer", "channel-7", "", "channel-0"), ("transfer", "channel-7", "transfer", "channel-18446744073709551616"),
                           ("tr ansfer", "channel-7", "transfer", "channel-0")]:
        lines.append(pkt_line("recv", ftpd(sp + "/" + sc + "/uusdc", 1000, ORB, good), src_port=sp, src_chan=sc, dst_port=dp, dst_chan=dc))
    # raw bytes as packet data
    for b in scen.random_bytes_memos(r, 60):
        lines.append(pkt_line("recv", b))
    for b in [b"", b"null", b"[]", b"{}", b"{\"receiver\":\"" + ORB.encode() + b"\"}", b"{\"receiver\":\"" + ORB.encode() + b"\",\"memo\":\"{}\"}",
              b"{\"denom\":1}", b"{\"denom\":null,\"receiver\":\"" + ORB.encode() + b"\"}", b"{\"receiver\":\"" + ORB.encode() + b"\"} trailing", b"{\"extra\":1,\"receiver\":\"" + ORB.encode() + b"\"}",
              b"{\"Receiver\":\"" + ORB.encode() + b"\"}"]:
        lines.append(pkt_line("recv", b))
    # hyperlane extreme attribute values
    tok = toks[0][0]
    for rec in [b"", b"\x01" * 31, b"\x01" * 33, b"\x01" * 32]:
        for fee in [None, ("uusdc", -1), ("x", 5), ("", 5), ("uusdc", 0), ("uusdc", 2 ** 256 - 1)]:
            for gas in [None, -1, 0, 2 ** 256 - 1]:
                lines.append(orb_pkt("recv", 1000, hyp_fwd(tok, domain=1, recipient=rec, gas=gas, fee=fee)))
    for t in [b"", b"\x01" * 31, b"\x02" * 32]:
        lines.append(orb_pkt("recv", 1000, hyp_fwd(t, domain=1)))
    # fee extremes end to end
    lines.append(orb_pkt("recv", 2 ** 256 - 1, int_fwd(U[1]), [fee_action([(U[0], "a", 2 ** 255), (U[2], "a", 2 ** 255)])], denom="uother"))
    lines.append(orb_pkt("recv", 10 ** 30, int_fwd(U[1]), [fee_action([(U[0], "b", 10000), (U[2], "b", 10000)])], denom="uother"))
    return lines


@prop
class C14(Base):
    id = "C14"
    assumptions = ["panics inside external modules on requests the orbiter validated, stack exhaustion and out-of-memory cannot be exhibited by the model",
                   "a panic raised below the wrapped application for a packet the middleware passed on unchanged is attributed to ibc-go, not to the orbiter"]

    def streams(self, tier, seed):
        r = Rng(seed * 1000 + 14)
        lines, toks = scen.base_setup()
        per = 400 if tier == "thorough" else 90
        s1 = scen.parse_lines_for(scen.payload_shapes(toks), r.fork(1), per * 2) + ["pure parse " + hx(m) for m in scen.EXTRA_MEMOS]
        s1 += ["pure parse " + hx(b) for b in scen.random_bytes_memos(r.fork(2), 300 if tier == "thorough" else 80)]
        s1 += ["pure ics20 " + hx(b) for b in scen.random_bytes_memos(r.fork(3), 100)]
        s3 = lines + c14_packets(r.fork(4), toks, per)
        return [Stream("S1-parser-mutations", s1, fields={"pure": ["_"]}, oracle=c14_oracle),
                Stream("S3-malformed-packets", s3, fields={"recv": ["ack", "src"]}, oracle=c14_oracle)]


# ----------------------------------------------------------------------------------------------- C02

def module_addrs():
    import os
    try:
        f = _json.load(open(os.path.join(scen.VERIF, ".cache", "facts.json")))
        import base64
        return {k: base64.b64decode(v).hex() for k, v in f["Bytes"].items()}
    except Exception:
        return {}


def c02_oracle(steps):
    out = []
    led = Ledger()
    mods = module_addrs()
    for s in steps:
        pre = dict(led.orb)
        led.apply(s)
        if s.op not in RECV_OPS or s.impl.get("ack") != "ok":
            continue
        p = packet_of(s.line)
        if not receiver_is_orbiter(p) or not p["payload"]:
            continue
        delta = parse_delta(s.impl.get("bal"))
        sup = parse_sup(s.impl.get("sup"))
        try:
            A = parse_go_int(p["ftpd"]["amount"])
        except Exception:
            continue
        dn = p["ftpd"]["denom"][len(p["src_port"] + "/" + p["src_chan"] + "/"):]
        # (i) per denom: what accounts gained/lost in total equals the change of supply
        per = {}
        for (a, d), v in delta.items():
            per[d] = per.get(d, 0) + v
        for d in set(per) | set(sup):
            if per.get(d, 0) != sup.get(d, 0):
                out.append((s.i, "conservation: accounts of %s changed by %d in total but supply changed by %d" % (d, per.get(d, 0), sup.get(d, 0))))
        # (ii) supply only shrinks, and only by the CCTP burn
        route = (p["payload"].get("forwarding") or {}).get("protocol_id")
        for d, v in sup.items():
            if v > 0 or (v < 0 and route not in ("PROTOCOL_CCTP", 2)):
                out.append((s.i, "supply: supply of %s changed by %d on route %s" % (d, v, route)))
        # (iii) the escrow released exactly the packet's coin
        esc = ("escrow:%s/%s" % (p["dst_port"], p["dst_chan"])).encode().hex()
        if delta.get((esc, dn), 0) != -A:
            out.append((s.i, "escrow: escrow released %d of %s, packet amount %d" % (-delta.get((esc, dn), 0), dn, A)))
        # (iv) the orbiter keeps nothing of the delivered coin; what it held before goes to the dust collector
        had = pre.get(dn, 0)
        if delta.get((ORBHEX, dn), 0) != -had:
            out.append((s.i, "orbiter: orbiter balance of %s changed by %d, pre-existing %d" % (dn, delta.get((ORBHEX, dn), 0), had)))
        if delta.get((DUSTHEX, dn), 0) != had:
            out.append((s.i, "dust: dust collector received %d of %s, pre-existing orbiter balance %d" % (delta.get((DUSTHEX, dn), 0), dn, had)))
        # (v) nobody else: only fee recipients and the route's account
        allowed = {esc, ORBHEX, DUSTHEX}
        for act in p["payload"].get("pre_actions") or []:
            try:
                for fi in act["attributes"].get("fees_info") or []:
                    a = decode_addr(fi.get("recipient", ""))
                    if a:
                        allowed.add(a.hex())
            except Exception:
                pass
        attrs = (p["payload"].get("forwarding") or {}).get("attributes") or {}
        if route in ("PROTOCOL_INTERNAL", 4):
            a = decode_addr(attrs.get("recipient", ""))
            if a:
                allowed.add(a.hex())
        if route in ("PROTOCOL_HYPERLANE", 3):
            allowed.add(mods.get("warpModuleAddress", ""))
        allowed.add("swap-pool-account-01".encode().hex())
        for (a, d), v in delta.items():
            if a not in allowed:
                out.append((s.i, "bystander: account %s changed by %d %s" % (a, v, d)))
        # (vi) the outgoing amount is strictly positive: what left towards fees is strictly less than A
        gained = sum(v for (a, d), v in delta.items() if d == dn and v > 0 and a not in (DUSTHEX,))
        burned = -sup.get(dn, 0)
        if gained + burned != A:
            out.append((s.i, "split: fee credits + outgoing = %d, delivered %d" % (gained + burned, A)))
    return out


@prop
class C02(Base):
    id = "C02"
    assumptions = C01.assumptions + ["the Hyperlane mailbox uses a no-op post-dispatch hook (a charging hook is reported under C11)"]

    def streams(self, tier, seed):
        f = {"recv": ["ack", "bal", "sup"], "recvh": ["ack", "bal", "sup"]}
        return history_stream("S3-ledger", 2, tier, seed, 200, 700, f, c02_oracle, p_admin=6, p_deposit=10, p_query=0, p_reimport=0)


# ----------------------------------------------------------------------------------------------- C03

FAULT_SITES = ["bank.SendCoinsFromModuleToModule", "app.OnRecvPacket", "bank.SendCoins", "event.Emit", "cctp.DepositForBurn", "cctp.DepositForBurnWithCaller",
               "warp.Token", "warp.RemoteTransfer", "bank.Send"]


def c03_fault_lines(r, toks, pairs=False):
    lines, _ = scen.base_setup()
    tok = toks[0][0]
    shapes = []
    for fwd in [cctp_fwd(domain=0), cctp_fwd(domain=1, caller=b"\x05" * 32), int_fwd(U[1]), hyp_fwd(tok, domain=1)]:
        for nfee in (0, 1, 3):
            acts = None if nfee == 0 else [fee_action([(U[2 + i], "b", 100 + i) for i in range(nfee)])]
            shapes.append((fwd, acts))
    for fwd, acts in shapes:
        for site in FAULT_SITES:
            for k in (1, 2, 3, 4):
                if site not in ("bank.SendCoins", "event.Emit") and k > 1:
                    continue
                # a pre-existing balance so that the sweep is a real call
                lines.append("deposit %s %s 5" % (hx(ORB_BYTES), hx("uusdc")))
                lines.append("fault %s %d" % (site, k))
                lines.append(orb_pkt("recvh", 10 ** 6, fwd, acts))
        if pairs:
            for a in FAULT_SITES[:4]:
                for b in FAULT_SITES[2:]:
                    lines.append("deposit %s %s 5" % (hx(ORB_BYTES), hx("uusdc")))
                    lines.append("fault %s 1" % a)
                    lines.append("fault %s 2" % b)
                    lines.append(orb_pkt("recvh", 10 ** 6, fwd, acts))
        # unfaulted control
        lines.append(orb_pkt("recvh", 10 ** 6, fwd, acts))
    return lines


def c03_natural_lines(r, toks):
    lines, _ = scen.base_setup()
    tok = toks[0][0]
    ok_fee = [fee_action([(U[2], "b", 100)])]
    lines += [
        orb_pkt("recv", 10 ** 6, int_fwd(b32(DUST_BYTES)), ok_fee),                  # blocked internal recipient
        orb_pkt("recv", 10 ** 6, int_fwd(U[1]), [fee_action([(b32(DUST_BYTES), "b", 100)])]),  # fee to a blocked account is a plain SendCoins
        "env ftfpause 1", orb_pkt("recv", 10 ** 6, cctp_fwd(domain=0), ok_fee), "env ftfpause 0",
        "env cctppause burn 1", orb_pkt("recv", 10 ** 6, cctp_fwd(domain=0), ok_fee), "env cctppause burn 0",
        "env cctppause send 1", orb_pkt("recv", 10 ** 6, cctp_fwd(domain=0), ok_fee), "env cctppause send 0",
        "env burnlimit 999", orb_pkt("recv", 10 ** 6, cctp_fwd(domain=0), ok_fee), orb_pkt("recv", 999 + 10, cctp_fwd(domain=0), [fee_action([(U[2], "a", 10)])]),
        "env burnlimit 1000000000000000000000000",
        orb_pkt("recv", 10 ** 6, cctp_fwd(domain=9), ok_fee),                        # no token messenger
        orb_pkt("recv", 10 ** 6, cctp_fwd(domain=0, mint=b"\x00" * 32), ok_fee),       # zero mint recipient
        orb_pkt("recv", 10 ** 6, cctp_fwd(domain=0, mint=b"\x01" * 20), ok_fee),       # short mint recipient (fails after the burn)
        orb_pkt("recv", 10 ** 6, cctp_fwd(domain=0, caller=b"\x01" * 20), ok_fee),
        orb_pkt("recv", 10 ** 6, hyp_fwd(tok, domain=77), ok_fee),                   # unenrolled router
        orb_pkt("recv", 10 ** 6, hyp_fwd(tok, domain=1), ok_fee, denom="uother"),    # token of another denom
        "env blacklist %s 1" % hx(USERS[2]), orb_pkt("recv", 10 ** 6, cctp_fwd(domain=0), ok_fee), "env blacklist %s 0" % hx(USERS[2]),
        "env recvenabled 0", orb_pkt("recv", 10 ** 6, int_fwd(U[1]), ok_fee), "env recvenabled 1",
        orb_pkt("recv", 2 * 10 ** 30 + 1, int_fwd(U[1]), ok_fee),                    # more than the escrow holds
        orb_pkt("recv", 10 ** 6, int_fwd(U[1]), ok_fee),                             # control
    ]
    return lines


def c03_oracle(steps):
    out = rollback_oracle(steps)
    pending = []
    for s in steps:
        if s.op == "fault" and s.impl_raw == "ok":
            f = s.line.split(" ")
            if f[1] != "clear":
                pending.append((f[1], int(f[2])))
        elif s.op == "recvh":
            calls = [] if s.impl.get("calls") in (None, "-") else s.impl["calls"].split(",")
            fired = [(site, k) for site, k in pending if calls.count(site) >= k]
            if fired and s.impl.get("ack") == "ok":
                out.append((s.i, "swallowed: call %s #%d failed but the acknowledgement is a success" % fired[0]))
            pending = []
    return out


@prop
class C03(Base):
    id = "C03"
    assumptions = C01.assumptions + ["fault injection is at the external boundaries of the harness-wired stack (same code, decorators at bank / ICS-20 / CCTP / warp / event service)"]

    def streams(self, tier, seed):
        r = Rng(seed * 1000 + 3)
        _, toks = scen.base_setup()
        f = {"recvh": ["ack", "bal", "sup", "st", "calls"], "recv": ["ack", "bal", "sup", "st"]}
        return [Stream("S2-fault-enumeration", c03_fault_lines(r, toks, pairs=(tier == "thorough")), fields=f, oracle=c03_oracle),
                Stream("S3-natural-failures", c03_natural_lines(r, toks), fields=f, oracle=c03_oracle)]


# ----------------------------------------------------------------------------------------------- C05

def expected_hreq(p):
    """the request the bridge must receive, recomputed from the payload and the coin left after the fees"""
    fw = p["payload"]["forwarding"]
    a = fw["attributes"]
    import base64
    orb_h = hx(ORB)

    def bz(x):
        return base64.b64decode(x) if x else b""
    if a["@type"] == scen.CCTP_URL:
        mint, caller = bz(a.get("mint_recipient")), bz(a.get("destination_caller"))
        base = "from=%s:amount={amt}:domain=%d:mint=%s:burn={dn}" % (orb_h, a.get("destination_domain", 0), hx(mint))
        if caller:
            return "cctp.DepositForBurnWithCaller:" + base + ":caller=" + hx(caller)
        return "cctp.DepositForBurn:" + base
    if a["@type"] == scen.INT_URL:
        return "bank.Send:from=%s:to=%s:coins={dn}={amt}" % (orb_h, hx(a.get("recipient", "")))
    if a["@type"] == scen.HYP_URL:
        hook = bz(a.get("custom_hook_id"))
        fee = a.get("max_fee") or {}
        return "warp.RemoteTransfer:sender=%s:token=%s:domain=%d:recipient=%s:amount={amt}:hook=%s:gas=%s:feedenom=%s:feeamt=%s:meta=%s" % (
            orb_h, bz(a.get("token_id")).hex(), a.get("destination_domain", 0), bz(a.get("recipient")).hex(), hook.hex() if hook else "nil",
            parse_go_int(a.get("gas_limit", "0")), hx(fee.get("denom", "")), parse_go_int(fee.get("amount", "0")), hx(a.get("custom_hook_metadata", "")))
    return None


KIND_OF_PROTO = {"PROTOCOL_CCTP": scen.CCTP_URL, "PROTOCOL_HYPERLANE": scen.HYP_URL, "PROTOCOL_INTERNAL": scen.INT_URL, 2: scen.CCTP_URL, 3: scen.HYP_URL, 4: scen.INT_URL}


def c05_oracle(steps):
    out = []
    for s in steps:
        if s.op == "msgh" and " ReplaceDepositForBurn " in s.line:
            f = s.line.split(" ")
            signer = unhx(f[2]).decode("utf-8", "replace")
            if signer == AUTHORITY:
                exp = "cctp.ReplaceDepositForBurn:from=%s:msg=%s:att=%s:caller=%s:mint=%s" % (hx(ORB), f[3], f[4], f[5], f[6])
                if s.impl.get("hreq") != exp:
                    out.append((s.i, "replace-request: CCTP received %s, expected %s" % (s.impl.get("hreq", "")[:200], exp[:200])))
            elif s.impl.get("hreq") != "-":
                out.append((s.i, "replace-request: a non-authority signer reached CCTP"))
            continue
        if s.op != "recvh" or s.impl.get("ack") != "ok":
            continue
        p = packet_of(s.line)
        if not receiver_is_orbiter(p) or not p["payload"] or not isinstance(p["payload"].get("forwarding"), dict):
            continue
        fw = p["payload"]["forwarding"]
        attrs = fw.get("attributes") or {}
        pid = fw.get("protocol_id")
        if KIND_OF_PROTO.get(pid) != attrs.get("@type"):
            out.append((s.i, "mismatch-accepted: protocol %s executed with attributes %s" % (pid, attrs.get("@type"))))
            continue
        reqs = [x for x in (s.impl.get("hreq") or "-").split(";") if not x.startswith("swap:")]
        if len(reqs) != 1:
            out.append((s.i, "route: %d bridge requests for one transfer: %s" % (len(reqs), s.impl.get("hreq", "")[:200])))
            continue
        exp = expected_hreq(p)
        if exp is None:
            continue
        # the coin left after the actions: from the request itself the amount is whatever it says; check it against
        # the ledger: delivered minus fee credits
        delta = parse_delta(s.impl.get("bal"))
        A = parse_go_int(p["ftpd"]["amount"])
        dn = p["ftpd"]["denom"][len(p["src_port"] + "/" + p["src_chan"] + "/"):]
        fee_rcpts = set()
        for act in p["payload"].get("pre_actions") or []:
            for fi in (act.get("attributes") or {}).get("fees_info") or []:
                a = decode_addr(fi.get("recipient", ""))
                if a:
                    fee_rcpts.add(a.hex())
        route_acct = None
        if attrs.get("@type") == scen.INT_URL:
            ra = decode_addr(attrs.get("recipient", ""))
            route_acct = ra.hex() if ra else None
        fees_paid = 0
        for (a, d), v in delta.items():
            if d == dn and v > 0 and a in fee_rcpts and a != route_acct:
                fees_paid += v
        if route_acct in fee_rcpts:
            # the recipient is also a fee recipient: its gain is fee + forwarded; use the request's own amount
            fees_paid = None
        got = reqs[0]
        if fees_paid is not None:
            want = exp.format(amt=A - fees_paid, dn=hx(dn))
            if got != want:
                out.append((s.i, "request: bridge received %s, payload says %s" % (got[:300], want[:300])))
    return out


def c05_lines(r, toks, n):
    lines, _ = scen.base_setup()
    tok, tdenom = toks[0]
    # every field varied independently, pairwise distinct values
    for i in range(n):
        k = r.below(3)
        amount = r.choice([10 ** 6, 12345, 999983, 10 ** 12])
        acts = [fee_action([(U[2], "b", r.choice([100, 250])), (U[3], "a", r.choice([7, 11]))])] if r.chance(1, 2) else None
        if k == 0:
            fwd = cctp_fwd(domain=r.choice(CCTP_DOMAINS), mint=r.bytes(32), caller=r.choice([None, r.bytes(32)]), passthrough=None)
            lines.append(orb_pkt("recvh", amount, fwd, acts))
        elif k == 1:
            fwd = int_fwd(r.choice(U[:6]))
            lines.append(orb_pkt("recvh", amount, fwd, acts, denom=r.choice(DENOMS)))
        else:
            fwd = hyp_fwd(tok, domain=r.choice([1, 2]), recipient=r.bytes(32), hook=None, meta=r.choice([None, "0x" + r.bytes(3).hex()]),
                          gas=r.choice([None, 0, 77, 50001]), fee=r.choice([None, ("uusdc", 0), ("uusdc", 13), ("stake", 5)]))
            lines.append(orb_pkt("recvh", amount, fwd, acts, denom=tdenom))
    # every (protocol id, attribute type) combination, symbolic and numeric ids, out of range numbers
    attr_sets = [cctp_fwd(domain=0)["attributes"], int_fwd(U[1])["attributes"], hyp_fwd(tok, domain=1)["attributes"]]
    for pid in PROTO_NAMES + ["PROTOCOL_UNSUPPORTED", -1, 0, 1, 2, 3, 4, 5, 6, 7, 2 ** 31 - 1]:
        for a in attr_sets:
            lines.append(orb_pkt("recvh", 10 ** 6, {"protocol_id": pid, "attributes": a}))
    for aid in ACTION_NAMES + ["ACTION_UNSUPPORTED", -1, 0, 1, 2, 3, 4, 99]:
        act = fee_action([(U[2], "b", 100)])
        act["id"] = aid
        lines.append(orb_pkt("recv", 10 ** 6, int_fwd(U[1]), [act]))
    # ReplaceDepositForBurn through the recording message server
    for signer in (AUTHORITY, U[0], ORB, ""):
        for _ in range(3):
            lines.append("msgh ReplaceDepositForBurn %s %s %s %s %s" % (hx(signer), hx(r.bytes(r.range(1, 40))), hx(r.bytes(r.range(1, 70))), hx(r.bytes(32)), hx(r.bytes(32))))
    return lines


def c05_unrouted_oracle(steps):
    out = c05_oracle(steps)
    for s in steps:
        if s.op in RECV_OPS and s.impl.get("ack") == "ok":
            p = packet_of(s.line)
            if not p["payload"]:
                continue
            for act in p["payload"].get("pre_actions") or []:
                if isinstance(act, dict) and act.get("id") not in ("ACTION_FEE", 1) and s.op == "recv":
                    out.append((s.i, "unrouted-action: action %r executed though the chain wires only the fee controller" % (act.get("id"),)))
            pid = (p["payload"].get("forwarding") or {}).get("protocol_id")
            if pid not in ("PROTOCOL_CCTP", "PROTOCOL_HYPERLANE", "PROTOCOL_INTERNAL", 2, 3, 4):
                out.append((s.i, "unrouted-protocol: protocol %r used as outgoing route" % (pid,)))
    return out


@prop
class C05(Base):
    id = "C05"
    assumptions = C03.assumptions

    def streams(self, tier, seed):
        r = Rng(seed * 1000 + 5)
        _, toks = scen.base_setup()
        f = {"recvh": ["ack", "hreq"], "recv": ["ack", "req"], "msgh": ["res", "hreq"]}
        return [Stream("S2-recorded-requests", c05_lines(r, toks, self.n(tier, 150, 1500)), fields=f, oracle=c05_unrouted_oracle)] + \
            history_stream("S3-typed-events", 5, tier, seed, 120, 500, {"recv": ["ack", "req"]}, None, n_hist_quick=1, n_hist_thorough=4, p_admin=5, p_deposit=3, p_query=0, p_reimport=0)
