"""Matchers for the known findings listed in /verif/known_findings.json (DESIGN.md §4.5).
A matcher is specific: it recognises one defect by the failing operation, never a whole property."""
import re

from proto import unhx


def _line(f):
    return f.lines[f.index] if 0 <= f.index < len(f.lines) else (f.lines[-1] if f.lines else "")


MATCHERS = {}


def matcher(fid):
    def deco(fn):
        MATCHERS[fid] = fn
        return fn
    return deco


def bind(known):
    out = []
    for k in known.get("findings", []):
        fn = MATCHERS.get(k.get("id"))
        if fn is None:
            continue
        k2 = dict(k)
        k2["_match"] = fn
        out.append(k2)
    return out
