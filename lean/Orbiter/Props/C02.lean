/-
  C02 — Every successful transfer conserves value across the whole ledger.
  On the chain's wiring, a successfully acknowledged orbiter transfer makes exactly these ledger moves, in
  this order, and the committed ledger is their replay on the ledger before:
    sweep      : the pre-existing orbiter balance of the denomination (if any) → dust collector
    release    : escrow of the channel → orbiter, the packet's coin (A of D)
    fee credits: orbiter → recipient, one per positive entry, in payload order
    route      : CCTP      orbiter → cctp module → fiat-tokenfactory module, burned there   (F of D)
                 Hyperlane orbiter → warp module (collateral), then the default hook's gas payment if the
                           mailbox has an IGP hook (the payment is the known finding of C11)
                 internal  orbiter → recipient                                                (F of D)
  with  A = Σ fee credits + F  and  F > 0  and every fee credit > 0.
  Hence: nothing is minted; only the CCTP route burns, exactly F; no account other than those named moves.
-/
import Orbiter.Props.C01
import Orbiter.Props.C04
import Orbiter.Lemmas.Reach
import Orbiter.Expect
namespace Orbiter.C02
open Orbiter

/-- Coverage obligation for "nothing is minted, only the named accounts move": the bank offers the module a balance read and a
plain send, nothing else (no mint, burn, delegation or module-to-module helper), as `Ctx.send` assumes. -/
theorem pin_bank_surface :
    Gen.externalSurface.lookup "types.BankKeeper" =
      some ["GetBalance func(context.Context, types.AccAddress, string) types.Coin",
            "SendCoins func(context.Context, types.AccAddress, types.AccAddress, types.Coins) error"] ∧
    Gen.externalSurface.lookup "action.BankKeeperFee" =
      some ["SendCoins func(context.Context, types.AccAddress, types.AccAddress, types.Coins) error"] := by decide +kernel

def feeMoves (orb : Addr) (denom : String) (credits : List (Bytes × Int)) : List Move :=
  credits.map fun v => .xfer orb v.1 denom v.2.toNat

def sweepMoves (cfg : Cfg) (c : Ctx) (denom : String) : List Move :=
  if c.bank.bal cfg.orbAddr denom = 0 then [] else [.xfer cfg.orbAddr cfg.dustAddr denom (c.bank.bal cfg.orbAddr denom)]

theorem hook_steps {wr : Wiring} {φ : Faults} {o : OrbState} {c c1 : Ctx} {t : TransferAttrs} {p : Payload}
    (h : beforeTransferHook wr φ o c t p = .ok c1) : Ctx.Steps c c1 (sweepMoves wr.cfg c t.dstDenom) := by
  unfold beforeTransferHook at h
  simp only [Res.guard_bind_eq_ok] at h
  obtain ⟨_, h⟩ := h
  unfold sweepMoves
  split at h
  · rename_i hz
    simp only [Res.pure_eq, Res.ok.injEq] at h; subst h
    have : c.bank.bal wr.cfg.orbAddr t.dstDenom = 0 := by simpa using hz
    simp only [this, ↓reduceIte]
    exact Ctx.Steps.refl c
  · rename_i hz
    have : ¬ c.bank.bal wr.cfg.orbAddr t.dstDenom = 0 := by simpa using hz
    simp only [this, ↓reduceIte]
    obtain ⟨c0, hc0, h⟩ := Res.bind_eq_ok.mp h
    have s1 := Ctx.call_steps hc0
    have s2 := Ctx.send_steps h
    have := Ctx.Steps.trans s1 s2
    simpa using this

theorem payFees_steps {φ : Faults} {orb : Addr} {denom : String} (l : List (Bytes × Int)) (c c' : Ctx)
    (h : payFees φ orb denom l c = .ok c') : Ctx.Steps c c' (feeMoves orb denom l) := by
  induction l generalizing c with
  | nil => simp only [payFees, Res.ok.injEq] at h; subst h; exact Ctx.Steps.refl c
  | cons v rest ih =>
    simp only [payFees] at h
    obtain ⟨c1, h1, h⟩ := Res.bind_eq_ok.mp h
    obtain ⟨c2, h2, h⟩ := Res.bind_eq_ok.mp h
    have := Ctx.Steps.trans (Ctx.Steps.trans (Ctx.call_steps h1) (Ctx.send_steps h2)) (ih c2 h)
    simpa [feeMoves] using this

/-- The fee action: its credits are the specified ones (C04), each positive, paid in order; the running
amount decreases by exactly their sum and stays positive; the denomination is unchanged. -/
theorem feeController_steps {cfg : Cfg} {φ : Faults} {c c' : Ctx} {t t' : TransferAttrs} {a : Action}
    (ht : 0 ≤ t.dstAmount) (hden : validDenom t.dstDenom = true)
    (h : feeController cfg φ c t a = .ok (c', t')) :
    ∃ credits : List (Bytes × Int), Ctx.Steps c c' (feeMoves cfg.orbAddr t.dstDenom credits) ∧
      (∀ v ∈ credits, v.2 > 0) ∧ t'.dstAmount = t.dstAmount - C04.total credits ∧ t'.dstAmount > 0 ∧
      t'.dstDenom = t.dstDenom ∧ t'.srcDenom = t.srcDenom ∧ t'.srcAmount = t.srcAmount := by
  unfold feeController at h
  simp only at h
  split at h
  case h_2 => simp at h
  case h_3 => simp at h
  rename_i infos _
  simp only [Res.pure_eq, Res.bind_ok] at h
  obtain ⟨_, hval, h⟩ := Res.bind_eq_ok.mp h
  obtain ⟨fees, hfees, h⟩ := Res.bind_eq_ok.mp h
  simp only [Res.guard_bind_eq_ok] at h
  obtain ⟨hlt, h⟩ := h
  obtain ⟨c1, h1, h⟩ := Res.bind_eq_ok.mp h
  obtain ⟨c2, h2, h⟩ := Res.bind_eq_ok.mp h
  simp only [Res.ok.injEq, Prod.mk.injEq] at h
  obtain ⟨rfl, rfl⟩ := h
  have hv : validateFeeAttrs cfg.hrp infos = .ok () := by
    cases hq : validateFeeAttrs cfg.hrp infos with
    | ok u => rfl
    | err e => simp [hq, Res.mapErr] at hval
    | panic e => simp [hq, Res.mapErr] at hval
  obtain ⟨hvals, htot⟩ := C04.c04_distribution cfg.hrp t.dstAmount t.dstDenom infos fees ht hden hv hfees
  refine ⟨fees.values, ?_, ?_, ?_, ?_, rfl, rfl, rfl⟩
  · have := Ctx.Steps.trans (payFees_steps _ _ _ h1) (Ctx.emit_steps h2)
    simpa using this
  · intro v hvm
    rw [hvals] at hvm
    simp only [C04.creditsSpec, List.mem_filterMap] at hvm
    obtain ⟨f, _, hf⟩ := hvm
    split at hf
    · rename_i hpos
      simp only [Option.some.injEq] at hf
      rw [← hf]; exact hpos
    · cases hf
  · have : fees.total = C04.total fees.values := by rw [htot, hvals]
    simp only [TransferAttrs.setDstAmount]
    rw [← this]
    split <;> omega
  · simp only [TransferAttrs.setDstAmount]
    split <;> omega

/-- All pre-actions on the chain's wiring. -/
theorem dispatchActions_steps {cfg : Cfg} {π : OneofOrder} {φ : Faults} {o : OrbState} (acts : List Action) (c c' : Ctx) (t t' : TransferAttrs)
    (ht : 0 < t.dstAmount) (hden : validDenom t.dstDenom = true)
    (h : dispatchActions (appWiring cfg π) φ o acts c t = .ok (c', t')) :
    ∃ credits : List (Bytes × Int), Ctx.Steps c c' (feeMoves cfg.orbAddr t.dstDenom credits) ∧
      (∀ v ∈ credits, v.2 > 0) ∧ t'.dstAmount = t.dstAmount - C04.total credits ∧ t'.dstAmount > 0 ∧
      t'.dstDenom = t.dstDenom ∧ t'.srcDenom = t.srcDenom ∧ t'.srcAmount = t.srcAmount := by
  induction acts generalizing c t with
  | nil =>
    simp only [dispatchActions, Res.ok.injEq, Prod.mk.injEq] at h
    obtain ⟨rfl, rfl⟩ := h
    exact ⟨[], Ctx.Steps.refl _, (fun v hv => by cases hv), by simp [C04.total], ht, rfl, rfl, rfl⟩
  | cons x rest ih =>
    simp only [dispatchActions] at h
    obtain ⟨r1, hx, h⟩ := Res.bind_eq_ok.mp h
    obtain ⟨c1, t1⟩ := r1
    have hx' : feeController cfg φ c t x = .ok (c1, t1) := by
      unfold executorHandle at hx
      obtain ⟨_, _, hx⟩ := Res.bind_eq_ok.mp hx
      simp only [Res.guard_bind_eq_ok] at hx
      obtain ⟨_, hx⟩ := hx
      simp only [appWiring, appActionRouter] at hx
      split at hx
      · cases hx
      · rename_i hctl
        split at hctl
        · simp only [Option.some.injEq] at hctl; subst hctl; exact hx
        · cases hctl
    obtain ⟨cr1, s1, p1, a1, pos1, d1, sd1, sa1⟩ := feeController_steps (Int.le_of_lt ht) hden hx'
    obtain ⟨cr2, s2, p2, a2, pos2, d2, sd2, sa2⟩ := ih c1 t1 pos1 (by rw [d1]; exact hden) h
    refine ⟨cr1 ++ cr2, ?_, ?_, ?_, pos2, d2.trans d1, sd2.trans sd1, sa2.trans sa1⟩
    · have := Ctx.Steps.trans s1 s2
      rw [d1] at this
      simpa [feeMoves] using this
    · intro v hv
      rcases List.mem_append.mp hv with h | h
      · exact p1 v h
      · exact p2 v h
    · rw [a2, a1, C04.total_append]; omega

/-- The moves of the outgoing route for an amount `F` of `D`. -/
inductive RouteMoves (cfg : Cfg) (D : String) (F : Nat) : Int → List Move → Prop
  | cctp : RouteMoves cfg D F PROTOCOL_CCTP
      [.xfer cfg.orbAddr cfg.cctpModule D F, .xfer cfg.cctpModule cfg.ftfModule D F, .burn cfg.ftfModule D F]
  | hyp : RouteMoves cfg D F PROTOCOL_HYPERLANE [.xfer cfg.orbAddr cfg.warpModule D F]
  | hypIgp (idenom : String) (charge : Nat) : RouteMoves cfg D F PROTOCOL_HYPERLANE
      [.xfer cfg.orbAddr cfg.warpModule D F, .xfer cfg.orbAddr cfg.hypModule idenom charge]
  | internal (dst : Addr) (hne : dst ≠ cfg.orbAddr) : RouteMoves cfg D F PROTOCOL_INTERNAL [.xfer cfg.orbAddr dst D F]


theorem cctpDepositForBurn_steps {cfg : Cfg} {c c' : Ctx} {amount : Int} {domain : Nat} {mint caller : Bytes} {tok : String}
    (h : cctpDepositForBurn cfg c amount domain mint tok caller = .ok c') :
    Ctx.Steps c c' [.xfer cfg.orbAddr cfg.cctpModule tok amount.toNat, .xfer cfg.cctpModule cfg.ftfModule tok amount.toNat,
      .burn cfg.ftfModule tok amount.toNat] := by
  unfold cctpDepositForBurn at h
  simp only [Res.guard_bind_eq_ok, Res.bind_eq_ok, Res.pure_eq, Res.ok.injEq] at h
  obtain ⟨_, _, _, _, _, _, c1, h1, _, _, _, c2, h2, c3, h3, _, _, _, rfl⟩ := h
  have := Ctx.Steps.trans (Ctx.Steps.trans (Ctx.send_steps h1) (Ctx.send_steps h2)) (Ctx.burn_steps h3)
  simpa using this

theorem warpRemoteTransfer_steps {cfg : Cfg} {c c' : Ctx} {token hook : Bytes} {domain : Nat} {amount gas feeAmt : Int} {feeDenom : String}
    (h : warpRemoteTransfer cfg c token domain amount gas feeDenom feeAmt hook = .ok c') :
    ∃ origin, lookupTok c.ext.hypTokens token = some origin ∧
      (Ctx.Steps c c' [.xfer cfg.orbAddr cfg.warpModule origin amount.toNat] ∨
       ∃ idenom charge, Ctx.Steps c c' [.xfer cfg.orbAddr cfg.warpModule origin amount.toNat, .xfer cfg.orbAddr cfg.hypModule idenom charge]) := by
  unfold warpRemoteTransfer at h
  simp only at h
  cases ht : lookupTok c.ext.hypTokens token with
  | none => simp [ht] at h
  | some origin =>
    simp only [ht, Res.pure_eq, Res.bind_ok] at h
    obtain ⟨c1, h1, h⟩ := Res.bind_eq_ok.mp h
    have s1 := Ctx.send_steps h1
    refine ⟨origin, rfl, ?_⟩
    cases hr : lookupRouter c1.ext.hypRouters token domain with
    | none => simp [hr] at h
    | some rgas =>
      simp only [hr, Res.bind_ok, Res.guard_bind_eq_ok, Res.guard_panic_bind_eq_ok] at h
      obtain ⟨_, h⟩ := h
      obtain ⟨hk, _, h⟩ := Res.bind_eq_ok.mp h
      split at h
      · simp only [Res.ok.injEq] at h
        subst h
        exact Or.inl s1
      · right
        rename_i idenom idomain rate price overhead _
        repeat' (first | (cases h; done) | split at h)
        all_goals exact ⟨idenom, _, by simpa using Ctx.Steps.trans s1 (Ctx.send_steps h)⟩

theorem bankMsgSend_steps {cfg : Cfg} {c c' : Ctx} {to denom : String} {amt : Int} (dst : Addr)
    (hto : accAddressFromBech32 cfg.hrp to = some dst) (h : bankMsgSend cfg c to denom amt = .ok c') :
    Ctx.Steps c c' [.xfer cfg.orbAddr dst denom amt.toNat] := by
  unfold bankMsgSend at h
  simp only [hto] at h
  repeat' (first | (cases h; done) | split at h)
  exact Ctx.send_steps h

/-- The forwarder on the chain's wiring makes exactly the moves of the payload's route, for exactly the
amount and denomination left by the last action. -/
theorem forwarder_steps {cfg : Cfg} {π : OneofOrder} {φ : Faults} {o : OrbState} {c c' : Ctx} {t : TransferAttrs} {f : Forwarding}
    (h : forwarderHandle (appWiring cfg π) φ o c t f = .ok c') :
    ∃ ms, RouteMoves cfg t.dstDenom t.dstAmount.toNat f.protocolId ms ∧ Ctx.Steps c c' ms := by
  unfold forwarderHandle at h
  obtain ⟨_, _, h⟩ := Res.bind_eq_ok.mp h
  cases ha : f.attrs with
  | none => simp [ha] at h
  | some a =>
    simp only [ha, Res.pure_eq, Res.bind_ok, Res.guard_bind_eq_ok] at h
    obtain ⟨_, _, _, _, h⟩ := h
    simp only [appWiring, appForwardingRouter] at h
    split at h
    · cases h
    · rename_i hctl
      split at hctl
      · cases hctl
      · split at hctl
        · rename_i hid
          have hid' : f.protocolId = PROTOCOL_CCTP := by simpa using hid
          simp only [Option.some.injEq] at hctl; subst hctl
          unfold cctpController at h
          simp only [ha, Res.pure_eq, Res.bind_ok] at h
          cases a with
          | cctp domain mint caller =>
            simp only at h
            obtain ⟨_, _, h⟩ := Res.bind_eq_ok.mp h
            obtain ⟨c1, h1, h⟩ := Res.bind_eq_ok.mp h
            have s := Ctx.Steps.trans (Ctx.call_steps h1) (cctpDepositForBurn_steps h)
            rw [hid']
            exact ⟨_, RouteMoves.cctp, ⟨by simpa using s.moves, by simpa using s.bank⟩⟩
          | hyp => simp at h
          | internal => simp at h
          | fee => simp at h
        · split at hctl
          · rename_i hid
            have hid' : f.protocolId = PROTOCOL_HYPERLANE := by simpa using hid
            simp only [Option.some.injEq] at hctl; subst hctl
            unfold hypController at h
            simp only [ha, Res.pure_eq, Res.bind_ok] at h
            cases a with
            | hyp tok domain rec_ hook hmeta gas feeDenom feeAmt =>
              simp only at h
              obtain ⟨_, _, h⟩ := Res.bind_eq_ok.mp h
              obtain ⟨_, _, h⟩ := Res.bind_eq_ok.mp h
              obtain ⟨c1, h1, h⟩ := Res.bind_eq_ok.mp h
              cases ht : lookupTok c1.ext.hypTokens tok with
              | none => simp [ht] at h
              | some origin =>
                simp only [ht, Res.bind_ok, Res.guard_bind_eq_ok] at h
                obtain ⟨ho, h⟩ := h
                obtain ⟨c2, h2, h⟩ := Res.bind_eq_ok.mp h
                obtain ⟨origin', ht', hs⟩ := warpRemoteTransfer_steps h
                have he2 : c2.ext = c1.ext := by rw [(Ctx.call_ok h2).1]
                rw [he2, ht] at ht'
                simp only [Option.some.injEq] at ht'
                subst ht'
                have horig : origin = t.dstDenom := by simpa using ho
                subst horig
                have s12 := Ctx.Steps.trans (Ctx.call_steps h1) (Ctx.Steps.of_eq (c := c1) (Ctx.call_steps h2) rfl rfl)
                rw [hid']
                rcases hs with hs | ⟨idenom, charge, hs⟩
                · exact ⟨_, RouteMoves.hyp, by simpa using Ctx.Steps.trans s12 hs⟩
                · exact ⟨_, RouteMoves.hypIgp idenom charge, by simpa using Ctx.Steps.trans s12 hs⟩
            | cctp => simp at h
            | internal => simp at h
            | fee => simp at h
          · split at hctl
            · rename_i hid
              have hid' : f.protocolId = PROTOCOL_INTERNAL := by simpa using hid
              simp only [Option.some.injEq] at hctl; subst hctl
              unfold internalController at h
              simp only [ha, Res.pure_eq, Res.bind_ok] at h
              cases a with
              | internal recipient =>
                simp only at h
                obtain ⟨_, _, h⟩ := Res.bind_eq_ok.mp h
                obtain ⟨_, hval, h⟩ := Res.bind_eq_ok.mp h
                obtain ⟨_, _, h⟩ := Res.bind_eq_ok.mp h
                obtain ⟨c1, h1, h⟩ := Res.bind_eq_ok.mp h
                have hrec : ∃ dst, accAddressFromBech32 cfg.hrp recipient = some dst ∧ dst ≠ cfg.orbAddr := by
                  cases hv : (Attrs.internal recipient).validate cfg.hrp cfg.orbAddr with
                  | err e => simp [hv, Res.mapErr] at hval
                  | panic e => simp [hv, Res.mapErr] at hval
                  | ok u =>
                    unfold Attrs.validate at hv
                    simp only at hv
                    split at hv
                    · cases hv
                    · split at hv
                      · cases hv
                      · rename_i dst hdst
                        split at hv
                        · cases hv
                        · rename_i hne
                          exact ⟨dst, hdst, by simpa using hne⟩
                obtain ⟨dst, hdst, hne⟩ := hrec
                have s := Ctx.Steps.trans (Ctx.call_steps h1) (bankMsgSend_steps dst hdst h)
                rw [hid']
                exact ⟨_, RouteMoves.internal dst hne, ⟨by simpa using s.moves, by simpa using s.bank⟩⟩
              | cctp => simp at h
              | hyp => simp at h
              | fee => simp at h
            · cases hctl


/-- **C02.** The complete ledger effect of a successfully acknowledged orbiter transfer on the chain's
wiring: the recorded moves are sweep ++ release ++ fee credits ++ route, the committed ledger is their
replay on the ledger before, the released coin equals the fee credits plus the forwarded amount, the
forwarded amount and every fee credit are strictly positive. -/
theorem c02_conservation (cfg : Cfg) (π : OneofOrder) (φ : Faults) (w : World) (pkt : Packet) (t : TransferAttrs) (p : Payload)
    (hs : (ibcRecv (appWiring cfg π) φ w pkt).ack.isSuccess = true) (ha : adaptPacket (appWiring cfg π) pkt = .ok (.orbiter t p)) :
    ∃ (credits : List (Bytes × Int)) (F : Int) (f : Forwarding) (route : List Move),
      p.forwarding = some f ∧
      RouteMoves cfg t.srcDenom F.toNat f.protocolId route ∧
      (ibcRecv (appWiring cfg π) φ w pkt).ctx.moves =
        sweepMoves cfg (ctxOf w) t.srcDenom ++
        [.xfer (cfg.escrow pkt.dstPort pkt.dstChan) cfg.orbAddr t.srcDenom t.srcAmount.toNat] ++
        feeMoves cfg.orbAddr t.srcDenom credits ++ route ∧
      w.bank.replay (ibcRecv (appWiring cfg π) φ w pkt).ctx.moves = some (ibcRecv (appWiring cfg π) φ w pkt).ctx.bank ∧
      t.srcAmount = C04.total credits + F ∧ F > 0 ∧ (∀ v ∈ credits, v.2 > 0) := by
  obtain ⟨c1, c2, c3, t3, h1, h2, hdp, hem⟩ := ibcRecv_success_dispatch hs ha
  obtain ⟨c4, f, _, hda, hf, hfw, _⟩ := dispatchPayload_ok hdp
  obtain ⟨_, _, hdd, hdamt, _⟩ := C12.c12_source_from_packet _ pkt t p ha
  -- the attributes entering the actions are valid (the adapter validated them)
  have htv : t.validate = .ok () := by
    unfold adaptPacket at ha
    cases hd : decFTPD pkt.data with
    | none => simp [hd] at ha
    | some d =>
      simp only [hd] at ha
      cases hr : accAddressFromBech32 (appWiring cfg π).cfg.hrp d.receiver with
      | none => simp [hr] at ha
      | some r =>
        simp only [hr] at ha
        split at ha
        · cases ha
        · obtain ⟨p', _, ha⟩ := Res.bind_eq_ok.mp ha
          cases hamt : newIntFromString d.amount with
          | none => simp [hamt] at ha
          | some amt =>
            simp only [hamt, Res.pure_eq, Res.bind_ok] at ha
            obtain ⟨dn, _, ha⟩ := Res.bind_eq_ok.mp ha
            split at ha
            · cases ha
            · obtain ⟨t0, ht0, ha⟩ := Res.bind_eq_ok.mp ha
              simp only [Res.pure_eq, Res.ok.injEq, Parsed.orbiter.injEq] at ha
              obtain ⟨rfl, rfl⟩ := ha
              unfold newTransferAttrs at ht0
              cases hv : ({ srcProtocol := PROTOCOL_IBC, srcCounterparty := pkt.dstChan, srcDenom := dn, srcAmount := amt,
                             dstDenom := dn, dstAmount := amt } : TransferAttrs).validate with
              | err e => simp [hv, Res.mapErr] at ht0
              | panic e => simp [hv, Res.mapErr] at ht0
              | ok u =>
                simp only [hv, Res.bind_ok, Res.pure_eq, Res.mapErr, Res.ok.injEq] at ht0
                subst ht0
                cases u; exact hv
  obtain ⟨_, _, _, hcv, hpos⟩ := transfer_validate_ok htv
  have hden : validDenom t.dstDenom = true := by
    simp only [coinValid, Bool.and_eq_true] at hcv; exact hcv.1
  -- stages
  have s1 := hook_steps h1
  have s2 : Ctx.Steps c1 c2 [.xfer (cfg.escrow pkt.dstPort pkt.dstChan) cfg.orbAddr t.srcDenom t.srcAmount.toNat] := by
    unfold wrappedApp at h2
    obtain ⟨c0, hc0, h2⟩ := Res.bind_eq_ok.mp h2
    obtain ⟨hmv, _, _, hbk⟩ := C16.c16_same_coin (appWiring cfg π) c0 c2 pkt t p ha h2
    simp only [show (appWiring cfg π).cfg = cfg from rfl] at hmv hbk
    have s0 := Ctx.call_steps hc0
    refine ⟨?_, ?_⟩
    · rw [hmv, s0.moves]; simp
    · have hb0 : c0.bank = c1.bank := Ctx.call_bank hc0
      rw [← hb0]
      simp only [Ledger.replay, List.foldlM_cons, List.foldlM_nil, Ledger.apply]
      rw [hbk]
      rfl
  obtain ⟨credits, s3, cpos, hamt, hF, hd3, _, _⟩ := dispatchActions_steps _ _ _ _ _ hpos hden hda
  obtain ⟨route, hroute, s4⟩ := forwarder_steps hfw
  have s5 := Ctx.emit_steps hem
  have sall := Ctx.Steps.trans (Ctx.Steps.trans (Ctx.Steps.trans (Ctx.Steps.trans s1 s2) s3) s4) s5
  rw [hd3, hdd] at hroute
  refine ⟨credits, t3.dstAmount, f, route, hf, hroute, ?_, ?_, ?_, hF, cpos⟩
  · have := sall.moves
    simp only [ctxOf, List.nil_append, List.append_nil] at this
    rw [this, hdd]
    rfl
  · have hm := sall.moves
    have hb := sall.bank
    simp only [ctxOf, List.nil_append, List.append_nil] at hm hb
    rw [hm]
    exact hb
  · rw [hamt, hdamt]; omega

/-- Nothing is ever minted by an orbiter transfer, and only the CCTP route burns — exactly the forwarded
amount of the forwarded denomination. -/
theorem c02_supply (cfg : Cfg) (D : String) (F : Nat) (pid : Int) (route : List Move) (h : RouteMoves cfg D F pid route) :
    (∀ m ∈ route, ∀ a d n, m ≠ .mint a d n) ∧
    ((∃ a d n, Move.burn a d n ∈ route) → pid = PROTOCOL_CCTP ∧ Move.burn cfg.ftfModule D F ∈ route) := by
  cases h with
  | cctp => exact ⟨by intro m hm a d n e; subst e; simp at hm, fun _ => ⟨rfl, by simp⟩⟩
  | hyp => exact ⟨by intro m hm a d n e; subst e; simp at hm, by rintro ⟨a, d, n, hm⟩; simp at hm⟩
  | hypIgp i c => exact ⟨by intro m hm a d n e; subst e; simp at hm, by rintro ⟨a, d, n, hm⟩; simp at hm⟩
  | internal dst hne => exact ⟨by intro m hm a d n e; subst e; simp at hm, by rintro ⟨a, d, n, hm⟩; simp at hm⟩


/-! ### bystanders and supply, from the replay -/

/-- Does a move name this account (as source or destination)? -/
def touches (a : Addr) : Move → Prop
  | .xfer s d _ _ => a = s ∨ a = d
  | .burn s _ _ => a = s
  | .mint d _ _ => a = d

/-- An account that no move names keeps every balance. -/
theorem replay_bystander (ms : List Move) (l l' : Ledger) (h : l.replay ms = some l') (a : Addr)
    (hna : ∀ m ∈ ms, ¬ touches a m) : ∀ d, l'.bal a d = l.bal a d := by
  induction ms generalizing l with
  | nil => simp only [Ledger.replay, List.foldlM_nil, Option.pure_def, Option.some.injEq] at h; subst h; intro d; rfl
  | cons m rest ih =>
    simp only [Ledger.replay, List.foldlM_cons] at h
    cases hm : l.apply m with
    | none => simp [hm] at h
    | some l1 =>
      simp only [hm, Option.bind_eq_bind, Option.bind_some] at h
      intro d
      rw [ih l1 h (fun x hx => hna x (List.mem_cons_of_mem _ hx)) d]
      have hnm := hna m List.mem_cons_self
      cases m with
      | xfer s dd dn n =>
        simp only [Ledger.apply] at hm
        simp only [touches, not_or] at hnm
        rw [Ledger.send_bal hm a d]
        simp [hnm.1, hnm.2]
      | burn s dn n =>
        simp only [Ledger.apply] at hm
        simp only [touches] at hnm
        rw [Ledger.burn_bal hm a d]
        simp [hnm]
      | mint dd dn n =>
        simp only [Ledger.apply, Option.some.injEq] at hm
        subst hm
        simp only [touches] at hnm
        rw [Ledger.mint_bal]
        simp [hnm]

theorem burn_supply {l l' : Ledger} {src : Addr} {d : String} {amt : Nat} (h : l.burn src d amt = some l') (dn : String) :
    l'.supply dn = if dn = d then l.supply d - amt else l.supply dn := by
  unfold Ledger.burn at h
  split at h
  · cases h
  · simp only [Option.some.injEq] at h; subst h; rfl

/-- A replay without burns and mints leaves every supply as it was. -/
theorem replay_supply_unchanged (ms : List Move) (l l' : Ledger) (h : l.replay ms = some l')
    (hx : ∀ m ∈ ms, ∃ s d dn n, m = .xfer s d dn n) : l'.supply = l.supply := by
  induction ms generalizing l with
  | nil => simp only [Ledger.replay, List.foldlM_nil, Option.pure_def, Option.some.injEq] at h; subst h; rfl
  | cons m rest ih =>
    simp only [Ledger.replay, List.foldlM_cons] at h
    cases hm : l.apply m with
    | none => simp [hm] at h
    | some l1 =>
      simp only [hm, Option.bind_eq_bind, Option.bind_some] at h
      rw [ih l1 h (fun x hx' => hx x (List.mem_cons_of_mem _ hx'))]
      obtain ⟨s, d, dn, n, rfl⟩ := hx m List.mem_cons_self
      simp only [Ledger.apply] at hm
      exact Ledger.send_supply hm

/-- **Bystanders.** After a successful orbiter transfer, an account that is none of: the channel's escrow
account, the orbiter account, the dust collector, a fee recipient, an account of the outgoing route — keeps
every balance it had. -/
theorem c02_bystanders (cfg : Cfg) (π : OneofOrder) (φ : Faults) (w : World) (pkt : Packet) (t : TransferAttrs) (p : Payload)
    (hs : (ibcRecv (appWiring cfg π) φ w pkt).ack.isSuccess = true) (ha : adaptPacket (appWiring cfg π) pkt = .ok (.orbiter t p))
    (a : Addr) (hna : ∀ m ∈ (ibcRecv (appWiring cfg π) φ w pkt).ctx.moves, ¬ touches a m) (d : String) :
    (ibcRecv (appWiring cfg π) φ w pkt).ctx.bank.bal a d = w.bank.bal a d := by
  obtain ⟨_, _, _, _, _, _, _, hrep, _⟩ := c02_conservation cfg π φ w pkt t p hs ha
  exact replay_bystander _ _ _ hrep a hna d

/-- **Supply.** On the Hyperlane and internal routes the total supply of every denomination is unchanged. -/
theorem c02_supply_unchanged_without_cctp (cfg : Cfg) (π : OneofOrder) (φ : Faults) (w : World) (pkt : Packet) (t : TransferAttrs) (p : Payload)
    (hs : (ibcRecv (appWiring cfg π) φ w pkt).ack.isSuccess = true) (ha : adaptPacket (appWiring cfg π) pkt = .ok (.orbiter t p))
    (f : Forwarding) (hf : p.forwarding = some f) (hne : f.protocolId ≠ PROTOCOL_CCTP) :
    (ibcRecv (appWiring cfg π) φ w pkt).ctx.bank.supply = w.bank.supply := by
  obtain ⟨credits, F, f', route, hf', hroute, hmoves, hrep, _⟩ := c02_conservation cfg π φ w pkt t p hs ha
  rw [hf] at hf'
  simp only [Option.some.injEq] at hf'
  subst hf'
  apply replay_supply_unchanged _ _ _ hrep
  intro m hm
  rw [hmoves] at hm
  simp only [List.mem_append, List.mem_singleton] at hm
  rcases hm with ((hm | hm) | hm) | hm
  · unfold sweepMoves at hm
    split at hm
    · cases hm
    · simp only [List.mem_singleton] at hm; exact ⟨_, _, _, _, hm⟩
  · exact ⟨_, _, _, _, hm⟩
  · simp only [feeMoves, List.mem_map] at hm
    obtain ⟨v, _, rfl⟩ := hm
    exact ⟨_, _, _, _, rfl⟩
  · generalize hpid : f.protocolId = pid at hroute hne
    cases hroute with
    | cctp => exact absurd rfl hne
    | hyp => simp only [List.mem_singleton] at hm; exact ⟨_, _, _, _, hm⟩
    | hypIgp i c =>
      simp only [List.mem_cons, List.mem_nil_iff, or_false] at hm
      rcases hm with hm | hm <;> exact ⟨_, _, _, _, hm⟩
    | internal dst hne' => simp only [List.mem_singleton] at hm; exact ⟨_, _, _, _, hm⟩


/-- A replay without mints lets no supply grow. -/
theorem replay_supply_le (ms : List Move) (l l' : Ledger) (h : l.replay ms = some l')
    (hx : ∀ m ∈ ms, ∀ a d n, m ≠ .mint a d n) (dn : String) : l'.supply dn ≤ l.supply dn := by
  induction ms generalizing l with
  | nil => simp only [Ledger.replay, List.foldlM_nil, Option.pure_def, Option.some.injEq] at h; subst h; exact Nat.le_refl _
  | cons m rest ih =>
    simp only [Ledger.replay, List.foldlM_cons] at h
    cases hm : l.apply m with
    | none => simp [hm] at h
    | some l1 =>
      simp only [hm, Option.bind_eq_bind, Option.bind_some] at h
      have h1 := ih l1 h (fun x hx' => hx x (List.mem_cons_of_mem _ hx'))
      have h2 : l1.supply dn ≤ l.supply dn := by
        cases m with
        | xfer s d dd n =>
          simp only [Ledger.apply] at hm
          rw [Ledger.send_supply hm]; exact Nat.le_refl _
        | burn s dd n =>
          simp only [Ledger.apply] at hm
          rw [burn_supply hm dn]
          split
          · rename_i e; subst e; exact Nat.sub_le _ _
          · exact Nat.le_refl _
        | mint dd d n => exact absurd rfl (hx _ List.mem_cons_self dd d n)
      exact Nat.le_trans h1 h2

/-- **Supply never grows.** Whatever the route, a successfully acknowledged orbiter transfer mints nothing: the total supply
of every denomination afterwards is at most what it was before (it is smaller exactly by what CCTP burnt). -/
theorem c02_supply_never_grows (cfg : Cfg) (π : OneofOrder) (φ : Faults) (w : World) (pkt : Packet) (t : TransferAttrs) (p : Payload)
    (hs : (ibcRecv (appWiring cfg π) φ w pkt).ack.isSuccess = true) (ha : adaptPacket (appWiring cfg π) pkt = .ok (.orbiter t p))
    (dn : String) : (ibcRecv (appWiring cfg π) φ w pkt).ctx.bank.supply dn ≤ w.bank.supply dn := by
  obtain ⟨credits, F, f, route, _, hroute, hmoves, hrep, _⟩ := c02_conservation cfg π φ w pkt t p hs ha
  apply replay_supply_le _ _ _ hrep
  intro m hm a d n e
  rw [hmoves] at hm
  simp only [List.mem_append, List.mem_singleton] at hm
  rcases hm with ((hm | hm) | hm) | hm
  · unfold sweepMoves at hm
    split at hm
    · cases hm
    · simp only [List.mem_singleton] at hm; rw [hm] at e; cases e
  · rw [hm] at e; cases e
  · simp only [feeMoves, List.mem_map] at hm
    obtain ⟨v, _, rfl⟩ := hm
    cases e
  · exact (c02_supply cfg _ _ _ route hroute).1 m hm a d n e

end Orbiter.C02
