"""Per-property checks: streams (operation lines), projection, oracle."""
import scen
from checklib import Stream
from gen import Rng
from proto import hx, kv, unhx

PROPS = {}


def prop(cls):
    PROPS[cls.id] = cls
    return cls


class Base:
    level = "proof"
    assumptions = []
    explanation = ""

    @property
    def lean_files(self):
        return ["Props/%s.lean" % self.id]

    @property
    def theorem_prefixes(self):
        return ["Orbiter.%s." % self.id]

    def divergence_is_failure(self, f):
        """Is a model/implementation divergence at this property's projection a concrete failing input?"""
        return True

    def n(self, tier, quick, thorough):
        return thorough if tier == "thorough" else quick


def pure_oracle_no_panic(steps):
    return [(s.i, "panic: pure function panicked on " + s.line[:120]) for s in steps if s.op == "pure" and s.impl_raw.startswith("panic")]


@prop
class C04(Base):
    id = "C04"
    assumptions = ["amounts are math.Int values (|x| < 2^256); the bank sends of the fee action follow the bank contract of DESIGN.md §3.6"]

    def streams(self, tier, seed):
        r = Rng(seed * 1000 + 4)
        k = self.n(tier, 1, 10)
        lines = scen.fee_grid(r.fork(1), 300 * k) + scen.fee_lists(r.fork(2), 400 * k)
        return [Stream("S1-fee-arithmetic", lines, fields={"pure": ["_"]}, oracle=c04_oracle)]


def c04_expected(line):
    """Independent re-computation of the fee rule from the property statement."""
    import bech32 as _b
    f = line.split(" ")
    if f[1] == "feeamt":
        a, b = int(f[2]), int(f[3])
        if a * b >= 2 ** 256:
            return "err"
        return "ok:%d" % (a * b // 10000)
    if f[1] != "fees":
        return None
    A = int(f[2])
    n = int(f[4])
    rest = f[5:]
    credits = []
    total = 0
    if n > 5:
        return "err:validate"
    entries = []
    for i in range(n):
        rec, kind, val = unhx(rest[3 * i]).decode(), rest[3 * i + 1], unhx(rest[3 * i + 2]).decode()
        entries.append((rec, kind, val))
    import proto
    for rec, kind, val in entries:
        if kind in ("n", "N"):
            return "err:validate"
        if kind == "b":
            v = int(val)
            if v == 0 or v > 10000:
                return "err:validate"
        else:
            iv = parse_go_int(val)
            if iv is None or iv <= 0 or abs(iv) >= 2 ** 256:
                return "err:validate"
        if decode_addr(rec) is None:
            return "err:validate"
    for rec, kind, val in entries:
        if kind == "b":
            if A * int(val) >= 2 ** 256:
                return "err:compute"
            amt = A * int(val) // 10000
        else:
            amt = parse_go_int(val)
        if amt > 0:
            total += amt
            if total >= 2 ** 256:
                return "err:compute"
            credits.append((decode_addr(rec), amt))
    if total >= A:
        return "err:total"
    return "ok:total=%d;%s" % (total, ",".join("%s=%d" % (a.hex() if a else "-", m) for a, m in credits))


def parse_go_int(s):
    """big.Int.SetString(s, 0)"""
    import re
    m = re.fullmatch(r"([+-]?)(0[xX][0-9a-fA-F]+(?:_[0-9a-fA-F]+)*|0[bB][01]+(?:_[01]+)*|0[oO][0-7]+(?:_[0-7]+)*|0(?:_?[0-7]+)*|[1-9][0-9]*(?:_[0-9]+)*|0)", s)
    if not m:
        # Go also accepts "0x_1" style separators after the prefix
        m2 = re.fullmatch(r"([+-]?)(0[xX](?:_?[0-9a-fA-F]+)+|0[bB](?:_?[01]+)+|0[oO](?:_?[0-7]+)+)", s)
        if not m2:
            return None
        m = m2
    sign, body = m.group(1), m.group(2).replace("_", "")
    try:
        if body[:2].lower() == "0x":
            v = int(body[2:], 16)
        elif body[:2].lower() == "0b":
            v = int(body[2:], 2)
        elif body[:2].lower() == "0o":
            v = int(body[2:], 8)
        elif len(body) > 1 and body[0] == "0":
            v = int(body[1:], 8)
        else:
            v = int(body, 10)
    except ValueError:
        return None
    return -v if sign == "-" else v


def decode_addr(s):
    """sdk.AccAddressFromBech32 with prefix noble (independent python implementation)."""
    import bech32 as _b
    if s.strip() == "" or len(s) < 8 or len(s) > 1023:
        return None
    if any(ord(c) < 33 or ord(c) > 126 for c in s):
        return None
    if s.lower() != s and s.upper() != s:
        return None
    s = s.lower()
    pos = s.rfind("1")
    if pos < 1 or pos + 7 > len(s):
        return None
    hrp, data = s[:pos], s[pos + 1:]
    try:
        vals = [_b.CHARSET.index(c) for c in data]
    except ValueError:
        return None
    if _b.polymod(_b.hrp_expand(hrp) + vals) != 1:
        return None
    dec = _b.convertbits(vals[:-6], 5, 8, False)
    if dec is None or hrp != "noble" or len(dec) == 0 or len(dec) > 255:
        return None
    return bytes(dec)


def c04_oracle(steps):
    out = []
    for s in steps:
        if s.op != "pure":
            continue
        if s.impl_raw.startswith("panic"):
            out.append((s.i, "panic: fee computation panicked instead of refusing: " + s.line[:160]))
            continue
        exp = c04_expected(s.line)
        if exp is not None and exp != s.impl_raw:
            out.append((s.i, "fee-rule: expected %s got %s" % (exp[:160], s.impl_raw[:160])))
    return out


@prop
class C20(Base):
    id = "C20"
    assumptions = ["strconv / fmt decimal formatting of uint32 and int32 values is the usual decimal notation (tied by stream S1)"]

    def streams(self, tier, seed):
        r = Rng(seed * 1000 + 20)
        k = self.n(tier, 1, 10)
        lines = scen.id_grid(r.fork(1), 400 * k)
        return [Stream("S1-identifiers", lines, fields={"pure": ["_"]}, oracle=c20_oracle)]


def c20_oracle(steps):
    """canonicity: for CCTP/Hyperlane an accepted counterparty is the decimal form of a uint32;
    the textual form parses back; pure functions never panic."""
    import re
    out = []
    for s in steps:
        if s.op != "pure":
            continue
        f = s.line.split(" ")
        if s.impl_raw.startswith("panic"):
            out.append((s.i, "panic: " + s.line[:120]))
            continue
        if f[1] == "cpid" and f[2] in ("2", "3"):
            c = unhx(f[3]).decode("utf-8", "replace")
            canonical = bool(re.fullmatch(r"0|[1-9][0-9]*", c)) and int(c) < 2 ** 32
            if (s.impl_raw == "ok") != canonical:
                out.append((s.i, "non-canonical: counterparty %r for protocol %s is %s but canonical=%s" % (c, f[2], s.impl_raw, canonical)))
    # round trip ccid -> parseccid is checked through dedicated paired lines (the id text is fed back)
    return out
