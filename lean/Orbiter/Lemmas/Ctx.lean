/-
  What the primitive context operations and the modelled bridges do to the observable parts of the
  context (requests, events, calls, moves): used by C03, C05, C06.
-/
import Orbiter.Lemmas.Recv
namespace Orbiter

theorem Ctx.call_ok {φ : Faults} {c c' : Ctx} {site : String} (h : Ctx.call φ c site = .ok c') :
    c' = { c with calls := c.calls ++ [(site, c.count site + 1)] } ∧ φ site (c.count site + 1) = false := by
  unfold Ctx.call at h
  simp only at h
  split at h
  · cases h
  · rename_i hf
    simp only [Res.ok.injEq] at h
    exact ⟨h.symm, by simpa using hf⟩

theorem Ctx.send_ok {c c' : Ctx} {src dst : Addr} {d tag : String} {amt : Nat} (h : c.send src dst d amt tag = .ok c') :
    ∃ b, c.bank.send src dst d amt = some b ∧ c' = { c with bank := b, moves := c.moves ++ [.xfer src dst d amt] } := by
  unfold Ctx.send at h
  split at h
  · cases h
  · split at h
    · cases h
    · rename_i b hb
      simp only [Res.ok.injEq] at h
      exact ⟨b, hb, h.symm⟩

theorem Ctx.burn_ok {c c' : Ctx} {src : Addr} {d tag : String} {amt : Nat} (h : c.burn src d amt tag = .ok c') :
    ∃ b, c.bank.burn src d amt = some b ∧ c' = { c with bank := b, moves := c.moves ++ [.burn src d amt] } := by
  unfold Ctx.burn at h
  split at h
  · cases h
  · rename_i b hb
    simp only [Res.ok.injEq] at h
    exact ⟨b, hb, h.symm⟩

theorem Ctx.emit_ok {φ : Faults} {c c' : Ctx} {ev : String} (h : c.emit φ ev = .ok c') :
    c' = { c with calls := c.calls ++ [("event.Emit", c.count "event.Emit" + 1)], events := c.events ++ [ev] } := by
  unfold Ctx.emit at h
  obtain ⟨c1, h1, h⟩ := Res.bind_eq_ok.mp h
  obtain ⟨rfl, _⟩ := Ctx.call_ok h1
  simp only [Res.pure_eq, Res.ok.injEq] at h
  exact h.symm

/-- Requests are only ever appended by the controllers themselves. -/
theorem Ctx.call_reqs {φ : Faults} {c c' : Ctx} {site : String} (h : Ctx.call φ c site = .ok c') : c'.reqs = c.reqs := by
  rw [(Ctx.call_ok h).1]

theorem Ctx.send_reqs {c c' : Ctx} {src dst : Addr} {d tag : String} {amt : Nat} (h : c.send src dst d amt tag = .ok c') :
    c'.reqs = c.reqs := by
  obtain ⟨b, _, rfl⟩ := Ctx.send_ok h; rfl

theorem Ctx.burn_reqs {c c' : Ctx} {src : Addr} {d tag : String} {amt : Nat} (h : c.burn src d amt tag = .ok c') :
    c'.reqs = c.reqs := by
  obtain ⟨b, _, rfl⟩ := Ctx.burn_ok h; rfl

theorem Ctx.emit_reqs {φ : Faults} {c c' : Ctx} {ev : String} (h : c.emit φ ev = .ok c') : c'.reqs = c.reqs := by
  rw [Ctx.emit_ok h]

/-- A guard `if b then .err e else pure ()` that succeeded. -/
theorem guard_ok {b : Bool} {e : String} {u : Unit} (h : (if b = true then (Res.err e : Res Unit) else pure ()) = .ok u) : b = false := by
  cases b with
  | true => simp at h
  | false => rfl

theorem cctpDepositForBurn_reqs {cfg : Cfg} {c c' : Ctx} {amount : Int} {domain : Nat} {mint caller : Bytes} {tok : String}
    (h : cctpDepositForBurn cfg c amount domain mint tok caller = .ok c') : c'.reqs = c.reqs := by
  unfold cctpDepositForBurn at h
  simp only [Res.guard_bind_eq_ok, Res.bind_eq_ok, Res.pure_eq, Res.ok.injEq] at h
  obtain ⟨_, _, _, _, _, _, c1, h1, _, _, _, c2, h2, c3, h3, _, _, _, rfl⟩ := h
  rw [Ctx.burn_reqs h3, Ctx.send_reqs h2, Ctx.send_reqs h1]

/-- Whatever hook a transfer resolves to is one of the environment's hooks. -/
theorem hookFor_mem {e : ExtState} {ch : Bytes} {h : Hook} (hh : hookFor e ch = .ok h) : h ∈ e.hooks := by
  unfold hookFor at hh
  unfold ExtState.hooks
  split at hh
  · simp only [Res.ok.injEq] at hh; subst hh; exact List.mem_cons_self
  · split at hh
    · rename_i h' hr
      simp only [Res.ok.injEq] at hh; subst hh
      unfold resolveHook at hr
      simp only at hr
      split at hr
      · split at hr
        · simp only [Option.some.injEq] at hr; subst hr; simp
        · cases hr
      · split at hr
        · split at hr
          · cases hr
          · have := List.mem_of_getElem? hr
            simp [this]
        · cases hr
    · cases hh

theorem warpRemoteTransfer_reqs {cfg : Cfg} {c c' : Ctx} {token hook : Bytes} {domain : Nat} {amount gas feeAmt : Int} {feeDenom : String}
    (h : warpRemoteTransfer cfg c token domain amount gas feeDenom feeAmt hook = .ok c') : c'.reqs = c.reqs := by
  unfold warpRemoteTransfer at h
  simp only at h
  cases ht : lookupTok c.ext.hypTokens token with
  | none => simp [ht] at h
  | some origin =>
    simp only [ht, Res.pure_eq, Res.bind_ok] at h
    obtain ⟨c1, h1, h⟩ := Res.bind_eq_ok.mp h
    cases hr : lookupRouter c1.ext.hypRouters token domain with
    | none => simp [hr] at h
    | some rgas =>
      simp only [hr, Res.bind_ok, Res.guard_bind_eq_ok, Res.guard_panic_bind_eq_ok] at h
      obtain ⟨_, h⟩ := h
      obtain ⟨hk, _, h⟩ := Res.bind_eq_ok.mp h
      split at h
      · simp only [Res.ok.injEq] at h
        subst h
        exact Ctx.send_reqs h1
      · repeat' (first | (cases h; done) | split at h)
        all_goals (rw [Ctx.send_reqs h, Ctx.send_reqs h1])

theorem bankMsgSend_reqs {cfg : Cfg} {c c' : Ctx} {to denom : String} {amt : Int}
    (h : bankMsgSend cfg c to denom amt = .ok c') : c'.reqs = c.reqs := by
  unfold bankMsgSend at h
  repeat' (first | (cases h; done) | split at h)
  exact Ctx.send_reqs h

/-! ### external calls are only ever registered through `Ctx.call` -/

theorem Ctx.send_calls {c c' : Ctx} {src dst : Addr} {d tag : String} {amt : Nat} (h : c.send src dst d amt tag = .ok c') :
    c'.calls = c.calls := by
  obtain ⟨b, _, rfl⟩ := Ctx.send_ok h; rfl

theorem Ctx.burn_calls {c c' : Ctx} {src : Addr} {d tag : String} {amt : Nat} (h : c.burn src d amt tag = .ok c') :
    c'.calls = c.calls := by
  obtain ⟨b, _, rfl⟩ := Ctx.burn_ok h; rfl

theorem cctpDepositForBurn_calls {cfg : Cfg} {c c' : Ctx} {amount : Int} {domain : Nat} {mint caller : Bytes} {tok : String}
    (h : cctpDepositForBurn cfg c amount domain mint tok caller = .ok c') : c'.calls = c.calls := by
  unfold cctpDepositForBurn at h
  simp only [Res.guard_bind_eq_ok, Res.bind_eq_ok, Res.pure_eq, Res.ok.injEq] at h
  obtain ⟨_, _, _, _, _, _, c1, h1, _, _, _, c2, h2, c3, h3, _, _, _, rfl⟩ := h
  rw [Ctx.burn_calls h3, Ctx.send_calls h2, Ctx.send_calls h1]

theorem warpRemoteTransfer_calls {cfg : Cfg} {c c' : Ctx} {token hook : Bytes} {domain : Nat} {amount gas feeAmt : Int} {feeDenom : String}
    (h : warpRemoteTransfer cfg c token domain amount gas feeDenom feeAmt hook = .ok c') : c'.calls = c.calls := by
  unfold warpRemoteTransfer at h
  simp only at h
  cases ht : lookupTok c.ext.hypTokens token with
  | none => simp [ht] at h
  | some origin =>
    simp only [ht, Res.pure_eq, Res.bind_ok] at h
    obtain ⟨c1, h1, h⟩ := Res.bind_eq_ok.mp h
    cases hr : lookupRouter c1.ext.hypRouters token domain with
    | none => simp [hr] at h
    | some rgas =>
      simp only [hr, Res.bind_ok, Res.guard_bind_eq_ok, Res.guard_panic_bind_eq_ok] at h
      obtain ⟨_, h⟩ := h
      obtain ⟨hk, _, h⟩ := Res.bind_eq_ok.mp h
      split at h
      · simp only [Res.ok.injEq] at h
        subst h
        exact Ctx.send_calls h1
      · repeat' (first | (cases h; done) | split at h)
        all_goals (rw [Ctx.send_calls h, Ctx.send_calls h1])

theorem bankMsgSend_calls {cfg : Cfg} {c c' : Ctx} {to denom : String} {amt : Int}
    (h : bankMsgSend cfg c to denom amt = .ok c') : c'.calls = c.calls := by
  unfold bankMsgSend at h
  repeat' (first | (cases h; done) | split at h)
  exact Ctx.send_calls h

/-- No registered call was failed by the oracle. -/
def Ctx.Clean (φ : Faults) (c : Ctx) : Prop := ∀ s k, (s, k) ∈ c.calls → φ s k = false

theorem Ctx.call_clean {φ : Faults} {c c' : Ctx} {site : String} (hc : c.Clean φ) (h : Ctx.call φ c site = .ok c') : c'.Clean φ := by
  obtain ⟨rfl, hf⟩ := Ctx.call_ok h
  intro s k hm
  simp only [List.mem_append, List.mem_singleton, Prod.mk.injEq] at hm
  rcases hm with hm | ⟨rfl, rfl⟩
  · exact hc s k hm
  · exact hf

theorem Ctx.clean_of_calls_eq {φ : Faults} {c c' : Ctx} (hc : c.Clean φ) (h : c'.calls = c.calls) : c'.Clean φ := by
  intro s k hm; rw [h] at hm; exact hc s k hm

theorem Ctx.emit_clean {φ : Faults} {c c' : Ctx} {ev : String} (hc : c.Clean φ) (h : c.emit φ ev = .ok c') : c'.Clean φ := by
  unfold Ctx.emit at h
  obtain ⟨c1, h1, h⟩ := Res.bind_eq_ok.mp h
  simp only [Res.pure_eq, Res.ok.injEq] at h
  subst h
  exact Ctx.clean_of_calls_eq (Ctx.call_clean hc h1) rfl

end Orbiter
