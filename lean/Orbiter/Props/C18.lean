/-
  C18 — The passthrough payload size limit in force is enforced.
  The limit in force is `limit o = o.params.getD 0` (missing parameters are read as 0). The check is the
  first statement of the before-transfer hook, which runs before the wrapped ICS-20 application.
-/
import Orbiter.Lemmas.Recv
import Orbiter.Lemmas.Genesis
namespace Orbiter.C18
open Orbiter

def limit (o : OrbState) : Nat := o.params.getD 0

def passthroughOf (p : Payload) : Bytes := match p.forwarding with | some f => f.passthrough | none => []

/-- Coverage obligation: the default genesis of the built code has limit 0, as the model's default genesis. -/
theorem pin_default_limit : Gen.defaultMaxPassthroughPayloadSize = 0 ∧ ({} : Genesis).params = 0 := by decide

/-- The hook in terms of `limit` and `passthroughOf`. -/
theorem hook_eq (wr : Wiring) (φ : Faults) (o : OrbState) (c : Ctx) (t : TransferAttrs) (p : Payload) :
    beforeTransferHook wr φ o c t p =
    if limit o < (passthroughOf p).length then .err "adapter:passthrough-size"
    else if c.bank.bal wr.cfg.orbAddr t.dstDenom == 0 then .ok c
    else (c.call φ "bank.SendCoinsFromModuleToModule") >>= fun c1 =>
      c1.send wr.cfg.orbAddr wr.cfg.dustAddr t.dstDenom (c.bank.bal wr.cfg.orbAddr t.dstDenom) "adapter:sweep" := by
  unfold beforeTransferHook passthroughOf limit
  cases p.forwarding <;> (simp only [gt_iff_lt]; split <;> rfl)

/-- Too long ⇒ the hook refuses, before anything else happens in it (no sweep, no call). -/
theorem c18_hook_refuses (wr : Wiring) (φ : Faults) (o : OrbState) (c : Ctx) (t : TransferAttrs) (p : Payload)
    (h : (passthroughOf p).length > limit o) :
    beforeTransferHook wr φ o c t p = .err "adapter:passthrough-size" := by
  rw [hook_eq, if_pos h]

/-- Within the limit ⇒ the hook behaves exactly as with any other sufficient limit: the parameter is not
read anywhere else, so such a packet is never refused because of its passthrough size. -/
theorem c18_within_limit (wr : Wiring) (φ : Faults) (o : OrbState) (c : Ctx) (t : TransferAttrs) (p : Payload) (n : Nat)
    (h : (passthroughOf p).length ≤ limit o) (hn : (passthroughOf p).length ≤ n) :
    beforeTransferHook wr φ o c t p = beforeTransferHook wr φ { o with params := some n } c t p := by
  rw [hook_eq, hook_eq, if_neg (Nat.not_lt.mpr h),
    if_neg (show ¬ limit { o with params := some n } < (passthroughOf p).length from Nat.not_lt.mpr hn)]

/-- …and in particular the hook's result is not the size error. -/
theorem c18_within_limit_not_size_error (wr : Wiring) (φ : Faults) (o : OrbState) (c : Ctx) (t : TransferAttrs) (p : Payload)
    (h : (passthroughOf p).length ≤ limit o) :
    beforeTransferHook wr φ o c t p ≠ .err "adapter:passthrough-size" := by
  rw [hook_eq, if_neg (Nat.not_lt.mpr h)]
  split
  · intro hh; cases hh
  · cases hc : c.call φ "bank.SendCoinsFromModuleToModule" with
    | err e =>
      simp only [Res.bind_err]
      unfold Ctx.call at hc
      simp only at hc
      split at hc
      · cases hc; intro hh; exact absurd (Res.err.inj hh) (by decide)
      · cases hc
    | panic e => intro hh; cases hh
    | ok c1 =>
      simp only [Res.bind_ok]
      unfold Ctx.send
      split
      · intro hh; exact absurd (Res.err.inj hh) (by decide)
      · split
        · intro hh; exact absurd (Res.err.inj hh) (by decide)
        · intro hh; cases hh

/-- Packet level: an orbiter packet over the limit gets an error acknowledgement and nothing is committed —
in particular the ICS-20 credit never happens (the hook runs first). -/
theorem c18_enforced (wr : Wiring) (φ : Faults) (w : World) (pkt : Packet) (t : TransferAttrs) (p : Payload)
    (hpk : adaptPacket wr pkt = .ok (.orbiter t p)) (h : (passthroughOf p).length > limit w.orb) :
    (ibcRecv wr φ w pkt).ack.isSuccess = false ∧ (ibcRecv wr φ w pkt).world = w := by
  have hns : (ibcRecv wr φ w pkt).ack.isSuccess = false := by
    cases hs : (ibcRecv wr φ w pkt).ack.isSuccess with
    | false => rfl
    | true =>
      exfalso
      obtain ⟨c1, _, _, _, hb, _⟩ := ibcRecv_success_dispatch hs hpk
      rw [c18_hook_refuses wr φ w.orb (ctxOf w) t p h] at hb
      cases hb
  exact ⟨hns, ibcRecv_error_commits_nothing wr φ w pkt hns⟩

/-- The acknowledgement is the middleware's own size error, produced with the context untouched: the
wrapped application was not called, no coin moved. -/
theorem c18_refused_before_credit (wr : Wiring) (φ : Faults) (o : OrbState) (c0 : Ctx) (pkt : Packet) (t : TransferAttrs) (p : Payload)
    (hpre : crossChainValid PROTOCOL_IBC pkt.dstChan = true) (hsrc : (pkt.srcPort == "" || pkt.srcChan == "") = false)
    (hpk : adaptPacket wr pkt = .ok (.orbiter t p)) (h : (passthroughOf p).length > limit o) :
    mwOnRecv wr φ o c0 pkt = { ack := .orbError "adapter:passthrough-size", ctx := c0, orb := o } := by
  unfold mwOnRecv
  have hr : PROTOCOL_IBC ∈ Gen.adapterRoutes := by decide
  simp [hpre, hsrc, hr, hpk, c18_hook_refuses wr φ o c0 t p h]

/-- With default parameters (or none stored) only an empty passthrough is accepted. -/
theorem c18_default (wr : Wiring) (φ : Faults) (o : OrbState) (c : Ctx) (t : TransferAttrs) (p : Payload)
    (hd : o.params = none ∨ o.params = some Gen.defaultMaxPassthroughPayloadSize) (hne : passthroughOf p ≠ []) :
    beforeTransferHook wr φ o c t p = .err "adapter:passthrough-size" := by
  apply c18_hook_refuses
  have : limit o = 0 := by rcases hd with h | h <;> simp [limit, h, Gen.defaultMaxPassthroughPayloadSize]
  rw [this]
  exact List.length_pos_iff.mpr hne

/-! ### the limit in force is the value most recently set -/

/-- Messages other than `UpdateParams` never change the parameters. -/
theorem msg_preserves_params (cfg : Cfg) (φ : Faults) (o o' : OrbState) (m : Msg) (evs : List String) (rq : List Req)
    (hm : ∀ s n, m ≠ .updateParams s n) (h : msgStep cfg φ o m = .ok (o', evs, rq)) : o'.params = o.params := by
  have hsp : ∀ (o o' : OrbState) p, setPausedProtocol o p = .ok o' → o'.params = o.params := by
    intro o o' p h; rw [(setPausedProtocol_spec h).2]
  have hsu : ∀ (o o' : OrbState) p, setUnpausedProtocol o p = .ok o' → o'.params = o.params := by
    intro o o' p h; rw [(setUnpausedProtocol_spec h).2]
  have hcp : ∀ (o o' : OrbState) p c, setPausedCrossChain o p c = .ok o' → o'.params = o.params := by
    intro o o' p c h; rw [(setPausedCrossChain_spec h).2.2]
  have hcu : ∀ (o o' : OrbState) p c, setUnpausedCrossChain o p c = .ok o' → o'.params = o.params := by
    intro o o' p c h; rw [(setUnpausedCrossChain_spec h).2]
  have hap : ∀ (o o' : OrbState) a, setPausedAction o a = .ok o' → o'.params = o.params := by
    intro o o' p h; rw [(setPausedAction_spec h).2.2]
  have hau : ∀ (o o' : OrbState) a, setUnpausedAction o a = .ok o' → o'.params = o.params := by
    intro o o' p h; rw [(setUnpausedAction_spec h).2]
  have hfp : ∀ b (o o' : OrbState) p ids, forwarderPause b o p ids = .ok o' → o'.params = o.params := by
    intro b o o' p ids h
    unfold forwarderPause at h
    split at h
    · cases h
    · split at h
      · cases b
        · exact hsu _ _ _ h
        · exact hsp _ _ _ h
      · split at h
        · cases h
        · refine Res.foldlM_inv _ (fun x => x.params = o.params) ?_ ids o o' rfl h
          intro b1 a b2 hb hs
          cases b
          · simp only [Bool.false_eq_true, ↓reduceIte] at hs; rw [hcu _ _ _ _ hs, hb]
          · simp only [↓reduceIte] at hs; rw [hcp _ _ _ _ hs, hb]
  unfold msgStep at h
  split at h
  · cases h
  · cases m with
    | updateParams s n => exact absurd rfl (hm s n)
    | replaceDepositForBurn s a b c d => simp only at h; split at h <;> cases h
    | pauseProtocol s pid =>
      simp only at h
      cases hp : protocolIdFromString pid with
      | none => simp [hp] at h
      | some p =>
        simp only [hp] at h
        cases hf : forwarderPause true o p [] with
        | err e => simp [hf] at h
        | panic e => simp [hf] at h
        | ok o1 =>
          simp only [hf, Res.bind_ok] at h
          split at h
          · simp at h
          · simp only [Res.bind_ok, Res.pure_eq, Res.ok.injEq, Prod.mk.injEq] at h
            rw [← h.1]; exact hfp _ _ _ _ _ hf
    | unpauseProtocol s pid =>
      simp only at h
      cases hp : protocolIdFromString pid with
      | none => simp [hp] at h
      | some p =>
        simp only [hp] at h
        cases hf : forwarderPause false o p [] with
        | err e => simp [hf] at h
        | panic e => simp [hf] at h
        | ok o1 =>
          simp only [hf, Res.bind_ok] at h
          split at h
          · simp at h
          · simp only [Res.bind_ok, Res.pure_eq, Res.ok.injEq, Prod.mk.injEq] at h
            rw [← h.1]; exact hfp _ _ _ _ _ hf
    | pauseCrossChains s pid ids =>
      simp only at h
      cases hp : protocolIdFromString pid with
      | none => simp [hp] at h
      | some p =>
        simp only [hp] at h
        split at h
        · cases h
        · cases hf : forwarderPause true o p ids with
          | err e => simp [hf] at h
          | panic e => simp [hf] at h
          | ok o1 =>
            simp only [hf, Res.bind_ok] at h
            split at h
            · simp at h
            · simp only [Res.bind_ok, Res.pure_eq, Res.ok.injEq, Prod.mk.injEq] at h
              rw [← h.1]; exact hfp _ _ _ _ _ hf
    | unpauseCrossChains s pid ids =>
      simp only at h
      cases hp : protocolIdFromString pid with
      | none => simp [hp] at h
      | some p =>
        simp only [hp] at h
        split at h
        · cases h
        · cases hf : forwarderPause false o p ids with
          | err e => simp [hf] at h
          | panic e => simp [hf] at h
          | ok o1 =>
            simp only [hf, Res.bind_ok] at h
            split at h
            · simp at h
            · simp only [Res.bind_ok, Res.pure_eq, Res.ok.injEq, Prod.mk.injEq] at h
              rw [← h.1]; exact hfp _ _ _ _ _ hf
    | pauseAction s aid =>
      simp only at h
      cases hp : actionIdFromString aid with
      | none => simp [hp] at h
      | some a =>
        simp only [hp] at h
        cases hf : setPausedAction o a with
        | err e => simp [hf] at h
        | panic e => simp [hf] at h
        | ok o1 =>
          simp only [hf, Res.bind_ok] at h
          split at h
          · simp at h
          · simp only [Res.bind_ok, Res.pure_eq, Res.ok.injEq, Prod.mk.injEq] at h
            rw [← h.1]; exact hap _ _ _ hf
    | unpauseAction s aid =>
      simp only at h
      cases hp : actionIdFromString aid with
      | none => simp [hp] at h
      | some a =>
        simp only [hp] at h
        cases hf : setUnpausedAction o a with
        | err e => simp [hf] at h
        | panic e => simp [hf] at h
        | ok o1 =>
          simp only [hf, Res.bind_ok] at h
          split at h
          · simp at h
          · simp only [Res.bind_ok, Res.pure_eq, Res.ok.injEq, Prod.mk.injEq] at h
            rw [← h.1]; exact hau _ _ _ hf

/-- Genesis sets the limit to the value it carries. -/
theorem c18_genesis_sets (g : Genesis) (o : OrbState) (h : initGenesis g = .ok o) : limit o = g.params := by
  simp [limit, (initGenesis_pause g o h).2.2.2.2]

/-- An export/import round trip keeps the limit. -/
theorem reimport_preserves_limit (o : OrbState) : limit (reimportStep o).2 = limit o := by
  unfold reimportStep
  simp only
  cases h : initGenesis (exportGenesis o) with
  | ok o' => simp only; rw [c18_genesis_sets _ _ h]; rfl
  | err e => rfl
  | panic e => rfl

/-- Receiving never changes the limit. -/
theorem c18_recv_preserves (wr : Wiring) (φ : Faults) (w : World) (pkt : Packet) :
    limit (ibcRecv wr φ w pkt).orb = limit w.orb := by
  unfold limit
  rw [(ibcRecv_sameAdmin wr φ w pkt).2.2.2]

/-- The specification of the limit: only an `UpdateParams` signed by the authority changes it. -/
def specLimit (auth : String) (l : Nat) : Op → Nat
  | .msg (.updateParams s n) => if s = auth then n else l
  | _ => l

theorem c18_step_limit (wr : Wiring) (φ : Faults) (w : World) (op : Op) :
    limit (step wr φ w op).2.orb = specLimit wr.cfg.authority (limit w.orb) op := by
  cases op with
  | recv pkt => exact c18_recv_preserves wr φ w pkt
  | deposit a d n => rfl
  | env e => rfl
  | reimport => exact reimport_preserves_limit w.orb
  | msg m =>
    simp only [step]
    cases hm : msgStep wr.cfg φ w.orb m with
    | err e =>
      simp only
      cases m with
      | updateParams s n =>
        simp only [specLimit]
        split
        · rename_i hs; subst hs; simp [msgStep, Msg.signer] at hm
        · rfl
      | _ => rfl
    | panic e =>
      simp only
      cases m with
      | updateParams s n =>
        simp only [specLimit]
        split
        · rename_i hs; subst hs; simp [msgStep, Msg.signer] at hm
        · rfl
      | _ => rfl
    | ok r =>
      obtain ⟨o', evs, rq⟩ := r
      simp only
      cases m with
      | updateParams s n =>
        simp only [specLimit]
        by_cases hs : s = wr.cfg.authority
        · subst hs
          simp only [msgStep, Msg.signer, bne_self_eq_false, Bool.false_eq_true, ↓reduceIte, Res.ok.injEq, Prod.mk.injEq] at hm
          simp [← hm.1, limit]
        · simp [msgStep, Msg.signer, hs] at hm
      | pauseProtocol s x => exact congrArg (·.getD 0) (msg_preserves_params _ _ _ _ _ _ _ (by intro s n h; cases h) hm)
      | unpauseProtocol s x => exact congrArg (·.getD 0) (msg_preserves_params _ _ _ _ _ _ _ (by intro s n h; cases h) hm)
      | pauseCrossChains s x y => exact congrArg (·.getD 0) (msg_preserves_params _ _ _ _ _ _ _ (by intro s n h; cases h) hm)
      | unpauseCrossChains s x y => exact congrArg (·.getD 0) (msg_preserves_params _ _ _ _ _ _ _ (by intro s n h; cases h) hm)
      | replaceDepositForBurn s a b c d => exact congrArg (·.getD 0) (msg_preserves_params _ _ _ _ _ _ _ (by intro s n h; cases h) hm)
      | pauseAction s x => exact congrArg (·.getD 0) (msg_preserves_params _ _ _ _ _ _ _ (by intro s n h; cases h) hm)
      | unpauseAction s x => exact congrArg (·.getD 0) (msg_preserves_params _ _ _ _ _ _ _ (by intro s n h; cases h) hm)

/-- **History.** After any sequence of operations — transfers, admin messages by anybody, deposits,
environment changes, export/import round trips — the limit in force is the value of the last
`UpdateParams` signed by the authority, or the initial (genesis) value when there was none. -/
theorem c18_history (wr : Wiring) (w : World) (ops : List Op) :
    limit (run wr w ops).orb = ops.foldl (specLimit wr.cfg.authority) (limit w.orb) := by
  unfold run
  induction ops generalizing w with
  | nil => rfl
  | cons op rest ih =>
    simp only [List.foldl_cons]
    rw [ih, c18_step_limit]

/-! ### non-vacuity -/
example : specLimit "gov" 3 (.msg (.updateParams "gov" 7)) = 7 ∧ specLimit "gov" 3 (.msg (.updateParams "eve" 7)) = 3 := by decide
example : passthroughOf { preActions := [], forwarding := some { protocolId := 2, attrs := none, passthrough := [1, 2] } } = [1, 2] := rfl

end Orbiter.C18
