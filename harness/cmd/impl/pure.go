package main

import (
	"fmt"
	"strconv"
	"strings"
	"sync"

	sdkmath "cosmossdk.io/math"
	"github.com/cosmos/cosmos-sdk/codec"
	codectypes "github.com/cosmos/cosmos-sdk/codec/types"
	sdk "github.com/cosmos/cosmos-sdk/types"
	channeltypes "github.com/cosmos/ibc-go/v8/modules/core/04-channel/types"

	orbiter "github.com/noble-assets/orbiter/v2"
	actionctrl "github.com/noble-assets/orbiter/v2/controller/action"
	adapterctrl "github.com/noble-assets/orbiter/v2/controller/adapter"
	orbtypes "github.com/noble-assets/orbiter/v2/types"
	actiontypes "github.com/noble-assets/orbiter/v2/types/controller/action"
	fwdtypes "github.com/noble-assets/orbiter/v2/types/controller/forwarding"
	"github.com/noble-assets/orbiter/v2/types/core"

	"verifharness/app"
)

var (
	pureOnce sync.Once
	pureCdc  codec.Codec
)

func getPureCdc() codec.Codec {
	pureOnce.Do(func() {
		app.SetPrefixes()
		reg := codectypes.NewInterfaceRegistry()
		orbiter.RegisterInterfaces(reg)
		pureCdc = codec.NewProtoCodec(reg)
	})
	return pureCdc
}

func pureOp(f []string) (out string) {
	defer func() {
		if r := recover(); r != nil {
			out = "panic"
		}
	}()
	app.SetPrefixes()
	if len(f) == 0 {
		return "bad-op"
	}
	switch f[0] {
	case "feeamt":
		amt, ok := sdkmath.NewIntFromString(f[1])
		if !ok {
			return "bad-op"
		}
		bps, err := strconv.ParseUint(f[2], 10, 64)
		if err != nil {
			return "bad-op"
		}
		r, err := actionctrl.ComputeFeeAmount(amt, bps)
		if err != nil {
			return "err"
		}
		return "ok:" + r.String()
	case "fees":
		return pureFees(f[1:])
	case "cpid":
		p, _ := strconv.ParseInt(f[1], 10, 32)
		if err := core.ValidateCounterpartyID(mustUnhx(f[2]), core.ProtocolID(p)); err != nil {
			return "err"
		}
		return "ok"
	case "ccid":
		p, _ := strconv.ParseInt(f[1], 10, 32)
		id, err := core.NewCrossChainID(core.ProtocolID(p), mustUnhx(f[2]))
		if err != nil {
			return "err"
		}
		return "ok:" + hx(id.ID())
	case "parseccid":
		id, err := core.ParseCrossChainID(mustUnhx(f[1]))
		if err != nil {
			return "err"
		}
		return fmt.Sprintf("ok:%d:%s", int32(id.ProtocolId), hx(id.CounterpartyId))
	case "pidstr":
		id, err := core.NewProtocolIDFromString(mustUnhx(f[1]))
		if err != nil {
			return "err"
		}
		return fmt.Sprintf("ok:%d", int32(id))
	case "aidstr":
		id, err := core.NewActionIDFromString(mustUnhx(f[1]))
		if err != nil {
			return "err"
		}
		return fmt.Sprintf("ok:%d", int32(id))
	case "pidval":
		p, _ := strconv.ParseInt(f[1], 10, 32)
		if err := core.ProtocolID(p).Validate(); err != nil {
			return "err"
		}
		return "ok"
	case "aidval":
		p, _ := strconv.ParseInt(f[1], 10, 32)
		if err := core.ActionID(p).Validate(); err != nil {
			return "err"
		}
		return "ok"
	case "denom":
		d, err := adapterctrl.RecoverNativeDenom(mustUnhx(f[1]), mustUnhx(f[2]), mustUnhx(f[3]))
		if err != nil {
			return "err"
		}
		return "ok:" + hx(d)
	case "parse", "parse2":
		return pureParse(mustUnhx(f[1]))
	case "parsel":
		return pureParseWith(mustUnhx(f[1]), true)
	case "bech32":
		a, err := sdk.AccAddressFromBech32(mustUnhx(f[1]))
		if err != nil {
			return "err"
		}
		return "ok:" + hxb(a)
	case "ics20":
		d, err := adapterctrl.GetICS20PacketData([]byte(mustUnhx(f[1])))
		if err != nil {
			return "err"
		}
		return "ok:" + strings.Join([]string{hx(d.Denom), hx(d.Amount), hx(d.Sender), hx(d.Receiver), hx(d.Memo)}, ":")
	case "bigint":
		i, ok := sdkmath.NewIntFromString(mustUnhx(f[1]))
		if !ok {
			return "err"
		}
		return "ok:" + i.String()
	case "chanid":
		if channeltypes.IsValidChannelID(mustUnhx(f[1])) {
			return "ok"
		}
		return "err"
	case "validdenom":
		if sdk.ValidateDenom(mustUnhx(f[1])) == nil {
			return "ok"
		}
		return "err"
	case "marshal":
		return pureMarshal(f[1:])
	case "attr":
		return pureAttr(f[1:])
	case "stats":
		return pureStats(f[1:])
	}
	return "bad-op"
}

// fees <amount> <denomHex> <k> (<recipientHex> <b|a|n> <valueHex>)*
func buildFeeInfos(f []string) ([]*actiontypes.FeeInfo, []string, bool) {
	k, err := strconv.Atoi(f[0])
	if err != nil || len(f) < 1+3*k {
		return nil, nil, false
	}
	infos := make([]*actiontypes.FeeInfo, 0, k)
	for i := 0; i < k; i++ {
		rec, kind, val := mustUnhx(f[1+3*i]), f[2+3*i], mustUnhx(f[3+3*i])
		fi := &actiontypes.FeeInfo{Recipient: rec}
		switch kind {
		case "b":
			v, err := strconv.ParseUint(val, 10, 32)
			if err != nil {
				return nil, nil, false
			}
			fi.FeeType = &actiontypes.FeeInfo_BasisPoints_{BasisPoints: &actiontypes.FeeInfo_BasisPoints{Value: uint32(v)}}
		case "a":
			fi.FeeType = &actiontypes.FeeInfo_Amount_{Amount: &actiontypes.FeeInfo_Amount{Value: val}}
		case "n":
		case "N": // nil list element
			fi = nil
		default:
			return nil, nil, false
		}
		infos = append(infos, fi)
	}
	return infos, f[1+3*k:], true
}

func pureFees(f []string) string {
	amt, ok := sdkmath.NewIntFromString(f[0])
	if !ok {
		return "bad-op"
	}
	denom := mustUnhx(f[1])
	infos, _, ok := buildFeeInfos(f[2:])
	if !ok {
		return "bad-op"
	}
	attr := &actiontypes.FeeAttributes{FeesInfo: infos}
	if err := attr.Validate(); err != nil {
		return "err:validate"
	}
	c := &actionctrl.FeeController{}
	fees, err := c.ComputeFeesToDistribute(amt, denom, infos)
	if err != nil {
		return "err:compute"
	}
	if fees.Total.GTE(amt) {
		return "err:total"
	}
	parts := make([]string, 0, len(fees.Values))
	for _, v := range fees.Values {
		parts = append(parts, hxb(v.Recipient)+"="+v.Amount.AmountOf(denom).String())
	}
	return "ok:total=" + fees.Total.String() + ";" + strings.Join(parts, ",")
}

func canonInt(i sdkmath.Int) string {
	if i.IsNil() {
		return "nil"
	}
	return i.String()
}

func canonAttr(a *codectypes.Any) string {
	if a == nil {
		return "nil"
	}
	switch v := a.GetCachedValue().(type) {
	case *fwdtypes.CCTPAttributes:
		if v == nil {
			return "nilcctp"
		}
		return fmt.Sprintf("cctp(%d,%s,%s)", v.DestinationDomain, hxb(v.MintRecipient), hxb(v.DestinationCaller))
	case *fwdtypes.HypAttributes:
		if v == nil {
			return "nilhyp"
		}
		return fmt.Sprintf("hyp(%s,%d,%s,%s,%s,%s,%s,%s)", hxb(v.TokenId), v.DestinationDomain, hxb(v.Recipient),
			hxb(v.CustomHookId), hx(v.CustomHookMetadata), canonInt(v.GasLimit), hx(v.MaxFee.Denom), canonInt(v.MaxFee.Amount))
	case *fwdtypes.InternalAttributes:
		if v == nil {
			return "nilint"
		}
		return fmt.Sprintf("int(%s)", hx(v.Recipient))
	case *actiontypes.FeeAttributes:
		if v == nil {
			return "nilfee"
		}
		parts := make([]string, 0, len(v.FeesInfo))
		for _, fi := range v.FeesInfo {
			if fi == nil {
				parts = append(parts, "null")
				continue
			}
			t := "nil"
			switch ft := fi.FeeType.(type) {
			case *actiontypes.FeeInfo_BasisPoints_:
				if ft == nil || ft.BasisPoints == nil {
					t = "b:nil"
				} else {
					t = fmt.Sprintf("b:%d", ft.BasisPoints.Value)
				}
			case *actiontypes.FeeInfo_Amount_:
				if ft == nil || ft.Amount == nil {
					t = "a:nil"
				} else {
					t = "a:" + hx(ft.Amount.Value)
				}
			}
			parts = append(parts, hx(fi.Recipient)+":"+t)
		}
		return "fee([" + strings.Join(parts, ",") + "])"
	default:
		return "other(" + hx(a.TypeUrl) + ")"
	}
}

func canonPayload(p *core.Payload) string {
	if p == nil {
		return "nilpayload"
	}
	var sb strings.Builder
	if p.Forwarding == nil {
		sb.WriteString("fwd{nil}")
	} else {
		fmt.Fprintf(&sb, "fwd{pid=%d;attr=%s;pt=%s}", int32(p.Forwarding.ProtocolId),
			canonAttr(p.Forwarding.Attributes), hxb(p.Forwarding.PassthroughPayload))
	}
	sb.WriteString(";acts[")
	for i, a := range p.PreActions {
		if i > 0 {
			sb.WriteString(",")
		}
		if a == nil {
			sb.WriteString("null")
			continue
		}
		fmt.Fprintf(&sb, "{id=%d;attr=%s}", int32(a.Id), canonAttr(a.Attributes))
	}
	sb.WriteString("]")
	return sb.String()
}

// the parser a node keeps for its whole life (parsel), against a fresh one per memo (parse)
var longLivedParser *adapterctrl.IBCParser

func pureParseWith(memo string, longLived bool) string {
	var parser *adapterctrl.IBCParser
	var err error
	if longLived {
		if longLivedParser == nil {
			longLivedParser, err = adapterctrl.NewIBCParser(getPureCdc())
			if err != nil {
				return "bad-op"
			}
		}
		parser = longLivedParser
	} else {
		parser, err = adapterctrl.NewIBCParser(getPureCdc())
		if err != nil {
			return "bad-op"
		}
	}
	return pureParseOn(parser, memo)
}

func pureParse(memo string) string { return pureParseWith(memo, false) }

func pureParseOn(parser *adapterctrl.IBCParser, memo string) string {
	// the adapter's outermost parsing function (parse, then validate; a payload that fails validation is still returned)
	p, err := parser.ParsePayload([]byte(memo))
	if err != nil && p == nil {
		return "err:p"
	}
	if p == nil {
		return "err:nilpayload"
	}
	if err != nil {
		return "err:v:" + canonPayload(p)
	}
	return "ok:" + canonPayload(p)
}

// forwarding spec: cctp:<domain>:<mintHex>:<callerHex>:<ptHex> | hyp:<tok>:<domain>:<rec>:<hook>:<meta>:<gas>:<feeDenom>:<feeAmt>:<pt> | int:<recipientHex>
func buildForwarding(spec string) (*core.Forwarding, error) {
	p := strings.Split(spec, ":")
	switch p[0] {
	case "cctp":
		d, err := strconv.ParseUint(p[1], 10, 32)
		if err != nil {
			return nil, err
		}
		return fwdtypes.NewCCTPForwarding(uint32(d), []byte(mustUnhx(p[2])), []byte(mustUnhx(p[3])), []byte(mustUnhx(p[4])))
	case "hyp":
		d, err := strconv.ParseUint(p[2], 10, 32)
		if err != nil {
			return nil, err
		}
		gas, ok := sdkmath.NewIntFromString(p[6])
		if !ok {
			return nil, fmt.Errorf("gas")
		}
		feeAmt, ok := sdkmath.NewIntFromString(p[8])
		if !ok {
			return nil, fmt.Errorf("fee")
		}
		return fwdtypes.NewHyperlaneForwarding([]byte(mustUnhx(p[1])), uint32(d), []byte(mustUnhx(p[3])),
			[]byte(mustUnhx(p[4])), mustUnhx(p[5]), gas, sdk.Coin{Denom: mustUnhx(p[7]), Amount: feeAmt}, []byte(mustUnhx(p[9])))
	case "int":
		return fwdtypes.NewInternalForwarding(mustUnhx(p[1]))
	}
	return nil, fmt.Errorf("bad spec")
}

// marshal <fwdspec> <nActions> (fee <k> (<rec> <b|a> <val>)*)*
func pureMarshal(f []string) string {
	fw, err := buildForwarding(f[0])
	if err != nil {
		return "err:fwd"
	}
	n, err := strconv.Atoi(f[1])
	if err != nil {
		return "bad-op"
	}
	rest := f[2:]
	var acts []*core.Action
	for i := 0; i < n; i++ {
		if rest[0] != "fee" {
			return "bad-op"
		}
		rawInfos, r2, ok := buildFeeInfos(rest[1:])
		if !ok {
			return "bad-op"
		}
		rest = r2
		// go through the public constructors
		infos := make([]*actiontypes.FeeInfo, 0, len(rawInfos))
		for _, ri := range rawInfos {
			var fi *actiontypes.FeeInfo
			var err error
			switch ft := ri.FeeType.(type) {
			case *actiontypes.FeeInfo_BasisPoints_:
				b, e := actiontypes.NewFeeBasisPoints(ft.BasisPoints.Value)
				if e != nil {
					return "err:act"
				}
				fi, err = actiontypes.NewFeeInfo(ri.Recipient, b)
			case *actiontypes.FeeInfo_Amount_:
				a, e := actiontypes.NewFeeAmount(ft.Amount.Value)
				if e != nil {
					return "err:act"
				}
				fi, err = actiontypes.NewFeeInfo(ri.Recipient, a)
			default:
				return "err:act"
			}
			if err != nil {
				return "err:act"
			}
			infos = append(infos, fi)
		}
		a, err := actiontypes.NewFeeAction(infos...)
		if err != nil {
			return "err:act"
		}
		acts = append(acts, a)
	}
	pw, err := core.NewPayloadWrapper(fw, acts...)
	if err != nil {
		return "err:payload"
	}
	bz, err := orbtypes.MarshalJSON(getPureCdc(), pw)
	if err != nil {
		return "err:marshal"
	}
	return "ok:" + hxb(bz)
}

// attr cctp <domain> <mintHex> <callerHex> | attr hyp <tok> <domain> <rec> <hook> <meta> | attr int <recipientHex>
func pureAttr(f []string) string {
	var a core.ForwardingAttributes
	var verr error
	switch f[0] {
	case "cctp":
		d, _ := strconv.ParseUint(f[1], 10, 32)
		x := &fwdtypes.CCTPAttributes{DestinationDomain: uint32(d), MintRecipient: []byte(mustUnhx(f[2])), DestinationCaller: []byte(mustUnhx(f[3]))}
		a, verr = x, x.Validate()
	case "hyp":
		d, _ := strconv.ParseUint(f[2], 10, 32)
		x := &fwdtypes.HypAttributes{TokenId: []byte(mustUnhx(f[1])), DestinationDomain: uint32(d), Recipient: []byte(mustUnhx(f[3])),
			CustomHookId: []byte(mustUnhx(f[4])), CustomHookMetadata: mustUnhx(f[5]),
			// as after the Any round trip every decoded payload goes through: an unset amount is zero, not nil
			MaxFee: sdk.Coin{Amount: sdkmath.ZeroInt()}}
		a, verr = x, x.Validate()
	case "int":
		x := &fwdtypes.InternalAttributes{Recipient: mustUnhx(f[1])}
		a, verr = x, x.Validate()
	default:
		return "bad-op"
	}
	v := "ok"
	if verr != nil {
		v = "err"
	}
	return v + ":" + hx(a.CounterpartyID())
}

// stats <srcDenomHex> <srcAmt> <dstDenomHex> <dstAmt>
func pureStats(f []string) string {
	sa, ok1 := sdkmath.NewIntFromString(f[1])
	da, ok2 := sdkmath.NewIntFromString(f[3])
	if !ok1 || !ok2 {
		return "bad-op"
	}
	ta, err := core.NewTransferAttributes(core.PROTOCOL_IBC, "channel-0", mustUnhx(f[0]), sa)
	if err != nil {
		return "err"
	}
	ta.SetDestinationDenom(mustUnhx(f[2]))
	ta.SetDestinationAmount(da)
	// BuildDenomDispatchedAmounts returns an unexported element type: use it through its exported fields.
	d := dispatcherForStats()
	ddas, err := d.BuildDenomDispatchedAmounts(ta)
	if err != nil {
		return "err"
	}
	parts := make([]string, 0, 2)
	for _, x := range ddas {
		parts = append(parts, fmt.Sprintf("%s:%s/%s", hx(x.Denom), x.AmountDispatched.Incoming, x.AmountDispatched.Outgoing))
	}
	return "ok:" + strings.Join(parts, ",")
}
