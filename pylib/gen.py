"""Generators (DESIGN.md §4.3). Every random choice derives from one splitmix64 state."""
import json

from proto import (AUTHORITY, CCTP_URL, DUST, FEE_URL, HYP_URL, INT_URL, ORB, ORB_BYTES, addr, b32, b64, cctp_fwd, fee_action, ftpd,
                   hx, hyp_fwd, int_fwd, memo, msg_line, orb_pkt, pkt_line)

MASK = (1 << 64) - 1


class Rng:
    def __init__(self, seed):
        self.s = (seed * 0x9E3779B97F4A7C15 + 0x1234567) & MASK

    def next(self):
        self.s = (self.s + 0x9E3779B97F4A7C15) & MASK
        z = self.s
        z = ((z ^ (z >> 30)) * 0xBF58476D1CE4E5B9) & MASK
        z = ((z ^ (z >> 27)) * 0x94D049BB133111EB) & MASK
        return z ^ (z >> 31)

    def below(self, n):
        return self.next() % n if n > 0 else 0

    def range(self, lo, hi):
        return lo + self.below(hi - lo + 1)

    def choice(self, l):
        return l[self.below(len(l))]

    def chance(self, num, den):
        return self.below(den) < num

    def bytes(self, n):
        return bytes(self.below(256) for _ in range(n))

    def shuffle(self, l):
        l = list(l)
        for i in range(len(l) - 1, 0, -1):
            j = self.below(i + 1)
            l[i], l[j] = l[j], l[i]
        return l

    def fork(self, k):
        return Rng(self.next() ^ (k * 0x632BE59BD9B4E019))


USERS = [addr(i) for i in range(1, 9)]
U = [b32(a) for a in USERS]
CHANNELS = ["channel-0", "channel-1"]
SRC_CHANNELS = ["channel-7", "channel-0", "channel-12"]
DENOMS = ["uusdc", "uother"]
CCTP_DOMAINS = [0, 1, 5]
PROTO_NAMES = ["PROTOCOL_IBC", "PROTOCOL_CCTP", "PROTOCOL_HYPERLANE", "PROTOCOL_INTERNAL"]
ACTION_NAMES = ["ACTION_FEE", "ACTION_SWAP"]

AMOUNTS = [1, 2, 9999, 10000, 10001, 123456789, 10 ** 18, 2 ** 64 - 1, 2 ** 64 + 1,
           # the widths of the machine integers and what a basis-point product makes of them
           2 ** 31, 2 ** 32, 2 ** 53 + 1, 2 ** 63 - 1, 2 ** 63, 2 ** 64 // 10000, 2 ** 64 // 10000 + 1, 2 ** 64 // 100 + 1, 10 ** 19, 2 ** 64, 2 ** 128]
BPS = [1, 2, 50, 100, 2500, 9999, 10000]


def rand_amount(r):
    k = r.below(10)
    if k < 5:
        return r.choice(AMOUNTS)
    if k < 8:
        return r.range(1, 10 ** 7)
    return r.range(1, 10 ** 24)


def rand_fee_entries(r, amount, maxn=5):
    n = r.below(maxn + 1)
    out = []
    for _ in range(n):
        rec = r.choice(U)
        if r.chance(1, 2):
            out.append((rec, "b", r.choice(BPS) if r.chance(2, 3) else r.range(1, 10000)))
        else:
            v = r.choice([1, 7, amount // 3 if amount > 3 else 1, amount // 2 if amount > 2 else 1, r.range(1, max(1, amount))])
            out.append((rec, "a", max(1, v)))
    return out


def rand_forwarding(r, hyp_tokens=None, valid=True):
    k = r.below(3 if hyp_tokens else 2)
    pt = None
    if k == 0:
        caller = r.choice([None, None, b"\x05" * 32, r.bytes(32)])
        mint = r.choice([b"\x00" * 12 + b"\x07" * 20, r.bytes(32), b"\x01" * 32])
        return cctp_fwd(domain=r.choice(CCTP_DOMAINS), mint=mint, caller=caller, passthrough=pt)
    if k == 1:
        return int_fwd(r.choice(U))
    tok, denom = r.choice(hyp_tokens)
    return hyp_fwd(tok, domain=r.choice([1, 2]), recipient=r.bytes(32), hook=None, meta=r.choice([None, "", "0x", "0xabcd"]),
                   gas=r.choice([None, 0, 50000]), fee=r.choice([None, ("uusdc", 0), ("uusdc", 10)]))


def fwd_denom(fwd, hyp_tokens):
    """denomination a forwarding can carry (CCTP burns only uusdc; a warp token has one origin denom)."""
    if fwd["protocol_id"] == "PROTOCOL_CCTP":
        return "uusdc"
    if fwd["protocol_id"] == "PROTOCOL_HYPERLANE" and hyp_tokens:
        tok = fwd["attributes"].get("token_id")
        for t, d in hyp_tokens:
            if b64(t) == tok:
                return d
    return None


def rand_transfer(r, op="recv", hyp_tokens=None):
    """A mostly valid orbiter transfer line."""
    fwd = rand_forwarding(r, hyp_tokens)
    denom = fwd_denom(fwd, hyp_tokens) or r.choice(DENOMS)
    amount = rand_amount(r)
    acts = None
    if r.chance(3, 5):
        acts = [fee_action(rand_fee_entries(r, amount))]
    dst = r.choice(CHANNELS)
    src = r.choice(SRC_CHANNELS)
    return orb_pkt(op, amount, fwd, acts, denom=denom, src_chan=src, dst_chan=dst)


def hyp_setup_lines(tokens):
    """tokens: list of (token id bytes, denom, [(domain, gas)])."""
    lines = []
    for tok, denom, routers in tokens:
        lines.append("env hyp setup " + hx(denom))
        lines.append("env hyp token %s %s" % (hx(tok), hx(denom)))
        for dom, gas in routers:
            lines.append("env hyp enroll %s %d %d" % (hx(tok), dom, gas))
    return lines
