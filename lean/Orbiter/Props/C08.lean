/-
  C08 — A paused protocol or destination is never forwarded to; others are unaffected.
  Abstract specification: two sets (protocols, (protocol, counterparty) pairs) changed only by successful
  messages; the forwarder consults exactly these sets.  C09 reuses the construction for actions.
-/
import Orbiter.Lemmas.Recv
import Orbiter.Lemmas.Genesis
namespace Orbiter.C08
open Orbiter

/-! ### well-formedness of the stored sets (no duplicates), an invariant of every operation -/

def WF (o : OrbState) : Prop := o.pausedProtocols.Nodup ∧ o.pausedCrossChains.Nodup ∧ o.pausedActions.Nodup

theorem WF_empty : WF {} := ⟨List.nodup_nil, List.nodup_nil, List.nodup_nil⟩

theorem WF_of_sameAdmin {a b : OrbState} (h : a.sameAdmin b) (hb : WF b) : WF a := by
  obtain ⟨h1, h2, h3, _⟩ := h
  exact ⟨h1 ▸ hb.1, h2 ▸ hb.2.1, h3 ▸ hb.2.2⟩

/-! ### the abstract specification -/

structure PauseSpec where
  protocols : Int → Bool
  cross : Int × String → Bool
  actions : Int → Bool

def abs (o : OrbState) : PauseSpec :=
  { protocols := fun p => o.pausedProtocols.contains p
    cross := fun pc => o.pausedCrossChains.contains pc
    actions := fun a => o.pausedActions.contains a }

theorem abs_of_sameAdmin {a b : OrbState} (h : a.sameAdmin b) : abs a = abs b := by
  obtain ⟨h1, h2, h3, _⟩ := h
  simp [abs, h1, h2, h3]

/-! ### enforcement: the forwarder refuses exactly on these sets -/

/-- A paused protocol is never forwarded to: whatever the packet, the wiring, the faults. -/
theorem c08_protocol_enforced (wr : Wiring) (φ : Faults) (o : OrbState) (c c' : Ctx) (t : TransferAttrs) (f : Forwarding)
    (hp : (abs o).protocols f.protocolId = true) : forwarderHandle wr φ o c t f ≠ .ok c' := by
  intro h
  unfold forwarderHandle at h
  cases hv : (f.validate >>= fun _ => t.validate) with
  | err e => simp [hv, Res.mapErr] at h
  | panic e => simp [hv, Res.mapErr] at h
  | ok u =>
    simp only [hv, Res.mapErr, Res.bind_ok] at h
    cases ha : f.attrs with
    | none => simp [ha] at h
    | some a =>
      simp only [ha, Res.pure_eq, Res.bind_ok] at h
      have : f.protocolId ∈ o.pausedProtocols := by simpa [abs] using hp
      simp [this] at h

/-- A paused (protocol, counterparty) pair is never forwarded to. The counterparty is the one the
attributes produce (C20: the decimal form of the domain). -/
theorem c08_cross_chain_enforced (wr : Wiring) (φ : Faults) (o : OrbState) (c c' : Ctx) (t : TransferAttrs) (f : Forwarding)
    (a : Attrs) (ha : f.attrs = some a) (hp : (abs o).cross (f.protocolId, a.counterpartyID) = true) :
    forwarderHandle wr φ o c t f ≠ .ok c' := by
  intro h
  unfold forwarderHandle at h
  cases hv : (f.validate >>= fun _ => t.validate) with
  | err e => simp [hv, Res.mapErr] at h
  | panic e => simp [hv, Res.mapErr] at h
  | ok u =>
    simp only [hv, Res.mapErr, Res.bind_ok, ha, Res.pure_eq] at h
    have hc : (f.protocolId, a.counterpartyID) ∈ o.pausedCrossChains := by simpa [abs] using hp
    by_cases h1 : f.protocolId ∈ o.pausedProtocols
    · simp [h1] at h
    · by_cases h2 : crossChainValid f.protocolId a.counterpartyID = false
      · simp [h1, h2] at h
      · simp [h1, h2, hc] at h

/-- Others are unaffected: when neither the protocol nor the pair is paused, the forwarder behaves exactly
as with empty pause sets. -/
theorem c08_others_unaffected (wr : Wiring) (φ : Faults) (o : OrbState) (c : Ctx) (t : TransferAttrs) (f : Forwarding)
    (hp : (abs o).protocols f.protocolId = false)
    (hc : ∀ a, f.attrs = some a → (abs o).cross (f.protocolId, a.counterpartyID) = false) :
    forwarderHandle wr φ o c t f = forwarderHandle wr φ { o with pausedProtocols := [], pausedCrossChains := [] } c t f := by
  unfold forwarderHandle
  cases hv : (f.validate >>= fun _ => t.validate) with
  | err e => simp [Res.mapErr]
  | panic e => simp [Res.mapErr]
  | ok u =>
    simp only [Res.mapErr, Res.bind_ok]
    cases ha : f.attrs with
    | none => rfl
    | some a =>
      have h1 : f.protocolId ∉ o.pausedProtocols := by simpa [abs] using hp
      have h2 : (f.protocolId, a.counterpartyID) ∉ o.pausedCrossChains := by simpa [abs] using hc a ha
      simp [h1, h2]

/-- Packet level: a transfer whose forwarding is paused cannot be dispatched, so the acknowledgement is an
error and (C03) nothing is committed. -/
theorem c08_paused_not_dispatched (wr : Wiring) (φ : Faults) (o : OrbState) (c : Ctx) (t : TransferAttrs) (p : Payload)
    (f : Forwarding) (hf : p.forwarding = some f)
    (hp : (abs o).protocols f.protocolId = true ∨ ∃ a, f.attrs = some a ∧ (abs o).cross (f.protocolId, a.counterpartyID) = true)
    (r : Ctx × TransferAttrs × OrbState) : dispatchPayload wr φ o c t p ≠ .ok r := by
  intro h
  unfold dispatchPayload at h
  cases hv : p.validate with
  | err e => simp [hv, Res.mapErr] at h
  | panic e => simp [hv, Res.mapErr] at h
  | ok u =>
    simp only [hv, Res.mapErr, Res.bind_ok] at h
    cases hd : dispatchActions wr φ o p.preActions c t with
    | err e => simp [hd] at h
    | panic e => simp [hd] at h
    | ok r1 =>
      obtain ⟨c1, t1⟩ := r1
      simp only [hd, Res.bind_ok, hf, Res.pure_eq] at h
      cases hfw : forwarderHandle wr φ o c1 t1 f with
      | err e => simp [hfw] at h
      | panic e => simp [hfw] at h
      | ok c2 =>
        rcases hp with hp | ⟨a, ha, hp⟩
        · exact c08_protocol_enforced wr φ o c1 c2 t1 f hp hfw
        · exact c08_cross_chain_enforced wr φ o c1 c2 t1 f a ha hp hfw

/-! ### the state changes only through successful messages, as the specification says -/

/-- A successful protocol pause adds exactly that protocol; a redundant one fails (and changes nothing). -/
theorem c08_pause_protocol_spec (o o' : OrbState) (p : Int) (h : setPausedProtocol o p = .ok o') :
    (abs o).protocols p = false ∧
    (abs o').protocols = (fun q => q == p || (abs o).protocols q) ∧ (abs o').cross = (abs o).cross ∧ (abs o').actions = (abs o).actions := by
  obtain ⟨h1, rfl⟩ := setPausedProtocol_spec h
  refine ⟨h1, ?_, rfl, rfl⟩
  funext q
  simp only [abs]
  exact contains_insertBy intLt p q o.pausedProtocols

theorem c08_unpause_protocol_spec (o o' : OrbState) (p : Int) (hwf : WF o) (h : setUnpausedProtocol o p = .ok o') :
    (abs o).protocols p = true ∧
    (abs o').protocols = (fun q => (abs o).protocols q && !(q == p)) ∧ (abs o').cross = (abs o).cross ∧ (abs o').actions = (abs o).actions := by
  obtain ⟨h1, rfl⟩ := setUnpausedProtocol_spec h
  refine ⟨h1, ?_, rfl, rfl⟩
  funext q
  simp only [abs]
  exact contains_erase_of_nodup p q o.pausedProtocols hwf.1

theorem c08_redundant_pause_fails (o : OrbState) (p : Int) (h : (abs o).protocols p = true) :
    ∃ e, setPausedProtocol o p = .err e := by
  unfold setPausedProtocol
  have : p ∈ o.pausedProtocols := by simpa [abs] using h
  split
  · exact ⟨_, rfl⟩
  · simp [this]

theorem c08_redundant_unpause_fails (o : OrbState) (p : Int) (h : (abs o).protocols p = false) :
    ∃ e, setUnpausedProtocol o p = .err e := by
  unfold setUnpausedProtocol
  have : p ∉ o.pausedProtocols := by simpa [abs] using h
  split
  · exact ⟨_, rfl⟩
  · simp [this]

/-- A batch of counterparties is applied entirely: after a successful batch every listed pair is paused,
every pair that was paused stays paused, and nothing else is. (When it fails the message returns an error
and — C10 `c10_failure_changes_nothing` — nothing is applied.) -/
theorem c08_batch_spec (p : Int) (ids : List String) (o o' : OrbState)
    (h : ids.foldlM (fun o id => setPausedCrossChain o p id) o = .ok o') :
    (abs o').cross = (fun pc => (abs o).cross pc || (pc.1 == p && ids.contains pc.2)) ∧
    (abs o').protocols = (abs o).protocols ∧ (abs o').actions = (abs o).actions := by
  induction ids generalizing o with
  | nil =>
    simp only [List.foldlM_nil, Res.pure_eq, Res.ok.injEq] at h
    subst h
    refine ⟨?_, rfl, rfl⟩
    funext pc; simp
  | cons id rest ih =>
    simp only [List.foldlM_cons] at h
    cases hs : setPausedCrossChain o p id with
    | err e => simp [hs] at h
    | panic e => simp [hs] at h
    | ok o1 =>
      simp only [hs, Res.bind_ok] at h
      obtain ⟨_, _, rfl⟩ := setPausedCrossChain_spec hs
      obtain ⟨i1, i2, i3⟩ := ih _ h
      refine ⟨?_, i2, i3⟩
      rw [i1]
      funext pc
      simp only [abs]
      rw [contains_insertBy]
      obtain ⟨a, b⟩ := pc
      rw [Bool.eq_iff_iff]
      simp only [Bool.or_eq_true, Bool.and_eq_true, beq_iff_eq, List.contains_iff_mem, List.mem_cons, Prod.mk.injEq]
      constructor
      · rintro ((⟨h1, h2⟩ | h) | ⟨h1, h2⟩)
        · exact Or.inr ⟨h1, Or.inl h2⟩
        · exact Or.inl h
        · exact Or.inr ⟨h1, Or.inr h2⟩
      · rintro (h | ⟨h1, h2 | h2⟩)
        · exact Or.inl (Or.inr h)
        · exact Or.inl (Or.inl ⟨h1, h2⟩)
        · exact Or.inr ⟨h1, h2⟩

/-! ### refinement: every successful message acts on the abstract sets as the specification says -/

/-- What a message does to the abstract state *if it succeeds*. -/
def PauseSpec.applyFwd (s : PauseSpec) (pause : Bool) (p : Int) (ids : List String) : PauseSpec :=
  if ids.isEmpty then
    { s with protocols := fun q => if pause then q == p || s.protocols q else s.protocols q && !(q == p) }
  else
    { s with cross := fun pc => if pause then s.cross pc || (pc.1 == p && ids.contains pc.2)
                               else s.cross pc && !(pc.1 == p && ids.contains pc.2) }

def PauseSpec.applyMsg (s : PauseSpec) : Msg → PauseSpec
  | .pauseProtocol _ pid => match protocolIdFromString pid with | some p => s.applyFwd true p [] | none => s
  | .unpauseProtocol _ pid => match protocolIdFromString pid with | some p => s.applyFwd false p [] | none => s
  | .pauseCrossChains _ pid ids => match protocolIdFromString pid with | some p => s.applyFwd true p ids | none => s
  | .unpauseCrossChains _ pid ids => match protocolIdFromString pid with | some p => s.applyFwd false p ids | none => s
  | .pauseAction _ aid => match actionIdFromString aid with
    | some a => { s with actions := fun q => q == a || s.actions q } | none => s
  | .unpauseAction _ aid => match actionIdFromString aid with
    | some a => { s with actions := fun q => s.actions q && !(q == a) } | none => s
  | .replaceDepositForBurn .. => s
  | .updateParams .. => s

theorem batch_pause_WF (p : Int) (ids : List String) (o o' : OrbState) (hwf : WF o)
    (h : ids.foldlM (fun o id => setPausedCrossChain o p id) o = .ok o') : WF o' := by
  induction ids generalizing o with
  | nil => simp only [List.foldlM_nil, Res.pure_eq, Res.ok.injEq] at h; exact h ▸ hwf
  | cons id rest ih =>
    simp only [List.foldlM_cons] at h
    cases hs : setPausedCrossChain o p id with
    | err e => simp [hs] at h
    | panic e => simp [hs] at h
    | ok o1 =>
      simp only [hs, Res.bind_ok] at h
      obtain ⟨hc, _, rfl⟩ := setPausedCrossChain_spec hs
      have hwf1 : WF { o with pausedCrossChains := insertBy ccLt (p, id) o.pausedCrossChains } :=
        ⟨hwf.1, nodup_insertBy ccLt _ _ (by simpa using hc) hwf.2.1, hwf.2.2⟩
      exact ih _ hwf1 h

theorem batch_unpause_spec (p : Int) (ids : List String) (o o' : OrbState) (hwf : WF o)
    (h : ids.foldlM (fun o id => setUnpausedCrossChain o p id) o = .ok o') :
    WF o' ∧ (abs o').cross = (fun pc => (abs o).cross pc && !(pc.1 == p && ids.contains pc.2)) ∧
    (abs o').protocols = (abs o).protocols ∧ (abs o').actions = (abs o).actions := by
  induction ids generalizing o with
  | nil =>
    simp only [List.foldlM_nil, Res.pure_eq, Res.ok.injEq] at h
    subst h
    refine ⟨hwf, ?_, rfl, rfl⟩
    funext pc; simp
  | cons id rest ih =>
    simp only [List.foldlM_cons] at h
    cases hs : setUnpausedCrossChain o p id with
    | err e => simp [hs] at h
    | panic e => simp [hs] at h
    | ok o1 =>
      simp only [hs, Res.bind_ok] at h
      obtain ⟨_, rfl⟩ := setUnpausedCrossChain_spec hs
      have hwf1 : WF { o with pausedCrossChains := o.pausedCrossChains.erase (p, id) } :=
        ⟨hwf.1, List.Nodup.erase _ hwf.2.1, hwf.2.2⟩
      obtain ⟨i0, i1, i2, i3⟩ := ih _ hwf1 h
      refine ⟨i0, ?_, i2, i3⟩
      rw [i1]
      funext pc
      simp only [abs]
      rw [contains_erase_of_nodup _ _ _ hwf.2.1]
      obtain ⟨a, b⟩ := pc
      rw [Bool.eq_iff_iff]
      by_cases ha : a = p <;> by_cases hb : b = id <;> simp [ha, hb]

theorem forwarderPause_refines (pause : Bool) (o o' : OrbState) (p : Int) (ids : List String) (hwf : WF o)
    (h : forwarderPause pause o p ids = .ok o') : WF o' ∧ abs o' = (abs o).applyFwd pause p ids := by
  unfold forwarderPause at h
  split at h
  · cases h
  · by_cases he : ids.isEmpty = true
    · simp only [he, ↓reduceIte] at h
      cases pause with
      | true =>
        simp only [↓reduceIte] at h
        obtain ⟨h1, h2, h3, h4⟩ := c08_pause_protocol_spec o o' p h
        obtain ⟨hc, rfl⟩ := setPausedProtocol_spec h
        refine ⟨⟨nodup_insertBy intLt _ _ (by simpa using hc) hwf.1, hwf.2.1, hwf.2.2⟩, ?_⟩
        simp only [PauseSpec.applyFwd, he, ↓reduceIte, abs, PauseSpec.mk.injEq, and_true]
        funext q
        exact contains_insertBy intLt p q o.pausedProtocols
      | false =>
        simp only [Bool.false_eq_true, ↓reduceIte] at h
        obtain ⟨h1, h2, h3, h4⟩ := c08_unpause_protocol_spec o o' p hwf h
        obtain ⟨hc, rfl⟩ := setUnpausedProtocol_spec h
        refine ⟨⟨List.Nodup.erase _ hwf.1, hwf.2.1, hwf.2.2⟩, ?_⟩
        simp only [PauseSpec.applyFwd, he, ↓reduceIte, abs, PauseSpec.mk.injEq, and_true, Bool.false_eq_true]
        funext q
        exact contains_erase_of_nodup p q o.pausedProtocols hwf.1
    · simp only [he, Bool.false_eq_true, ↓reduceIte] at h
      split at h
      · cases h
      · cases pause with
        | true =>
          simp only [↓reduceIte] at h
          obtain ⟨h1, h2, h3⟩ := c08_batch_spec p ids o o' h
          refine ⟨batch_pause_WF p ids o o' hwf h, ?_⟩
          simp only [PauseSpec.applyFwd, he, Bool.false_eq_true, ↓reduceIte]
          cases hab : abs o'
          simp only [hab] at h1 h2 h3
          simp [h1, h2, h3]
        | false =>
          simp only [Bool.false_eq_true, ↓reduceIte] at h
          obtain ⟨h0, h1, h2, h3⟩ := batch_unpause_spec p ids o o' hwf h
          refine ⟨h0, ?_⟩
          simp only [PauseSpec.applyFwd, he, Bool.false_eq_true, ↓reduceIte]
          cases hab : abs o'
          simp only [hab] at h1 h2 h3
          simp [h1, h2, h3]

/-- **Refinement.** Every message that succeeds changes the pause sets exactly as `applyMsg` says (and keeps
the store well-formed); by C10 a message that fails changes nothing. -/
theorem c08_msg_refines (cfg : Cfg) (φ : Faults) (o o' : OrbState) (m : Msg) (evs : List String) (rq : List Req)
    (hwf : WF o) (h : msgStep cfg φ o m = .ok (o', evs, rq)) : WF o' ∧ abs o' = (abs o).applyMsg m := by
  unfold msgStep at h
  split at h
  · cases h
  · cases m with
    | pauseProtocol s pid =>
      simp only [PauseSpec.applyMsg] at h ⊢
      cases hp : protocolIdFromString pid with
      | none => simp [hp] at h
      | some p =>
        simp only [hp] at h ⊢
        cases hf : forwarderPause true o p [] with
        | err e => simp [hf] at h
        | panic e => simp [hf] at h
        | ok o1 =>
          simp only [hf, Res.bind_ok] at h
          split at h
          · simp at h
          · simp only [Res.bind_ok, Res.pure_eq, Res.ok.injEq, Prod.mk.injEq] at h
            obtain ⟨rfl, _, _⟩ := h
            exact forwarderPause_refines true o o1 p [] hwf hf
    | unpauseProtocol s pid =>
      simp only [PauseSpec.applyMsg] at h ⊢
      cases hp : protocolIdFromString pid with
      | none => simp [hp] at h
      | some p =>
        simp only [hp] at h ⊢
        cases hf : forwarderPause false o p [] with
        | err e => simp [hf] at h
        | panic e => simp [hf] at h
        | ok o1 =>
          simp only [hf, Res.bind_ok] at h
          split at h
          · simp at h
          · simp only [Res.bind_ok, Res.pure_eq, Res.ok.injEq, Prod.mk.injEq] at h
            obtain ⟨rfl, _, _⟩ := h
            exact forwarderPause_refines false o o1 p [] hwf hf
    | pauseCrossChains s pid ids =>
      simp only [PauseSpec.applyMsg] at h ⊢
      cases hp : protocolIdFromString pid with
      | none => simp [hp] at h
      | some p =>
        simp only [hp] at h ⊢
        split at h
        · cases h
        · cases hf : forwarderPause true o p ids with
          | err e => simp [hf] at h
          | panic e => simp [hf] at h
          | ok o1 =>
            simp only [hf, Res.bind_ok] at h
            split at h
            · simp at h
            · simp only [Res.bind_ok, Res.pure_eq, Res.ok.injEq, Prod.mk.injEq] at h
              obtain ⟨rfl, _, _⟩ := h
              exact forwarderPause_refines true o o1 p ids hwf hf
    | unpauseCrossChains s pid ids =>
      simp only [PauseSpec.applyMsg] at h ⊢
      cases hp : protocolIdFromString pid with
      | none => simp [hp] at h
      | some p =>
        simp only [hp] at h ⊢
        split at h
        · cases h
        · cases hf : forwarderPause false o p ids with
          | err e => simp [hf] at h
          | panic e => simp [hf] at h
          | ok o1 =>
            simp only [hf, Res.bind_ok] at h
            split at h
            · simp at h
            · simp only [Res.bind_ok, Res.pure_eq, Res.ok.injEq, Prod.mk.injEq] at h
              obtain ⟨rfl, _, _⟩ := h
              exact forwarderPause_refines false o o1 p ids hwf hf
    | replaceDepositForBurn s a b c d =>
      simp only at h
      split at h <;> cases h
    | pauseAction s aid =>
      simp only [PauseSpec.applyMsg] at h ⊢
      cases hp : actionIdFromString aid with
      | none => simp [hp] at h
      | some a =>
        simp only [hp] at h ⊢
        cases hf : setPausedAction o a with
        | err e => simp [hf] at h
        | panic e => simp [hf] at h
        | ok o1 =>
          simp only [hf, Res.bind_ok] at h
          split at h
          · simp at h
          · simp only [Res.bind_ok, Res.pure_eq, Res.ok.injEq, Prod.mk.injEq] at h
            obtain ⟨rfl, _, _⟩ := h
            obtain ⟨hc, _, rfl⟩ := setPausedAction_spec hf
            refine ⟨⟨hwf.1, hwf.2.1, nodup_insertBy intLt _ _ (by simpa using hc) hwf.2.2⟩, ?_⟩
            simp only [abs, PauseSpec.mk.injEq, true_and]
            funext q
            exact contains_insertBy intLt a q o.pausedActions
    | unpauseAction s aid =>
      simp only [PauseSpec.applyMsg] at h ⊢
      cases hp : actionIdFromString aid with
      | none => simp [hp] at h
      | some a =>
        simp only [hp] at h ⊢
        cases hf : setUnpausedAction o a with
        | err e => simp [hf] at h
        | panic e => simp [hf] at h
        | ok o1 =>
          simp only [hf, Res.bind_ok] at h
          split at h
          · simp at h
          · simp only [Res.bind_ok, Res.pure_eq, Res.ok.injEq, Prod.mk.injEq] at h
            obtain ⟨rfl, _, _⟩ := h
            obtain ⟨hc, rfl⟩ := setUnpausedAction_spec hf
            refine ⟨⟨hwf.1, hwf.2.1, List.Nodup.erase _ hwf.2.2⟩, ?_⟩
            simp only [abs, PauseSpec.mk.injEq, true_and]
            funext q
            exact contains_erase_of_nodup a q o.pausedActions hwf.2.2
    | updateParams s n =>
      simp only [Res.ok.injEq, Prod.mk.injEq] at h
      obtain ⟨rfl, _, _⟩ := h
      exact ⟨hwf, rfl⟩

/-! ### nothing else changes the sets -/

/-- Receiving packets — orbiter transfers, refused transfers, foreign traffic — never changes the pause state. -/
theorem c08_recv_preserves (wr : Wiring) (φ : Faults) (w : World) (pkt : Packet) :
    abs (ibcRecv wr φ w pkt).orb = abs w.orb :=
  abs_of_sameAdmin (ibcRecv_sameAdmin wr φ w pkt)

theorem c08_recv_preserves_WF (wr : Wiring) (φ : Faults) (w : World) (pkt : Packet) (h : WF w.orb) :
    WF (ibcRecv wr φ w pkt).orb :=
  WF_of_sameAdmin (ibcRecv_sameAdmin wr φ w pkt) h


/-! ### histories -/

/-- An export/import round trip keeps the sets. -/
theorem reimport_preserves (o : OrbState) (hwf : WF o) : WF (reimportStep o).2 ∧ abs (reimportStep o).2 = abs o := by
  unfold reimportStep
  simp only
  cases h : initGenesis (exportGenesis o) with
  | err e => exact ⟨hwf, rfl⟩
  | panic e => exact ⟨hwf, rfl⟩
  | ok o' =>
    simp only
    obtain ⟨hw, h1, h2, h3, _⟩ := initGenesis_pause _ _ h
    refine ⟨hw, ?_⟩
    simp only [abs, PauseSpec.mk.injEq]
    refine ⟨?_, ?_, ?_⟩
    · funext q; rw [h1 q]; rfl
    · funext q; rw [h2 q]
      simp only [exportGenesis]
      rw [Bool.eq_iff_iff]; simp
    · funext q; rw [h3 q]; rfl

/-- What one operation does to the abstract sets, given only what it reported. -/
def specStep (s : PauseSpec) (op : Op) (obs : Obs) : PauseSpec :=
  match op, obs with
  | .msg m, .msg true _ => s.applyMsg m
  | _, _ => s

theorem c08_step_refines (wr : Wiring) (φ : Faults) (w : World) (op : Op) (hwf : WF w.orb) :
    WF (step wr φ w op).2.orb ∧ abs (step wr φ w op).2.orb = specStep (abs w.orb) op (step wr φ w op).1 := by
  cases op with
  | recv pkt => exact ⟨c08_recv_preserves_WF wr φ w pkt hwf, c08_recv_preserves wr φ w pkt⟩
  | deposit a d n => exact ⟨hwf, rfl⟩
  | env e => exact ⟨hwf, rfl⟩
  | reimport => exact reimport_preserves w.orb hwf
  | msg m =>
    simp only [step]
    cases hm : msgStep wr.cfg φ w.orb m with
    | err e => exact ⟨hwf, rfl⟩
    | panic e => exact ⟨hwf, rfl⟩
    | ok r =>
      obtain ⟨o', evs, rq⟩ := r
      exact c08_msg_refines wr.cfg φ w.orb o' m evs rq hwf hm

/-- The specification run along a history: the abstract sets change only at messages reported successful. -/
def specRun (wr : Wiring) : World → PauseSpec → List Op → PauseSpec
  | _, s, [] => s
  | w, s, op :: rest => specRun wr (step wr noFaults w op).2 (specStep s op (step wr noFaults w op).1) rest

/-- **History.** In every state reachable by any sequence of operations (transfers of any kind, messages
by anybody, deposits, environment changes, export/import), the stored sets are what the specification
says, and they stay duplicate-free. -/
theorem c08_history (wr : Wiring) (w : World) (ops : List Op) (hwf : WF w.orb) :
    WF (run wr w ops).orb ∧ abs (run wr w ops).orb = specRun wr w (abs w.orb) ops := by
  unfold run
  induction ops generalizing w with
  | nil => exact ⟨hwf, rfl⟩
  | cons op rest ih =>
    simp only [List.foldl_cons, specRun]
    obtain ⟨h1, h2⟩ := c08_step_refines wr noFaults w op hwf
    rw [← h2]
    exact ih _ h1

/-! ### the queries report exactly the current sets -/

theorem c08_query_is_protocol_paused (o : OrbState) (name : String) (p : Int) (h : protocolIdFromString name = some p) :
    queryStep o (.isProtocolPaused name) = .ok (.bool ((abs o).protocols p)) := by
  simp [queryStep, h, abs]

theorem c08_query_paused_protocols (o : OrbState) : queryStep o .pausedProtocols = .ok (.ints o.pausedProtocols) := rfl

theorem c08_query_is_cross_chain_paused (o : OrbState) (name c : String) (p : Int)
    (h : protocolIdFromString name = some p) (hv : crossChainValid p c = true) :
    queryStep o (.isCrossChainPaused name c) = .ok (.bool ((abs o).cross (p, c))) := by
  simp [queryStep, h, hv, abs]

/-! ### non-vacuity -/

example : ∃ o, WF o ∧ (abs o).protocols 2 = true ∧ (abs o).cross (3, "1") = true :=
  ⟨{ pausedProtocols := [2], pausedCrossChains := [(3, "1")] }, ⟨by decide, by decide, by decide⟩, by decide, by decide⟩

end Orbiter.C08
