"""Writes /verif/MANIFEST.json from the property table (kept in one place so it stays valid)."""
import json
import os
import sys

sys.path.insert(0, os.path.dirname(__file__))
VERIF = os.path.dirname(os.path.dirname(os.path.abspath(__file__)))

CLAIMS = {
    "C04": ("proof", "Lean theorems c04_* (exact floor per bps entry on the amount entering the action, fixed entries verbatim, zero entries dropped, amount left = A - sum, sum < A, every refusal condition) proved for all amounts/bps/lists over the model of fee.go; tied to the code by regenerated facts (pins 10000 and 5) and by S1 correspondence on the boundary grid and random lists, with an independent re-computation of the rule as oracle", "§5 C04",
            "Lean 4 theorems (induction over fee lists, omega) + differential correspondence S1"),
    "C20": ("proof", "Lean theorems c20_* (round trip, injectivity, accepted-iff-decimal-uint32, identifier of transfers, single spelling) proved for all protocol ids and all strings over the model of id.go; tied by S1 correspondence over the identifier grid and random strings, with a regex oracle for canonicity", "§5 C20",
            "Lean 4 theorems (decimal digit lemmas, canonical-form injectivity) + differential correspondence S1"),
}

NOTE = "trusted: Lean kernel; axioms propext/Classical.choice/Quot.sound only; facts generator and correspondence drivers; external-module contracts of DESIGN.md §3.6 and §7"


def main():
    props = [json.loads(l) for l in open(os.path.join(VERIF, "properties.jsonl"))]
    checks = []
    na = []
    for p in props:
        pid = p["id"]
        if pid in CLAIMS:
            lvl, text, ref, tech = CLAIMS[pid]
            checks.append({
                "property_id": pid,
                "quick_cmd": "./check %s --tier quick" % pid,
                "thorough_cmd": "./check %s --tier thorough" % pid,
                "evidence_file": "/verif/evidence/%s.json" % pid,
                "replay_cmd_template": "./check replay {path}",
                "engine": "lean-model+go-harness",
                "level_claimed": {"category": lvl, "text": text, "design_ref": ref},
                "level_note": NOTE,
                "technique": tech,
            })
        else:
            na.append({"property_id": pid, "reason": "check under construction in this round (model and streams exist; not yet claimed) — see DESIGN.md §11"})
    m = {
        "version": 1,
        "setup_cmd": "./check prepare",
        "hooks": {"guard": "verif", "enable": "none needed: the harness reaches everything through exported API of /repo (go build in /verif/harness with GOWORK=/verif/harness/go.work)",
                  "baseline_off_cmd": "cd /repo && GOPROXY=off go test -vet=off -count=1 ./... && cd simapp && GOPROXY=off go test -vet=off -count=1 ./...",
                  "source_commits": [], "add_only": True},
        "engines": [
            {"name": "lean-model", "path": "/verif/lean", "serves_properties": sorted(CLAIMS), "kind_free_text": "Lean 4 executable model of the orbiter module + property theorems (Orbiter/Props) + compiled line-protocol driver"},
            {"name": "go-harness", "path": "/verif/harness", "serves_properties": sorted(CLAIMS), "kind_free_text": "in-process drivers linked against /repo: pure kernel, real simapp stack, harness-wired stack with recording/fault decorators; facts generator"},
            {"name": "check", "path": "/verif/check", "serves_properties": sorted(CLAIMS), "kind_free_text": "python orchestrator: prepare, streams, projections, oracles, shrinking, evidence"},
        ],
        "checks": checks,
        "notes": "Family: machine-checked proof in Lean 4. Every check = Lean obligations for the property (re-built against facts regenerated from /repo) + axiom audit + correspondence streams model-vs-implementation + property oracle.",
        "not_applicable": na,
    }
    json.dump(m, open(os.path.join(VERIF, "MANIFEST.json"), "w"), indent=1)


if __name__ == "__main__":
    main()
