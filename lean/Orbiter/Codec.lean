/-
  Orbiter.Codec — executable models of the text codecs the receive path depends on:
  bech32 (cosmos/btcutil as used by sdk.AccAddressFromBech32 and by blockibc's no-limit variant),
  base64 (encoding/base64.StdEncoding as used by encoding/json for []byte),
  hex (encoding/hex.DecodeString).  Tied to the Go originals by stream S1.
-/
import Orbiter.Prims
namespace Orbiter

/-! ### bech32 -/

def bech32Charset : List Char := "qpzry9x8gf2tvdw0s3jn54khce6mua7l".toList

def bech32CharVal (c : Char) : Option Nat := bech32Charset.idxOf? c

def bech32Gen : List Nat := [0x3b6a57b2, 0x26508e6d, 0x1ea119fa, 0x3d4233dd, 0x2a1462b3]

def bech32PolymodStep (chk : Nat) (v : Nat) : Nat :=
  let b := chk >>> 25
  let chk := ((chk &&& 0x1ffffff) <<< 5) ^^^ v
  (List.range 5).foldl (fun c i => if (b >>> i) &&& 1 == 1 then c ^^^ bech32Gen[i]! else c) chk

def bech32Polymod (vs : List Nat) : Nat := vs.foldl bech32PolymodStep 1

def bech32HrpExpand (hrp : List Char) : List Nat :=
  hrp.map (fun c => c.toNat >>> 5) ++ [0] ++ hrp.map (fun c => c.toNat &&& 31)

def toLowerAscii (c : Char) : Char := if 'A' ≤ c ∧ c ≤ 'Z' then Char.ofNat (c.toNat + 32) else c

def lastIdxOf (l : List Char) (c : Char) : Option Nat :=
  let rec go : List Char → Nat → Option Nat → Option Nat
    | [], _, acc => acc
    | x :: xs, i, acc => go xs (i + 1) (if x == c then some i else acc)
  go l 0 none

/-- `bech32.ConvertBits(data, 5, 8, false)`. -/
def convertBits5to8 (data : List Nat) : Option Bytes :=
  let rec go : List Nat → Nat → Nat → List UInt8 → Option Bytes
    | [], acc, bits, out =>
        -- leftover: with pad=false, error if bits ≥ 5 or the remaining bits are non-zero
        if bits ≥ 5 then none
        else if (acc <<< (8 - bits)) &&& 0xff != 0 then none
        else some out.reverse
    | v :: vs, acc, bits, out =>
        let acc := ((acc <<< 5) ||| v) &&& 0xfff
        let bits := bits + 5
        if bits ≥ 8 then
          let bits := bits - 8
          go vs acc bits (UInt8.ofNat ((acc >>> bits) &&& 0xff) :: out)
        else go vs acc bits out
  go data 0 0 []

/-- `bech32.Decode(bech, limit)` followed by `ConvertBits(5→8, no padding)`; `limit = none` is
`DecodeNoLimit`. Returns the (lower-cased) human-readable part and the payload bytes. -/
def bech32Decode (s : String) (limit : Option Nat) : Option (String × Bytes) :=
  let cs := s.toList
  let n := byteLen s
  if n < 8 then none else
  if (match limit with | some l => decide (n > l) | none => false) then none else
  if cs.any (fun c => c.toNat < 33 || c.toNat > 126) then none else
  let hasLower := cs.any (fun c => 'a' ≤ c && c ≤ 'z')
  let hasUpper := cs.any (fun c => 'A' ≤ c && c ≤ 'Z')
  if hasLower && hasUpper then none else
  let cs := cs.map toLowerAscii
  match lastIdxOf cs '1' with
  | none => none
  | some one =>
    if one < 1 || one + 7 > cs.length then none else
    let hrp := cs.take one
    let dataChars := cs.drop (one + 1)
    match dataChars.mapM bech32CharVal with
    | none => none
    | some vals =>
      if bech32Polymod (bech32HrpExpand hrp ++ vals) != 1 then none else
      let payload := vals.take (vals.length - 6)
      match convertBits5to8 payload with
      | none => none
      | some bz => some (String.ofList hrp, bz)

def trimSpaceEmpty (s : String) : Bool :=
  -- strings.TrimSpace(s) == "" : only Unicode white space (ASCII subset + NEL/NBSP/… is immaterial
  -- for valid bech32 strings; the model treats the ASCII and Latin-1 white space Go recognises).
  s.toList.all fun c => c == ' ' || c == '\t' || c == '\n' || c == '\r' || c.toNat == 11 || c.toNat == 12
    || c.toNat == 0x85 || c.toNat == 0xA0 || c.toNat == 0x1680 || (0x2000 ≤ c.toNat && c.toNat ≤ 0x200a)
    || c.toNat == 0x2028 || c.toNat == 0x2029 || c.toNat == 0x202f || c.toNat == 0x205f || c.toNat == 0x3000

/-- `sdk.AccAddressFromBech32` with account prefix `hrp`. -/
def accAddressFromBech32 (hrp : String) (s : String) : Option Bytes :=
  if trimSpaceEmpty s then none else
  match bech32Decode s (some 1023) with
  | none => none
  | some (h, bz) =>
    if h != hrp then none
    else if bz.isEmpty || bz.length > 255 then none
    else some bz

/-! ### base64 (StdEncoding, padded; `\r` and `\n` ignored, as Go's decoder does) -/

def b64Val (c : UInt8) : Option Nat :=
  let n := c.toNat
  if 65 ≤ n ∧ n ≤ 90 then some (n - 65)
  else if 97 ≤ n ∧ n ≤ 122 then some (n - 71)
  else if 48 ≤ n ∧ n ≤ 57 then some (n + 4)
  else if n == 43 then some 62
  else if n == 47 then some 63
  else none

def b64DecodeQuads : List UInt8 → Option Bytes
  | [] => some []
  | [a, b, c, d] =>
      -- last quantum: padding allowed
      if c == 61 && d == 61 then do
        let x ← b64Val a; let y ← b64Val b
        -- Go (non-strict) ignores trailing bits
        pure [UInt8.ofNat (((x <<< 2) ||| (y >>> 4)) &&& 0xff)]
      else if d == 61 then do
        let x ← b64Val a; let y ← b64Val b; let z ← b64Val c
        pure [UInt8.ofNat (((x <<< 2) ||| (y >>> 4)) &&& 0xff), UInt8.ofNat (((y <<< 4) ||| (z >>> 2)) &&& 0xff)]
      else do
        let x ← b64Val a; let y ← b64Val b; let z ← b64Val c; let w ← b64Val d
        pure [UInt8.ofNat (((x <<< 2) ||| (y >>> 4)) &&& 0xff), UInt8.ofNat (((y <<< 4) ||| (z >>> 2)) &&& 0xff),
              UInt8.ofNat (((z <<< 6) ||| w) &&& 0xff)]
  | a :: b :: c :: d :: rest => do
      let x ← b64Val a; let y ← b64Val b; let z ← b64Val c; let w ← b64Val d
      let r ← b64DecodeQuads rest
      pure (UInt8.ofNat (((x <<< 2) ||| (y >>> 4)) &&& 0xff) :: UInt8.ofNat (((y <<< 4) ||| (z >>> 2)) &&& 0xff)
            :: UInt8.ofNat (((z <<< 6) ||| w) &&& 0xff) :: r)
  | _ => none

def b64Decode (s : Bytes) : Option Bytes :=
  b64DecodeQuads (s.filter fun c => c != 13 && c != 10)

def b64Char (n : Nat) : UInt8 :=
  if n < 26 then UInt8.ofNat (65 + n)
  else if n < 52 then UInt8.ofNat (71 + n)
  else if n < 62 then UInt8.ofNat (n - 4)
  else if n == 62 then 43 else 47

def b64Encode : Bytes → Bytes
  | [] => []
  | [a] =>
      let x := a.toNat
      [b64Char (x >>> 2), b64Char ((x &&& 3) <<< 4), 61, 61]
  | [a, b] =>
      let x := a.toNat; let y := b.toNat
      [b64Char (x >>> 2), b64Char (((x &&& 3) <<< 4) ||| (y >>> 4)), b64Char ((y &&& 15) <<< 2), 61]
  | a :: b :: c :: rest =>
      let x := a.toNat; let y := b.toNat; let z := c.toNat
      b64Char (x >>> 2) :: b64Char (((x &&& 3) <<< 4) ||| (y >>> 4)) :: b64Char (((y &&& 15) <<< 2) ||| (z >>> 6))
        :: b64Char (z &&& 63) :: b64Encode rest

/-! ### hex.DecodeString (hook metadata validation): even number of hex digits -/

def isHexString (s : String) : Bool :=
  let cs := s.toList
  cs.length % 2 == 0 && cs.all fun c => (hexVal? c).isSome

end Orbiter
