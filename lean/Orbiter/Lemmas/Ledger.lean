/-
  Ledger facts: what a bank send / burn / mint does to one account's balance, and what every stage of the
  receive path does to the balances of the orbiter account (used by C01, C02, C11).
-/
import Orbiter.Lemmas.Ctx
namespace Orbiter

namespace Ledger

theorem send_bal {l l' : Ledger} {src dst : Addr} {d : String} {amt : Nat} (h : l.send src dst d amt = some l') (a : Addr) (d' : String) :
    l'.bal a d' =
      if d' = d then
        (if a = src ∧ a = dst then l.bal a d'
         else if a = src then l.bal a d' - amt
         else if a = dst then l.bal a d' + amt
         else l.bal a d')
      else l.bal a d' := by
  unfold send at h
  split at h
  · cases h
  · rename_i hge
    simp only [Option.some.injEq] at h
    subst h
    simp only [setBal]
    by_cases hd : d' = d
    · subst hd
      by_cases h1 : a = src <;> by_cases h2 : a = dst
      · subst h1; subst h2
        simp only [and_self, ↓reduceIte]
        omega
      · subst h1
        simp [h2]
      · subst h2
        have : ¬ (a = src) := h1
        simp [h1]
      · simp [h1, h2]
    · simp [hd]

theorem send_supply {l l' : Ledger} {src dst : Addr} {d : String} {amt : Nat} (h : l.send src dst d amt = some l') :
    l'.supply = l.supply := by
  unfold send at h
  split at h
  · cases h
  · simp only [Option.some.injEq] at h
    subst h
    rfl

theorem send_enough {l l' : Ledger} {src dst : Addr} {d : String} {amt : Nat} (h : l.send src dst d amt = some l') :
    amt ≤ l.bal src d := by
  unfold send at h
  split at h
  · cases h
  · rename_i hge; omega

theorem burn_bal {l l' : Ledger} {src : Addr} {d : String} {amt : Nat} (h : l.burn src d amt = some l') (a : Addr) (d' : String) :
    l'.bal a d' = if a = src ∧ d' = d then l.bal a d' - amt else l.bal a d' := by
  unfold burn at h
  split at h
  · cases h
  · simp only [Option.some.injEq] at h
    subst h
    simp only [setBal]
    by_cases h1 : a = src ∧ d' = d
    · obtain ⟨rfl, rfl⟩ := h1; simp
    · simp [h1]

theorem mint_bal (l : Ledger) (dst : Addr) (d : String) (amt : Nat) (a : Addr) (d' : String) :
    (l.mint dst d amt).bal a d' = if a = dst ∧ d' = d then l.bal a d' + amt else l.bal a d' := by
  simp only [mint, setBal]
  by_cases h1 : a = dst ∧ d' = d
  · obtain ⟨rfl, rfl⟩ := h1; simp
  · simp [h1]

end Ledger

/-! ### the orbiter account's balances along the stages -/

/-- No balance of account `x` grew. -/
def Ctx.LeAt (x : Addr) (c c' : Ctx) : Prop := ∀ d, c'.bank.bal x d ≤ c.bank.bal x d

theorem Ctx.LeAt_refl (x : Addr) (c : Ctx) : Ctx.LeAt x c c := fun _ => Nat.le_refl _

theorem Ctx.LeAt_trans {x : Addr} {a b c : Ctx} (h1 : Ctx.LeAt x a b) (h2 : Ctx.LeAt x b c) : Ctx.LeAt x a c :=
  fun d => Nat.le_trans (h2 d) (h1 d)

theorem Ctx.LeAt_of_bank_eq {x : Addr} {a b : Ctx} (h : b.bank = a.bank) : Ctx.LeAt x a b := by
  intro d; rw [h]; exact Nat.le_refl _

/-- A send whose destination is not `x`, or whose source is `x`, never grows `x`. -/
theorem Ctx.send_le {c c' : Ctx} {src dst x : Addr} {d tag : String} {amt : Nat} (h : c.send src dst d amt tag = .ok c')
    (hx : dst ≠ x ∨ src = x) : Ctx.LeAt x c c' := by
  obtain ⟨b, hb, rfl⟩ := Ctx.send_ok h
  intro d'
  simp only
  rw [Ledger.send_bal hb x d']
  split
  · split
    · exact Nat.le_refl _
    · split
      · omega
      · split
        · rename_i h1 h2 h3
          rcases hx with hx | hx
          · exact absurd h3.symm hx
          · exact absurd hx.symm h2
        · exact Nat.le_refl _
  · exact Nat.le_refl _

/-- A send from `x` to somebody else takes exactly the amount from `x`. -/
theorem Ctx.send_from_exact {c c' : Ctx} {x dst : Addr} {d tag : String} {amt : Nat} (h : c.send x dst d amt tag = .ok c')
    (hx : dst ≠ x) : c'.bank.bal x d = c.bank.bal x d - amt := by
  obtain ⟨b, hb, rfl⟩ := Ctx.send_ok h
  simp only
  rw [Ledger.send_bal hb x d]
  have h1 : ¬ (x = dst) := fun e => hx e.symm
  simp [h1]

theorem Ctx.burn_le {c c' : Ctx} {src x : Addr} {d tag : String} {amt : Nat} (h : c.burn src d amt tag = .ok c') : Ctx.LeAt x c c' := by
  obtain ⟨b, hb, rfl⟩ := Ctx.burn_ok h
  intro d'
  simp only
  rw [Ledger.burn_bal hb x d']
  split <;> omega

theorem Ctx.call_bank {φ : Faults} {c c' : Ctx} {site : String} (h : Ctx.call φ c site = .ok c') : c'.bank = c.bank := by
  rw [(Ctx.call_ok h).1]

theorem Ctx.emit_bank {φ : Faults} {c c' : Ctx} {ev : String} (h : c.emit φ ev = .ok c') : c'.bank = c.bank := by
  rw [Ctx.emit_ok h]

/-! ### the ledger is the replay of the recorded moves -/

def Ledger.apply (l : Ledger) : Move → Option Ledger
  | .xfer s d dn a => l.send s d dn a
  | .burn s dn a => l.burn s dn a
  | .mint d dn a => some (l.mint d dn a)

def Ledger.replay (l : Ledger) (ms : List Move) : Option Ledger := ms.foldlM Ledger.apply l

theorem Ledger.replay_append (l : Ledger) (a b : List Move) :
    l.replay (a ++ b) = (l.replay a).bind fun l' => l'.replay b := by
  simp only [Ledger.replay, List.foldlM_append]
  rfl

/-- `c'` is `c` after exactly the moves `ms`: they were appended to the record and the ledger is their replay. -/
structure Ctx.Steps (c c' : Ctx) (ms : List Move) : Prop where
  moves : c'.moves = c.moves ++ ms
  bank : c.bank.replay ms = some c'.bank

theorem Ctx.Steps.refl (c : Ctx) : Ctx.Steps c c [] := ⟨by simp, rfl⟩

theorem Ctx.Steps.trans {a b c : Ctx} {m1 m2 : List Move} (h1 : Ctx.Steps a b m1) (h2 : Ctx.Steps b c m2) :
    Ctx.Steps a c (m1 ++ m2) := by
  refine ⟨by rw [h2.moves, h1.moves, List.append_assoc], ?_⟩
  rw [Ledger.replay_append, h1.bank]
  exact h2.bank

theorem Ctx.send_steps {c c' : Ctx} {src dst : Addr} {d tag : String} {amt : Nat} (h : c.send src dst d amt tag = .ok c') :
    Ctx.Steps c c' [.xfer src dst d amt] := by
  obtain ⟨b, hb, rfl⟩ := Ctx.send_ok h
  exact ⟨rfl, by simp [Ledger.replay, Ledger.apply, hb]⟩

theorem Ctx.burn_steps {c c' : Ctx} {src : Addr} {d tag : String} {amt : Nat} (h : c.burn src d amt tag = .ok c') :
    Ctx.Steps c c' [.burn src d amt] := by
  obtain ⟨b, hb, rfl⟩ := Ctx.burn_ok h
  exact ⟨rfl, by simp [Ledger.replay, Ledger.apply, hb]⟩

theorem Ctx.call_steps {φ : Faults} {c c' : Ctx} {site : String} (h : Ctx.call φ c site = .ok c') : Ctx.Steps c c' [] := by
  rw [(Ctx.call_ok h).1]
  exact ⟨by simp, rfl⟩

theorem Ctx.emit_steps {φ : Faults} {c c' : Ctx} {ev : String} (h : c.emit φ ev = .ok c') : Ctx.Steps c c' [] := by
  rw [Ctx.emit_ok h]
  exact ⟨by simp, rfl⟩

/-- Steps are insensitive to the parts of the context that are not the ledger or the move record. -/
theorem Ctx.Steps.of_eq {c c0 c' : Ctx} {ms : List Move} (h : Ctx.Steps c0 c' ms) (hm : c0.moves = c.moves) (hb : c0.bank = c.bank) :
    Ctx.Steps c c' ms :=
  ⟨by rw [h.moves, hm], by rw [← hb]; exact h.bank⟩

end Orbiter
