"""Scenario builders: operation-line lists for the correspondence streams (DESIGN.md §4.2/§4.3)."""
import json
import os

from gen import (ACTION_NAMES, AMOUNTS, BPS, CCTP_DOMAINS, CHANNELS, DENOMS, PROTO_NAMES, SRC_CHANNELS, U, USERS, Rng,
                 hyp_setup_lines, rand_amount, rand_fee_entries, rand_forwarding, rand_transfer, fwd_denom)
from proto import (AUTHORITY, CCTP_URL, DUST, DUST_BYTES, FEE_URL, HYP_URL, IMPL, INT_URL, ORB, ORB_BYTES, VERIF, Proc, addr, b32, b64, cctp_fwd,
                   fee_action, ftpd, hx, hyp_fwd, int_fwd, kv, memo, msg_line, orb_pkt, pkt_line, unhx)

_HYP_CACHE = os.path.join(os.environ.get("VERIF_CACHE", os.path.join(VERIF, ".cache")), "hyp.json")


def hyp_tokens(n=2):
    """Token ids the real warp module assigns to the first collateral tokens (learned once per build)."""
    stamp = os.path.getmtime(IMPL) if os.path.exists(IMPL) else 0
    try:
        c = json.load(open(_HYP_CACHE))
        if c.get("stamp") == stamp and len(c["toks"]) >= n:
            return [(bytes.fromhex(t), d) for t, d in c["toks"][:n]]
    except Exception:
        pass
    p = Proc([IMPL])
    p.ask("setup -")
    toks = []
    for d in DENOMS[:n]:
        out = p.ask("env hyp setup " + hx(d))
        toks.append((kv(out)["tok"], d))
    p.close()
    json.dump({"stamp": stamp, "toks": toks}, open(_HYP_CACHE, "w"))
    return [(bytes.fromhex(t), d) for t, d in toks]


def base_setup(with_hyp=True, routers=((1, 50000), (2, 0), (2147483648, 0), (4294967295, 7))):
    lines = ["setup -"]
    toks = []
    if with_hyp:
        toks = hyp_tokens(2)
        lines += hyp_setup_lines([(t, d, list(routers)) for t, d in toks])
    return lines, toks


# ------------------------------------------------------------------------------------------ pure

def fee_grid(r, n_random=300):
    """C04: boundary grid + random cases for ComputeFeeAmount and the fee action arithmetic."""
    lines = []
    amounts = [0, 1, 2, 9999, 10000, 10001, 2 ** 64 - 1, 2 ** 64 + 1, 2 ** 128, 2 ** 255, 2 ** 256 - 1]
    bps = [0, 1, 9999, 10000, 10001, 2 ** 32 - 1]
    for a in amounts:
        for b in bps:
            lines.append("pure feeamt %d %d" % (a, b))
    for _ in range(n_random):
        lines.append("pure feeamt %d %d" % (r.range(0, 2 ** 256 - 1) if r.chance(1, 3) else r.range(0, 10 ** 12), r.range(0, 10001) if r.chance(4, 5) else r.range(0, 2 ** 32 - 1)))
    return lines


def fee_list_line(amount, denom, entries):
    """entries: (recipient string, kind b|a|n|N, value string)"""
    parts = ["pure fees %d %s %d" % (amount, hx(denom), len(entries))]
    for rec, kind, val in entries:
        parts.append("%s %s %s" % (hx(rec), kind, hx(str(val))))
    return " ".join(parts)


def fee_lists(r, n_random=400):
    lines = []
    A = [1, 2, 100, 9999, 10000, 10001, 10 ** 6, 2 ** 64 + 1, 2 ** 255, 2 ** 256 - 1,
         2 ** 31, 2 ** 32 - 1, 2 ** 32, 2 ** 53 + 1, 2 ** 63 - 1, 2 ** 63, 2 ** 64 // 10000, 2 ** 64 // 10000 + 1, 2 ** 64 // 9999 + 1, 10 ** 18, 10 ** 19, 2 ** 64 - 1, 2 ** 64, 2 ** 128, 2 ** 192]
    good = U[0]
    # boundary: total fee in {A-1, A, A+1}, both types, repeated recipients, 0..6 entries
    for a in A:
        for k in (-1, 0, 1):
            t = a + k
            if t > 0:
                lines.append(fee_list_line(a, "uusdc", [(good, "a", t)]))
                if t > 1:
                    lines.append(fee_list_line(a, "uusdc", [(good, "a", t - 1), (U[1], "a", 1)]))
        lines.append(fee_list_line(a, "uusdc", [(good, "b", 10000)]))
        lines.append(fee_list_line(a, "uusdc", [(good, "b", 9999), (good, "b", 1)]))
        lines.append(fee_list_line(a, "uusdc", [(good, "b", 5000), (U[1], "b", 5000)]))
        lines.append(fee_list_line(a, "uusdc", [(good, "b", 1)] * 6))
        lines.append(fee_list_line(a, "uusdc", [(good, "b", 1)] * 5))
        lines.append(fee_list_line(a, "uusdc", []))
    for a in (2 ** 63, 2 ** 64 - 1, 10 ** 18, 5 * 10 ** 18, 2 ** 64 // 10000 + 1):
        for bps in (1, 2, 3, 50, 100, 2500, 5000, 9999, 10000):
            lines.append(fee_list_line(a, "uusdc", [(good, "b", bps)]))
            lines.append(fee_list_line(a, "uusdc", [(good, "b", bps), (U[1], "a", 1)]))
    bad_entries = [(good, "b", 0), (good, "b", 10001), (good, "b", 2 ** 32 - 1), (good, "a", 0), (good, "a", -1), (good, "a", "x"),
                   (good, "a", ""), (good, "a", "+5"), (good, "a", "007"), (good, "a", "0x10"), (good, "a", " 5"), (good, "a", "1_0"), (good, "n", 0),
                   ("", "b", 1), ("noble1xyz", "b", 1), (good.upper(), "b", 1), ("cosmos1qyqszqgpqyqszqgpqyqszqgpqyqszqgpjnp7du", "b", 1),
                   ("", "a", 5), ("noble1xyz", "a", 5), (good.upper(), "a", 5), ("cosmos1qyqszqgpqyqszqgpqyqszqgpqyqszqgpjnp7du", "a", 5), (" ", "a", 5), (good + "x", "a", 5),
                   (good, "a", 2 ** 256), (good, "a", 2 ** 256 - 1), (good, "a", 2 ** 255)]
    for e in bad_entries:
        lines.append(fee_list_line(10 ** 6, "uusdc", [e]))
        lines.append(fee_list_line(10 ** 6, "uusdc", [(U[2], "b", 100), e]))
        # …wherever it stands in the list, also behind an entry of the same recipient
        lines.append(fee_list_line(10 ** 6, "uusdc", [e, (U[2], "b", 100)]))
        lines.append(fee_list_line(10 ** 6, "uusdc", [(U[2], "b", 100), e, (U[3], "a", 5)]))
        lines.append(fee_list_line(10 ** 6, "uusdc", [(e[0], "b", 100), e]))
    # sum overflow
    lines.append(fee_list_line(2 ** 256 - 1, "uusdc", [(good, "a", 2 ** 255), (U[1], "a", 2 ** 255)]))
    lines.append(fee_list_line(2 ** 256 - 1, "uusdc", [(good, "a", 2 ** 255), (U[1], "a", 2 ** 255 - 1)]))
    lines.append(fee_list_line(2 ** 256 - 1, "uusdc", [(good, "b", 10000), (U[1], "b", 10000)]))
    for _ in range(n_random):
        a = r.choice(A) if r.chance(1, 2) else r.range(1, 10 ** 9)
        n = r.range(0, 6)
        es = []
        for _ in range(n):
            rec = r.choice(U[:4])
            if r.chance(1, 2):
                es.append((rec, "b", r.choice(BPS + [0, 10001]) if r.chance(1, 4) else r.range(1, 10000)))
            else:
                es.append((rec, "a", r.choice([1, a // 2 or 1, a, a + 1, 7]) if r.chance(1, 2) else r.range(1, max(1, a))))
        lines.append(fee_list_line(a, "uusdc", es))
    return lines


CP_GRID = ["0", "1", "10", "01", "+1", "-1", "-0", "00", "4294967295", "4294967296", "99999999999", "9223372036854775807", "9223372036854775808",
           "channel-0", "channel-1", "channel-18446744073709551615", "channel-18446744073709551616", "channel-007", "channel-", "channel-x", "Channel-1",
           "noble", "a:b", "a b", "1 ", " 1", "1e3", "0x1", "1_0", "", "x" * 32, "x" * 33, "1" * 32, "1" * 33, "é" * 16, "é" * 17, "١٢٣"]


def id_grid(r, n_random=400):
    lines = []
    for p in range(-1, 7):
        lines.append("pure pidval %d" % p)
        lines.append("pure aidval %d" % p)
        for c in CP_GRID:
            lines.append("pure cpid %d %s" % (p, hx(c)))
            lines.append("pure ccid %d %s" % (p, hx(c)))
    for s in PROTO_NAMES + ACTION_NAMES + ["PROTOCOL_UNSUPPORTED", "ACTION_UNSUPPORTED", "protocol_cctp", "2", "", "PROTOCOL_CCTP "]:
        lines.append("pure pidstr " + hx(s))
        lines.append("pure aidstr " + hx(s))
    for s in ["1:channel-0", "2:0", "2:01", "3:4294967295", "4:noble", "4:a:b", "4::", ":", "2:", ":1", "02:1", "+2:1", "-2:1", "2147483648:1", "9:1", "0:1",
              "4:" + "x" * 32, "4:" + "x" * 33, "1:channel:1", "abc", "", "2:1:1", " 2:1", "2 :1"]:
        lines.append("pure parseccid " + hx(s))
    alphabet = "0123456789+-: _xchanel"
    for _ in range(n_random):
        n = r.range(0, 12)
        s = "".join(r.choice(alphabet) for _ in range(n))
        p = r.range(0, 5)
        lines.append("pure cpid %d %s" % (p, hx(s)))
        lines.append("pure ccid %d %s" % (p, hx(s)))
        lines.append("pure parseccid " + hx(("%d:" % p if r.chance(2, 3) else "") + s))
    # decimal u32 spot checks
    for _ in range(n_random // 4):
        v = r.choice([0, 1, 9, 10, 2 ** 31, 2 ** 32 - 1, 2 ** 32]) if r.chance(1, 3) else r.range(0, 2 ** 33)
        lines.append("pure cpid 2 " + hx(str(v)))
        lines.append("pure cpid 3 " + hx("0" + str(v)))
    return lines


DENOM_GRID = ["uusdc", "transfer/channel-7/uusdc", "transfer/channel-7/transfer/channel-3/uusdc", "transfer/channel-70/uusdc", "transfer/channel-7uusdc",
              "transfer/channel-7/", "transfer/channel-7//", "transfer/channel-7/a/b", "transfer/channel-7/a/channel-1", "transfer/channel-7/a/channel-1/b",
              "transfer/channel-7/ibc/ABCDEF", "ibc/27394FB092D2ECCD56123C74F36E4C1F926001CEADA9CA97EA622B25F41E5EB2", "/transfer/channel-7/uusdc",
              "transfer//uusdc", "Transfer/channel-7/uusdc", "transfer/channel-7/UUSDC", "transfer/channel-7/x", "transfer/channel-7/ab", "", "/", "//",
              "other/channel-7/uusdc", "transfer/channel-8/uusdc", "transfer/channel-7/transfer/channel-7/uusdc", "transfer/channel-7/uusdc/",
              "transfer/channel-7/1usdc", "transfer/channel-7/uus dc",
              # the bare prefix, pieces of it, and natives that contain slashes themselves (an empty trace path all the same)
              "transfer/channel-7", "transfer", "transfer/", "channel-7", "channel-7/uusdc", "transfer/channel-70", "transfer/channel-7/factory/noble1xyz/sub",
              "transfer/channel-7/gamm/pool/7", "transfer/channel-7/hyperlane/0x1234", "transfer/channel-7/x/y", "transfer/channel-7/x/y/z"]


def denom_grid(r, n_random=200):
    lines = []
    for d in DENOM_GRID:
        for (p, c) in [("transfer", "channel-7"), ("transfer", "channel-70"), ("other", "channel-7"), ("transfer", "channel-8")]:
            lines.append("pure denom %s %s %s" % (hx(d), hx(p), hx(c)))
    parts = ["transfer", "channel-7", "channel-1", "uusdc", "a", "ibc", "x", "", "channel-70"]
    for _ in range(n_random):
        n = r.range(1, 6)
        d = "/".join(r.choice(parts) for _ in range(n))
        lines.append("pure denom %s %s %s" % (hx(d), hx("transfer"), hx(r.choice(["channel-7", "channel-1"]))))
    for s in ["1", "01", "010", "0x10", "0b11", "0o17", "1_000", "+5", "-5", "-0", "", " 1", "1 ", "1e3", "1.0", str(2 ** 256 - 1), str(2 ** 256), "_1", "1__0", "0_1", "0x", "0X1F", "08", "0_8"]:
        lines.append("pure bigint " + hx(s))
    for s in ["uusdc", "x", "ab", "abc", "1abc", "a" * 128, "a" * 129, "ibc/ABC", "a b", "a:b.c_d-e", "U"]:
        lines.append("pure validdenom " + hx(s))
    for s in ["channel-0", "channel-007", "channel-18446744073709551615", "channel-18446744073709551616", "channel-", "channel", "channel-1 ", "channel-1\n", "xchannel-1", "channel-123456789012345678901"]:
        lines.append("pure chanid " + hx(s))
    return lines


def bech32_grid(r):
    lines = []
    good = b32(addr(1))
    cases = [good, good.upper(), good[:-1] + ("q" if good[-1] != "q" else "p"), good[:10] + good[10:].upper(), "", " ", ORB, ORB.upper(), DUST,
             "cosmos1qyqszqgpqyqszqgpqyqszqgpqyqszqgpjnp7du", "noble1", "noble1qqqqqq", good + " ", " " + good, "NOBLE1" + good[6:],
             b32(b""), b32(b"\x01"), b32(bytes(range(32))), b32(bytes(255)), b32(bytes(256))]
    for c in cases:
        lines.append("pure bech32 " + hx(c))
    return lines


# ------------------------------------------------------------------------------------------ app histories

def tuned_history(r, n, toks, op="recv", p_admin=15, p_deposit=6, p_query=8, p_reimport=2, fee_heavy=True, pause_sticky=False):
    """Mixed history: transfers, admin messages (pause state relaxes back), deposits, queries, reimport."""
    lines = []
    paused_p, paused_a, paused_cc = set(), set(), set()
    for _ in range(n):
        k = r.below(100)
        if k < p_admin:
            kind = r.below(10)
            if kind < 4:
                # protocol pause / unpause; prefer undoing an existing pause
                if paused_p and r.chance(3, 4):
                    p = r.choice(sorted(paused_p))
                    lines.append(msg_line("UnpauseProtocol", AUTHORITY, hx(p)))
                    paused_p.discard(p)
                else:
                    p = r.choice(PROTO_NAMES)
                    signer = AUTHORITY if r.chance(5, 6) else r.choice([U[0], "", ORB])
                    rpc = r.choice(["PauseProtocol", "PauseProtocol", "UnpauseProtocol"])
                    lines.append(msg_line(rpc, signer, hx(p)))
                    if signer == AUTHORITY and rpc == "PauseProtocol":
                        paused_p.add(p)
            elif kind < 7:
                if paused_a and r.chance(3, 4):
                    a = r.choice(sorted(paused_a))
                    lines.append(msg_line("UnpauseAction", AUTHORITY, hx(a)))
                    paused_a.discard(a)
                else:
                    a = r.choice(ACTION_NAMES)
                    rpc = r.choice(["PauseAction", "PauseAction", "UnpauseAction"])
                    lines.append(msg_line(rpc, AUTHORITY, hx(a)))
                    if rpc == "PauseAction":
                        paused_a.add(a)
            elif kind < 9:
                p = r.choice(PROTO_NAMES[1:])
                pool = {"PROTOCOL_CCTP": ["0", "1", "5", "7", "01"], "PROTOCOL_HYPERLANE": ["1", "2", "9"], "PROTOCOL_INTERNAL": ["noble", "x"]}[p]
                ids = [r.choice(pool) for _ in range(r.range(1, 3))]
                rpc = r.choice(["PauseCrossChains", "UnpauseCrossChains"])
                if paused_cc and r.chance(1, 2):
                    p, c = r.choice(sorted(paused_cc))
                    rpc, ids = "UnpauseCrossChains", [c]
                lines.append(msg_line(rpc, AUTHORITY, hx(p), *[hx(x) for x in ids]))
                if rpc == "PauseCrossChains" and len(set(ids)) == len(ids):
                    for c in ids:
                        paused_cc.add((p, c))
                elif rpc == "UnpauseCrossChains":
                    for c in ids:
                        paused_cc.discard((p, c))
            else:
                lines.append(msg_line("UpdateParams", AUTHORITY, str(r.choice([0, 0, 1, 16, 64, 2 ** 32 - 1]))))
                if r.chance(1, 3):
                    # on a branch that is dropped (a simulation, a transaction whose later message failed): sets nothing
                    lines[-1] = "msgdry" + lines[-1][3:]
                # transfers whose passthrough lies between the values in play: the limit in force is the committed one
                for L in r.shuffle([1, 16, 17, 64, 65])[:2]:
                    lines.append(orb_pkt(op, 1000, cctp_fwd(domain=0, passthrough=b"\x5a" * L)))
        elif k < p_admin + p_deposit:
            lines.append("deposit %s %s %d" % (hx(ORB_BYTES), hx(r.choice(DENOMS + ["stake"])), r.range(1, 10 ** 6)))
        elif k < p_admin + p_deposit + p_query:
            q = r.below(8)
            if q == 0:
                lines.append("query PausedProtocols")
            elif q == 1:
                lines.append("query PausedActions")
            elif q == 2:
                lines.append("query IsProtocolPaused " + hx(r.choice(PROTO_NAMES)))
            elif q == 3:
                lines.append("query PausedCrossChains %s nopage" % hx(r.choice(PROTO_NAMES)))
            elif q == 4:
                lines.append("query DispatchedAmountsBySrc %s nopage" % hx("PROTOCOL_IBC"))
            elif q == 5:
                lines.append("query DispatchedCountsByDst %s nopage" % hx(r.choice(PROTO_NAMES[1:])))
            elif q == 6:
                lines.append("query DispatchedCounts %s %s %s %s" % (hx("PROTOCOL_IBC"), hx(r.choice(CHANNELS)), hx(r.choice(PROTO_NAMES[1:])), hx(r.choice(["0", "1", "noble", "5"]))))
            else:
                lines.append("query Params")
        elif k < p_admin + p_deposit + p_query + p_reimport:
            lines.append("reimport")
        else:
            lines.append(rand_transfer2(r, op, toks))
    return lines


def small_fee_entries(r, amount):
    n = r.below(4)
    out = []
    for _ in range(n):
        rec = r.choice(U[:5])
        if r.chance(1, 2):
            out.append((rec, "b", r.choice([1, 10, 100, 250, 1000])))
        else:
            out.append((rec, "a", max(1, min(amount // 10 if amount >= 10 else 1, r.range(1, 5000)))))
    return out


def rand_transfer2(r, op, toks, with_pt=False):
    fwd = rand_forwarding(r, toks)
    denom = fwd_denom(fwd, toks) or r.choice(DENOMS)
    amount = rand_amount(r)
    if fwd["protocol_id"] == "PROTOCOL_CCTP" and amount > 10 ** 24:
        amount = r.range(1, 10 ** 20)
    acts = None
    k = r.below(10)
    if k < 5:
        acts = [fee_action(small_fee_entries(r, amount))]
    elif k < 6:
        acts = [fee_action(rand_fee_entries(r, amount))]
    elif k < 7:
        acts = []
    return orb_pkt(op, amount, fwd, acts, denom=denom, src_chan=r.choice(SRC_CHANNELS), dst_chan=r.choice(CHANNELS))


# ------------------------------------------------------------------------------------------ JSON mutations

def _paths(doc, pre=()):
    """all paths into a JSON document (dict keys / list indices)"""
    yield pre
    if isinstance(doc, dict):
        for k, v in doc.items():
            yield from _paths(v, pre + (k,))
    elif isinstance(doc, list):
        for i, v in enumerate(doc):
            yield from _paths(v, pre + (i,))


def _get(doc, path):
    for p in path:
        doc = doc[p]
    return doc


def _set(doc, path, val):
    import copy
    doc = copy.deepcopy(doc)
    if not path:
        return val
    cur = doc
    for p in path[:-1]:
        cur = cur[p]
    cur[path[-1]] = val
    return doc


def _del(doc, path):
    import copy
    doc = copy.deepcopy(doc)
    cur = doc
    for p in path[:-1]:
        cur = cur[p]
    del cur[path[-1]]
    return doc


WRONG = [None, 0, 1, -1, 1.5, 2 ** 70, True, "", "x", "0", "1", [], {}, [None], [1], {"a": 1}, "AAAA", "////", "PROTOCOL_IBC", 5, "5"]


def mutations(doc, r=None, limit=None):
    """single-point structural mutations of a JSON document, as JSON texts"""
    out = []
    prio = []      # never sampled away: spellings of numbers (validation and execution must agree on what a number is)
    paths = [p for p in _paths(doc) if p]
    for path in paths:
        cur = _get(doc, path)
        if isinstance(cur, str) and cur.isdigit():
            # spellings of a number a lenient parser may or may not accept
            for v in (" " + cur, cur + " ", "\t" + cur + "\n", "+" + cur, "0" + cur, cur[0] + "_" + cur[1:] if len(cur) > 1 else cur + "_", hex(int(cur)), "-" + cur, cur + ".0", cur + "e0"):
                prio.append(json.dumps(_set(doc, path, v), separators=(",", ":")))
        if isinstance(cur, int) and not isinstance(cur, bool):
            for v in (str(cur), " %d" % cur, -cur - 1, cur + 2 ** 32, float(cur)):
                prio.append(json.dumps(_set(doc, path, v), separators=(",", ":")))
        for w in WRONG:
            out.append(json.dumps(_set(doc, path, w), separators=(",", ":")))
        out.append(json.dumps(_del(doc, path), separators=(",", ":")))
        parent = _get(doc, path[:-1])
        if isinstance(parent, dict):
            k = path[-1]
            # unknown sibling key, camelCase alias, duplicated key (textual)
            out.append(json.dumps(_set(doc, path[:-1] + ("unknown_field",), 1), separators=(",", ":")))
            out.append(json.dumps(_set(doc, path[:-1] + ("zzz",), None), separators=(",", ":")))
            if "_" in str(k):
                parts = str(k).split("_")
                camel = parts[0] + "".join(x.capitalize() for x in parts[1:])
                d2 = _del(doc, path)
                out.append(json.dumps(_set(d2, path[:-1] + (camel,), _get(doc, path)), separators=(",", ":")))
                out.append(json.dumps(_set(doc, path[:-1] + (camel,), _get(doc, path)), separators=(",", ":")))
        if isinstance(parent, list):
            # repeat the element, add a null element
            import copy
            d2 = copy.deepcopy(doc)
            _get(d2, path[:-1]).append(copy.deepcopy(_get(doc, path)))
            out.append(json.dumps(d2, separators=(",", ":")))
            d3 = copy.deepcopy(doc)
            _get(d3, path[:-1]).append(None)
            out.append(json.dumps(d3, separators=(",", ":")))
    # textual duplicates of every key at top of payload
    base = json.dumps(doc, separators=(",", ":"))
    out.append(base[:-1] + ",\"orbiter\":null}")
    out.append(base[:-1] + ",\"orbiter\":{}}")
    out.append("{\"orbiter\":null," + base[1:])
    out.append(base + " ")
    out.append(" " + base)
    out.append(base + "x")
    out.append(base + "{}")
    out.append(base.replace("\"orbiter\"", "\"Orbiter\""))
    out.append(base.replace("PROTOCOL_", "PROTOCOL\\u005f"))
    out.append(base.replace("{\"orbiter\"", "{\"note\":1e999,\"orbiter\"", 1))
    out.append(base.replace("{\"orbiter\"", "{\"note\":1e400,\"orbiter\"", 1)[: len(base) + 40])
    if r is not None and limit is not None and len(out) > limit:
        out = r.shuffle(out)[:limit]
    return prio + out


def payload_shapes(toks):
    """valid payload documents of every shape (python dicts)"""
    tok = toks[0][0] if toks else b"\x01" * 32
    fees = fee_action([(U[0], "b", 100), (U[1], "a", "7")])
    shapes = [
        {"orbiter": {"forwarding": cctp_fwd(domain=0), "pre_actions": [fees]}},
        {"orbiter": {"forwarding": cctp_fwd(domain=1, caller=b"\x05" * 32, passthrough=b""), "pre_actions": []}},
        {"orbiter": {"forwarding": int_fwd(U[2])}},
        {"orbiter": {"forwarding": hyp_fwd(tok, domain=1, hook=b"\x04" * 32, meta="0xab", gas=7, fee=("uusdc", 1), passthrough=b""), "pre_actions": [fees]}},
        {"orbiter": {"forwarding": hyp_fwd(tok, domain=1)}},
    ]
    return shapes


def parse_lines_for(shapes, r, per_shape=None):
    lines = []
    for doc in shapes:
        lines.append("pure parse " + hx(json.dumps(doc, separators=(",", ":"))))
        for m in mutations(doc, r, per_shape):
            lines.append("pure parse " + hx(m))
    return lines


def _camel_combo_memos():
    """the pre-checks of the parser under every spelling of the path that leads to the checked place: jsonpb accepts the proto
    name and the lowerCamelCase name of every field, so a check that looks a field up by one spelling only can be bypassed"""
    import itertools
    import json as _j
    from gen import U as _U
    rec = _U[0]
    out = []
    names = [("pre_actions", "preActions"), ("fees_info", "feesInfo"), ("basis_points", "basisPoints"), ("protocol_id", "protocolId")]
    fwd = {"protocol_id": "PROTOCOL_INTERNAL", "attributes": {"@type": INT_URL, "recipient": _U[1]}}
    features = {
        "both": [{"recipient": rec, "basis_points": {"value": 100}, "amount": {"value": "7"}}],
        "both-second": [{"recipient": rec, "amount": {"value": "3"}}, {"recipient": rec, "amount": {"value": "7"}, "basis_points": {"value": 100}}],
        "null-fee": [{"recipient": rec, "basis_points": {"value": 100}}, None],
        "plain": [{"recipient": rec, "basis_points": {"value": 100}}],
    }
    for fname, infos in features.items():
        doc = {"orbiter": {"pre_actions": [{"id": "ACTION_FEE", "attributes": {"@type": FEE_URL, "fees_info": infos}}], "forwarding": fwd}}
        txt = _j.dumps(doc, separators=(",", ":"))
        for k in range(0, len(names) + 1):
            for sub in itertools.combinations(names, k):
                t = txt
                for (a, b) in sub:
                    t = t.replace("\"" + a + "\"", "\"" + b + "\"")
                out.append(t)
    # the same keys spelled with escapes (the same key for encoding/json and for jsonpb)
    esc = [("\"amount\"", "\"\\u0061mount\""), ("\"basis_points\"", "\"basis\\u005fpoints\""), ("\"basis_points\"", "\"b\\u0061sisPoints\""),
           ("\"fees_info\"", "\"fees\\u005finfo\""), ("\"pre_actions\"", "\"pre\\u005factions\""), ("\"recipient\"", "\"\\u0072ecipient\""),
           ("\"orbiter\"", "\"\\u006frbiter\""), ("\"@type\"", "\"\\u0040type\""), ("\"value\"", "\"v\\u0061lue\"")]
    for fname in ("both", "both-second", "null-fee", "plain"):
        doc = {"orbiter": {"pre_actions": [{"id": "ACTION_FEE", "attributes": {"@type": FEE_URL, "fees_info": features[fname]}}], "forwarding": fwd}}
        txt = _j.dumps(doc, separators=(",", ":"))
        for (a, b) in esc:
            out.append(txt.replace(a, b))
        out.append(txt.replace(esc[0][0], esc[0][1]).replace(esc[1][0], esc[1][1]))
    # null action under both spellings
    for a in ("pre_actions", "preActions"):
        out.append(_j.dumps({"orbiter": {a: [None], "forwarding": fwd}}, separators=(",", ":")))
        out.append(_j.dumps({"orbiter": {a: [{"id": "ACTION_FEE", "attributes": {"@type": FEE_URL, "fees_info": []}}, None], "forwarding": fwd}}, separators=(",", ":")))
    return sorted(set(out))


EXTRA_MEMOS = [
    "", " ", "{", "}", "null", "true", "1", "\"orbiter\"", "[]", "{}", "{\"orbiter\":1}", "{\"orbiter\":\"x\"}", "{\"orbiter\":[]}", "{\"orbiter\":true}",
    "{\"orbiter\":{}}", "{\"orbiter\":{\"forwarding\":{}}}", "{\"orbiter\":{\"forwarding\":{\"protocol_id\":2}}}", "{\"orbiter\":{\"pre_actions\":[null]}}",
    "{\"orbiter\":{\"pre_actions\":[{}],\"forwarding\":{\"protocol_id\":4,\"attributes\":{\"@type\":\"" + INT_URL + "\",\"recipient\":\"x\"}}}}",
    "{\"orbiter\":{\"forwarding\":{\"protocol_id\":\"PROTOCOL_INTERNAL\",\"attributes\":{\"@type\":\"" + FEE_URL + "\",\"fees_info\":[]}}}}",
    "{\"orbiter\":{\"forwarding\":{\"protocol_id\":\"PROTOCOL_INTERNAL\",\"attributes\":{\"@type\":\"/cosmos.bank.v1beta1.MsgSend\"}}}}",
    "{\"orbiter\":{\"forwarding\":{\"protocol_id\":\"PROTOCOL_INTERNAL\",\"attributes\":{\"@type\":\"\"}}}}",
    "{\"orbiter\":{\"forwarding\":{\"protocol_id\":\"PROTOCOL_INTERNAL\",\"attributes\":{\"@type\":null}}}}",
    "{\"orbiter\":{\"forwarding\":{\"protocol_id\":\"PROTOCOL_INTERNAL\",\"attributes\":{\"recipient\":\"x\"}}}}",
    "{\"orbiter\":{\"pre_actions\":[{\"id\":\"ACTION_FEE\",\"attributes\":{\"@type\":\"" + FEE_URL + "\",\"fees_info\":[null]}}],\"forwarding\":null}}",
    "{\"orbiter\":{\"pre_actions\":[{\"id\":\"ACTION_FEE\",\"attributes\":{\"@type\":\"" + FEE_URL + "\",\"fees_info\":[{\"recipient\":\"a\",\"basis_points\":{\"value\":1},\"amount\":{\"value\":\"2\"}}]}}]}}",
    "{\"orbiter\":{\"pre_actions\":[{\"id\":\"ACTION_FEE\",\"attributes\":{\"@type\":\"" + FEE_URL + "\",\"fees_info\":[{\"recipient\":\"a\",\"basis_points\":null}]}}]}}",
    "{\"orbiter\":{\"pre_actions\":[{\"id\":\"ACTION_FEE\",\"attributes\":{\"@type\":\"" + FEE_URL + "\",\"fees_info\":[{\"recipient\":\"a\",\"basis_points\":{}}]}}]}}",
    "{\"orbiter\":{\"pre_actions\":[{\"id\":\"ACTION_FEE\",\"attributes\":{\"@type\":\"" + FEE_URL + "\",\"fees_info\":[{\"recipient\":\"a\",\"basis_points\":{\"value\":\"7\"}}]}}]}}",
    "{\"orbiter\":{\"pre_actions\":[{\"id\":\"ACTION_FEE\",\"attributes\":{\"@type\":\"" + FEE_URL + "\",\"fees_info\":[{\"recipient\":\"a\",\"basis_points\":{\"value\":\" 7 \"}}]}}]}}",
    "{\"orbiter\":{\"pre_actions\":[{\"id\":\"ACTION_FEE\",\"attributes\":{\"@type\":\"" + FEE_URL + "\",\"fees_info\":[{\"recipient\":\"a\",\"basis_points\":{\"value\":\"null\"}}]}}]}}",
    "{\"orbiter\":{\"pre_actions\":[{\"id\":\"ACTION_FEE\",\"attributes\":{\"@type\":\"" + FEE_URL + "\",\"fees_info\":[{\"recipient\":\"a\",\"basis_points\":{\"value\":4294967296}}]}}]}}",
    "{\"orbiter\":{\"pre_actions\":[{\"id\":1},{\"id\":1}]}}", "{\"orbiter\":{\"pre_actions\":[{\"id\":\"1\"}]}}", "{\"orbiter\":{\"pre_actions\":[{\"id\":99}]}}",
    "{\"orbiter\":{\"pre_actions\":[{\"id\":-1}]}}", "{\"orbiter\":{\"pre_actions\":[{\"id\":2147483648}]}}", "{\"orbiter\":{\"pre_actions\":null,\"forwarding\":null}}",
    "{\"a\":1,\"orbiter\":{}}", "{\"orbiter\":{},\"orbiter\":{}}", "{\"orbiter\":{},\"orbiter\":null}", "﻿{\"orbiter\":{}}", "{\"orbiter\":{}}\n", "{\"orbiter\":{\"x\":1,\"y\":2}}",
    "{\"orbiter\":{\"forwarding\":{\"protocol_id\":\"PROTOCOL_CCTP\",\"attributes\":{\"@type\":\"" + CCTP_URL + "\",\"mint_recipient\":[1,2,3]}}}}",
    "{\"orbiter\":{\"forwarding\":{\"protocol_id\":\"PROTOCOL_CCTP\",\"attributes\":{\"@type\":\"" + CCTP_URL + "\",\"mint_recipient\":[1,null,256]}}}}",
    "{\"orbiter\":{\"forwarding\":{\"protocol_id\":\"PROTOCOL_CCTP\",\"attributes\":{\"@type\":\"" + CCTP_URL + "\",\"mint_recipient\":\"AQ\\nID\"}}}}",
    "{\"orbiter\":{\"forwarding\":{\"protocol_id\":\"PROTOCOL_CCTP\",\"attributes\":{\"@type\":\"" + CCTP_URL + "\",\"destination_domain\":\"5\",\"mint_recipient\":\"AQID\"}}}}",
    "{\"orbiter\":{\"forwarding\":{\"protocol_id\":\"PROTOCOL_CCTP\",\"attributes\":{\"@type\":\"" + CCTP_URL + "\",\"destinationDomain\":5,\"destination_domain\":6,\"mint_recipient\":\"AQID\"}}}}",
    "{\"orbiter\":{\"forwarding\":{\"protocol_id\":\"PROTOCOL_HYPERLANE\",\"attributes\":{\"@type\":\"" + HYP_URL + "\",\"gas_limit\":\"0x10\",\"max_fee\":{\"denom\":\"uusdc\",\"amount\":\"-1\"}}}}}",
    "{\"orbiter\":{\"forwarding\":{\"protocol_id\":\"PROTOCOL_HYPERLANE\",\"attributes\":{\"@type\":\"" + HYP_URL + "\",\"gas_limit\":null}}}}",
    "{\"orbiter\":{\"forwarding\":{\"protocol_id\":\"PROTOCOL_HYPERLANE\",\"attributes\":{\"@type\":\"" + HYP_URL + "\",\"gas_limit\":5}}}}",
    "{\"orbiter\":{\"forwarding\":{\"protocol_id\":\"PROTOCOL_HYPERLANE\",\"attributes\":{\"@type\":\"" + HYP_URL + "\",\"max_fee\":null}}}}",
    "{\"orbiter\":{\"forwarding\":{\"protocol_id\":\"PROTOCOL_HYPERLANE\",\"attributes\":{\"@type\":\"" + HYP_URL + "\",\"max_fee\":{\"amount\":\"1_000\"}}}}}",
]

EXTRA_MEMOS += _camel_combo_memos()


def random_bytes_memos(r, n):
    out = []
    alphabet = "{}[]\":,0123456789.eE+-tfnul orbitefwdg_ps\\/é"
    for _ in range(n):
        k = r.below(3)
        if k == 0:
            out.append(r.bytes(r.range(0, 40)))
        else:
            out.append("".join(r.choice(alphabet) for _ in range(r.range(0, 60))).encode())
    return out
