/-
  C19 — Processing is deterministic.
  The model is a function of (state, input, fault oracle) and of one explicit oracle: `π`, the order in
  which gogoproto's jsonpb visits the two members of the `fee_type` oneof when *both* are present in one
  fee entry (a Go map iteration). Proved here: that is the only place the order can matter — for every memo
  in which no JSON object carries both a `basis_points`/`basisPoints` key and an `amount` key, the decoder
  is independent of `π`; and since the repair `fa42fe7` the parser refuses the remaining memos before decoding
  them, so the parser and the whole receive path are independent of `π` for every input
  (`c19_recv_order_independent_all`).
  What Lean cannot express — error *texts* that name an arbitrary unknown field, wall-clock, addresses — is
  decided by the replay streams of the correspondence check only (second known finding of C19).
-/
import Orbiter.Lemmas.NoPanic
import Orbiter.Props.C17
namespace Orbiter.C19
open Orbiter

theorem ambiguousFields_false {fs : List (String × Json)} (h : ambiguousFields fs = false) : ∀ kv ∈ fs, kv.2.ambiguous = false := by
  induction fs with
  | nil => intro kv hkv; cases hkv
  | cons x xs ih =>
    obtain ⟨k, v⟩ := x
    simp only [ambiguousFields, Bool.or_eq_false_iff] at h
    intro kv hkv
    rcases List.mem_cons.mp hkv with rfl | hm
    · exact h.1
    · exact ih h.2 kv hm

theorem ambiguousList_false {l : List Json} (h : ambiguousList l = false) : ∀ x ∈ l, x.ambiguous = false := by
  induction l with
  | nil => intro x hx; cases hx
  | cons y ys ih =>
    simp only [ambiguousList, Bool.or_eq_false_iff] at h
    intro x hx
    rcases List.mem_cons.mp hx with rfl | hm
    · exact h.1
    · exact ih h.2 x hm

def FieldsUnamb (fs : List (String × Json)) : Prop := ∀ kv ∈ fs, kv.2.ambiguous = false

theorem FieldsUnamb.eraseKey {fs : List (String × Json)} (h : FieldsUnamb fs) (k : String) : FieldsUnamb (Json.eraseKey fs k) :=
  fun kv hkv => h kv (List.mem_filter.mp hkv).1

theorem takeField_unamb {fs : Fields} (h : FieldsUnamb fs) (a b : String) :
    (∀ v, (takeField fs a b).1 = some v → v.ambiguous = false) ∧ FieldsUnamb (takeField fs a b).2 := by
  unfold takeField
  simp only
  refine ⟨?_, (h.eraseKey a).eraseKey b⟩
  intro v hv
  cases hc : Json.lookupLast fs b with
  | some x =>
    simp only [hc, Option.some.injEq] at hv
    subst hv
    obtain ⟨kv, hm, rfl⟩ := lookupLast_mem hc
    exact h kv hm
  | none =>
    simp only [hc] at hv
    obtain ⟨kv, hm, rfl⟩ := lookupLast_mem hv
    exact h kv hm

theorem asObject_unamb {j : Json} {fs : Fields} (hj : j.ambiguous = false) (h : asObject j = .ok fs) :
    FieldsUnamb fs ∧ fieldsAmbiguous fs = false := by
  unfold asObject at h
  cases j with
  | obj f =>
    simp only [Dec.ok.injEq] at h
    subst h
    simp only [Json.ambiguous, Bool.or_eq_false_iff] at hj
    exact ⟨ambiguousFields_false hj.2, hj.1⟩
  | null => simp only [Dec.ok.injEq] at h; subst h; exact ⟨fun kv hkv => (by cases hkv), rfl⟩
  | bool b => cases h
  | num r => cases h
  | str v p => cases h
  | arr i => cases h

/-- A field taken from a list was present under one of its two spellings. -/
theorem takeField_present {fs : Fields} {a b : String} {v : Json} (h : (takeField fs a b).1 = some v) :
    Json.hasKey fs a = true ∨ Json.hasKey fs b = true := by
  unfold takeField at h
  simp only at h
  have key : ∀ k x, Json.lookupLast fs k = some x → Json.hasKey fs k = true := by
    intro k x hx
    obtain ⟨kv, hm, hk⟩ := lookupLast_key hx
    simp only [Json.hasKey, List.any_eq_true, beq_iff_eq]
    exact ⟨kv, hm, hk⟩
  cases hc : Json.lookupLast fs b with
  | some x => exact Or.inr (key b x hc)
  | none => simp only [hc] at h; exact Or.inl (key a v h)


/-! ### the decoders do not depend on the order unless an object is ambiguous -/

theorem pickFeeType_indep (π₁ π₂ : OneofOrder) (bv : Option (Option Nat)) (av : Option (Option String))
    (h : bv = none ∨ av = none) : pickFeeType π₁ bv av = pickFeeType π₂ bv av := by
  rcases h with rfl | rfl
  · cases av <;> rfl
  · cases bv <;> rfl

theorem hasKey_eraseKey {fs : Fields} {k k' : String} (h : Json.hasKey (Json.eraseKey fs k') k = true) : Json.hasKey fs k = true := by
  simp only [Json.hasKey, List.any_eq_true, beq_iff_eq] at h ⊢
  obtain ⟨kv, hm, hk⟩ := h
  exact ⟨kv, (List.mem_filter.mp hm).1, hk⟩

theorem decOptMember_none {α} (dec : Json → Dec (Option α)) {r : Option (Option α)}
    (h : decOptMember dec none = .ok r) : r = none := by
  simp only [decOptMember, Dec.ok.injEq] at h; exact h.symm

theorem decFeeInfo_indep (π₁ π₂ : OneofOrder) (j : Json) (hj : j.ambiguous = false) : decFeeInfo π₁ j = decFeeInfo π₂ j := by
  unfold decFeeInfo
  apply Dec.bind_congr
  intro fs ho
  obtain ⟨_, hamb⟩ := asObject_unamb hj ho
  simp only
  apply Dec.bind_congr
  intro recipient _
  apply Dec.bind_congr
  intro bv hb
  apply Dec.bind_congr
  intro av ha
  apply Dec.bind_congr
  intro _ _
  simp only [Dec.pure_eq, Dec.ok.injEq, FeeInfo.mk.injEq, true_and]
  apply pickFeeType_indep
  -- not both keys are present in this object
  cases hbf : (takeField (takeField fs "recipient" "recipient").2 "basis_points" "basisPoints").1 with
  | none => left; rw [hbf] at hb; exact decOptMember_none _ hb
  | some vb =>
    cases haf : (takeField (takeField (takeField fs "recipient" "recipient").2 "basis_points" "basisPoints").2 "amount" "amount").1 with
    | none => right; rw [haf] at ha; exact decOptMember_none _ ha
    | some va =>
      exfalso
      have k1 : Json.hasKey fs "basis_points" = true ∨ Json.hasKey fs "basisPoints" = true := by
        rcases takeField_present hbf with h | h
        · left
          exact hasKey_eraseKey (hasKey_eraseKey (show Json.hasKey (takeField fs "recipient" "recipient").2 "basis_points" = true from h))
        · right
          exact hasKey_eraseKey (hasKey_eraseKey (show Json.hasKey (takeField fs "recipient" "recipient").2 "basisPoints" = true from h))
      have k2 : Json.hasKey fs "amount" = true := by
        have h : Json.hasKey (takeField (takeField fs "recipient" "recipient").2 "basis_points" "basisPoints").2 "amount" = true := by
          rcases takeField_present haf with h | h <;> exact h
        exact hasKey_eraseKey (hasKey_eraseKey (hasKey_eraseKey (hasKey_eraseKey h)))
      simp only [fieldsAmbiguous, Bool.and_eq_false_iff, Bool.or_eq_false_iff] at hamb
      rcases hamb with ⟨h1, h2⟩ | h3
      · rcases k1 with k | k
        · rw [k] at h1; cases h1
        · rw [k] at h2; cases h2
      · rw [k2] at h3; cases h3

theorem mapM_congr_dec {α β} (f g : α → Dec β) (l : List α) (h : ∀ x ∈ l, f x = g x) : l.mapM f = l.mapM g := by
  induction l with
  | nil => rfl
  | cons x xs ih =>
    rw [List.mapM_cons, List.mapM_cons, h x List.mem_cons_self, ih (fun y hy => h y (List.mem_cons_of_mem _ hy))]

theorem mapM_congr_res {α β} (f g : α → Res β) (l : List α) (h : ∀ x ∈ l, f x = g x) : l.mapM f = l.mapM g := by
  induction l with
  | nil => rfl
  | cons x xs ih =>
    rw [List.mapM_cons, List.mapM_cons, h x List.mem_cons_self, ih (fun y hy => h y (List.mem_cons_of_mem _ hy))]

theorem decRepeated_congr {α} (d₁ d₂ : Json → Dec α) (j : Json) (hj : j.ambiguous = false)
    (h : ∀ x, x.ambiguous = false → d₁ x = d₂ x) : decRepeated d₁ j = decRepeated d₂ j := by
  unfold decRepeated
  cases j with
  | arr items =>
    simp only
    apply mapM_congr_dec
    intro it hit
    have hu := ambiguousList_false (by simpa [Json.ambiguous] using hj) it hit
    cases it <;> first | rfl | (simp only; rw [h _ hu])
  | null => rfl
  | bool b => rfl
  | num r => rfl
  | str v p => rfl
  | obj f => rfl

theorem decRepeatedR_congr {α} (d₁ d₂ : Json → Res α) (j : Json) (hj : j.ambiguous = false)
    (h : ∀ x, x.ambiguous = false → d₁ x = d₂ x) : decRepeatedR d₁ j = decRepeatedR d₂ j := by
  unfold decRepeatedR
  cases j with
  | arr items =>
    simp only
    apply mapM_congr_res
    intro it hit
    have hu := ambiguousList_false (by simpa [Json.ambiguous] using hj) it hit
    cases it <;> first | rfl | (simp only; rw [h _ hu])
  | null => rfl
  | bool b => rfl
  | num r => rfl
  | str v p => rfl
  | obj f => rfl

theorem decFee_indep (π₁ π₂ : OneofOrder) (fs : Fields) (h : FieldsUnamb fs) : decFee π₁ fs = decFee π₂ fs := by
  unfold decFee
  obtain ⟨hv, _⟩ := takeField_unamb h "fees_info" "feesInfo"
  rcases hq : takeField fs "fees_info" "feesInfo" with ⟨f, fs1⟩
  rw [hq] at hv
  simp only at hv ⊢
  cases f with
  | none => rfl
  | some v =>
    simp only
    rw [decRepeated_congr (decFeeInfo π₁) (decFeeInfo π₂) v (hv v rfl) (fun x hx => decFeeInfo_indep π₁ π₂ x hx)]

theorem decAny_indep (π₁ π₂ : OneofOrder) (j : Json) (hj : j.ambiguous = false) : decAny π₁ j = decAny π₂ j := by
  unfold decAny
  cases j with
  | obj fs =>
    simp only
    have hfs : FieldsUnamb fs := by
      simp only [Json.ambiguous, Bool.or_eq_false_iff] at hj
      exact ambiguousFields_false hj.2
    cases Json.lookupLast fs "@type" with
    | none => rfl
    | some t =>
      cases t with
      | str url p =>
        simp only
        rw [decFee_indep π₁ π₂ _ (hfs.eraseKey "@type")]
      | null => rfl
      | bool b => rfl
      | num r => rfl
      | arr i => rfl
      | obj f => rfl
  | null => rfl
  | bool b => rfl
  | num r => rfl
  | str v p => rfl
  | arr i => rfl

theorem decAction_indep (π₁ π₂ : OneofOrder) (j : Json) (hj : j.ambiguous = false) : decAction π₁ j = decAction π₂ j := by
  unfold decAction
  apply Res.bind_congr
  intro fs hfs
  have hF : FieldsUnamb fs := (asObject_unamb hj (toRes_ok hfs)).1
  obtain ⟨_, hF1⟩ := takeField_unamb hF "id" "id"
  obtain ⟨hv2, _⟩ := takeField_unamb hF1 "attributes" "attributes"
  rcases hq1 : takeField fs "id" "id" with ⟨i, fs1⟩
  rw [hq1] at hF1 hv2
  simp only at hF1 hv2 ⊢
  rcases hq2 : takeField fs1 "attributes" "attributes" with ⟨a, fs2⟩
  rw [hq2] at hv2
  simp only at hv2 ⊢
  apply Res.bind_congr
  intro id _
  cases a with
  | none => rfl
  | some v => simp only; rw [decAny_indep π₁ π₂ v (hv2 v rfl)]

theorem decForwarding_indep (π₁ π₂ : OneofOrder) (j : Json) (hj : j.ambiguous = false) : decForwarding π₁ j = decForwarding π₂ j := by
  unfold decForwarding
  apply Res.bind_congr
  intro fs hfs
  have hF : FieldsUnamb fs := (asObject_unamb hj (toRes_ok hfs)).1
  obtain ⟨_, hF1⟩ := takeField_unamb hF "protocol_id" "protocolId"
  obtain ⟨hv2, _⟩ := takeField_unamb hF1 "attributes" "attributes"
  rcases hq1 : takeField fs "protocol_id" "protocolId" with ⟨i, fs1⟩
  rw [hq1] at hF1 hv2
  simp only at hF1 hv2 ⊢
  rcases hq2 : takeField fs1 "attributes" "attributes" with ⟨a, fs2⟩
  rw [hq2] at hv2
  simp only at hv2 ⊢
  rcases hq3 : takeField fs2 "passthrough_payload" "passthroughPayload" with ⟨pt, fs3⟩
  simp only
  apply Res.bind_congr
  intro id _
  cases a with
  | none => rfl
  | some v => simp only; rw [decAny_indep π₁ π₂ v (hv2 v rfl)]

theorem decPayload_indep (π₁ π₂ : OneofOrder) (j : Json) (hj : j.ambiguous = false) : decPayload π₁ j = decPayload π₂ j := by
  unfold decPayload
  apply Res.bind_congr
  intro fs hfs
  have hF : FieldsUnamb fs := (asObject_unamb hj (toRes_ok hfs)).1
  obtain ⟨hv1, hF1⟩ := takeField_unamb hF "pre_actions" "preActions"
  obtain ⟨hv2, _⟩ := takeField_unamb hF1 "forwarding" "forwarding"
  rcases hq1 : takeField fs "pre_actions" "preActions" with ⟨pa, fs1⟩
  rw [hq1] at hF1 hv1 hv2
  simp only at hF1 hv1 hv2 ⊢
  rcases hq2 : takeField fs1 "forwarding" "forwarding" with ⟨fw, fs2⟩
  rw [hq2] at hv2
  simp only at hv2 ⊢
  have hfw : ∀ v, fw = some v → decForwarding π₁ v = decForwarding π₂ v := fun v hv => decForwarding_indep π₁ π₂ v (hv2 v hv)
  have hpa : ∀ v, pa = some v → decRepeatedR (decAction π₁) v = decRepeatedR (decAction π₂) v :=
    fun v hv => decRepeatedR_congr _ _ v (hv1 v hv) (fun x hx => decAction_indep π₁ π₂ x hx)
  cases pa with
  | none =>
    cases fw with
    | none => rfl
    | some v => cases v <;> first | (simp only; rw [hfw _ rfl]) | rfl
  | some w =>
    simp only
    rw [hpa w rfl]
    cases fw with
    | none => rfl
    | some v => cases v <;> first | (simp only; rw [hfw _ rfl]) | rfl

theorem decWrapper_indep (π₁ π₂ : OneofOrder) (j : Json) (hj : j.ambiguous = false) : decWrapper π₁ j = decWrapper π₂ j := by
  unfold decWrapper
  apply Res.bind_congr
  intro fs hfs
  have hF : FieldsUnamb fs := (asObject_unamb hj (toRes_ok hfs)).1
  obtain ⟨hv1, _⟩ := takeField_unamb hF Gen.orbiterPrefix Gen.orbiterPrefix
  have : decOrbiterValue π₁ (takeField fs Gen.orbiterPrefix Gen.orbiterPrefix).1 = decOrbiterValue π₂ (takeField fs Gen.orbiterPrefix Gen.orbiterPrefix).1 := by
    unfold decOrbiterValue
    cases ho : (takeField fs Gen.orbiterPrefix Gen.orbiterPrefix).1 with
    | none => rfl
    | some v =>
      have := hv1 v ho
      cases v <;> first | (simp only; rw [decPayload_indep π₁ π₂ _ this]) | rfl
  rw [this]

/-- The parser does not depend on the order unless some object of the memo carries both members. -/
theorem c19_parser_order_independent (π₁ π₂ : OneofOrder) (memo : Bytes)
    (h : ∀ j, parseJsonWhole memo = some j → j.ambiguous = false) : parsePayload π₁ memo = parsePayload π₂ memo := by
  unfold parsePayload
  cases hj : parseJsonWhole memo with
  | none => rfl
  | some j =>
    simp only
    rw [decWrapper_indep π₁ π₂ j (h j hj)]

/-- **C19 (model part).** The whole receive path is a function of the state, the packet and the fault oracle
alone, for every packet whose memo has no object with both oneof members. -/
theorem c19_recv_order_independent (cfg : Cfg) (π₁ π₂ : OneofOrder) (φ : Faults) (o : OrbState) (c0 : Ctx) (pkt : Packet)
    (h : ∀ d j, decFTPD pkt.data = some d → parseJsonWhole (strBytes d.memo) = some j → j.ambiguous = false) :
    stackOnRecv (appWiring cfg π₁) φ o c0 pkt = stackOnRecv (appWiring cfg π₂) φ o c0 pkt := by
  have hadapt : adaptPacket (appWiring cfg π₁) pkt = adaptPacket (appWiring cfg π₂) pkt := by
    unfold adaptPacket
    cases hd : decFTPD pkt.data with
    | none => rfl
    | some d =>
      simp only [appWiring]
      rw [c19_parser_order_independent π₁ π₂ (strBytes d.memo) (fun j hj => h d j hd hj)]
  have hexec : ∀ c t a, executorHandle (appWiring cfg π₁) φ o c t a = executorHandle (appWiring cfg π₂) φ o c t a := fun _ _ _ => rfl
  have hacts : ∀ acts c t, dispatchActions (appWiring cfg π₁) φ o acts c t = dispatchActions (appWiring cfg π₂) φ o acts c t := by
    intro acts
    induction acts with
    | nil => intro c t; rfl
    | cons x rest ih =>
      intro c t
      simp only [dispatchActions, hexec]
      apply Res.bind_congr
      intro r _
      exact ih r.1 r.2
  have hfwd : ∀ c t f, forwarderHandle (appWiring cfg π₁) φ o c t f = forwarderHandle (appWiring cfg π₂) φ o c t f := fun _ _ _ => rfl
  have hproc : ∀ c t p, processPayload (appWiring cfg π₁) φ o c t p = processPayload (appWiring cfg π₂) φ o c t p := by
    intro c t p
    unfold processPayload dispatchPayload
    simp only [hacts, hfwd]
  have hhook : ∀ t p, beforeTransferHook (appWiring cfg π₁) φ o c0 t p = beforeTransferHook (appWiring cfg π₂) φ o c0 t p := fun _ _ => rfl
  have happ : ∀ c, wrappedApp (appWiring cfg π₁) φ c pkt = wrappedApp (appWiring cfg π₂) φ c pkt := fun _ => rfl
  unfold stackOnRecv mwOnRecv
  rw [hadapt]
  simp only [hproc, hhook, happ]
  rfl


/-- **After the repair** (`fix: reject fee entries that set both members …`): ambiguous memos are refused before
they are decoded, so the parser does not depend on the order for *any* memo. -/
theorem c19_parser_order_independent_all (π₁ π₂ : OneofOrder) (memo : Bytes) : parsePayload π₁ memo = parsePayload π₂ memo := by
  unfold parsePayload
  cases parseJsonWhole memo with
  | none => rfl
  | some j =>
    simp only
    by_cases hamb : j.ambiguous = true
    · -- refused on both sides (or by an earlier guard, the same on both sides)
      cases j with
      | obj fs =>
        simp only [hamb, ↓reduceIte]
      | null => rfl
      | bool b => rfl
      | num r => rfl
      | str x y => rfl
      | arr i => rfl
    · have hna : j.ambiguous = false := by simpa using hamb
      rw [decWrapper_indep π₁ π₂ j hna]

/-- …and so does the whole receive path, for every packet. -/
theorem c19_recv_order_independent_all (cfg : Cfg) (π₁ π₂ : OneofOrder) (φ : Faults) (o : OrbState) (c0 : Ctx) (pkt : Packet) :
    stackOnRecv (appWiring cfg π₁) φ o c0 pkt = stackOnRecv (appWiring cfg π₂) φ o c0 pkt := by
  have hadapt : adaptPacket (appWiring cfg π₁) pkt = adaptPacket (appWiring cfg π₂) pkt := by
    unfold adaptPacket
    cases hd : decFTPD pkt.data with
    | none => rfl
    | some d =>
      simp only [appWiring]
      rw [c19_parser_order_independent_all π₁ π₂ (strBytes d.memo)]
  have hexec : ∀ c t a, executorHandle (appWiring cfg π₁) φ o c t a = executorHandle (appWiring cfg π₂) φ o c t a := fun _ _ _ => rfl
  have hacts : ∀ acts c t, dispatchActions (appWiring cfg π₁) φ o acts c t = dispatchActions (appWiring cfg π₂) φ o acts c t := by
    intro acts
    induction acts with
    | nil => intro c t; rfl
    | cons x rest ih =>
      intro c t
      simp only [dispatchActions, hexec]
      apply Res.bind_congr
      intro r _
      exact ih r.1 r.2
  have hfwd : ∀ c t f, forwarderHandle (appWiring cfg π₁) φ o c t f = forwarderHandle (appWiring cfg π₂) φ o c t f := fun _ _ _ => rfl
  have hproc : ∀ c t p, processPayload (appWiring cfg π₁) φ o c t p = processPayload (appWiring cfg π₂) φ o c t p := by
    intro c t p
    unfold processPayload dispatchPayload
    simp only [hacts, hfwd]
  have hhook : ∀ t p, beforeTransferHook (appWiring cfg π₁) φ o c0 t p = beforeTransferHook (appWiring cfg π₂) φ o c0 t p := fun _ _ => rfl
  have happ : ∀ c, wrappedApp (appWiring cfg π₁) φ c pkt = wrappedApp (appWiring cfg π₂) φ c pkt := fun _ => rfl
  unfold stackOnRecv mwOnRecv
  rw [hadapt]
  simp only [hproc, hhook, happ]
  rfl

/-- What a node exports does not depend on the order in which its content came about: histories that leave the same pause sets,
limit and statistics export the same document (from `C17.c17_export_canonical`: every stored list is kept in key order). -/
theorem c19_export_order_irrelevant (wr : Wiring) (w : World) (ops₁ ops₂ : List Op) (hg : w.orb.Good)
    (he : (run wr w ops₁).orb.Equiv (run wr w ops₂).orb) :
    exportGenesis (run wr w ops₁).orb = exportGenesis (run wr w ops₂).orb :=
  C17.c17_export_canonical wr wr w w ops₁ ops₂ hg hg he

/-- The same input always gives the same output: the model is a function (stated for completeness). -/
theorem c19_function (wr : Wiring) (φ : Faults) (w : World) (p₁ p₂ : Packet) (h : p₁ = p₂) : ibcRecv wr φ w p₁ = ibcRecv wr φ w p₂ := by
  rw [h]

/-! ### non-vacuity -/
example : fieldsAmbiguous [("recipient", .str "a" true), ("basis_points", .obj []), ("amount", .obj [])] = true := by decide
example : fieldsAmbiguous [("recipient", .str "a" true), ("basis_points", .obj [])] = false := by decide

end Orbiter.C19
