#!/usr/bin/env python3
"""Copy finished sub-agent outputs (<outdir>/<Cxx>/<variant>/) into /verif/seeded/<Cxx><variant>/ ."""
import os, shutil, sys
out = sys.argv[1]
done = []
for pid in sorted(os.listdir(out)):
    d = os.path.join(out, pid)
    if not os.path.isdir(d):
        continue
    for v in sorted(os.listdir(d)):
        src = os.path.join(d, v)
        need = ["patch.diff", "demo_test.go", "DEMO_PATH.txt", "meta.json"]
        if not all(os.path.exists(os.path.join(src, n)) for n in need):
            continue
        dst = os.path.join("/verif/seeded", pid + v)
        if os.path.exists(dst):
            continue
        os.makedirs(dst)
        for n in need:
            shutil.copy(os.path.join(src, n), os.path.join(dst, n))
        done.append(pid + v)
print(" ".join(done))
