"""Writes /verif/MANIFEST.json from the property table and the current Lean sources (kept in one place so it stays valid)."""
import json
import os
import re
import sys

sys.path.insert(0, os.path.dirname(__file__))
VERIF = os.path.dirname(os.path.dirname(os.path.abspath(__file__)))

TEXT = {
    "C01": ("S3 receiver grid x routes x fee lists x deposits + random histories on the real simapp stack; oracle: success ack never with a larger orbiter balance, delivered denom left at 0", "§5 C01"),
    "C02": ("S3 histories with all tracked balances and supply; oracle re-derives conservation (escrow -A, fees + outgoing = A, dust sweep, no bystander, supply only by the CCTP burn)", "§5 C02"),
    "C03": ("S2 fault enumeration at every external boundary (k-th call, pairs in the thorough tier) over payload shapes + S3 natural failures; oracle: a fired fault never yields success, an error ack commits nothing", "§5 C03"),
    "C04": ("theorems c04_* over the model of fee.go for all amounts/bps/lists; S1 boundary grid + random lists with an independent re-computation of the rule", "§5 C04"),
    "C05": ("S2 recorded bridge requests (every field varied independently) compared with the request re-derived from the payload; every (protocol id, attribute type) pair and out-of-range ids refused; ReplaceDepositForBurn request recorded", "§5 C05"),
    "C06": ("S2 with the real fee controller and a scripted denomination-changing controller under ACTION_SWAP, all orders; oracle recomputes the running coin", "§5 C06"),
    "C07": ("S5: same packet on two branches of one state with and without the middleware, byte comparison of ack, events and every KV store; pass-through callbacks through a recording fake", "§5 C07"),
    "C08": ("S3 histories of the four pause messages interleaved with probes and queries; oracle: abstract pause sets folded from successful messages", "§5 C08"),
    "C09": ("S3 histories of PauseAction/UnpauseAction with probes with and without the action; same abstract-set oracle", "§5 C09"),
    "C10": ("S3: 8 RPCs x 11 non-authority signers x bodies + every Msg RPC enumerated from the service descriptors at run time with reflectively built bodies; oracle: error and unchanged export", "§5 C10"),
    "C11": ("S3 paired executions of the same transfers with and without prior deposits; oracle: same ack/request/statistics/third-party effects, dust swept, other denoms untouched", "§5 C11"),
    "C12": ("S2/S3 long mixed histories incl. denomination-changing actions; oracle: statistics = fold of the successful transfers, recomputed from recorded requests", "§5 C12"),
    "C13": ("S3: after random histories every listing walked to exhaustion by key and by offset, forward and reverse, limits 1..n, with and without count_total; compared with the export", "§5 C13"),
    "C14": ("S1 parser + S3 whole stack on every single-point structural mutation of every payload shape, extreme attribute values, raw bytes; oracle: recover() never fires on an orbiter frame", "§5 C14"),
    "C15": ("S1: acceptance soundness on mutated memos, MarshalJSON -> parse round trip of constructor-built payloads, 16 fresh decodes per memo", "§5 C15"),
    "C16": ("S1+S3: RecoverNativeDenom beside what ICS-20 credits for the same denomination over the denomination grid x channels x amount spellings", "§5 C16"),
    "C17": ("S3: histories with in-place export->validate->init->export, export initialised on a fresh chain, generated genesis documents around the validity boundary", "§5 C17"),
    "C18": ("S3 parameter histories with probes of the boundary passthrough lengths; oracle tracks the last value set", "§5 C18"),
    "C19": ("S4: generated histories replayed in fresh OS processes, byte comparison of ack bytes, events hash and export; plus model agreement", "§5 C19"),
    "C20": ("theorems c20_* for all protocol ids and all strings; S1 identifier grid + random strings with a regex oracle for canonicity", "§5 C20"),
}

NOTE = "trusted: Lean kernel; axioms propext/Classical.choice/Quot.sound only; facts generator and correspondence drivers; external-module contracts of DESIGN.md §3.6 and §7"


def theorem_count(pid):
    p = os.path.join(VERIF, "lean", "Orbiter", "Props", pid + ".lean")
    if not os.path.exists(p):
        return 0
    return len(re.findall(r"^theorem\s+(?:c\d\d|pin)_", open(p).read(), re.M))


def main():
    props = [json.loads(l) for l in open(os.path.join(VERIF, "properties.jsonl"))]
    checks = []
    ids = []
    for p in props:
        pid = p["id"]
        n = theorem_count(pid)
        ids.append(pid)
        text, ref = TEXT[pid]
        if pid == "C19":
            cat = "other"
            lvl = "partial by nature: Lean theorems on independence from the modelled iteration oracles + replays in fresh processes. " + text
            tech = "Lean 4 theorems (oracle independence) + process replays (differential, implementation against itself)"
        elif n > 0:
            cat = "proof"
            lvl = "%d Lean 4 theorems (Orbiter/Props/%s.lean) about the executable model, proved for all inputs/states/histories the property quantifies over, re-checked on every run against facts regenerated from /repo; the model is tied to the code by: %s" % (n, pid, text)
            tech = "Lean 4 theorems + differential correspondence model-vs-implementation + executable property oracle"
        else:
            cat = "other"
            lvl = "this round: decided by the correspondence between the executable Lean model and the implementation plus the property's executable oracle (the Lean property theorems for this id are not written yet): " + text
            tech = "differential correspondence against the Lean model + property oracle (theorems pending)"
        checks.append({
            "property_id": pid,
            "quick_cmd": "./check %s --tier quick" % pid,
            "thorough_cmd": "./check %s --tier thorough" % pid,
            "evidence_file": "/verif/evidence/%s.json" % pid,
            "replay_cmd_template": "./check replay {path}",
            "engine": "lean-model+go-harness",
            "level_claimed": {"category": cat, "text": lvl, "design_ref": ref},
            "level_note": NOTE,
            "technique": tech,
        })
    m = {
        "version": 1,
        "setup_cmd": "./check prepare",
        "hooks": {"guard": "verif", "enable": "none needed: the harness reaches everything through exported API of /repo (go build in /verif/harness with GOWORK=/verif/harness/go.work)",
                  "baseline_off_cmd": "cd /repo && GOPROXY=off go test -vet=off -count=1 ./...",
                  "source_commits": [], "add_only": True},
        "engines": [
            {"name": "lean-model", "path": "/verif/lean", "serves_properties": ids, "kind_free_text": "Lean 4 executable model of the orbiter module + property theorems (Orbiter/Props) + compiled line-protocol driver"},
            {"name": "go-harness", "path": "/verif/harness", "serves_properties": ids, "kind_free_text": "in-process drivers linked against /repo: pure kernel, real simapp stack, harness-wired stack with recording/fault decorators; facts generator"},
            {"name": "check", "path": "/verif/check", "serves_properties": ids, "kind_free_text": "python orchestrator: prepare, streams, projections, oracles, shrinking, known findings, evidence"},
        ],
        "checks": checks,
        "notes": "Family: machine-checked proof in Lean 4. Every check = Lean obligations for the property (re-built against facts regenerated from /repo) + axiom audit + correspondence streams model-vs-implementation + property oracle. Known findings: /verif/known_findings.json.",
        "not_applicable": [],
    }
    json.dump(m, open(os.path.join(VERIF, "MANIFEST.json"), "w"), indent=1)


if __name__ == "__main__":
    main()
