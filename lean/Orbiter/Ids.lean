/-
  Orbiter.Ids — types/core/id.go: protocol / action identifiers, counterparty identifiers,
  cross-chain identifiers and their textual form; the `CounterpartyID()` of the attribute types.
-/
import Orbiter.Prims
import Orbiter.Types
import Orbiter.Gen.Facts
namespace Orbiter

def PROTOCOL_IBC : Int := 1
def PROTOCOL_CCTP : Int := 2
def PROTOCOL_HYPERLANE : Int := 3
def PROTOCOL_INTERNAL : Int := 4
def ACTION_FEE : Int := 1
def ACTION_SWAP : Int := 2

/-- `ProtocolID.Validate`: not the zero value and a declared enum number. -/
def protocolValid (p : Int) : Bool := p != 0 && (Gen.protocolIds.any (·.1 == p))

/-- `ActionID.Validate`. -/
def actionValid (a : Int) : Bool := a != 0 && (Gen.actionIds.any (·.1 == a))

/-- `NewProtocolIDFromString`: enum name → number, then `Validate`. -/
def protocolIdFromString (s : String) : Option Int :=
  match Gen.protocolIds.find? (·.2 == s) with
  | some (n, _) => if protocolValid n then some n else none
  | none => none

def actionIdFromString (s : String) : Option Int :=
  match Gen.actionIds.find? (·.2 == s) with
  | some (n, _) => if actionValid n then some n else none
  | none => none

def protocolName (p : Int) : String :=
  match Gen.protocolIds.find? (·.1 == p) with
  | some (_, s) => s
  | none => intToDec p

/-- `channeltypes.IsValidChannelID`: `^channel-[0-9]{1,20}$` and the number fits a uint64. -/
def isValidChannelID (s : String) : Bool :=
  let cs := s.toList
  let pre := "channel-".toList
  cs.take pre.length == pre &&
    (let ds := cs.drop pre.length
     allDigits ds && ds.length ≤ 20 && decVal ds < 2 ^ 64)

/-- Canonical decimal form of a 32-bit number: digits only, no leading zero (except `0`), < 2^32.
(`strconv.ParseUint(s, 10, 32)` and `strconv.FormatUint(v, 10) == s`.) -/
def isCanonicalU32 (s : String) : Bool :=
  let cs := s.toList
  allDigits cs && (cs.length == 1 || cs.head? != some '0') && decVal cs < 2 ^ 32

/-- `strconv.Atoi` acceptance (the check before the C20 repair): optional sign, digits, int64 range. -/
def atoiAccepts (s : String) : Bool :=
  match s.toList with
  | '-' :: ds => allDigits ds && decVal ds ≤ 2 ^ 63
  | '+' :: ds => allDigits ds && decVal ds < 2 ^ 63
  | ds => allDigits ds && decVal ds < 2 ^ 63

def hasNul (s : String) : Bool := s.toList.any (· == Char.ofNat 0)

/-- every character is a single byte (the non-terminal string encoding of collections keys keeps only the first byte of a character) -/
def allAscii (s : String) : Bool := s.toList.all (fun c => c.toNat < 128)

/-- `ValidateCounterpartyID`. -/
def validateCounterpartyID (id : String) (p : Int) : Bool :=
  id != "" && !hasNul id && allAscii id && byteLen id ≤ Gen.maxCounterpartyIDLength &&
    (if p == PROTOCOL_IBC then isValidChannelID id
     else if p == PROTOCOL_CCTP || p == PROTOCOL_HYPERLANE then isCanonicalU32 id
     else if p == PROTOCOL_INTERNAL then true
     else false)

/-- `CrossChainID.Validate`. -/
def crossChainValid (p : Int) (cp : String) : Bool := protocolValid p && validateCounterpartyID cp p

/-- `CrossChainID.ID()`: `fmt.Sprintf("%d%s%s", uint32(p), ":", cp)`. -/
def ccidString (p : Int) (cp : String) : String :=
  natToDec ((p % (2 ^ 32 : Int)).toNat) ++ Gen.idSeparator ++ cp

/-- `strconv.ParseInt(s, 10, 32)`. -/
def parseInt32 (s : String) : Option Int :=
  match parseInt s with
  | some i => if -(2 ^ 31 : Int) ≤ i && i ≤ 2 ^ 31 - 1 then some i else none
  | none => none

/-- Split at the first occurrence of the (single-character) separator. -/
def splitFirst (sep : Char) : List Char → Option (List Char × List Char)
  | [] => none
  | c :: cs => if c == sep then some ([], cs) else
      match splitFirst sep cs with
      | some (a, b) => some (c :: a, b)
      | none => none

/-- `ParseCrossChainID`. -/
def parseCrossChainID (s : String) : Option (Int × String) :=
  match Gen.idSeparator.toList with
  | [sep] =>
    (match splitFirst sep s.toList with
     | none => none
     | some (a, b) =>
       match parseInt32 (String.ofList a) with
       | none => none
       | some p => if crossChainValid p (String.ofList b) then some (p, String.ofList b) else none)
  | _ => none

/-- `CounterpartyID()` of forwarding attributes. -/
def Attrs.counterpartyID : Attrs → String
  | .cctp domain _ _ => natToDec domain
  | .hyp _ domain .. => natToDec domain
  | .internal _ => Gen.internalCounterpartyID
  | .fee _ => ""

end Orbiter
