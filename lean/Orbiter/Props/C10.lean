/-
  C10 — Only the authority can change module state through messages.
  For every modelled RPC, every signer and every body: a signer other than the configured authority gets
  `unauthorized` and the state is untouched; the RPC surface of the model is the one the service
  descriptors of the built code declare.
-/
import Orbiter.Step
namespace Orbiter.C10
open Orbiter

/-- Coverage obligation: the Msg RPCs registered by the module (enumerated from the proto service
descriptors of the built code, with their `cosmos.msg.v1.signer` field) are exactly the ones the model
has a constructor for. A new or renamed RPC, or a different signer field, breaks this. -/
theorem pin_rpc_surface : Gen.msgRpcs = modelMsgRpcs := by decide

/-- The authority check is the first statement of every handler: whatever the body, a foreign signer is
refused with the same error. -/
theorem c10_unauthorised (cfg : Cfg) (φ : Faults) (o : OrbState) (m : Msg) (h : m.signer ≠ cfg.authority) :
    msgStep cfg φ o m = .err "unauthorized" := by
  unfold msgStep
  simp [h]

/-- …and nothing changes: not the module state, not the ledger, not the environment. -/
theorem c10_state_unchanged (wr : Wiring) (φ : Faults) (w : World) (m : Msg) (h : m.signer ≠ wr.cfg.authority) :
    (step wr φ w (.msg m)).2 = w := by
  simp [step, c10_unauthorised wr.cfg φ w.orb m h]

/-- A failed message never changes the state, whoever signed it (message-level rollback). -/
theorem c10_failure_changes_nothing (wr : Wiring) (φ : Faults) (w : World) (m : Msg)
    (h : ∀ r, msgStep wr.cfg φ w.orb m ≠ .ok r) : (step wr φ w (.msg m)).2 = w := by
  cases hm : msgStep wr.cfg φ w.orb m with
  | ok r => exact absurd hm (h r)
  | err _ => simp [step, hm]
  | panic _ => simp [step, hm]

/-- The check does not depend on the rest of the message: two messages with the same foreign signer get
the same answer. -/
theorem c10_body_independent (cfg : Cfg) (φ : Faults) (o : OrbState) (m m' : Msg)
    (h : m.signer ≠ cfg.authority) (h' : m'.signer = m.signer) :
    msgStep cfg φ o m = msgStep cfg φ o m' := by
  rw [c10_unauthorised cfg φ o m h, c10_unauthorised cfg φ o m' (by rw [h']; exact h)]

/-! ### signed by the authority with valid content it succeeds -/

theorem c10_authority_update_params (cfg : Cfg) (φ : Faults) (o : OrbState) (n : Nat) :
    msgStep cfg φ o (.updateParams cfg.authority n) = .ok ({ o with params := some n }, [], []) := by
  simp [msgStep, Msg.signer]

theorem c10_authority_pause_protocol (cfg : Cfg) (o : OrbState) (name : String) (p : Int)
    (hn : protocolIdFromString name = some p) (hv : protocolValid p = true) (hnp : o.pausedProtocols.contains p = false) :
    ∃ o', msgStep cfg noFaults o (.pauseProtocol cfg.authority name) = .ok (o', ["EventProtocolPaused"], []) ∧
      o'.pausedProtocols.contains p = true := by
  refine ⟨{ o with pausedProtocols := insertBy intLt p o.pausedProtocols }, ?_, ?_⟩
  · have hnp' : p ∉ o.pausedProtocols := by simpa using hnp
    simp [msgStep, Msg.signer, hn, forwarderPause, setPausedProtocol, hv, hnp', noFaults]
  · have : ∀ l : List Int, (insertBy intLt p l).contains p = true := by
      intro l
      induction l with
      | nil => simp [insertBy]
      | cons x xs ih =>
        simp only [insertBy]
        split <;> simp_all
    exact this _

theorem c10_authority_pause_action (cfg : Cfg) (o : OrbState) (name : String) (a : Int)
    (hn : actionIdFromString name = some a) (hv : actionValid a = true) (hnp : o.pausedActions.contains a = false) :
    ∃ o', msgStep cfg noFaults o (.pauseAction cfg.authority name) = .ok (o', ["EventPaused"], []) := by
  refine ⟨{ o with pausedActions := insertBy intLt a o.pausedActions }, ?_⟩
  have hnp' : a ∉ o.pausedActions := by simpa using hnp
  simp [msgStep, Msg.signer, hn, setPausedAction, hv, hnp', noFaults]

/-! ### non-vacuity -/

example : (Msg.pauseProtocol "mallory" "PROTOCOL_CCTP").signer ≠ Gen.authority := by decide
example : protocolIdFromString "PROTOCOL_CCTP" = some 2 ∧ protocolValid 2 = true := by decide

end Orbiter.C10
